// C07 harness: executes the real kernel/solver code on one case per line (see FeatModel/Driver/C07.lean)
//   ctl   : the stopping-criterion state machine of IterativeSolver (iterative.hpp) at double, fed with
//           arbitrary (dyadic / non-finite) defect sequences through a test subclass
//   solve : a session of apply()/correct() calls on ONE real solver object (PCG, Richardson, PCR, PMR, BiCGStab) at the
//           exact rational scalar Q, with NoneFilter / UnitFilter and without / with a (mock, arbitrary linear,
//           possibly failing) preconditioner
//   solved: PCG / PCR / PCGNR / BiCGStab / FGMRES(4) sessions at double (floating-point conformance of the residual clause)
#include <exact_q.hpp>
#include <forkcase.hpp>
#include <kernel/lafem/dense_vector.hpp>
#include <kernel/lafem/sparse_matrix_csr.hpp>
#include <kernel/lafem/none_filter.hpp>
#include <kernel/lafem/unit_filter.hpp>
#include <kernel/solver/iterative.hpp>
#include <kernel/solver/pcg.hpp>
#include <kernel/solver/richardson.hpp>
#include <kernel/solver/pcr.hpp>
#include <kernel/solver/pmr.hpp>
#include <kernel/solver/pcgnr.hpp>
#include <kernel/solver/jacobi_precond.hpp>
#include <kernel/solver/sor_precond.hpp>
#include <kernel/solver/ssor_precond.hpp>
#include <kernel/solver/chebyshev.hpp>
#include <kernel/solver/fgmres.hpp>
#include <kernel/solver/gmres.hpp>
#include <kernel/solver/rgcr.hpp>
#include <kernel/solver/idrs.hpp>
#include <kernel/solver/bicgstabl.hpp>
#include <kernel/solver/bicgstab.hpp>
#include <cmath>
#include <memory>

using namespace FEAT;
using verif::Cur;

// ------------------------------------------------------------------------------------------------------------------
// helpers
// ------------------------------------------------------------------------------------------------------------------

static int status_code(Solver::Status s)
{
  switch(s)
  {
  case Solver::Status::undefined: return 0;
  case Solver::Status::progress: return 1;
  case Solver::Status::success: return 2;
  case Solver::Status::aborted: return 3;
  case Solver::Status::diverged: return 4;
  case Solver::Status::max_iter: return 5;
  case Solver::Status::stagnated: return 6;
  default: return 99;
  }
}

static double read_dbl(Cur& c, bool& finite)
{
  const std::string& s = c.str();
  finite = true;
  if(s == "nan") { finite = false; return std::nan(""); }
  if(s == "inf") { finite = false; return HUGE_VAL; }
  Q q = Q::parse(s);
  double d = q.v().get_d();
  if(!(Q(d) == q)) { std::cerr << "\n>>> FATAL ERROR: harness: value not exactly representable as double\n"; std::abort(); }
  return d;
}

static std::string show_dbl(double d)
{
  if(!std::isfinite(d)) return "nonfinite";
  return Q(d).str();
}

static Q read_q(Cur& c) { return Q::parse(c.str()); }

// ------------------------------------------------------------------------------------------------------------------
// ctl: test subclass of the real IterativeSolver
// ------------------------------------------------------------------------------------------------------------------

typedef LAFEM::DenseVector<double, Index> DVec;

class CtlProbe : public Solver::IterativeSolver<DVec>
{
public:
  typedef Solver::IterativeSolver<DVec> BaseClass;
  double next;
  CtlProbe() : BaseClass("CtlProbe"), next(0.0) {}
  virtual String name() const override { return "CtlProbe"; }
  virtual Solver::Status apply(DVec&, const DVec&) override { return Solver::Status::undefined; }
  virtual Solver::Status correct(DVec&, const DVec&) override { return Solver::Status::undefined; }
  virtual double _calc_def_norm(const DVec&, const DVec&) override { return next; }
  Solver::Status p_init(const DVec& v) { return this->_set_initial_defect(v, v); }
  Solver::Status p_new(const DVec& v) { return this->_set_new_defect(v, v); }
  Solver::Status p_upd(double d) { return this->_update_defect(d); }
  Index p_stag() const { return this->_num_stag_iter; }
  double p_prev() const { return this->_def_prev; }
};

static void op_ctl(Cur& c, std::ostream& o)
{
  // keep iteration plots (std::cout) away from the result stream
  std::ostringstream sink;
  std::streambuf* old = std::cout.rdbuf(sink.rdbuf());
  Index variant = c.idx();
  bool f;
  CtlProbe s;
  s.set_tol_rel(read_dbl(c, f));
  s.set_tol_abs(read_dbl(c, f));
  s.set_tol_abs_low(read_dbl(c, f));
  s.set_div_rel(read_dbl(c, f));
  s.set_div_abs(read_dbl(c, f));
  s.set_stag_rate(read_dbl(c, f));
  s.set_min_iter(c.idx());
  s.set_max_iter(c.idx());
  s.set_min_stag_iter(c.idx());
  s.skip_defect_calc(c.idx() != 0);
  Index pm = c.idx();
  s.set_plot_mode(pm == 1 ? Solver::PlotMode::iter : pm == 2 ? Solver::PlotMode::summary : pm == 3 ? Solver::PlotMode::all : Solver::PlotMode::none);
  s.set_plot_interval(c.idx());
  Index k = c.idx();
  DVec dummy(1, 0.0);
  std::vector<int> sts;
  Solver::Status st = Solver::Status::undefined;
  for(Index i = 0; i < k; ++i)
  {
    double d = read_dbl(c, f);
    if(i == 0) { s.next = d; st = s.p_init(dummy); }
    else if(st != Solver::Status::progress) break;
    else if(variant == 0) { s.next = d; st = s.p_new(dummy); }
    else st = s.p_upd(d);
    sts.push_back(status_code(st));
  }
  std::cout.rdbuf(old);
  o << "S " << sts.size();
  for(int x : sts) o << " " << x;
  o << " " << s.get_num_iter() << " " << s.p_stag() << " " << show_dbl(s.get_def_initial()) << " "
    << show_dbl(s.get_def_final()) << " " << show_dbl(s.p_prev()) << " " << status_code(s.get_status());
}

// ------------------------------------------------------------------------------------------------------------------
// solve: sessions on one real solver object at Q
// ------------------------------------------------------------------------------------------------------------------

typedef LAFEM::DenseVector<Q, Index> QVec;
typedef LAFEM::DenseVector<Index, Index> IVec;
typedef LAFEM::SparseMatrixCSR<Q, Index> QMat;
typedef LAFEM::NoneFilter<Q, Index> QNone;
typedef LAFEM::UnitFilter<Q, Index> QUnit;

// mock preconditioner: an arbitrary dense linear map; the fail_at-th call (1-based, 0 = never) reports failure,
// and so does every call whose input vector starts with the sentinel value 7777
class MockPrecond : public Solver::SolverBase<QVec>
{
public:
  Index n; std::vector<Q> m; Index fail_at; Index calls;
  MockPrecond(Index n_, const std::vector<Q>& m_, Index f) : n(n_), m(m_), fail_at(f), calls(0) {}
  virtual String name() const override { return "MockPrecond"; }
  virtual Solver::Status apply(QVec& cor, const QVec& def) override
  {
    ++calls;
    if(fail_at != 0 && calls == fail_at) return Solver::Status::aborted;
    // data-dependent failure: the preconditioner rejects a defect whose first entry is the sentinel 7777
    if(n > 0 && def(0) == Q(7777)) return Solver::Status::aborted;
    for(Index i = 0; i < n; ++i)
    {
      Q s(0);
      for(Index j = 0; j < n; ++j) s += m[i * n + j] * def(j);
      cor(i, s);
    }
    return Solver::Status::success;
  }
};

// logs every defect norm the real solver computes (the computation itself is the base class's)
template<typename Base_>
class Logged : public Base_
{
public:
  std::vector<Q> hist;
  using Base_::Base_;
  virtual Q _calc_def_norm(const QVec& d, const QVec& x) override
  {
    Q r = Base_::_calc_def_norm(d, x);
    hist.push_back(r);
    return r;
  }
  // solvers with overlapped reductions hand a precomputed norm to the control layer
  virtual Solver::Status _update_defect(const Q d) override
  {
    hist.push_back(d);
    return Base_::_update_defect(d);
  }
};

struct Cfg
{
  Q tol_rel, tol_abs, tol_abs_low, div_rel, div_abs, stag_rate;
  Index min_iter, max_iter, min_stag, skip;
};

template<typename Solver_>
static void run_session(Logged<Solver_>& s, MockPrecond* pre, const Cfg& g, Index n, Cur& c, std::ostream& o)
{
  s.set_tol_rel(g.tol_rel); s.set_tol_abs(g.tol_abs); s.set_tol_abs_low(g.tol_abs_low);
  s.set_div_rel(g.div_rel); s.set_div_abs(g.div_abs); s.set_stag_rate(g.stag_rate);
  s.set_min_iter(g.min_iter); s.set_max_iter(g.max_iter); s.set_min_stag_iter(g.min_stag);
  s.skip_defect_calc(g.skip != 0);
  s.init();
  Index ns = c.idx();
  for(Index k = 0; k < ns; ++k)
  {
    std::string mode = c.str();
    QVec x(n), b(n);
    std::vector<Q> b0(n);
    for(Index i = 0; i < n; ++i) x(i, read_q(c));
    for(Index i = 0; i < n; ++i) { b0[i] = read_q(c); b(i, b0[i]); }
    Index re = c.idx();
    if(re == 1) { s.done_numeric(); s.init_numeric(); }
    else if(re == 2) { s.done(); s.init(); }
    if(pre) pre->calls = 0;
    s.hist.clear();
    Solver::Status st = (mode == "a") ? s.apply(x, b) : s.correct(x, b);
    bool rhs_ok = true;
    for(Index i = 0; i < n; ++i) rhs_ok = rhs_ok && (b(i) == b0[i]);
    if(k > 0) o << " | ";
    o << "R " << status_code(st) << " " << s.get_num_iter() << " " << s.get_def_initial().str() << " "
      << s.get_def_final().str() << " " << n;
    for(Index i = 0; i < n; ++i) o << " " << x(i).str();
    o << " " << (rhs_ok ? 1 : 0) << " " << status_code(s.get_status()) << " H " << s.hist.size();
    for(const Q& h : s.hist) o << " " << h.str();
  }
  s.done();
}

template<typename Filter_>
static void solve_with_filter(const std::string& kind, const QMat& a, const Filter_& filter, Cur& c, std::ostream& o, Index n)
{
  // preconditioner
  std::shared_ptr<MockPrecond> pre;
  std::string pk = c.str();
  if(pk == "mat")
  {
    std::vector<Q> m(n * n);
    for(auto& x : m) x = read_q(c);
    Index fail_at = c.idx();
    pre = std::make_shared<MockPrecond>(n, m, fail_at);
  }
  // FEAT's own preconditioners (C08): "jac w" | "sor w" | "ssor w" with damping w
  std::shared_ptr<Solver::SolverBase<QVec>> fpre;
  if(pk == "jac") fpre = Solver::new_jacobi_precond(a, filter, read_q(c));
  else if(pk == "sor") fpre = Solver::new_sor_precond(PreferredBackend::generic, a, filter, read_q(c));
  else if(pk == "ssor") fpre = Solver::new_ssor_precond(PreferredBackend::generic, a, filter, read_q(c));
  std::shared_ptr<Solver::SolverBase<QVec>> anypre = fpre ? fpre : std::shared_ptr<Solver::SolverBase<QVec>>(pre);
  Cfg g;
  g.tol_rel = read_q(c); g.tol_abs = read_q(c); g.tol_abs_low = read_q(c);
  g.div_rel = read_q(c); g.div_abs = read_q(c); g.stag_rate = read_q(c);
  g.min_iter = c.idx(); g.max_iter = c.idx(); g.min_stag = c.idx(); g.skip = c.idx();
  Q omega = read_q(c);
  if(kind == "pcg")
  {
    Logged<Solver::PCG<QMat, Filter_>> s(a, filter, anypre);
    run_session(s, pre.get(), g, n, c, o);
  }
  else if(kind == "rich")
  {
    Logged<Solver::Richardson<QMat, Filter_>> s(a, filter, omega, anypre);
    run_session(s, pre.get(), g, n, c, o);
  }
  else if(kind == "pcr")
  {
    Logged<Solver::PCR<QMat, Filter_>> s(a, filter, anypre);
    run_session(s, pre.get(), g, n, c, o);
  }
  else if(kind == "pmr")
  {
    Logged<Solver::PMR<QMat, Filter_>> s(a, filter, anypre);
    run_session(s, pre.get(), g, n, c, o);
  }
  else if(kind == "pcgnr")
  {
    // one preconditioner object as left and right preconditioner: its call counter covers both
    Logged<Solver::PCGNR<QMat, Filter_>> s(a, filter, anypre, anypre);
    run_session(s, pre.get(), g, n, c, o);
  }
  else if(kind == "cheb")
  {
    // fraction_min_ev = 1/2, fraction_max_ev = the omega token
    Logged<Solver::Chebyshev<QMat, Filter_>> s(a, filter, Q(1) / Q(2), omega);
    run_session(s, pre.get(), g, n, c, o);
  }
  else if(kind == "rgcr")
  {
    Logged<Solver::RGCR<QMat, Filter_>> s(a, filter, anypre);
    run_session(s, pre.get(), g, n, c, o);
  }
  else if(kind == "bicgstab")
  {
    Logged<Solver::BiCGStab<QMat, Filter_>> s(a, filter, anypre);
    run_session(s, pre.get(), g, n, c, o);
  }
  else
    o << "BAD-OP";
}

static void op_solve(Cur& c, std::ostream& o)
{
  std::ostringstream sink;
  std::streambuf* old = std::cout.rdbuf(sink.rdbuf());
  std::string kind = c.str();
  Index n = c.idx();
  // dense input -> CSR (explicit zeros are not stored)
  std::vector<Q> vals; std::vector<Index> cols, ptr(1, 0);
  for(Index i = 0; i < n; ++i)
  {
    for(Index j = 0; j < n; ++j)
    {
      Q v = read_q(c);
      if(v != Q(0)) { vals.push_back(v); cols.push_back(j); }
    }
    ptr.push_back(Index(vals.size()));
  }
  if(vals.empty()) { std::cerr << "\n>>> FATAL ERROR: harness: zero matrix\n"; std::abort(); }
  QVec v_val(Index(vals.size())); IVec v_col(Index(cols.size())); IVec v_ptr(Index(ptr.size()));
  for(Index i = 0; i < vals.size(); ++i) { v_val(i, vals[i]); v_col(i, cols[i]); }
  for(Index i = 0; i < ptr.size(); ++i) v_ptr(i, ptr[i]);
  QMat a(n, n, v_col, v_val, v_ptr);
  std::string fk = c.str();
  if(fk == "none")
  {
    QNone filter;
    solve_with_filter(kind, a, filter, c, o, n);
  }
  else
  {
    QUnit filter(n);
    auto idx = c.idxlist();
    for(auto i : idx) filter.add(Index(i), Q(0));
    solve_with_filter(kind, a, filter, c, o, n);
  }
  std::cout.rdbuf(old);
}

// ------------------------------------------------------------------------------------------------------------------
// solved: the same sessions at double (T3 conformance: the oracle recomputes the true residual of the returned doubles
// in exact arithmetic); matrix, right-hand sides and start vectors must be exactly representable
// ------------------------------------------------------------------------------------------------------------------

typedef LAFEM::SparseMatrixCSR<double, Index> DMat;
typedef LAFEM::NoneFilter<double, Index> DNone;
typedef LAFEM::UnitFilter<double, Index> DUnit;

static double read_exact(Cur& c)
{
  Q q = Q::parse(c.str());
  double d = q.v().get_d();
  if(!(Q(d) == q)) { std::cerr << "\n>>> FATAL ERROR: harness: value not exactly representable as double\n"; std::abort(); }
  return d;
}
static double read_near(Cur& c) { return Q::parse(c.str()).v().get_d(); }

class MockPrecondD : public Solver::SolverBase<DVec>
{
public:
  Index n; std::vector<double> m;
  MockPrecondD(Index n_, const std::vector<double>& m_) : n(n_), m(m_) {}
  virtual String name() const override { return "MockPrecondD"; }
  virtual Solver::Status apply(DVec& cor, const DVec& def) override
  {
    for(Index i = 0; i < n; ++i)
    {
      double s = 0.0;
      for(Index j = 0; j < n; ++j) s += m[i * n + j] * def(j);
      cor(i, s);
    }
    return Solver::Status::success;
  }
};

template<typename Solver_>
static void run_session_d(Solver_& s, Index n, Cur& c, std::ostream& o)
{
  s.set_tol_rel(read_near(c)); s.set_tol_abs(read_near(c)); s.set_tol_abs_low(read_near(c));
  s.set_div_rel(read_near(c)); s.set_div_abs(read_near(c)); s.set_stag_rate(read_near(c));
  s.set_min_iter(c.idx()); s.set_max_iter(c.idx()); s.set_min_stag_iter(c.idx());
  s.skip_defect_calc(c.idx() != 0);
  (void)read_near(c); // omega (unused)
  s.init();
  Index ns = c.idx();
  for(Index k = 0; k < ns; ++k)
  {
    std::string mode = c.str();
    DVec x(n), b(n);
    std::vector<double> b0(n);
    for(Index i = 0; i < n; ++i) x(i, read_exact(c));
    for(Index i = 0; i < n; ++i) { b0[i] = read_exact(c); b(i, b0[i]); }
    Index re = c.idx();
    if(re == 1) { s.done_numeric(); s.init_numeric(); }
    else if(re == 2) { s.done(); s.init(); }
    Solver::Status st = (mode == "a") ? s.apply(x, b) : s.correct(x, b);
    bool rhs_ok = true;
    for(Index i = 0; i < n; ++i) rhs_ok = rhs_ok && (b(i) == b0[i]);
    if(k > 0) o << " | ";
    o << "R " << status_code(st) << " " << s.get_num_iter() << " " << show_dbl(s.get_def_initial()) << " "
      << show_dbl(s.get_def_final()) << " " << n;
    for(Index i = 0; i < n; ++i) o << " " << show_dbl(x(i));
    o << " " << (rhs_ok ? 1 : 0) << " " << status_code(s.get_status());
  }
  s.done();
}

template<typename Filter_>
static void solved_with_filter(const std::string& kind, const DMat& a, const Filter_& filter, Cur& c, std::ostream& o, Index n)
{
  std::shared_ptr<MockPrecondD> pre;
  std::string pk = c.str();
  if(pk == "mat")
  {
    std::vector<double> m(n * n);
    for(auto& x : m) x = read_near(c);
    (void)c.idx();
    pre = std::make_shared<MockPrecondD>(n, m);
  }
  if(kind == "pcg") { Solver::PCG<DMat, Filter_> s(a, filter, pre); run_session_d(s, n, c, o); }
  else if(kind == "bicgstab") { Solver::BiCGStab<DMat, Filter_> s(a, filter, pre); run_session_d(s, n, c, o); }
  else if(kind == "pcr") { Solver::PCR<DMat, Filter_> s(a, filter, pre); run_session_d(s, n, c, o); }
  else if(kind == "pcgnr") { Solver::PCGNR<DMat, Filter_> s(a, filter, pre, pre); run_session_d(s, n, c, o); }
  else if(kind == "fgmres") { Solver::FGMRES<DMat, Filter_> s(a, filter, Index(4), 0.0, pre); run_session_d(s, n, c, o); }
  else o << "BAD-OP";
}

static void op_solved(Cur& c, std::ostream& o)
{
  std::ostringstream sink;
  std::streambuf* old = std::cout.rdbuf(sink.rdbuf());
  std::string kind = c.str();
  Index n = c.idx();
  std::vector<double> vals; std::vector<Index> cols, ptr(1, 0);
  for(Index i = 0; i < n; ++i)
  {
    for(Index j = 0; j < n; ++j)
    {
      double v = read_exact(c);
      if(v != 0.0) { vals.push_back(v); cols.push_back(j); }
    }
    ptr.push_back(Index(vals.size()));
  }
  DVec v_val(Index(vals.size())); IVec v_col(Index(cols.size())); IVec v_ptr(Index(ptr.size()));
  for(Index i = 0; i < vals.size(); ++i) { v_val(i, vals[i]); v_col(i, cols[i]); }
  for(Index i = 0; i < ptr.size(); ++i) v_ptr(i, ptr[i]);
  DMat a(n, n, v_col, v_val, v_ptr);
  std::string fk = c.str();
  if(fk == "none") { DNone filter; solved_with_filter(kind, a, filter, c, o, n); }
  else
  {
    DUnit filter(n);
    auto idx = c.idxlist();
    for(auto i : idx) filter.add(Index(i), 0.0);
    solved_with_filter(kind, a, filter, c, o, n);
  }
  std::cout.rdbuf(old);
}

// ------------------------------------------------------------------------------------------------------------------
// sessiond: life-cycle sessions at double on ONE object of ANY iterative solver class that instantiates on
// DenseVector/SparseMatrixCSR, each solve repeated on a BRAND-NEW object (differential oracle inside FEAT).
//   steps: S init_symbolic | N init_numeric | E done_numeric | D done_symbolic | R done()+init() |
//          M k (copy the values of matrix k into the system matrix; only between E and N) | a x0 b | c x0 b
// ------------------------------------------------------------------------------------------------------------------

typedef Solver::IterativeSolver<DVec> DIter;

template<typename Filter_>
static std::shared_ptr<DIter> make_dsolver(const std::string& kind, const DMat& a, const Filter_& f, double omega,
  std::shared_ptr<Solver::SolverBase<DVec>> pre)
{
  if(kind == "pcg") return std::make_shared<Solver::PCG<DMat, Filter_>>(a, f, pre);
  if(kind == "pcr") return std::make_shared<Solver::PCR<DMat, Filter_>>(a, f, pre);
  if(kind == "pmr") return std::make_shared<Solver::PMR<DMat, Filter_>>(a, f, pre);
  if(kind == "pcgnr") return std::make_shared<Solver::PCGNR<DMat, Filter_>>(a, f, pre, pre);
  if(kind == "rich") return std::make_shared<Solver::Richardson<DMat, Filter_>>(a, f, omega, pre);
  if(kind == "bicgstab") return std::make_shared<Solver::BiCGStab<DMat, Filter_>>(a, f, pre);
  if(kind == "bicgstabl") return std::make_shared<Solver::BiCGStabL<DMat, Filter_>>(a, f, 2, pre);
  if(kind == "fgmres") return std::make_shared<Solver::FGMRES<DMat, Filter_>>(a, f, Index(3), 0.0, pre);
  if(kind == "gmres") return std::make_shared<Solver::GMRES<DMat, Filter_>>(a, f, Index(3), 0.0, pre);
  if(kind == "rgcr") return std::make_shared<Solver::RGCR<DMat, Filter_>>(a, f, pre);
  if(kind == "idrs")
  {
    // the default shadow space is seeded with time(nullptr); the deterministic variant (seed = rank) is used here
    auto s = std::make_shared<Solver::IDRS<DMat, Filter_>>(a, f, Index(2), pre);
    s->reset_shadow_space(false);
    return s;
  }
  if(kind == "cheb") return std::make_shared<Solver::Chebyshev<DMat, Filter_>>(a, f, 0.5, omega);
  std::cerr << "\n>>> FATAL ERROR: harness: unknown solver kind\n"; std::abort();
}

struct DCfg { double v[6]; Index mi, ma, ms, skip; };

static void apply_dcfg(DIter& s, const DCfg& g)
{
  s.set_tol_rel(g.v[0]); s.set_tol_abs(g.v[1]); s.set_tol_abs_low(g.v[2]);
  s.set_div_rel(g.v[3]); s.set_div_abs(g.v[4]); s.set_stag_rate(g.v[5]);
  s.set_min_iter(g.mi); s.set_max_iter(g.ma); s.set_min_stag_iter(g.ms); s.skip_defect_calc(g.skip != 0);
}

static void show_dresult(std::ostream& o, const char* tag, Solver::Status st, const DIter& s, const DVec& x, Index n)
{
  o << tag << " " << status_code(st) << " " << s.get_num_iter() << " " << show_dbl(s.get_def_initial()) << " "
    << show_dbl(s.get_def_final()) << " " << n;
  for(Index i = 0; i < n; ++i) o << " " << show_dbl(x(i));
}

template<typename Filter_>
static void sessiond_with_filter(const std::string& kind, DMat& a, const std::vector<std::vector<double>>& mats,
  const Filter_& filter, Cur& c, std::ostream& o, Index n)
{
  std::string pk = c.str();
  double pw = (pk == "jac") ? read_near(c) : 0.0;
  auto make_pre = [&]() -> std::shared_ptr<Solver::SolverBase<DVec>> {
    if(pk == "jac") return Solver::new_jacobi_precond(a, filter, pw);
    return nullptr; };
  DCfg g;
  for(int i = 0; i < 6; ++i) g.v[i] = read_near(c);
  g.mi = c.idx(); g.ma = c.idx(); g.ms = c.idx(); g.skip = c.idx();
  double omega = read_near(c);
  std::shared_ptr<DIter> s = make_dsolver(kind, a, filter, omega, make_pre());
  apply_dcfg(*s, g);
  Index nsteps = c.idx();
  bool first = true;
  for(Index k = 0; k < nsteps; ++k)
  {
    std::string st = c.str();
    if(st == "S") s->init_symbolic();
    else if(st == "N") s->init_numeric();
    else if(st == "E") s->done_numeric();
    else if(st == "D") s->done_symbolic();
    else if(st == "R") { s->done(); s->init(); }
    else if(st == "M")
    {
      const std::vector<double>& m = mats.at(c.idx());
      double* v = a.val();
      for(Index i = 0; i < n * n; ++i) v[i] = m[i];
    }
    else
    {
      DVec x(n), b(n), xf(n);
      std::vector<double> b0(n);
      for(Index i = 0; i < n; ++i) { double t = read_exact(c); x(i, t); xf(i, t); }
      for(Index i = 0; i < n; ++i) { b0[i] = read_exact(c); b(i, b0[i]); }
      Solver::Status r = (st == "a") ? s->apply(x, b) : s->correct(x, b);
      bool rhs_ok = true;
      for(Index i = 0; i < n; ++i) rhs_ok = rhs_ok && (b(i) == b0[i]);
      // the same system on a brand-new object
      std::shared_ptr<DIter> f = make_dsolver(kind, a, filter, omega, make_pre());
      apply_dcfg(*f, g);
      f->init();
      Solver::Status rf = (st == "a") ? f->apply(xf, b) : f->correct(xf, b);
      if(!first) o << " | ";
      first = false;
      show_dresult(o, "R", r, *s, x, n);
      o << " " << (rhs_ok ? 1 : 0) << " " << status_code(s->get_status()) << " ";
      show_dresult(o, "F", rf, *f, xf, n);
      f->done();
    }
  }
}

static void op_sessiond(Cur& c, std::ostream& o)
{
  std::ostringstream sink;
  std::streambuf* old = std::cout.rdbuf(sink.rdbuf());
  std::string kind = c.str();
  Index n = c.idx();
  Index nm = c.idx();
  std::vector<std::vector<double>> mats(nm, std::vector<double>(n * n));
  for(auto& m : mats) for(auto& v : m) v = read_exact(c);
  // full structure (zeros stored) so that the values can be exchanged in place
  DVec v_val(n * n); IVec v_col(n * n); IVec v_ptr(n + 1);
  for(Index i = 0; i < n; ++i)
  {
    v_ptr(i, i * n);
    for(Index j = 0; j < n; ++j) { v_val(i * n + j, mats[0][i * n + j]); v_col(i * n + j, j); }
  }
  v_ptr(n, n * n);
  DMat a(n, n, v_col, v_val, v_ptr);
  std::string fk = c.str();
  if(fk == "none") { DNone filter; sessiond_with_filter(kind, a, mats, filter, c, o, n); }
  else
  {
    DUnit filter(n);
    auto idx = c.idxlist();
    for(auto i : idx) filter.add(Index(i), 0.0);
    sessiond_with_filter(kind, a, mats, filter, c, o, n);
  }
  std::cout.rdbuf(old);
}

static void handle(const verif::Tokens& t, std::ostream& o)
{
  Cur c(t);
  std::string op = c.str();
  if(op == "ctl") op_ctl(c, o);
  else if(op == "solve") op_solve(c, o);
  else if(op == "solved") op_solved(c, o);
  else if(op == "sessiond") op_sessiond(c, o);
  else o << "BAD-OP";
}

int main(int argc, char** argv)
{
  return verif::run_cases(argc, argv, handle);
}
