// C13 harness, part (a), composite vector kinds: real LAFEM::TupleMirror / PowerMirror over real TupleVector /
// PowerVector / DenseVector(Blocked) at Q, through the real Global::Gate (compile, from_1_to_0, frequencies) and
// the real Global::Muxer (set_parent, push_child, compile -> buffer size).  As in main.cpp only the MPI calls are
// emulated: the exchange of SynchVectorTicket and the MPI_Gather / MPI_Scatter of Muxer::join / split (buffers of
// _buffer_size entries per child, concatenated in child order).  Included by main.cpp.
#pragma once

typedef LAFEM::DenseVector<Q, Index> DV;
template<int bs_> using DVB = LAFEM::DenseVectorBlocked<Q, Index, bs_>;
typedef std::vector<Index> IdxList;

// one kind = one fixed C++ vector/mirror type; `slots` = number of independent VectorMirrors (finite element spaces)
struct KindT2
{
  typedef LAFEM::TupleVector<DV, DVB<2>> VT;
  typedef LAFEM::TupleMirror<MirrorT, MirrorT> MT;
  static constexpr std::size_t slots = 2, leaves = 2;
  static MT mirror(const IdxList& n, const std::vector<IdxList>& ix)
  { return MT(make_mirror(n[0], ix[0]), make_mirror(n[1], ix[1])); }
  static VT vec(const IdxList& n, const std::vector<std::vector<Q>>& l)
  { return VT(make_vec<DV>(n[0], l[0]), make_vec<DVB<2>>(n[1], l[1])); }
  static void show(std::ostream& o, const VT& v) { show_vec(o, v.at<0>()); show_vec(o, v.at<1>()); }
};

struct KindT3
{
  typedef LAFEM::TupleVector<DVB<2>, DV, DVB<3>> VT;
  typedef LAFEM::TupleMirror<MirrorT, MirrorT, MirrorT> MT;
  static constexpr std::size_t slots = 3, leaves = 3;
  static MT mirror(const IdxList& n, const std::vector<IdxList>& ix)
  { return MT(make_mirror(n[0], ix[0]), make_mirror(n[1], ix[1]), make_mirror(n[2], ix[2])); }
  static VT vec(const IdxList& n, const std::vector<std::vector<Q>>& l)
  { return VT(make_vec<DVB<2>>(n[0], l[0]), make_vec<DV>(n[1], l[1]), make_vec<DVB<3>>(n[2], l[2])); }
  static void show(std::ostream& o, const VT& v) { show_vec(o, v.at<0>()); show_vec(o, v.at<1>()); show_vec(o, v.at<2>()); }
};

struct KindT4
{
  typedef LAFEM::TupleVector<DV, DVB<2>, DV, DV> VT;
  typedef LAFEM::TupleMirror<MirrorT, MirrorT, MirrorT, MirrorT> MT;
  static constexpr std::size_t slots = 4, leaves = 4;
  static MT mirror(const IdxList& n, const std::vector<IdxList>& ix)
  { return MT(make_mirror(n[0], ix[0]), make_mirror(n[1], ix[1]), make_mirror(n[2], ix[2]), make_mirror(n[3], ix[3])); }
  static VT vec(const IdxList& n, const std::vector<std::vector<Q>>& l)
  { return VT(make_vec<DV>(n[0], l[0]), make_vec<DVB<2>>(n[1], l[1]), make_vec<DV>(n[2], l[2]), make_vec<DV>(n[3], l[3])); }
  static void show(std::ostream& o, const VT& v)
  { show_vec(o, v.at<0>()); show_vec(o, v.at<1>()); show_vec(o, v.at<2>()); show_vec(o, v.at<3>()); }
};

struct KindP3
{
  typedef LAFEM::PowerVector<DV, 3> VT;
  typedef LAFEM::PowerMirror<MirrorT, 3> MT;
  static constexpr std::size_t slots = 1, leaves = 3;
  static MT mirror(const IdxList& n, const std::vector<IdxList>& ix) { return MT(make_mirror(n[0], ix[0])); }
  static VT vec(const IdxList& n, const std::vector<std::vector<Q>>& l)
  {
    VT v;
    v.at<0>() = make_vec<DV>(n[0], l[0]); v.at<1>() = make_vec<DV>(n[0], l[1]); v.at<2>() = make_vec<DV>(n[0], l[2]);
    return v;
  }
  static void show(std::ostream& o, const VT& v) { show_vec(o, v.at<0>()); show_vec(o, v.at<1>()); show_vec(o, v.at<2>()); }
};

struct KindNest
{
  typedef LAFEM::PowerVector<DVB<2>, 2> PV;
  typedef LAFEM::TupleVector<DV, DVB<3>> TV;
  typedef LAFEM::TupleVector<PV, TV, DV> VT;
  typedef LAFEM::TupleMirror<LAFEM::PowerMirror<MirrorT, 2>, LAFEM::TupleMirror<MirrorT, MirrorT>, MirrorT> MT;
  static constexpr std::size_t slots = 4, leaves = 5;
  static MT mirror(const IdxList& n, const std::vector<IdxList>& ix)
  {
    return MT(LAFEM::PowerMirror<MirrorT, 2>(make_mirror(n[0], ix[0])),
      LAFEM::TupleMirror<MirrorT, MirrorT>(make_mirror(n[1], ix[1]), make_mirror(n[2], ix[2])), make_mirror(n[3], ix[3]));
  }
  static VT vec(const IdxList& n, const std::vector<std::vector<Q>>& l)
  {
    PV pv;
    pv.at<0>() = make_vec<DVB<2>>(n[0], l[0]); pv.at<1>() = make_vec<DVB<2>>(n[0], l[1]);
    return VT(std::move(pv), TV(make_vec<DV>(n[1], l[2]), make_vec<DVB<3>>(n[2], l[3])), make_vec<DV>(n[3], l[4]));
  }
  static void show(std::ostream& o, const VT& v)
  {
    show_vec(o, v.at<0>().at<0>()); show_vec(o, v.at<0>().at<1>());
    show_vec(o, v.at<1>().at<0>()); show_vec(o, v.at<1>().at<1>()); show_vec(o, v.at<2>());
  }
};

// leaf block sizes and slots, only to build zero template vectors of the right lengths
template<typename K_> struct LeafInfo;
template<> struct LeafInfo<KindT2> { static std::vector<std::pair<Index, Index>> get() { return {{1,0},{2,1}}; } };
template<> struct LeafInfo<KindT3> { static std::vector<std::pair<Index, Index>> get() { return {{2,0},{1,1},{3,2}}; } };
template<> struct LeafInfo<KindT4> { static std::vector<std::pair<Index, Index>> get() { return {{1,0},{2,1},{1,2},{1,3}}; } };
template<> struct LeafInfo<KindP3> { static std::vector<std::pair<Index, Index>> get() { return {{1,0},{1,0},{1,0}}; } };
template<> struct LeafInfo<KindNest> { static std::vector<std::pair<Index, Index>> get() { return {{2,0},{2,0},{1,1},{3,2},{1,3}}; } };

template<typename K_>
static typename K_::VT zero_vec(const IdxList& n)
{
  std::vector<std::vector<Q>> l;
  for(auto bl : LeafInfo<K_>::get()) l.emplace_back(std::size_t(n[bl.second] * bl.first), Q(0));
  return K_::vec(n, l);
}

template<typename K_>
static typename K_::VT read_cvec(Cur& c, const IdxList& n)
{
  std::vector<std::vector<Q>> l;
  for(std::size_t k = 0; k < K_::leaves; ++k) l.push_back(read_rats(c));
  return K_::vec(n, l);
}

struct CPatchIn
{
  IdxList n;                                        // native size per slot
  std::vector<int> ranks;
  std::vector<std::vector<IdxList>> mirs;           // per neighbour, per slot
};

template<typename K_>
static std::vector<CPatchIn> read_cdecomp(Cur& c)
{
  Index np = c.idx(), ns = c.idx();
  if(ns != K_::slots) { std::cerr << "\n>>> FATAL ERROR: harness: slot count\n"; std::abort(); }
  for(Index s = 0; s < ns; ++s) c.idx();            // global DOF counts (oracle only)
  std::vector<CPatchIn> ps(np);
  for(Index r = 0; r < np; ++r)
    for(Index s = 0; s < ns; ++s) ps[r].n.push_back(Index(c.idxlist().size()));
  for(Index r = 0; r < np; ++r)
  {
    Index nn = c.idx();
    for(Index k = 0; k < nn; ++k)
    {
      ps[r].ranks.push_back(int(c.idx()));
      ps[r].mirs.emplace_back();
      for(Index s = 0; s < ns; ++s) ps[r].mirs.back().push_back(read_idx(c));
    }
  }
  return ps;
}

template<typename K_>
struct CGates
{
  typedef Global::Gate<typename K_::VT, typename K_::MT> GateT;
  Dist::Comm comm;
  std::vector<std::unique_ptr<GateT>> gates;
  explicit CGates(const std::vector<CPatchIn>& ps) : comm(Dist::Comm::world())
  {
    for(const auto& p : ps)
    {
      gates.emplace_back(new GateT(comm));
      GateT& g = *gates.back();
      for(std::size_t k = 0; k < p.ranks.size(); ++k)
      {
        g._ranks.push_back(p.ranks[k]);                       // as Gate::push (which asserts rank < comm.size())
        g._mirrors.push_back(K_::mirror(p.n, p.mirs[k]));
      }
      g.compile(zero_vec<K_>(p.n));
    }
  }
};

template<typename K_>
static void op_csync(Cur& c, std::ostream& o, bool type1)
{
  typedef typename K_::VT VT;
  auto ps = read_cdecomp<K_>(c);
  std::vector<IdxList> ords;
  for(std::size_t r = 0; r < ps.size(); ++r) ords.push_back(read_idx(c));
  std::vector<VT> vecs;
  for(std::size_t r = 0; r < ps.size(); ++r) vecs.push_back(read_cvec<K_>(c, ps[r].n));
  CGates<K_> G(ps);
  if(type1)
    for(std::size_t r = 0; r < ps.size(); ++r) G.gates[r]->from_1_to_0(vecs[r]);
  if(!emulated_sync0(G, vecs, ords)) { o << "DEADLOCK"; return; }
  o << "V";
  for(auto& v : vecs) K_::show(o, v);
}

template<typename K_>
static void op_cdot(Cur& c, std::ostream& o)
{
  typedef typename K_::VT VT;
  auto ps = read_cdecomp<K_>(c);
  std::vector<VT> xs, ys;
  for(std::size_t r = 0; r < ps.size(); ++r) xs.push_back(read_cvec<K_>(c, ps[r].n));
  for(std::size_t r = 0; r < ps.size(); ++r) ys.push_back(read_cvec<K_>(c, ps[r].n));
  CGates<K_> G(ps);
  Q sum(0);
  for(std::size_t r = 0; r < ps.size(); ++r)
  {
    const auto& g = *G.gates[r];
    Q loc = g.get_ranks().empty() ? xs[r].dot(ys[r]) : g.get_freqs().triple_dot(xs[r], ys[r]);
    sum = sum + loc;
  }
  o << "D " << sum.str();
}

// Gate::dot_async on composite vectors: the real member per patch (ticket waited for), allreduce emulated
template<typename K_>
static void op_casync(Cur& c, std::ostream& o)
{
  typedef typename K_::VT VT;
  auto ps = read_cdecomp<K_>(c);
  std::vector<VT> xs, ys;
  for(std::size_t r = 0; r < ps.size(); ++r) xs.push_back(read_cvec<K_>(c, ps[r].n));
  for(std::size_t r = 0; r < ps.size(); ++r) ys.push_back(read_cvec<K_>(c, ps[r].n));
  CGates<K_> G(ps);
  Q dxy(0), dxx(0), dxx2(0);
  for(std::size_t r = 0; r < ps.size(); ++r)
  {
    dxy = dxy + G.gates[r]->dot_async(xs[r], ys[r]).wait();
    dxx = dxx + G.gates[r]->dot_async(xs[r], xs[r], false).wait();
    dxx2 = dxx2 + G.gates[r]->dot_async(xs[r], xs[r]).wait();
  }
  Global::SynchScalarTicket<Q> t(dxx2, G.comm, Dist::op_sum, true);
  o << "A " << dxy.str() << " " << dxx.str() << " " << t.wait().str();
}

template<typename K_>
static void op_cmux(Cur& c, std::ostream& o, bool join)
{
  typedef typename K_::VT VT;
  typedef typename K_::MT MT;
  typedef Global::Muxer<VT, MT> MuxerT;
  Index nc = c.idx(), ns = c.idx();
  if(ns != K_::slots || nc == 0u) { std::cerr << "\n>>> FATAL ERROR: harness: slot/child count\n"; std::abort(); }
  IdxList pn;
  for(Index s = 0; s < ns; ++s) pn.push_back(c.idx());
  std::vector<IdxList> cn(nc);
  std::vector<std::vector<IdxList>> pm(nc), cm(nc);
  for(Index k = 0; k < nc; ++k)
    for(Index s = 0; s < ns; ++s)
    {
      cn[k].push_back(c.idx());
      pm[k].push_back(read_idx(c));
      cm[k].push_back(read_idx(c));
    }
  Dist::Comm comm(Dist::Comm::world());
  // one muxer object per child process; child 0 is the parent process and owns the child mirrors
  std::vector<std::unique_ptr<MuxerT>> mux;
  for(Index k = 0; k < nc; ++k)
  {
    mux.emplace_back(new MuxerT());
    mux[k]->set_parent(&comm, 0, K_::mirror(cn[k], pm[k]));
  }
  for(Index k = 0; k < nc; ++k) mux[0]->push_child(K_::mirror(pn, cm[k]));
  mux[0]->compile(zero_vec<K_>(cn[0]));                     // parent: largest child buffer, checked against its parent mirror
  const Index B = mux[0]->_buffer_size;
  for(Index k = 1; k < nc; ++k)
  {
    // Muxer::compile on a pure child: receives the broadcast buffer size and verifies it
    XASSERT(B >= mux[k]->get_parent_mirror().buffer_size(zero_vec<K_>(cn[k])));
    mux[k]->_buffer_size = B;
  }
  const auto& child_mirrors = mux[0]->get_child_mirrors();
  if(join)
  {
    std::vector<VT> srcs;
    for(Index k = 0; k < nc; ++k) srcs.push_back(read_cvec<K_>(c, cn[k]));
    VT trg = zero_vec<K_>(pn);
    BufferT child_buffers(B * nc, Q(0));
    for(Index k = 0; k < nc; ++k)
    {
      // join_send / first half of join: gather with the parent mirror; MPI_Gather of _buffer_size entries
      BufferT parent_buffer(B, Q(0));
      mux[k]->get_parent_mirror().gather(parent_buffer, srcs[k]);
      for(Index i = 0; i < B; ++i) child_buffers.elements()[k * B + i] = parent_buffer.elements()[i];
    }
    // second half of Muxer::join on the parent
    trg.format();
    for(Index i = 0; i < nc; ++i)
      child_mirrors.at(i).scatter_axpy(trg, child_buffers, Q(1), i * B);
    o << "V";
    K_::show(o, trg);
  }
  else
  {
    VT src = read_cvec<K_>(c, pn);
    // first half of Muxer::split on the parent
    BufferT child_buffers(B * nc, Q(0));
    for(Index i = 0; i < nc; ++i)
      child_mirrors.at(i).gather(child_buffers, src, i * B);
    o << "V";
    for(Index k = 0; k < nc; ++k)
    {
      // MPI_Scatter of _buffer_size entries; split_recv / second half of split
      BufferT parent_buffer(B, Q(0));
      for(Index i = 0; i < B; ++i) parent_buffer.elements()[i] = child_buffers.elements()[k * B + i];
      VT trg = zero_vec<K_>(cn[k]);
      trg.format();
      mux[k]->get_parent_mirror().scatter_axpy(trg, parent_buffer);
      K_::show(o, trg);
    }
  }
}

template<typename K_>
static bool composite_kind(const std::string& op, Cur& c, std::ostream& o)
{
  if(op == "csync0") op_csync<K_>(c, o, false);
  else if(op == "csync1") op_csync<K_>(c, o, true);
  else if(op == "cdot") op_cdot<K_>(c, o);
  else if(op == "casync") op_casync<K_>(c, o);
  else if(op == "cmuxjoin") op_cmux<K_>(c, o, true);
  else if(op == "cmuxsplit") op_cmux<K_>(c, o, false);
  else return false;
  return true;
}

static bool composite_dispatch(const std::string& op, Cur& c, std::ostream& o)
{
  std::string kind = c.str();
  if(kind == "t2") return composite_kind<KindT2>(op, c, o);
  if(kind == "t3") return composite_kind<KindT3>(op, c, o);
  if(kind == "t4") return composite_kind<KindT4>(op, c, o);
  if(kind == "p3") return composite_kind<KindP3>(op, c, o);
  if(kind == "nest") return composite_kind<KindNest>(op, c, o);
  return false;
}
