// C13 harness, part (b), boundary sizes: synthetic gates built directly from index lists (no mesh), so that single
// messages carry more than 2^15 / 2^16 entries (int counts in kernel/util/dist.cpp) and a rank can have >= 128 neighbours.
//   chain: rank r shares its last m DOFs with the first m DOFs of rank r+1 (same order on both sides)
//   star : DOF 0 of every rank is the same global DOF (every rank has N-1 neighbours, frequency 1/N)
// Data are small integers, so all sums are exact; the expected values are computed independently in checks/props/c13.py.
#include <kernel/runtime.hpp>
#include <kernel/util/dist.hpp>
#include <kernel/lafem/dense_vector.hpp>
#include <kernel/lafem/dense_vector_blocked.hpp>
#include <kernel/lafem/tuple_vector.hpp>
#include <kernel/lafem/tuple_mirror.hpp>
#include <kernel/lafem/vector_mirror.hpp>
#include <kernel/global/gate.hpp>
#include <cstdio>
#include <iostream>
#include <sstream>

namespace C13
{
  using namespace FEAT;

  int run_synthetic(const Dist::Comm& comm, const String& kind, Index n, Index m)
  {
    typedef LAFEM::DenseVector<double, Index> V;
    typedef LAFEM::DenseVectorBlocked<double, Index, 2> B;
    typedef LAFEM::VectorMirror<double, Index> M;
    typedef LAFEM::TupleVector<B, V, V> T;
    typedef LAFEM::TupleMirror<M, M, M> TM;
    const Index N = Index(comm.size()), r = Index(comm.rank());
    const bool chain = (kind == "chain");
    auto mk = [&](Index first, Index count) { M mir(n, count); for(Index i(0); i < count; ++i) mir.indices()[i] = first + i; return mir; };
    auto gdof = [&](Index i) -> Index { return chain ? r * (n - m) + i : (i == 0u ? Index(0) : Index(1) + r * (n - 1u) + (i - 1u)); };
    Global::Gate<V, M> gate(comm);
    Global::Gate<T, TM> gate_t(comm);
    auto push = [&](Index s, Index first, Index count)
    {
      gate.push(int(s), mk(first, count));
      gate_t.push(int(s), TM(mk(first, count), mk(first, count), mk(first, count)));
    };
    if(chain)
    {
      if(r > 0u) push(r - 1u, 0u, m);
      if(r + 1u < N) push(r + 1u, n - m, m);
    }
    else
      for(Index s(0); s < N; ++s)
        if(s != r) push(s, 0u, 1u);
    gate.compile(V(n));
    auto mkT = [&]() { return T(B(n), V(n), V(n)); };
    gate_t.compile(mkT());
    Global::Gate<B, M> gate_b;
    gate_b.convert(gate, B(n));

    V v = V(n), w = V(n);
    B vb = B(n), wb = B(n);
    T vt = mkT(), wt = mkT();
    for(Index i(0); i < n; ++i)
    {
      const Index g = gdof(i);
      const double a = double(r + 1u) * double(g % 5u + 1u), c = 2.0 * double(g % 3u + 1u);
      v.elements()[i] = a; w.elements()[i] = c;
      vb.elements()[i][0] = a; vb.elements()[i][1] = -2.0 * a; wb.elements()[i][0] = c; wb.elements()[i][1] = 4.0;
      vt.at<0>().elements()[i][0] = a; vt.at<0>().elements()[i][1] = 3.0 * a; vt.at<1>().elements()[i] = -a; vt.at<2>().elements()[i] = 2.0 * a;
      wt.at<0>().elements()[i][0] = c; wt.at<0>().elements()[i][1] = 2.0; wt.at<1>().elements()[i] = c; wt.at<2>().elements()[i] = 4.0;
    }
    gate.sync_0(v);
    gate_b.sync_0(vb);
    gate_t.sync_0(vt);
    std::ostringstream os;
    auto put = [&](const char* k, double x) { char buf[64]; std::snprintf(buf, sizeof(buf), "%a", x); os << k << " " << buf << " "; };
    os << "nranks " << N << " syn_ndofs " << gate.get_num_global_dofs() << " syn_blk_ndofs " << gate_b.get_num_global_dofs()
       << " syn_tup_ndofs " << gate_t.get_num_global_dofs() << " syn_maxnb " << gate.get_ranks().size() << " ";
    put("syn_dot", gate.dot(v, w));
    put("syn_async_dot", gate.dot_async(v, w).wait());
    put("syn_max", gate.max(v.max_element()));
    put("syn_last", gate.max((r + 1u == N) ? v.elements()[n - 1u] : 0.0));
    put("syn_blk_dot", gate_b.dot(vb, wb));
    put("syn_tup_dot", gate_t.dot(vt, wt));
    V c = w.clone();
    gate.sync_1(c);
    c.axpy(w, -1.0);
    put("syn_s1_diff", gate.max(c.max_abs_element()));
    if(comm.rank() == 0)
      std::cout << "C13MPI " << os.str() << "END" << std::endl;
    return 0;
  }
}
