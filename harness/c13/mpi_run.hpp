// C13 harness, part (b): real MPI run through Control::Domain::PartiDomainControl + Control::Scalar*SystemLevel.
// Every quantity printed as "key value" is independent of the partitioning by the property statement.
// Keys starting with "x_" are computed from dyadic numbers only (uniform axis-parallel mesh, trapezoidal rule,
// dyadic nodal values) so every floating point sum is exact and the value must be bit-identical for all N.
// Keys starting with "t_" are compared up to rounding.
#pragma once
#include <kernel/runtime.hpp>
#include <kernel/util/dist.hpp>
#include <kernel/util/simple_arg_parser.hpp>
#include <kernel/geometry/conformal_mesh.hpp>
#include <kernel/geometry/mesh_node.hpp>
#include <kernel/trafo/standard/mapping.hpp>
#include <kernel/space/lagrange1/element.hpp>
#include <kernel/space/lagrange2/element.hpp>
#include <kernel/analytic/common.hpp>
#include <kernel/analytic/lambda_function.hpp>
#include <kernel/assembly/interpolator.hpp>
#include <kernel/assembly/common_operators.hpp>
#include <kernel/assembly/common_functionals.hpp>
#include <kernel/assembly/symbolic_assembler.hpp>
#include <kernel/assembly/domain_assembler_helpers.hpp>
#include <kernel/lafem/dense_vector_blocked.hpp>
#include <kernel/lafem/tuple_vector.hpp>
#include <kernel/lafem/tuple_mirror.hpp>
#include <kernel/lafem/power_vector.hpp>
#include <kernel/lafem/power_mirror.hpp>
#include <kernel/solver/pcg.hpp>
#include <kernel/solver/richardson.hpp>
#include <kernel/solver/jacobi_precond.hpp>
#include <kernel/solver/multigrid.hpp>
#include <control/domain/parti_domain_control.hpp>
#include <control/scalar_basic.hpp>
#include <control/asm/gate_asm.hpp>
#include <control/asm/muxer_asm.hpp>
#include <cstdio>
#include <cmath>
#include <sstream>

namespace C13
{
  using namespace FEAT;

  inline String hexd(double v)
  {
    char buf[64];
    std::snprintf(buf, sizeof(buf), "%a", v);
    return String(buf);
  }

  struct Out
  {
    std::ostringstream os;
    void put(const String& key, const String& val) { os << key << " " << val << " "; }
    void put(const String& key, double v) { put(key, hexd(v)); }
    void put(const String& key, Index v) { put(key, stringify(v)); }
  };

  template<int dim_> struct Funcs;

  template<> struct Funcs<2>
  {
    static auto fx() { return Analytic::create_lambda_function_scalar_2d([](double x, double y) {return 12.0 * (3.0 + 8.0*x - 4.0*y + 16.0*x*y);}); }
    static auto fw1() { return Analytic::create_lambda_function_scalar_2d([](double x, double y) {return 12.0 * (1.0 + 4.0*x + 32.0*y);}); }
    static auto fw2() { return Analytic::create_lambda_function_scalar_2d([](double x, double y) {return 12.0 * (5.0 - 8.0*x*x + 16.0*y*y*x);}); }
    static auto ff() { return Analytic::create_lambda_function_scalar_2d([](double x, double y) {return 7.0 + 16.0*x - 8.0*y*y;}); }
  };

  template<> struct Funcs<3>
  {
    static auto fx() { return Analytic::create_lambda_function_scalar_3d([](double x, double y, double z) {return 840.0 * (3.0 + 8.0*x - 4.0*y + 16.0*x*y + 2.0*z);}); }
    static auto fw1() { return Analytic::create_lambda_function_scalar_3d([](double x, double y, double z) {return 840.0 * (1.0 + 4.0*x + 32.0*y - 8.0*z);}); }
    static auto fw2() { return Analytic::create_lambda_function_scalar_3d([](double x, double y, double z) {return 840.0 * (5.0 - 8.0*x*x + 16.0*y*y*x + 4.0*z*x);}); }
    static auto ff() { return Analytic::create_lambda_function_scalar_3d([](double x, double y, double z) {return 7.0 + 16.0*x - 8.0*y*y + 4.0*z;}); }
  };

  template<typename Shape_, template<typename> class SpaceT_, template<typename> class AltSpaceT_>
  int run(const Dist::Comm& comm, SimpleArgParser& args, bool do_solve)
  {
    typedef Geometry::ConformalMesh<Shape_> MeshType;
    typedef Trafo::Standard::Mapping<MeshType> TrafoType;
    typedef SpaceT_<TrafoType> SpaceType;
    static constexpr int dim = Shape_::dimension;
    typedef double DataType;
    typedef Index IndexType;

    typedef Control::Domain::SimpleDomainLevel<MeshType, TrafoType, SpaceType> DomainLevelType;
    typedef Control::Domain::PartiDomainControl<DomainLevelType> DomainControlType;

    DomainControlType domain(comm, true);
    domain.parse_args(args);
    const bool use_splitter = args.check("splitter") >= 0;   // base levels can only be kept for <= 2 layers
    if(use_splitter)
      domain.keep_base_levels();
    domain.set_desired_levels(args.query("level")->second);
    domain.create(args.query("mesh")->second);
    domain.add_trafo_mesh_part_charts();

    const Index num_levels = domain.size_physical();

    typedef Control::ScalarCombinedSystemLevel<DataType, IndexType> SystemLevelType;
    std::deque<std::shared_ptr<SystemLevelType>> system_levels;
    for(Index i(0); i < num_levels; ++i)
      system_levels.push_back(std::make_shared<SystemLevelType>());

    const String cubature("auto-degree:" + stringify(2*SpaceType::local_degree+1));

    for(Index i(0); i < num_levels; ++i)
    {
      domain.at(i)->domain_asm.compile_all_elements();
      system_levels.at(i)->assemble_gate(domain.at(i));
    }
    for(Index i(0); (i < domain.size_physical()) && ((i+1) < domain.size_virtual()); ++i)
    {
      system_levels.at(i)->assemble_coarse_muxer(domain.at(i+1));
      if((i+1) < domain.size_physical())
        system_levels.at(i)->assemble_transfer(*system_levels.at(i+1), domain.at(i), domain.at(i+1), cubature);
      else
        system_levels.at(i)->assemble_transfer(domain.at(i), domain.at(i+1), cubature);
    }

    Assembly::Common::LaplaceOperator laplace_operator;
    for(Index i(0); i < num_levels; ++i)
    {
      Assembly::SymbolicAssembler::assemble_matrix_std1(system_levels.at(i)->matrix_sys.local(), domain.at(i)->space);
      system_levels.at(i)->matrix_sys.local().format();
      Assembly::assemble_bilinear_operator_matrix_1(domain.at(i)->domain_asm, system_levels.at(i)->matrix_sys.local(),
        laplace_operator, domain.at(i)->space, cubature);
    }

    typedef typename SystemLevelType::LocalSystemVector LocalSystemVector;
    typedef typename SystemLevelType::GlobalSystemVector GlobalSystemVector;
    typedef typename SystemLevelType::GlobalSystemMatrix GlobalSystemMatrix;
    typedef typename SystemLevelType::SystemMirror MirrorType;

    DomainLevelType& the_domain_level = *domain.front();
    SystemLevelType& the_system_level = *system_levels.front();
    auto& gate = the_system_level.gate_sys;
    const Index nloc = gate.get_num_local_dofs();

    Out out;
    out.put("nranks", Index(comm.size()));
    {
      String lv = domain.format_chosen_levels();
      lv.replace_all(" ", "_");
      out.put("levels", lv.empty() ? String("-") : lv);
    }
    out.put("ndofs", gate.get_num_global_dofs());

    // partition statistics (for the non-triviality rule; these do depend on the partitioning)
    {
      Index max_nb = Index(gate.get_ranks().size()), sum_nb = max_nb;
      Index n3 = 0u; // local DOFs shared by >= 3 ranks
      const DataType* fq = gate.get_freqs().elements();
      for(Index i(0); i < nloc; ++i)
        if(fq[i] < 0.4) ++n3;
      Index v[2] = {max_nb, n3}, w[2] = {0u, 0u};
      comm.allreduce(v, w, std::size_t(2), Dist::op_max);
      Index s = 0u;
      comm.allreduce(&sum_nb, &s, std::size_t(1), Dist::op_sum);
      out.put("p_maxnb", w[0]);
      out.put("p_sumnb", s);
      out.put("p_share3", w[1]);
    }

    // ---------------------------------------------------------------------------------------------------------------
    // exact part: dyadic data
    // ---------------------------------------------------------------------------------------------------------------
    auto fx = Funcs<dim>::fx();
    auto fw1 = Funcs<dim>::fw1();
    auto fw2 = Funcs<dim>::fw2();
    auto ff = Funcs<dim>::ff();

    GlobalSystemVector vx = the_system_level.matrix_sys.create_vector_r();
    GlobalSystemVector vw1 = vx.clone(), vw2 = vx.clone(), vb = vx.clone(), vy = vx.clone(), vt = vx.clone();
    Assembly::Interpolator::project(vx.local(), fx, the_domain_level.space);
    Assembly::Interpolator::project(vw1.local(), fw1, the_domain_level.space);
    Assembly::Interpolator::project(vw2.local(), fw2, the_domain_level.space);

    // type-0 vector: force functional with the trapezoidal rule, then Gate::sync_0
    vb.format();
    Assembly::assemble_force_function_vector(the_domain_level.domain_asm, vb.local(), ff, the_domain_level.space, "trapezoidal");
    LocalSystemVector b_type0 = vb.local().clone();
    vb.sync_0();
    out.put("x_b_w1", vb.dot(vw1));
    out.put("x_b_w2", vb.dot(vw2));
    out.put("t_b_nrm", vb.norm2());
    out.put("x_b_max", vb.max_abs_element());

    // Global::Matrix::apply with a dyadic matrix (Laplace, trapezoidal rule)
    GlobalSystemMatrix mat_trap(&gate, &gate);
    mat_trap.local() = the_system_level.matrix_sys.local().clone(LAFEM::CloneMode::Layout);
    mat_trap.local().format();
    Assembly::assemble_bilinear_operator_matrix_1(the_domain_level.domain_asm, mat_trap.local(), laplace_operator,
      the_domain_level.space, "trapezoidal");
    mat_trap.apply(vy, vx);
    out.put("x_Ax_w1", vy.dot(vw1));
    out.put("x_Ax_w2", vy.dot(vw2));
    out.put("x_Ax_nrm", vy.norm2());
    // r <- y + alpha*A*x  (from_1_to_0 + local apply + sync_0)
    mat_trap.apply(vt, vx, vw1, -2.0);
    out.put("t_Axpy_w2", vt.dot(vw2));
    // operand aliasing: the four overloads (r, x, y, alpha) document that r may be the same object as y; the type-1 ->
    // type-0 conversion of y and the sync_0 of r must then still happen exactly once
    {
      GlobalSystemVector va = vw1.clone(), vr = vw1.clone();
      double adiff = 0.0;
      mat_trap.apply(vr, vx, vw1, -2.0);                       // distinct objects
      va.copy(vw1);
      mat_trap.apply(va, vx, va, -2.0);                        // r is y
      out.put("t_Axpy_alias_w2", va.dot(vw2));
      va.axpy(vr, -1.0);
      adiff = Math::max(adiff, double(va.max_abs_element()));
      va.copy(vw1);
      // FINDING: on a gate without neighbours (one process) sync_0_async returns an already finished ticket whose wait()
      // aborts ("ticket was already completed by a wait call"), so the _async overloads are exercised for N > 1 only
      if(!gate.get_ranks().empty())
      {
        auto ticket = mat_trap.apply_async(va, vx, va, -2.0);
        ticket.wait();
      }
      else
        mat_trap.apply(va, vx, va, -2.0);
      va.axpy(vr, -1.0);
      adiff = Math::max(adiff, double(va.max_abs_element()));
      mat_trap.apply_transposed(vr, vx, vw1, -2.0);
      out.put("t_ATxpy_w2", vr.dot(vw2));
      va.copy(vw1);
      mat_trap.apply_transposed(va, vx, va, -2.0);
      out.put("t_ATxpy_alias_w2", va.dot(vw2));
      va.axpy(vr, -1.0);
      adiff = Math::max(adiff, double(va.max_abs_element()));
      va.copy(vw1);
      if(!gate.get_ranks().empty())
      {
        auto ticket = mat_trap.apply_transposed_async(va, vx, va, -2.0);
        ticket.wait();
      }
      else
        mat_trap.apply_transposed(va, vx, va, -2.0);
      va.axpy(vr, -1.0);
      adiff = Math::max(adiff, double(va.max_abs_element()));
      out.put("x_alias_apply_diff", adiff);
      // Global::Vector members with aliased operands
      va.copy(vx);
      va.copy(va);
      va.axpy(va, 0.5);
      va.scale(va, 2.0);
      va.component_product(va, vw1);
      out.put("x_valias_w2", va.dot(vw2));
      out.put("t_valias_dot", va.dot(va));   // too large for exact double sums
      vr.scale(vx, 3.0);
      GlobalSystemVector vq = vr.clone();
      vq.component_product(vr, vw1);
      vq.axpy(va, -1.0);
      out.put("x_valias_diff", vq.max_abs_element());
      va.copy(vx);
      va.sync_1();
      va.sync_1();
      va.axpy(vx, -1.0);
      out.put("x_sync1_twice_diff", va.max_abs_element());
    }
    // global dot products / norms of type-1 vectors
    out.put("x_x_x", vx.dot(vx));
    out.put("x_x_w2", vx.dot(vw2));
    out.put("x_x_nrm", vx.norm2());
    out.put("x_x_max", vx.max_abs_element());

    // sync_1 of a consistent vector returns the vector
    {
      vt.copy(vx);
      vt.sync_1();
      vt.axpy(vx, -1.0);
      out.put("x_s1_diff", vt.max_abs_element());
    }
    // sync_1 of an inconsistent vector: every rank adds its own offset to the interface-free representation;
    // afterwards the vector is consistent: sync_1 again must not change it
    {
      vt.copy(vx);
      DataType* p = vt.local().elements();
      for(Index i(0); i < nloc; ++i)
        p[i] += 12.0 * DataType(comm.rank() + 1);
      vt.sync_1();
      GlobalSystemVector vu = vt.clone();
      vu.sync_1();
      vu.axpy(vt, -1.0);
      out.put("t_s1_idem", vu.max_abs_element() / vx.max_abs_element());
    }

    // blocked vectors: gate converted from the scalar gate
    {
      typedef LAFEM::DenseVectorBlocked<DataType, IndexType, 2> BVec;
      Global::Gate<BVec, MirrorType> gate_b;
      gate_b.convert(gate, BVec(nloc));
      BVec bb(nloc), bw(nloc);
      const DataType* pb = b_type0.elements();
      const DataType* pw1 = vw1.local().elements();
      const DataType* pw2 = vw2.local().elements();
      auto* ebb = bb.elements();
      auto* ebw = bw.elements();
      for(Index i(0); i < nloc; ++i)
      {
        ebb[i][0] = pb[i]; ebb[i][1] = -3.0 * pb[i];
        ebw[i][0] = pw1[i]; ebw[i][1] = pw2[i];
      }
      gate_b.sync_0(bb);
      out.put("x_blk_dot", gate_b.dot(bb, bw));
      out.put("x_blk_async_dot", gate_b.dot_async(bb, bw).wait());
      out.put("t_blk_async_nrm2", gate_b.dot_async(bw, bw, true).wait());
      out.put("t_blk_nrm2", Math::sqrt(gate_b.dot(bw, bw)));
      out.put("x_blk_ndofs", gate_b.get_num_global_dofs());
      BVec bc = bw.clone();
      gate_b.sync_1(bc);
      bc.axpy(bw, -1.0);
      out.put("x_blk_s1_diff", gate_b.max(bc.max_abs_element()));
    }

    // tuple vectors: gate built from TupleMirrors of the scalar mirrors
    {
      typedef LAFEM::TupleVector<LocalSystemVector, LocalSystemVector> TVec;
      typedef LAFEM::TupleMirror<MirrorType, MirrorType> TMir;
      Global::Gate<TVec, TMir> gate_t(comm);
      const auto ranks = gate.get_ranks();
      for(std::size_t k(0); k < ranks.size(); ++k)
        gate_t.push(ranks[k], TMir(gate.get_mirrors()[k].clone(), gate.get_mirrors()[k].clone()));
      gate_t.compile(TVec(LocalSystemVector(nloc), LocalSystemVector(nloc)));
      LocalSystemVector y_type0(nloc);
      mat_trap.local().apply(y_type0, vx.local());
      TVec tv(b_type0.clone(), y_type0.clone());
      TVec tw(vw1.local().clone(), vw2.local().clone());
      gate_t.sync_0(tv);
      out.put("x_tup_dot", gate_t.dot(tv, tw));
    }

    // three-field tuple (blocked-2 / scalar / scalar, as velocity / pressure / stress in control/stokes_3field.hpp):
    // gate built by Control::Asm::build_gate_tuple from a blocked and two scalar gates
    typedef LAFEM::DenseVectorBlocked<DataType, IndexType, 2> BVec2;
    typedef LAFEM::TupleVector<BVec2, LocalSystemVector, LocalSystemVector> TVec3;
    typedef LAFEM::TupleMirror<MirrorType, MirrorType, MirrorType> TMir3;
    auto mk3 = [](Index n) { return TVec3(BVec2(n), LocalSystemVector(n), LocalSystemVector(n)); };
    auto fill3 = [](TVec3& t, const LocalSystemVector& a, const LocalSystemVector& b, const LocalSystemVector& c, DataType fac)
    {
      const Index n = a.size();
      auto* e0 = t.template at<0>().elements();
      DataType* e1 = t.template at<1>().elements();
      DataType* e2 = t.template at<2>().elements();
      const DataType* pa = a.elements(); const DataType* pb = b.elements(); const DataType* pc = c.elements();
      for(Index i(0); i < n; ++i)
      {
        e0[i][0] = pa[i]; e0[i][1] = fac * pb[i];
        e1[i] = pc[i];
        e2[i] = pa[i] + pc[i];
      }
    };
    {
      // the third field lives in a different finite element space (Q2 if the main space is Q1 and vice versa), so the
      // three gates, mirrors and frequency vectors of the tuple are all different
      typedef AltSpaceT_<TrafoType> AltSpaceType;
      AltSpaceType alt_space(the_domain_level.trafo);
      typename SystemLevelType::SystemGate gate_alt;
      Control::Asm::asm_gate(domain.at(0), alt_space, gate_alt, true);
      const Index nalt = gate_alt.get_num_local_dofs();
      out.put("x_alt_ndofs", gate_alt.get_num_global_dofs());
      Global::Gate<BVec2, MirrorType> gate_b;
      gate_b.convert(gate, BVec2(nloc));
      Global::Gate<TVec3, TMir3> gate_3;
      Control::Asm::build_gate_tuple(gate_3, gate_b, gate, gate_alt);
      LocalSystemVector y_type0(nloc);
      mat_trap.local().apply(y_type0, vx.local());
      LocalSystemVector alt_b(nalt, 0.0), alt_w(nalt), alt_x(nalt);
      Assembly::assemble_force_function_vector(the_domain_level.domain_asm, alt_b, ff, alt_space, "trapezoidal");
      Assembly::Interpolator::project(alt_w, fw2, alt_space);
      Assembly::Interpolator::project(alt_x, fx, alt_space);
      TVec3 tv(BVec2(nloc), y_type0.clone(), alt_b.clone());
      TVec3 tw(BVec2(nloc), vx.local().clone(), alt_w.clone());
      {
        auto* e0 = tv.template at<0>().elements();
        auto* f0 = tw.template at<0>().elements();
        for(Index i(0); i < nloc; ++i)
        {
          e0[i][0] = b_type0.elements()[i]; e0[i][1] = -3.0 * b_type0.elements()[i];
          f0[i][0] = vw1.local().elements()[i]; f0[i][1] = vw2.local().elements()[i];
        }
      }
      gate_3.sync_0(tv);
      out.put("x_tup3_dot", gate_3.dot(tv, tw));
      out.put("x_tup3_ndofs", gate_3.get_num_global_dofs());
      // dot products of consistent vectors: every field weighted with the frequencies of its own gate
      TVec3 tx(BVec2(nloc), vx.local().clone(), alt_x.clone());
      {
        auto* e0 = tx.template at<0>().elements();
        for(Index i(0); i < nloc; ++i) { e0[i][0] = vx.local().elements()[i]; e0[i][1] = vw1.local().elements()[i]; }
      }
      out.put("x_tup3_xw", gate_3.dot(tx, tw));
      out.put("x_tup3_xx", gate_3.dot(tx, tx));
      out.put("x_tup3_async_xw", gate_3.dot_async(tx, tw).wait());
      out.put("x_tup3_async_xx", gate_3.dot_async(tx, tx, false).wait());
      out.put("t_tup3_async_nrm2", gate_3.dot_async(tx, tx, true).wait());
      TVec3 tc = tw.clone();
      gate_3.sync_1(tc);
      tc.axpy(tw, -1.0);
      out.put("x_tup3_s1_diff", gate_3.max(tc.max_abs_element()));
    }

    // more composite gates: PowerVector<scalar, 3> with PowerMirror, and the nested
    // TupleVector<PowerVector<blocked-2, 2>, TupleVector<scalar, blocked-3>, scalar> with the matching nested mirror
    {
      typedef LAFEM::PowerVector<LocalSystemVector, 3> PVec;
      typedef LAFEM::PowerMirror<MirrorType, 3> PMir;
      Global::Gate<PVec, PMir> gate_p(comm);
      const auto ranks = gate.get_ranks();
      for(std::size_t k(0); k < ranks.size(); ++k)
        gate_p.push(ranks[k], PMir(gate.get_mirrors()[k].clone()));
      gate_p.compile(PVec(nloc));
      LocalSystemVector y_type0(nloc);
      mat_trap.local().apply(y_type0, vx.local());
      PVec pv(nloc), pw(nloc);
      pv.template at<0>().copy(b_type0); pv.template at<1>().copy(y_type0); pv.template at<2>().copy(b_type0);
      pv.template at<2>().axpy(y_type0, 2.0);
      pw.template at<0>().copy(vw1.local()); pw.template at<1>().copy(vw2.local()); pw.template at<2>().copy(vx.local());
      gate_p.sync_0(pv);
      out.put("x_pow3_dot", gate_p.dot(pv, pw));
      out.put("x_pow3_async_dot", gate_p.dot_async(pv, pw).wait());
      out.put("x_pow3_ndofs", gate_p.get_num_global_dofs());
      PVec pc = pw.clone();
      gate_p.sync_1(pc);
      pc.axpy(pw, -1.0);
      out.put("x_pow3_s1_diff", gate_p.max(pc.max_abs_element()));

      typedef LAFEM::DenseVectorBlocked<DataType, IndexType, 2> B2;
      typedef LAFEM::DenseVectorBlocked<DataType, IndexType, 3> B3;
      typedef LAFEM::PowerVector<B2, 2> NP;
      typedef LAFEM::TupleVector<LocalSystemVector, B3> NT;
      typedef LAFEM::TupleVector<NP, NT, LocalSystemVector> NVec;
      typedef LAFEM::TupleMirror<LAFEM::PowerMirror<MirrorType, 2>, LAFEM::TupleMirror<MirrorType, MirrorType>, MirrorType> NMir;
      Global::Gate<NVec, NMir> gate_n(comm);
      for(std::size_t k(0); k < ranks.size(); ++k)
      {
        const auto& mk = gate.get_mirrors()[k];
        gate_n.push(ranks[k], NMir(LAFEM::PowerMirror<MirrorType, 2>(mk.clone()),
          LAFEM::TupleMirror<MirrorType, MirrorType>(mk.clone(), mk.clone()), mk.clone()));
      }
      auto mkn = [&]() { NP np_(nloc); return NVec(std::move(np_), NT(LocalSystemVector(nloc), B3(nloc)), LocalSystemVector(nloc)); };
      gate_n.compile(mkn());
      auto filln = [&](NVec& t, const LocalSystemVector& a, const LocalSystemVector& b, DataType fac)
      {
        auto* p0 = t.template at<0>().template at<0>().elements();
        auto* p1 = t.template at<0>().template at<1>().elements();
        DataType* q0 = t.template at<1>().template at<0>().elements();
        auto* q1 = t.template at<1>().template at<1>().elements();
        DataType* r0 = t.template at<2>().elements();
        for(Index i(0); i < nloc; ++i)
        {
          const DataType u = a.elements()[i], v = b.elements()[i];
          p0[i][0] = u; p0[i][1] = fac * v;
          p1[i][0] = v; p1[i][1] = u + v;
          q0[i] = fac * u;
          q1[i][0] = v; q1[i][1] = u; q1[i][2] = 2.0 * v;
          r0[i] = u + fac * v;
        }
      };
      NVec nv = mkn(), nw = mkn();
      filln(nv, b_type0, y_type0, -3.0);
      filln(nw, vw1.local(), vw2.local(), 1.0);
      gate_n.sync_0(nv);
      out.put("x_nest_dot", gate_n.dot(nv, nw));
      out.put("x_nest_async_dot", gate_n.dot_async(nv, nw).wait());
      out.put("x_nest_ndofs", gate_n.get_num_global_dofs());
      NVec nc = nw.clone();
      gate_n.sync_1(nc);
      nc.axpy(nw, -1.0);
      out.put("x_nest_s1_diff", gate_n.max(nc.max_abs_element()));
    }

    // Muxer::join / split (+ join_send / split_recv) for the three-field tuple on every layer change:
    // the muxer is built by Control::Asm::build_muxer_tuple from a blocked and two scalar muxers
    {
      double split_diff = 0.0, join_diff = 0.0;
      Index mux_used = 0u;
      for(Index i(0); (i < domain.size_physical()) && ((i+1) < domain.size_virtual()); ++i)
      {
        auto& mux_s = system_levels.at(i)->coarse_muxer_sys;
        if(!mux_s.is_child())
          continue;
        const auto& vlvl = domain.at(i+1);
        const Index nc = mux_s.get_parent_mirror().size();
        Global::Muxer<BVec2, MirrorType> mux_b;
        mux_b.convert(mux_s, BVec2(nc));
        Global::Muxer<TVec3, TMir3> mux_3;
        Control::Asm::build_muxer_tuple(mux_3, mk3(nc), mux_b, mux_s, mux_s);
        ++mux_used;
        // child side: nodal interpolation on the child patch
        LocalSystemVector cx(nc), cw1(nc), cw2(nc);
        Assembly::Interpolator::project(cx, fx, vlvl.level_c().space);
        Assembly::Interpolator::project(cw1, fw1, vlvl.level_c().space);
        Assembly::Interpolator::project(cw2, fw2, vlvl.level_c().space);
        TVec3 c_ref = mk3(nc);
        fill3(c_ref, cx, cw1, cw2, 1.0);
        TVec3 c_got = c_ref.clone();
        c_got.format(-7.0);
        if(mux_s.is_parent())
        {
          const Index np = mux_s.get_child_mirrors().front().size();
          LocalSystemVector px(np), pw1(np), pw2(np);
          Assembly::Interpolator::project(px, fx, vlvl.level_p().space);
          Assembly::Interpolator::project(pw1, fw1, vlvl.level_p().space);
          Assembly::Interpolator::project(pw2, fw2, vlvl.level_p().space);
          TVec3 p_ref = mk3(np);
          fill3(p_ref, px, pw1, pw2, 1.0);
          // split: every child must receive the restriction of the parent vector = its own interpolation
          mux_3.split(c_got, p_ref);
          // join: the parent receives the sum over all children containing the DOF
          TVec3 p_got = p_ref.clone();
          p_got.format(-7.0);
          mux_3.join(c_ref, p_got);
          std::vector<DataType> cnt(np, 0.0);
          for(const auto& cm : mux_s.get_child_mirrors())
            for(Index k(0); k < cm.num_indices(); ++k)
              cnt[cm.indices()[k]] += 1.0;
          LocalSystemVector pcnt(np);
          for(Index k(0); k < np; ++k) pcnt.elements()[k] = cnt[k];
          TVec3 p_exp = mk3(np);
          TVec3 p_cnt = mk3(np);
          fill3(p_cnt, pcnt, pcnt, pcnt, 1.0);
          p_cnt.template at<2>().copy(pcnt);
          p_exp.component_product(p_ref, p_cnt);
          p_got.axpy(p_exp, -1.0);
          join_diff = Math::max(join_diff, double(p_got.max_abs_element()));
        }
        else
        {
          mux_3.split_recv(c_got);
          mux_3.join_send(c_ref);
        }
        c_got.axpy(c_ref, -1.0);
        split_diff = Math::max(split_diff, double(c_got.max_abs_element()));
      }
      double v[2] = {split_diff, join_diff}, w[2] = {0.0, 0.0};
      comm.allreduce(v, w, std::size_t(2), Dist::op_max);
      Index mu = 0u;
      comm.allreduce(&mux_used, &mu, std::size_t(1), Dist::op_sum);
      out.put("x_mux3_split_diff", w[0]);
      out.put("x_mux3_join_diff", w[1]);
      out.put("p_mux3_used", mu);
    }

    // more of the Global API on exact data: reductions, Global::Vector arithmetic, type conversion, diag / lump
    {
      // (Global::Vector::max_element() / min_element() call a non-existing Gate member; the _async variants work)
      out.put("x_vmax", vx.max_element_async().wait());
      out.put("x_vmin", vx.min_element_async().wait());
      out.put("x_vminabs", vx.min_abs_element());
      // Gate::sum / norm2 of one scalar per rank
      LocalSystemVector ones(nloc, 1.0);
      out.put("t_gate_sum_freq", gate.sum(gate.get_freqs().dot(ones)));          // = number of global DOFs
      out.put("t_gate_norm2", gate.norm2(Math::sqrt(gate.get_freqs().triple_dot(vx.local(), vx.local()))));   // = ||x||
      out.put("t_gate_norm2_ref", vx.norm2());
      out.put("x_gate_max", gate.max(vx.local().max_element()));
      out.put("x_gate_min", gate.min(vx.local().min_element()));
      // copy / axpy / scale / component_product keep a type-1 vector type-1
      vt.copy(vx);
      vt.axpy(vw1, -2.0);
      vt.scale(vt, 0.5);
      out.put("x_vops_w2", vt.dot(vw2));
      GlobalSystemVector vu = vx.clone();
      vu.component_product(vt, vw2);
      out.put("x_cprod_w1", vu.dot(vw1));
      // from_1_to_0 followed by sync_0 is the identity on type-1 vectors
      vt.copy(vx);
      vt.from_1_to_0();
      vt.sync_0();
      vt.axpy(vx, -1.0);
      out.put("x_f10_diff", vt.max_abs_element());
      // extract_diag / lump_rows (type-0 local result + sync_0) of the dyadic matrix
      GlobalSystemVector vd = vx.clone();
      mat_trap.extract_diag(vd, true);
      out.put("x_diag_w1", vd.dot(vw1));
      mat_trap.lump_rows(vd, true);
      out.put("x_lump_w1", vd.dot(vw1));
      out.put("x_lump_max", vd.max_abs_element());
    }

    // asynchronous reductions (Gate / Global::Vector *_async + ticket wait, as used by the pipelined solvers): every
    // variant must give the number of its synchronous twin (x_: dyadic data, bit-identical for every process count)
    {
      out.put("x_async_dot", vx.dot_async(vw2).wait());                         // = x_x_w2
      out.put("x_async_nrm2sqr", vx.norm2sqr_async().wait());                   // = x_x_x
      out.put("x_async_nrm2", vx.norm2_async().wait());                         // = x_x_nrm
      out.put("x_async_gdot", gate.dot_async(vx.local(), vw2.local()).wait());
      out.put("x_async_gdot_sqrt", gate.dot_async(vx.local(), vx.local(), true).wait());
      out.put("x_async_maxabs", vx.max_abs_element_async().wait());             // = x_x_max
      out.put("x_async_minabs", vx.min_abs_element_async().wait());
      out.put("x_async_max", vx.max_element_async().wait());
      out.put("x_async_min", vx.min_element_async().wait());
      const double owned = gate.get_freqs().dot(LocalSystemVector(nloc, 1.0));
      out.put("t_async_sum", gate.sum_async(owned).wait());                     // = number of global DOFs
      out.put("t_async_sum_sqrt", gate.sum_async(owned, true).wait());
      out.put("x_async_gmin", gate.min_async(vx.local().min_element()).wait());
      out.put("x_async_gmax", gate.max_async(vx.local().max_element()).wait());
      out.put("t_async_gnorm2", gate.norm2_async(Math::sqrt(gate.get_freqs().triple_dot(vx.local(), vx.local()))).wait());
    }

    // Global::Splitter (base splitter) on the finest level: join gives the unpartitioned vector on the root, split the
    // restriction of an unpartitioned vector to every patch
    {
      double join_diff = 0.0, split_diff = 0.0;
      out.put("p_spl_used", Index(use_splitter ? 1 : 0));
      if(use_splitter)
      {
      the_system_level.assemble_base_splitter(domain.at(0));
      auto& spl = the_system_level.base_splitter_sys;
      LocalSystemVector base = spl.join(vx);
      LocalSystemVector base_ref;
      if(comm.size() > 1 && comm.rank() == 0)
      {
        const auto& space_b = domain.at(0).level_b().space;
        base_ref = LocalSystemVector(space_b.get_num_dofs());
        Assembly::Interpolator::project(base_ref, fx, space_b);
        XASSERT(base.size() == base_ref.size());
        out.put("p_spl_base_ndofs", base.size());
        LocalSystemVector d = base.clone();
        d.axpy(base_ref, -1.0);
        join_diff = d.max_abs_element();
      }
      else
      {
        out.put("p_spl_base_ndofs", Index(0));
        if(comm.size() == 1) base_ref = vx.local().clone();
      }
      vt.format(-7.0);
      spl.split(vt, base_ref);
      vt.axpy(vx, -1.0);
      split_diff = vt.max_abs_element();
      }
      else
        out.put("p_spl_base_ndofs", Index(0));
      double v[2] = {join_diff, split_diff}, w[2] = {0.0, 0.0};
      comm.allreduce(v, w, std::size_t(2), Dist::op_max);
      out.put("x_spl_join_diff", w[0]);
      out.put("x_spl_split_diff", w[1]);
    }

    // Global::Transfer::prol / rest (+ prol_recv / rest_send on ghost processes) on every level pair, i.e. through the
    // muxer wherever the process layer changes: prolongation reproduces the nodal interpolant of a (multi)linear
    // function, restriction is its adjoint with respect to Gate::dot
    {
      double prol_diff = 0.0, rest_dual = 0.0;
      Index n_tr = 0u;
      for(Index i(0); (i < domain.size_physical()) && ((i+1) < domain.size_virtual()); ++i)
      {
        SystemLevelType& lvl_f = *system_levels.at(i);
        GlobalSystemVector xf = lvl_f.matrix_sys.create_vector_r();
        GlobalSystemVector pf = xf.clone(), df = xf.clone();
        Assembly::Interpolator::project(xf.local(), fx, domain.at(i)->space);
        df.format();
        Assembly::assemble_force_function_vector(domain.at(i)->domain_asm, df.local(), ff, domain.at(i)->space, "trapezoidal");
        df.sync_0();
        pf.format(-7.0);
        const double fine_pair = df.dot(xf);
        ++n_tr;
        if((i+1) < domain.size_physical())
        {
          SystemLevelType& lvl_c = *system_levels.at(i+1);
          GlobalSystemVector xc = lvl_c.matrix_sys.create_vector_r();
          GlobalSystemVector dc = xc.clone();
          Assembly::Interpolator::project(xc.local(), fx, domain.at(i+1)->space);
          lvl_f.transfer_sys.prol(pf, xc);
          dc.format(-7.0);
          lvl_f.transfer_sys.rest(df, dc);
          const double coarse_pair = dc.dot(xc);
          rest_dual = Math::max(rest_dual, Math::abs(coarse_pair - fine_pair) / Math::abs(fine_pair));
        }
        else
        {
          lvl_f.transfer_sys.prol_recv(pf);
          lvl_f.transfer_sys.rest_send(df);
        }
        pf.axpy(xf, -1.0);
        prol_diff = Math::max(prol_diff, double(pf.max_abs_element() / xf.max_abs_element()));
      }
      double v[2] = {prol_diff, rest_dual}, w[2] = {0.0, 0.0};
      comm.allreduce(v, w, std::size_t(2), Dist::op_max);
      out.put("z_prol_diff", w[0]);
      out.put("z_rest_dual", w[1]);
      out.put("p_transfers", n_tr);
    }

    // ---------------------------------------------------------------------------------------------------------------
    // discretise-and-solve (up to rounding)
    // ---------------------------------------------------------------------------------------------------------------
    if(do_solve)
    {
      Analytic::Common::SineBubbleFunction<dim> func_sin;
      String bnd_names;
      {
        std::deque<String> names = the_domain_level.get_mesh_node()->get_mesh_part_names(true);
        bnd_names = stringify_join(names, " ");
      }
      for(Index i(0); i < num_levels; ++i)
        system_levels.at(i)->assemble_unit_filter(*domain.at(i), domain.at(i)->space, "dirichlet", bnd_names, func_sin);

      GlobalSystemVector vec_sol = the_system_level.matrix_sys.create_vector_r();
      GlobalSystemVector vec_rhs = the_system_level.matrix_sys.create_vector_r();
      vec_sol.format();
      vec_rhs.format();
      Assembly::Common::LaplaceFunctional<decltype(func_sin)> force_sin(func_sin);
      Assembly::assemble_linear_functional_vector(the_domain_level.domain_asm, vec_rhs.local(), force_sin, the_domain_level.space, cubature);
      // float clause of C13 with a stated bound (theorem C13.sync0_float_bound / flSum_bound): at a DOF shared by k ranks the
      // synchronised value differs from the exact sum of the k contributions by at most ((1+u)^(k-1) - 1) * sum|contributions|
      // for every arrival order (u = 2^-53).  Exact reference: the same sync_0 in long double; sum|c|: sync_0 of |c|.
      {
        typedef LAFEM::DenseVector<long double, IndexType> LVec;
        typedef LAFEM::VectorMirror<long double, IndexType> LMir;
        Global::Gate<LVec, LMir> gate_ld;
        gate_ld.convert(gate);
        LVec r_ld(nloc);
        LocalSystemVector r_abs(nloc);
        for(Index i(0); i < nloc; ++i)
        {
          r_ld.elements()[i] = (long double)vec_rhs.local().elements()[i];
          r_abs.elements()[i] = Math::abs(vec_rhs.local().elements()[i]);
        }
        gate_ld.sync_0(r_ld);
        gate.sync_0(r_abs);
        GlobalSystemVector r_dbl = vec_rhs.clone();
        r_dbl.sync_0();
        const double u = 1.1102230246251565e-16;
        double worst = 0.0;
        Index n_multi = 0u;
        for(Index i(0); i < nloc; ++i)
        {
          const double k = std::floor(1.0 / gate.get_freqs().elements()[i] + 0.5);
          const double err = double(std::fabs((long double)r_dbl.local().elements()[i] - r_ld.elements()[i]));
          if(k > 1.5)
          {
            ++n_multi;
            const double bound = std::expm1((k - 1.0) * std::log1p(u)) * r_abs.elements()[i];   // ((1+u)^(k-1) - 1) * sum|c|
            if(std::getenv("C13_DEBUG") && !(err <= bound)) std::cerr << "DBG2 rank " << comm.rank() << " i=" << i << " k=" << k << " err=" << err << " bound=" << bound << std::endl;
            worst = Math::max(worst, (bound > 0.0) ? err / bound : (err > 0.0 ? 1E+99 : 0.0));
          }
          else if(err > 1E-18 * r_abs.elements()[i])   // a DOF of one rank only is not touched (long double conversion is exact)
          {
            if(std::getenv("C13_DEBUG")) std::cerr << "DBG rank " << comm.rank() << " i=" << i << " k=" << k << " err=" << err << " abs=" << r_abs.elements()[i] << " dbl=" << r_dbl.local().elements()[i] << " ld=" << double(r_ld.elements()[i]) << " loc=" << vec_rhs.local().elements()[i] << std::endl;
            worst = 1E+99;
          }
        }
        double w = 0.0;
        comm.allreduce(&worst, &w, std::size_t(1), Dist::op_max);
        out.put("b_sync_float_ratio", w);
      }
      vec_rhs.sync_0();
      the_system_level.filter_sys.filter_sol(vec_sol);
      the_system_level.filter_sys.filter_rhs(vec_rhs);
      out.put("t_rhs_nrm", vec_rhs.norm2());

      auto multigrid_hierarchy = std::make_shared<Solver::MultiGridHierarchy<
        typename SystemLevelType::GlobalSystemMatrix,
        typename SystemLevelType::GlobalSystemFilter,
        typename SystemLevelType::GlobalSystemTransfer>>(domain.size_virtual());
      for(Index i(0); i < num_levels; ++i)
      {
        const SystemLevelType& lvl = *system_levels.at(i);
        auto jacobi = Solver::new_jacobi_precond(lvl.matrix_sys, lvl.filter_sys, 0.7);
        auto smoother = Solver::new_richardson(lvl.matrix_sys, lvl.filter_sys, 1.0, jacobi);
        smoother->set_min_iter(4);
        smoother->set_max_iter(4);
        if((i+1) < domain.size_virtual())
          multigrid_hierarchy->push_level(lvl.matrix_sys, lvl.filter_sys, lvl.transfer_sys, smoother, smoother, smoother);
        else
          multigrid_hierarchy->push_level(lvl.matrix_sys, lvl.filter_sys, smoother);
      }
      auto mgv = Solver::new_multigrid(multigrid_hierarchy, Solver::MultiGridCycle::V);
      auto solver = Solver::new_pcg(the_system_level.matrix_sys, the_system_level.filter_sys, mgv);
      solver->set_plot_mode(Solver::PlotMode::none);
      solver->set_tol_rel(1E-8);
      solver->set_max_iter(200);
      multigrid_hierarchy->init();
      solver->init();
      auto result = Solver::solve(*solver, vec_sol, vec_rhs, the_system_level.matrix_sys, the_system_level.filter_sys);
      out.put("s_status", String(Solver::status_success(result) ? "ok" : "FAILED"));
      out.put("s_iters", Index(solver->get_num_iter()));
      out.put("t_def_init", solver->get_def_initial());
      out.put("u_def_final", solver->get_def_final());
      solver->done();
      multigrid_hierarchy->done();
      // float clause for the global dot product with a stated bound (theorem C13.gdotFl_bound): for every reduction order
      // |dot_double - dot_exact| <= ((1+u)^(n+2+N) - 1) * sum |freq x y|, n = largest local DOF count, N = number of ranks
      {
        typedef LAFEM::DenseVector<long double, IndexType> LVec;
        typedef LAFEM::VectorMirror<long double, IndexType> LMir;
        Global::Gate<LVec, LMir> gate_ld;
        gate_ld.convert(gate);
        LVec xl(nloc), yl(nloc);
        GlobalSystemVector xa = vec_sol.clone(), ya = vec_rhs.clone();
        for(Index i(0); i < nloc; ++i)
        {
          xl.elements()[i] = (long double)vec_sol.local().elements()[i];
          yl.elements()[i] = (long double)vec_rhs.local().elements()[i];
          xa.local().elements()[i] = Math::abs(vec_sol.local().elements()[i]);
          ya.local().elements()[i] = Math::abs(vec_rhs.local().elements()[i]);
        }
        const double d_dbl = vec_sol.dot(vec_rhs);
        const long double d_ld = gate_ld.dot(xl, yl);
        const double d_abs = xa.dot(ya);
        Index nmax = 0u;
        comm.allreduce(&nloc, &nmax, std::size_t(1), Dist::op_max);
        const double u = 1.1102230246251565e-16;
        const double bound = std::expm1(double(nmax + 2u + Index(comm.size())) * std::log1p(u)) * d_abs;
        const double err = double(std::fabs((long double)d_dbl - d_ld));
        out.put("b_dot_float_ratio", bound > 0.0 ? err / bound : (err > 0.0 ? 1E+99 : 0.0));
      }
      out.put("t_sol_nrm", vec_sol.norm2());
      out.put("t_sol_w1", vec_sol.dot(vw1));
      // true residual of the computed solution
      GlobalSystemVector vec_def = vec_rhs.clone();
      the_system_level.matrix_sys.apply(vec_def, vec_sol, vec_rhs, -1.0);
      the_system_level.filter_sys.filter_def(vec_def);
      out.put("u_res_true", vec_def.norm2());

      const String cubature_error("auto-degree:" + stringify(2*SpaceType::local_degree+3));
      auto errors = Assembly::integrate_error_function<1>(the_domain_level.domain_asm, func_sin, vec_sol.local(),
        the_domain_level.space, cubature_error);
      errors.synchronize(comm);
      out.put("t_err_h0", std::sqrt(double(errors.norm_h0_sqr)));
      out.put("t_err_h1", std::sqrt(double(errors.norm_h1_sqr)));
    }

#ifdef FEAT_VERIF_H3
    {
      Index no = Index(Global::VerifH3::orders().size()), nos = 0u;
      comm.allreduce(&no, &nos, std::size_t(1), Dist::op_sum);
      out.put("h3_orders", nos);
      out.put("h3_seed", Index(Global::VerifH3::seed()));
    }
#else
    out.put("h3_orders", Index(0));
    out.put("h3_seed", Index(0));
#endif

    if(comm.rank() == 0)
    {
      std::cout << "C13MPI " << out.os.str() << "END" << std::endl;
    }
    return 0;
  }
} // namespace C13
