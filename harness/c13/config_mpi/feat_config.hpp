// FEAT3: Finite Element Analysis Toolbox, Version 3
// Copyright (C) 2010 - 2023 by Stefan Turek & the FEAT group
// FEAT3 is released under the GNU General Public License version 3,
// see the file 'copyright.txt' in the top level directory for details.

// Template file for configuration done by CMAKE
#pragma once
#ifndef FEAT_CONFIG_HPP
/// Header guard
#define FEAT_CONFIG_HPP 1

/// Version of CMAKE used to configure this project
#define CMAKE_VERSION "3.31.6"

/// Should the build include DEBUG support?
/* #undef FEAT_DEBUG_MODE */

/// Is an mpi environment available?
#define FEAT_HAVE_MPI 1

/// Path to the FEAT source dir
#define FEAT_SOURCE_DIR "/repo"

/// Path to the FEAT binary dir
#define FEAT_BINARY_DIR "/repo/_build"
#define FEAT_BUILD_DIR "/repo/_build"

/// provided BUILD-ID being used
#define BUILD_ID ""
#define FEAT_BUILD_ID ""

/// CPU microarchitecture being used
#define FEAT_CPU_TYPE ""

/// Do we have ALGLIB support enabled?
/* #undef FEAT_HAVE_ALGLIB */

/// Do we have CGAL support enabled?
/* #undef FEAT_HAVE_CGAL */

/// Do we have CUDA support enabled?
/* #undef FEAT_HAVE_CUDA */

/// Do we have CUDA CUDSS support enabled?
/* #undef FEAT_HAVE_CUDSS */

/// Do we have DEATH_HANDLER support enabled?
/* #undef FEAT_HAVE_DEATH_HANDLER */

/// Do we have FloatX support enabled?
/* #undef FEAT_HAVE_FLOATX */

/// Do we have fparser support enabled?
/* #undef FEAT_HAVE_FPARSER */

/// Do we have HALFMATH support enabled?
/* #undef FEAT_HAVE_HALFMATH */

/// Do we have HYPRE support enabled?
/* #undef FEAT_HAVE_HYPRE */

/// Do we have MKL support enabled?
/* #undef FEAT_HAVE_MKL */

/// Do we have OpenMP support enabled?
/* #undef FEAT_HAVE_OMP (verif harness: no OpenMP) */

/// Do we have PARMETIS support enabled?
/* #undef FEAT_HAVE_PARMETIS */

/// Do we have QUADMATH support enabled?
/* #undef FEAT_HAVE_QUADMATH */

/// Do we have SuperLU support enabled?
/* #undef FEAT_HAVE_SUPERLU_DIST */

/// Do we have Trilinos support enabled?
/* #undef FEAT_HAVE_TRILINOS */

/// Do we have UMFPACK support enabled?
/* #undef FEAT_HAVE_UMFPACK */

/// Do we have ZFP support enabled?
/* #undef FEAT_HAVE_ZFP */

/// Do we have ZLIB support enabled?
/* #undef FEAT_HAVE_ZLIB */

/// Do we have Zoltan support enabled?
/* #undef FEAT_HAVE_ZOLTAN */

/// Do we use a compiler wrapper, e.g. ccache or distcc
/* #undef FEAT_USE_COMPILER_WRAPPER */

/// Do we use the mkl sparse executor interface
/* #undef FEAT_USE_MKL_SPARSE_EXECUTOR */

/// Descriptive compiler name, as detected by cmake
#define CMAKE_CXX_COMPILER_ID "GNU"

/// Descriptive compiler name, as set by the configure_feat script
#define FEAT_COMPILER_ID ""

/// Compiler version, as detected by cmake
#define CMAKE_CXX_COMPILER_VERSION "12.2.0"

/// Path to the used host compiler
#define CMAKE_CXX_COMPILER "/usr/bin/c++"

/// Contains the 'real' compiler, if we use a COMPILER_WRAPPER and is empty, if we don't
#define CMAKE_CXX_COMPILER_ARG1 ""

/// Path to CMAKE_CXX_COMPILER_ARG1, if any.
#define CMAKE_CXX_COMPILER_ARG1_PATH ""

/// Host CXX Compiler Flags
#define CMAKE_CXX_FLAGS "-Wno-error"

/// The system compiler the actual host compiler will rely on, e.g. using its header files etc.
#define FEAT_SYSTEM_HOST_COMPILER ""

/// The host compiler that will be used by nvcc for host code compilation.
#define FEAT_CUDA_HOST_COMPILER ""

#ifdef FEAT_HAVE_CUDA
/// Path to CUDA Compiler
#define FEAT_CUDA_NVCC_EXECUTABLE ""
/// CUDA CXX Compiler Flags
#define FEAT_CUDA_NVCC_FLAGS ""
/// CUDA SDK Version
#define FEAT_CUDA_VERSION ""
/// CUDA major version
#define FEAT_CUDA_VERSION_MAJOR ""
/// compile for this CUDA device architecture
#define FEAT_CUDA_ARCH ""
#endif

#ifdef FEAT_HAVE_MPI
/// absolute path to mpi compiler wrapper
#define MPI_CXX_COMPILER ""
/// absolute path to mpi execution wrapper
#define MPIEXEC ""
/// mpi version
#define CMAKE_MPI_VERSION ""
#endif

/// Hostname of the computer in use
#define FEAT_HOSTNAME "vm"

/// full path of the cmake binary
#define CMAKE_COMMAND "/usr/bin/cmake"

/// cmake 'makefile' generator
#define CMAKE_GENERATOR "Ninja"

/// SHA1 of HEAD in FEAT_SOURCE_DIR
#define FEAT_GIT_SHA1 "8920940f0d9ae424c66f0b427d2097ed12b9af63"

/// Should we unroll all banded matrix kernels via template meta programming?
/* #undef FEAT_UNROLL_BANDED */

/// Should we explicitly instantiate all common kernel templates?
/* #undef FEAT_EICKT */

/// Should we use our custom MPI operations?
/* #undef FEAT_OVERRIDE_MPI_OPS */

/// Should we use separate threads for asynchronous mpi communication?
/* #undef FEAT_MPI_THREAD_MULTIPLE */

/// Shall we use sanitizer features of our compilers?
/* #undef FEAT_SANITIZER */

/// Activate perfmon?
/* #undef LIKWID_PERFMON */

/// Use marker likwid API?
/* #undef FEAT_USE_LIKWID */

/// Activate application markers
/* #undef FEAT_APPLICATION_MARKER_ACTIVATED */

/// Activate kernel markers
/* #undef FEAT_KERNEL_MARKER_ACTIVATED */

/// Activate special markers
/* #undef FEAT_SPECIAL_MARKER_ACTIVATED */

#endif // FEAT_CONFIG_HPP
