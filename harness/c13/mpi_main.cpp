// C13 harness, part (b): dispatcher (the instantiations live in mpi_inst_*.cpp so that they compile in parallel)
#include <kernel/runtime.hpp>
#include <kernel/util/dist.hpp>
#include <kernel/util/simple_arg_parser.hpp>
#include <control/domain/parti_domain_control.hpp>
#include <iostream>

namespace C13
{
  int run_q1_2d(const FEAT::Dist::Comm&, FEAT::SimpleArgParser&, bool);
  int run_q2_2d(const FEAT::Dist::Comm&, FEAT::SimpleArgParser&, bool);
  int run_q1_3d(const FEAT::Dist::Comm&, FEAT::SimpleArgParser&, bool);
  int run_synthetic(const FEAT::Dist::Comm&, const FEAT::String&, FEAT::Index, FEAT::Index);
}

int main(int argc, char* argv[])
{
  FEAT::Runtime::ScopeGuard runtime_scope_guard(argc, argv);
  FEAT::Dist::Comm comm(FEAT::Dist::Comm::world());
  FEAT::SimpleArgParser args(argc, argv);
  FEAT::Control::Domain::add_supported_pdc_args(args);
  args.support("mesh");
  args.support("level");
  args.support("space");
  args.support("solve");
  args.support("splitter");
  args.support("synthetic");
  if(args.check("synthetic") >= 3)
  {
    FEAT::String kind; FEAT::Index n(0), m(0);
    args.parse("synthetic", kind, n, m);
    return C13::run_synthetic(comm, kind, n, m);
  }
  auto unsupported = args.query_unsupported();
  if(!unsupported.empty() || args.check("mesh") < 1 || args.check("level") < 1)
  {
    comm.print(std::cerr, "usage: c13mpi --mesh <file> --level <lvls...> [--space q1|q2|q1-3d] [--solve] [--parti-type ...]");
    FEAT::Runtime::abort();
  }
  FEAT::String space("q1");
  args.parse("space", space);
  const bool solve = args.check("solve") >= 0;
  if(space == "q1") return C13::run_q1_2d(comm, args, solve);
  if(space == "q2") return C13::run_q2_2d(comm, args, solve);
  if(space == "q1-3d") return C13::run_q1_3d(comm, args, solve);
  comm.print(std::cerr, "unknown space");
  FEAT::Runtime::abort();
  return 1;
}
