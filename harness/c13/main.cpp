// C13 harness, part (a): in-process, exact arithmetic (Q).
// Executes the real LAFEM::VectorMirror gather/scatter_axpy, the real Global::Gate (compile -> frequencies,
// from_1_to_0) and the real DenseVector(Blocked)/SparseMatrixCSR kernels on every patch of a decomposition.
// Only the *message exchange* of SynchVectorTicket is emulated: exactly as in its constructor all send
// buffers are gathered first (mirror.gather), then every patch scatters the buffers it "receives" in the
// arrival order given by the case line (mirror.scatter_axpy), which is what wait() does in wait_any order.
// See lean/FeatModel/Driver/C13.lean for the line protocol.
#include <forkcase.hpp>
#include <exact_q.hpp>
#include <kernel/util/dist.hpp>
#include <kernel/lafem/dense_vector.hpp>
#include <kernel/lafem/dense_vector_blocked.hpp>
#include <kernel/lafem/sparse_matrix_csr.hpp>
#include <kernel/lafem/vector_mirror.hpp>
#include <kernel/global/gate.hpp>
#include <kernel/global/muxer.hpp>
#include <kernel/global/vector.hpp>
#include <kernel/global/matrix.hpp>
#include <kernel/global/filter.hpp>
#include <kernel/global/splitter.hpp>
#include <kernel/lafem/unit_filter.hpp>
#include <kernel/lafem/tuple_vector.hpp>
#include <kernel/lafem/tuple_mirror.hpp>
#include <kernel/lafem/power_vector.hpp>
#include <kernel/lafem/power_mirror.hpp>

using namespace FEAT;
using verif::Cur;

typedef LAFEM::VectorMirror<Q, Index> MirrorT;
typedef LAFEM::DenseVector<Q, Index> BufferT;

struct PatchIn
{
  Index n;                                   // native local size
  std::vector<int> ranks;
  std::vector<std::vector<Index>> mirs;
};

static std::vector<Q> read_rats(Cur& c)
{
  std::size_t n = c.idx();
  std::vector<Q> v(n);
  for(auto& x : v) x = Q::parse(c.str());
  return v;
}

static std::vector<Index> read_idx(Cur& c)
{
  auto l = c.idxlist();
  return std::vector<Index>(l.begin(), l.end());
}

static std::vector<PatchIn> read_decomp(Cur& c)
{
  c.idx(); // number of global DOFs (oracle only)
  Index np = c.idx();
  std::vector<PatchIn> ps(np);
  for(Index r = 0; r < np; ++r) ps[r].n = Index(c.idxlist().size()); // local->global map: only its length matters here
  for(Index r = 0; r < np; ++r)
  {
    Index nn = c.idx();
    for(Index k = 0; k < nn; ++k)
    {
      ps[r].ranks.push_back(int(c.idx()));
      ps[r].mirs.push_back(read_idx(c));
    }
  }
  return ps;
}

static MirrorT make_mirror(Index size, const std::vector<Index>& idx)
{
  MirrorT m(size, Index(idx.size()));
  Index* p = m.indices();
  for(std::size_t i = 0; i < idx.size(); ++i) p[i] = idx[i];
  return m;
}

template<typename VT_>
static VT_ make_vec(Index n, const std::vector<Q>& pod)
{
  VT_ v(n);
  if(v.template size<LAFEM::Perspective::pod>() != Index(pod.size())) { std::cerr << "\n>>> FATAL ERROR: harness: vector length\n"; std::abort(); }
  Q* e = v.template elements<LAFEM::Perspective::pod>();
  for(std::size_t i = 0; i < pod.size(); ++i) e[i] = pod[i];
  return v;
}

template<typename VT_>
static void show_vec(std::ostream& o, const VT_& v)
{
  Index n = v.template size<LAFEM::Perspective::pod>();
  const Q* e = v.template elements<LAFEM::Perspective::pod>();
  o << " " << n;
  for(Index i = 0; i < n; ++i) o << " " << e[i].str();
}

// the gates of all patches; the communicator is never used for communication in this harness
template<typename VT_>
struct Gates
{
  typedef Global::Gate<VT_, MirrorT> GateT;
  Dist::Comm comm;
  std::vector<std::unique_ptr<GateT>> gates;

  explicit Gates(const std::vector<PatchIn>& ps) : comm(Dist::Comm::world())
  {
    for(const auto& p : ps)
    {
      gates.emplace_back(new GateT(comm));
      GateT& g = *gates.back();
      for(std::size_t k = 0; k < p.ranks.size(); ++k)
      {
        // Gate::push asserts rank < comm.size(), which is 1 without MPI: fill the (public) members like push does
        g._ranks.push_back(p.ranks[k]);
        g._mirrors.push_back(make_mirror(p.n, p.mirs[k]));
      }
      g.compile(VT_(p.n));
    }
  }
};

// emulated SynchVectorTicket over all patches; returns false if some posted receive has no matching send
template<typename Gates_, typename VT_>
static bool emulated_sync0(const Gates_& G, std::vector<VT_>& vecs, const std::vector<std::vector<Index>>& ords)
{
  const std::size_t np = vecs.size();
  // constructor part: every patch gathers one send buffer per neighbour from its unsynchronised vector
  std::vector<std::vector<BufferT>> send(np);
  for(std::size_t r = 0; r < np; ++r)
  {
    const auto& mirrors = G.gates[r]->get_mirrors();
    for(std::size_t k = 0; k < mirrors.size(); ++k)
    {
      send[r].emplace_back(mirrors[k].buffer_size(vecs[r]));
      mirrors[k].gather(send[r].back(), vecs[r]);
    }
  }
  // message matching: the buffer patch r receives from neighbour rank s is the one s sent to rank r
  for(std::size_t r = 0; r < np; ++r)
  {
    const auto ranks = G.gates[r]->get_ranks();
    for(std::size_t k = 0; k < ranks.size(); ++k)
    {
      std::size_t s = std::size_t(ranks[k]);
      if(s >= np) return false;
      const auto sranks = G.gates[s]->get_ranks();
      std::size_t kk = 0;
      while(kk < sranks.size() && std::size_t(sranks[kk]) != r) ++kk;
      if(kk >= sranks.size()) return false;
      if(send[s][kk].size() != G.gates[r]->get_mirrors()[k].buffer_size(vecs[r])) return false;
    }
  }
  // wait part: scatter the received buffers in arrival order
  for(std::size_t r = 0; r < np; ++r)
  {
    const auto& mirrors = G.gates[r]->get_mirrors();
    const auto ranks = G.gates[r]->get_ranks();
    for(Index k : ords[r])
    {
      if(k >= mirrors.size()) continue;
      std::size_t s = std::size_t(ranks[k]);
      const auto sranks = G.gates[s]->get_ranks();
      std::size_t kk = 0;
      while(std::size_t(sranks[kk]) != r) ++kk;
      mirrors[k].scatter_axpy(vecs[r], send[s][kk]);
    }
  }
  return true;
}

template<typename VT_>
static void op_freqs(Cur& c, std::ostream& o)
{
  auto ps = read_decomp(c);
  Gates<VT_> G(ps);
  o << "F";
  for(auto& g : G.gates) show_vec(o, g->get_freqs());
}

template<typename VT_>
static void op_sync(Cur& c, std::ostream& o, bool type1)
{
  auto ps = read_decomp(c);
  std::vector<std::vector<Index>> ords;
  for(std::size_t r = 0; r < ps.size(); ++r) ords.push_back(read_idx(c));
  std::vector<VT_> vecs;
  for(std::size_t r = 0; r < ps.size(); ++r) vecs.push_back(make_vec<VT_>(ps[r].n, read_rats(c)));
  Gates<VT_> G(ps);
  if(type1)
    for(std::size_t r = 0; r < ps.size(); ++r) G.gates[r]->from_1_to_0(vecs[r]);   // first half of Gate::sync_1
  if(!emulated_sync0(G, vecs, ords)) { o << "DEADLOCK"; return; }
  o << "V";
  for(auto& v : vecs) show_vec(o, v);
}

template<typename VT_>
static void op_dot(Cur& c, std::ostream& o)
{
  auto ps = read_decomp(c);
  std::vector<VT_> xs, ys;
  for(std::size_t r = 0; r < ps.size(); ++r) xs.push_back(make_vec<VT_>(ps[r].n, read_rats(c)));
  for(std::size_t r = 0; r < ps.size(); ++r) ys.push_back(make_vec<VT_>(ps[r].n, read_rats(c)));
  Gates<VT_> G(ps);
  // Gate::dot for a communicator with more than one rank: local part as in gate.hpp, allreduce-sum emulated
  Q sum(0);
  for(std::size_t r = 0; r < ps.size(); ++r)
  {
    const auto& g = *G.gates[r];
    Q loc = g.get_ranks().empty() ? xs[r].dot(ys[r]) : g.get_freqs().triple_dot(xs[r], ys[r]);
    sum = sum + loc;
  }
  o << "D " << sum.str();
}

static void op_gapply(Cur& c, std::ostream& o)
{
  typedef LAFEM::DenseVector<Q, Index> VT;
  typedef LAFEM::SparseMatrixCSR<Q, Index> MT;
  auto ps = read_decomp(c);
  std::vector<std::vector<Index>> ords;
  for(std::size_t r = 0; r < ps.size(); ++r) ords.push_back(read_idx(c));
  std::vector<MT> mats;
  for(std::size_t r = 0; r < ps.size(); ++r)
  {
    Index nrows = c.idx();
    std::vector<Index> ptr(1, 0), col; std::vector<Q> val;
    for(Index i = 0; i < nrows; ++i)
    {
      Index k = c.idx();
      for(Index j = 0; j < k; ++j) { col.push_back(c.idx()); val.push_back(Q::parse(c.str())); }
      ptr.push_back(Index(col.size()));
    }
    LAFEM::DenseVector<Index, Index> vptr(Index(ptr.size())), vcol(Index(col.size()));
    LAFEM::DenseVector<Q, Index> vval(Index(val.size()));
    for(std::size_t i = 0; i < ptr.size(); ++i) vptr.elements()[i] = ptr[i];
    for(std::size_t i = 0; i < col.size(); ++i) { vcol.elements()[i] = col[i]; vval.elements()[i] = val[i]; }
    mats.emplace_back(nrows, ps[r].n, vcol, vval, vptr);
  }
  std::vector<VT> xs, ys;
  for(std::size_t r = 0; r < ps.size(); ++r) xs.push_back(make_vec<VT>(ps[r].n, read_rats(c)));
  Gates<VT> G(ps);
  // Global::Matrix::apply: local apply, then sync_0 of the result
  for(std::size_t r = 0; r < ps.size(); ++r)
  {
    ys.emplace_back(mats[r].rows());
    mats[r].apply(ys[r], xs[r]);
  }
  if(!emulated_sync0(G, ys, ords)) { o << "DEADLOCK"; return; }
  o << "V";
  for(auto& v : ys) show_vec(o, v);
}

template<typename VT_>
static void op_mirror(Cur& c, std::ostream& o, bool scatter, Index bs)
{
  Index size = c.idx();
  auto mir = read_idx(c);
  Q alpha(1);
  if(scatter) alpha = Q::parse(c.str());
  Index boff = c.idx();
  auto bufv = read_rats(c);
  auto vecv = read_rats(c);
  MirrorT m = make_mirror(size, mir);
  BufferT buf = make_vec<BufferT>(Index(bufv.size()), bufv);
  VT_ vec = make_vec<VT_>(Index(vecv.size()) / bs, vecv);
  o << "B";
  if(scatter) { m.scatter_axpy(vec, buf, alpha, boff); show_vec(o, vec); }
  else { m.gather(buf, vec, boff); show_vec(o, buf); }
}

// ------------------------------------------------------------------------------------------------------------------
// more of the Global layer.  Everything local is the real code (Global::Vector members, Gate::from_1_to_0,
// DenseVector reductions, CSR kernels, Global::Filter<UnitFilter>); the collectives (allreduce, vector exchange)
// are emulated as before, because Gate::sum/min/max/dot and SynchVectorTicket degenerate without MPI.
// ------------------------------------------------------------------------------------------------------------------

template<typename VT_>
static void op_norm(Cur& c, std::ostream& o)
{
  auto ps = read_decomp(c);
  std::vector<VT_> xs;
  for(std::size_t r = 0; r < ps.size(); ++r) xs.push_back(make_vec<VT_>(ps[r].n, read_rats(c)));
  Gates<VT_> G(ps);
  Q sum(0);
  for(std::size_t r = 0; r < ps.size(); ++r)
  {
    const auto& g = *G.gates[r];
    sum = sum + (g.get_ranks().empty() ? xs[r].dot(xs[r]) : g.get_freqs().triple_dot(xs[r], xs[r]));   // Gate::dot(x, x)
  }
  o << "N " << sum.str() << " " << Math::sqrt(sum).str();   // Global::Vector::norm2sqr / norm2
}

template<typename VT_>
static void op_vmax(Cur& c, std::ostream& o)
{
  auto ps = read_decomp(c);
  bool first = true;
  Q maxabs(0), minabs(0), maxel(0), minel(0);
  for(std::size_t r = 0; r < ps.size(); ++r)
  {
    VT_ x = make_vec<VT_>(ps[r].n, read_rats(c));
    // local parts of Global::Vector::max_abs_element / min_abs_element / max_element_async / min_element_async
    Q a = x.max_abs_element(), b = x.min_abs_element(), d = x.max_element(), e = x.min_element();
    // Gate::max / Gate::min (allreduce emulated)
    if(first || a > maxabs) maxabs = a;
    if(first || b < minabs) minabs = b;
    if(first || d > maxel) maxel = d;
    if(first || e < minel) minel = e;
    first = false;
  }
  o << "M " << maxabs.str() << " " << minabs.str() << " " << maxel.str() << " " << minel.str();
}

static void op_gred(Cur& c, std::ostream& o)
{
  // Gate::sum / min / max / norm2: per rank the SynchScalarTicket is constructed and waited for (no-MPI version
  // returns the rank's own value, norm2 squares it); the reduction over the ranks is emulated
  auto l = read_rats(c);
  Dist::Comm comm(Dist::Comm::world());
  Global::Gate<LAFEM::DenseVector<Q, Index>, MirrorT> gate(comm);
  Q sum(0), mn(0), mx(0), sq(0);
  for(std::size_t r = 0; r < l.size(); ++r)
  {
    Q s = gate.sum(l[r]), a = gate.min(l[r]), b = gate.max(l[r]);
    Global::SynchScalarTicket<Q> t(l[r] * l[r], comm, Dist::op_sum, false);   // what norm2_async reduces
    Q q = t.wait();
    sum = sum + s; sq = sq + q;
    if(r == 0 || a < mn) mn = a;
    if(r == 0 || b > mx) mx = b;
  }
  o << "R " << sum.str() << " " << mn.str() << " " << mx.str() << " " << Math::sqrt(sq).str();
}

template<typename VT_>
static void op_vops(Cur& c, std::ostream& o)
{
  typedef Global::Vector<VT_, MirrorT> GV;
  Index mode = c.idx();
  Q a = Q::parse(c.str()), b = Q::parse(c.str());
  auto ps = read_decomp(c);
  std::vector<std::vector<Index>> ords;
  for(std::size_t r = 0; r < ps.size(); ++r) ords.push_back(read_idx(c));
  Gates<VT_> G(ps);
  std::vector<GV> ys, xs, rs;
  for(std::size_t r = 0; r < ps.size(); ++r) ys.emplace_back(G.gates[r].get(), make_vec<VT_>(ps[r].n, read_rats(c)));
  for(std::size_t r = 0; r < ps.size(); ++r) xs.emplace_back(G.gates[r].get(), make_vec<VT_>(ps[r].n, read_rats(c)));
  std::vector<VT_> loc;
  for(std::size_t r = 0; r < ps.size(); ++r)
  {
    GV rv(G.gates[r].get(), VT_(ps[r].n));
    rv.copy(ys[r]);               // Global::Vector::copy
    rv.axpy(xs[r], a);            // Global::Vector::axpy
    rv.scale(rv, b);              // Global::Vector::scale
    if(mode != 0) rv.from_1_to_0();   // first half of Global::Vector::sync_1
    loc.push_back(rv.local().clone());
  }
  if(mode != 0 && !emulated_sync0(G, loc, ords)) { o << "DEADLOCK"; return; }
  o << "V";
  for(auto& v : loc) show_vec(o, v);
}

typedef LAFEM::SparseMatrixCSR<Q, Index> CsrT;

static CsrT read_csr(Cur& c, Index ncols)
{
  Index nrows = c.idx();
  std::vector<Index> ptr(1, 0), col; std::vector<Q> val;
  for(Index i = 0; i < nrows; ++i)
  {
    Index k = c.idx();
    for(Index j = 0; j < k; ++j) { col.push_back(c.idx()); val.push_back(Q::parse(c.str())); }
    ptr.push_back(Index(col.size()));
  }
  LAFEM::DenseVector<Index, Index> vptr(Index(ptr.size())), vcol(Index(col.size()));
  LAFEM::DenseVector<Q, Index> vval(Index(val.size()));
  for(std::size_t i = 0; i < ptr.size(); ++i) vptr.elements()[i] = ptr[i];
  for(std::size_t i = 0; i < col.size(); ++i) { vcol.elements()[i] = col[i]; vval.elements()[i] = val[i]; }
  return CsrT(nrows, ncols, vcol, vval, vptr);
}

static void op_gapply2(Cur& c, std::ostream& o)
{
  typedef LAFEM::DenseVector<Q, Index> VT;
  typedef Global::Vector<VT, MirrorT> GV;
  const bool alias = c.idx() != 0u, transp = c.idx() != 0u;
  Q alpha = Q::parse(c.str());
  auto ps = read_decomp(c);
  std::vector<std::vector<Index>> ords;
  for(std::size_t r = 0; r < ps.size(); ++r) ords.push_back(read_idx(c));
  std::vector<CsrT> mats;
  for(std::size_t r = 0; r < ps.size(); ++r) mats.push_back(read_csr(c, ps[r].n));
  Gates<VT> G(ps);
  std::vector<GV> xs, ys;
  for(std::size_t r = 0; r < ps.size(); ++r) xs.emplace_back(G.gates[r].get(), make_vec<VT>(ps[r].n, read_rats(c)));
  for(std::size_t r = 0; r < ps.size(); ++r) ys.emplace_back(G.gates[r].get(), make_vec<VT>(ps[r].n, read_rats(c)));
  std::vector<VT> loc;
  for(std::size_t r = 0; r < ps.size(); ++r)
  {
    // Global::Matrix::apply / apply_transposed (r, x, y, alpha) line by line; r.sync_0() is the emulated exchange below.
    // alias: r and y are THE SAME Global::Vector object (allowed by the documentation of these overloads)
    GV fresh(G.gates[r].get(), VT(ps[r].n, Q(0)));
    GV& rv = alias ? ys[r] : fresh;
    rv.copy(ys[r]);
    rv.from_1_to_0();
    if(transp) mats[r].apply_transposed(rv.local(), xs[r].local(), rv.local(), alpha);
    else mats[r].apply(rv.local(), xs[r].local(), rv.local(), alpha);
    loc.push_back(rv.local().clone());
  }
  if(!emulated_sync0(G, loc, ords)) { o << "DEADLOCK"; return; }
  o << "V";
  for(auto& v : loc) show_vec(o, v);
}

// Global::Vector members with aliased operands: copy onto itself, axpy(x = *this), scale(*this), component_product(*this, *this),
// then sync_1 (from_1_to_0 + exchange) and Gate::dot(x, x) with both arguments the same object
template<typename VT_>
static void op_valias(Cur& c, std::ostream& o)
{
  typedef Global::Vector<VT_, MirrorT> GV;
  Q a = Q::parse(c.str()), b = Q::parse(c.str());
  auto ps = read_decomp(c);
  std::vector<std::vector<Index>> ords;
  for(std::size_t r = 0; r < ps.size(); ++r) ords.push_back(read_idx(c));
  Gates<VT_> G(ps);
  std::vector<VT_> loc;
  Q dot(0);
  for(std::size_t r = 0; r < ps.size(); ++r)
  {
    GV rv(G.gates[r].get(), make_vec<VT_>(ps[r].n, read_rats(c)));
    rv.copy(rv);
    rv.axpy(rv, a);
    rv.scale(rv, b);
    rv.component_product(rv, rv);
    const auto& g = *G.gates[r];
    dot = dot + (g.get_ranks().empty() ? rv.local().dot(rv.local()) : g.get_freqs().triple_dot(rv.local(), rv.local()));
    rv.from_1_to_0();
    loc.push_back(rv.local().clone());
  }
  if(!emulated_sync0(G, loc, ords)) { o << "DEADLOCK"; return; }
  o << "V";
  for(auto& v : loc) show_vec(o, v);
  o << " D " << dot.str();
}

static void op_gdiag(Cur& c, std::ostream& o)
{
  typedef LAFEM::DenseVector<Q, Index> VT;
  Index kind = c.idx();
  auto ps = read_decomp(c);
  std::vector<std::vector<Index>> ords;
  for(std::size_t r = 0; r < ps.size(); ++r) ords.push_back(read_idx(c));
  Gates<VT> G(ps);
  std::vector<VT> loc;
  for(std::size_t r = 0; r < ps.size(); ++r)
  {
    CsrT m = read_csr(c, ps[r].n);
    VT d(ps[r].n);
    // Global::Matrix::extract_diag / lump_rows: local kernel, then sync_0
    if(kind == 0) m.extract_diag(d); else m.lump_rows(d);
    loc.push_back(std::move(d));
  }
  if(!emulated_sync0(G, loc, ords)) { o << "DEADLOCK"; return; }
  o << "V";
  for(auto& v : loc) show_vec(o, v);
}

static void op_gfilter(Cur& c, std::ostream& o)
{
  typedef LAFEM::DenseVector<Q, Index> VT;
  typedef LAFEM::UnitFilter<Q, Index> UF;
  typedef Global::Filter<UF, MirrorT> GF;
  typedef Global::Vector<VT, MirrorT> GV;
  Index zero = c.idx();
  auto ps = read_decomp(c);
  Gates<VT> G(ps);
  std::vector<GF> fs;
  for(std::size_t r = 0; r < ps.size(); ++r)
  {
    fs.emplace_back(ps[r].n);
    Index k = c.idx();
    for(Index j = 0; j < k; ++j) { Index i = c.idx(); Q a = Q::parse(c.str()); fs.back().local().add(i, a); }
  }
  o << "V";
  for(std::size_t r = 0; r < ps.size(); ++r)
  {
    GV v(G.gates[r].get(), make_vec<VT>(ps[r].n, read_rats(c)));
    if(zero == 0) { fs[r].filter_rhs(v); GV w = v.clone(LAFEM::CloneMode::Deep); fs[r].filter_sol(w); w.axpy(v, Q(-1)); if(w.local().max_abs_element() != Q(0)) { o << " SOL-RHS-DIFFER"; } }
    else { fs[r].filter_def(v); GV w = v.clone(LAFEM::CloneMode::Deep); fs[r].filter_cor(w); w.axpy(v, Q(-1)); if(w.local().max_abs_element() != Q(0)) { o << " COR-DEF-DIFFER"; } }
    show_vec(o, v.local());
  }
}

// Global::Splitter (base splitter): real set_root / push_patch / set_base_vector_template / compile and the real
// from_1_to_0 conversion of Splitter::join; the muxer's MPI_Gather / MPI_Scatter are emulated as in composite.hpp
static void op_splitter(Cur& c, std::ostream& o, bool join)
{
  typedef LAFEM::DenseVector<Q, Index> VT;
  typedef Global::Splitter<VT, MirrorT> SplT;
  typedef Global::Vector<VT, MirrorT> GV;
  auto ps = read_decomp(c);
  const Index np = Index(ps.size());
  Index nbase = c.idx();
  std::vector<std::vector<Index>> rm, bm;
  for(Index r = 0; r < np; ++r) rm.push_back(read_idx(c));
  for(Index r = 0; r < np; ++r) bm.push_back(read_idx(c));
  Gates<VT> G(ps);
  Dist::Comm comm(Dist::Comm::world());
  std::vector<std::unique_ptr<SplT>> spl;
  for(Index r = 0; r < np; ++r)
  {
    spl.emplace_back(new SplT());
    spl[r]->set_root(&comm, 0, make_mirror(ps[r].n, rm[r]));
  }
  for(Index r = 0; r < np; ++r) spl[0]->push_patch(make_mirror(nbase, bm[r]));
  spl[0]->set_base_vector_template(VT(nbase, Q(0)));
  spl[0]->compile(VT(ps[0].n));
  const Index B = spl[0]->_muxer._buffer_size;
  for(Index r = 1; r < np; ++r)
  {
    XASSERT(B >= spl[r]->get_muxer().get_parent_mirror().buffer_size(VT(ps[r].n)));
    spl[r]->_muxer._buffer_size = B;
  }
  const auto& patch_mirrors = spl[0]->get_muxer().get_child_mirrors();
  if(join)
  {
    BufferT child_buffers(B * np, Q(0));
    for(Index r = 0; r < np; ++r)
    {
      GV v(G.gates[r].get(), make_vec<VT>(ps[r].n, read_rats(c)));
      // Splitter::join: type-0 copy of the input, then muxer join / join_send
      GV v0 = v.clone(LAFEM::CloneMode::Deep);
      v0.from_1_to_0();
      BufferT parent_buffer(B, Q(0));
      spl[r]->get_muxer().get_parent_mirror().gather(parent_buffer, v0.local());
      for(Index i = 0; i < B; ++i) child_buffers.elements()[r * B + i] = parent_buffer.elements()[i];
    }
    VT base = spl[0]->create_base_vector();
    base.format();
    for(Index r = 0; r < np; ++r) patch_mirrors.at(r).scatter_axpy(base, child_buffers, Q(1), r * B);
    o << "B";
    show_vec(o, base);
  }
  else
  {
    VT base = make_vec<VT>(nbase, read_rats(c));
    BufferT child_buffers(B * np, Q(0));
    for(Index r = 0; r < np; ++r) patch_mirrors.at(r).gather(child_buffers, base, r * B);
    o << "V";
    for(Index r = 0; r < np; ++r)
    {
      BufferT parent_buffer(B, Q(0));
      for(Index i = 0; i < B; ++i) parent_buffer.elements()[i] = child_buffers.elements()[r * B + i];
      VT trg(ps[r].n);
      trg.format();
      spl[r]->get_muxer().get_parent_mirror().scatter_axpy(trg, parent_buffer);
      show_vec(o, trg);
    }
  }
}

// every asynchronous reduction of Gate / Global::Vector.  Per patch the REAL member is called and its ticket waited for
// (without MPI the ticket hands back the rank's own contribution: the real local part, frequency weights included);
// the allreduce over the patches is emulated, and the ticket's sqrt flag is applied to the reduced value through a
// real SynchScalarTicket.
static Q sqrt_ticket(Q reduced, const Dist::Comm& comm)
{
  Global::SynchScalarTicket<Q> t(reduced, comm, Dist::op_sum, true);
  return t.wait();
}

template<typename VT_>
static void op_async(Cur& c, std::ostream& o)
{
  typedef Global::Vector<VT_, MirrorT> GV;
  auto ps = read_decomp(c);
  Gates<VT_> G(ps);
  std::vector<GV> xs, ys;
  for(std::size_t r = 0; r < ps.size(); ++r) xs.emplace_back(G.gates[r].get(), make_vec<VT_>(ps[r].n, read_rats(c)));
  for(std::size_t r = 0; r < ps.size(); ++r) ys.emplace_back(G.gates[r].get(), make_vec<VT_>(ps[r].n, read_rats(c)));
  Q dxy(0), nsq(0), nsq2(0), gxx(0), ssum(0), ssq(0), sq2(0);
  Q maxabs(0), minabs(0), maxel(0), minel(0), smin(0), smax(0);
  std::vector<Q> locn;
  for(std::size_t r = 0; r < ps.size(); ++r)
  {
    const auto& g = *G.gates[r];
    dxy = dxy + xs[r].dot_async(ys[r]).wait();                    // Global::Vector::dot_async
    nsq = nsq + xs[r].norm2sqr_async().wait();                    // Global::Vector::norm2sqr_async
    locn.push_back(xs[r].norm2_async().wait());                   // Global::Vector::norm2_async: sqrt of this rank's part
    nsq2 = nsq2 + g.dot_async(xs[r].local(), xs[r].local()).wait();        // Gate::dot_async, sqrt = false
    gxx = gxx + g.dot_async(xs[r].local(), xs[r].local(), false).wait();
    Q a = xs[r].max_abs_element_async().wait(), b = xs[r].min_abs_element_async().wait();
    Q d = xs[r].max_element_async().wait(), e = xs[r].min_element_async().wait();
    if(r == 0 || a > maxabs) maxabs = a;
    if(r == 0 || b < minabs) minabs = b;
    if(r == 0 || d > maxel) maxel = d;
    if(r == 0 || e < minel) minel = e;
    Q sc = xs[r].local().template elements<LAFEM::Perspective::pod>()[0];
    ssum = ssum + g.sum_async(sc).wait();                         // Gate::sum_async
    ssq = ssq + g.sum_async(sc * sc, false).wait();
    Q mn = g.min_async(sc).wait(), mx = g.max_async(sc).wait();   // Gate::min_async / max_async
    if(r == 0 || mn < smin) smin = mn;
    if(r == 0 || mx > smax) smax = mx;
    Global::SynchScalarTicket<Q> t(sc * sc, G.comm, Dist::op_sum, false);   // what Gate::norm2_async reduces
    sq2 = sq2 + t.wait();
  }
  o << "A " << dxy.str() << " " << nsq.str() << " " << sqrt_ticket(nsq2, G.comm).str() << " " << sqrt_ticket(gxx, G.comm).str();
  o << " " << locn.size();
  for(auto& q : locn) o << " " << q.str();
  o << " " << maxabs.str() << " " << minabs.str() << " " << maxel.str() << " " << minel.str();
  o << " " << ssum.str() << " " << sqrt_ticket(ssq, G.comm).str() << " " << smin.str() << " " << smax.str() << " " << sqrt_ticket(sq2, G.comm).str();
}

// asynchronous tickets on a gate WITHOUT neighbours (one process, or a rank whose patch touches no other patch):
// Global::Vector::sync_0_async / sync_1_async and Global::Matrix::apply_async, followed by wait() on the returned ticket
static void op_ticket(Cur& c, std::ostream& o)
{
  typedef LAFEM::DenseVector<Q, Index> VT;
  typedef Global::Vector<VT, MirrorT> GV;
  Index kind = c.idx();
  auto v = read_rats(c);
  const Index n = Index(v.size());
  Dist::Comm comm(Dist::Comm::world());
  Global::Gate<VT, MirrorT> gate(comm);
  gate.compile(VT(n));
  GV x(&gate, make_vec<VT>(n, v));
  if(kind == 0u) { auto t = x.sync_0_async(); t.wait(); o << "V"; show_vec(o, x.local()); }
  else if(kind == 1u) { auto t = x.sync_1_async(); t.wait(); o << "V"; show_vec(o, x.local()); }
  else
  {
    std::vector<Index> ptr, col; std::vector<Q> val;
    LAFEM::DenseVector<Index, Index> vptr(n + 1u), vcol(n);
    LAFEM::DenseVector<Q, Index> vval(n);
    for(Index i = 0; i < n; ++i) { vptr.elements()[i] = i; vcol.elements()[i] = i; vval.elements()[i] = Q(2); }
    vptr.elements()[n] = n;
    Global::Matrix<CsrT, MirrorT, MirrorT> A(&gate, &gate, n, n, vcol, vval, vptr);
    GV r(&gate, VT(n, Q(0)));
    auto t = A.apply_async(r, x);
    t.wait();
    o << "V"; show_vec(o, r.local());
  }
}

// ------------------------------------------------------------------------------------------------------------------
// discretise-and-solve: (Jacobi-)Richardson and CG iterations written with the real Global::Vector members, the real
// local CSR kernels and Gate::from_1_to_0 / frequencies; every sync_0 and allreduce is the emulated exchange.
// ------------------------------------------------------------------------------------------------------------------
struct SolveCtx
{
  typedef LAFEM::DenseVector<Q, Index> VT;
  typedef Global::Vector<VT, MirrorT> GV;
  std::vector<PatchIn> ps;
  std::vector<std::vector<Index>> ords;
  std::vector<CsrT> mats;
  std::unique_ptr<Gates<VT>> G;
  std::vector<GV> bs, xs;

  explicit SolveCtx(Cur& c)
  {
    ps = read_decomp(c);
    for(std::size_t r = 0; r < ps.size(); ++r) ords.push_back(read_idx(c));
    for(std::size_t r = 0; r < ps.size(); ++r) mats.push_back(read_csr(c, ps[r].n));
    G.reset(new Gates<VT>(ps));
    for(std::size_t r = 0; r < ps.size(); ++r) bs.emplace_back(G->gates[r].get(), make_vec<VT>(ps[r].n, read_rats(c)));
    for(std::size_t r = 0; r < ps.size(); ++r) xs.emplace_back(G->gates[r].get(), make_vec<VT>(ps[r].n, read_rats(c)));
  }
  std::vector<GV> fresh() const
  {
    std::vector<GV> v;
    for(std::size_t r = 0; r < ps.size(); ++r) v.emplace_back(G->gates[r].get(), VT(ps[r].n, Q(0)));
    return v;
  }
  // sync_0 of all patches
  bool sync0(std::vector<GV>& v) const
  {
    std::vector<VT> loc;
    for(auto& g : v) loc.push_back(g.local().clone());
    if(!emulated_sync0(*G, loc, ords)) return false;
    for(std::size_t r = 0; r < v.size(); ++r) v[r].local().copy(loc[r]);
    return true;
  }
  // Global::Matrix::apply(r, x, y, alpha)
  bool apply_axpy(std::vector<GV>& rv, const std::vector<GV>& x, const std::vector<GV>& y, Q alpha) const
  {
    for(std::size_t r = 0; r < ps.size(); ++r)
    {
      rv[r].copy(y[r]);
      rv[r].from_1_to_0();
      mats[r].apply(rv[r].local(), x[r].local(), rv[r].local(), alpha);
    }
    return sync0(rv);
  }
  // Global::Matrix::apply(r, x)
  bool apply(std::vector<GV>& rv, const std::vector<GV>& x) const
  {
    for(std::size_t r = 0; r < ps.size(); ++r) mats[r].apply(rv[r].local(), x[r].local());
    return sync0(rv);
  }
  // Gate::dot + allreduce
  Q dot(const std::vector<GV>& x, const std::vector<GV>& y) const
  {
    Q s(0);
    for(std::size_t r = 0; r < ps.size(); ++r)
    {
      const auto& g = *G->gates[r];
      s = s + (g.get_ranks().empty() ? x[r].local().dot(y[r].local()) : g.get_freqs().triple_dot(x[r].local(), y[r].local()));
    }
    return s;
  }
};

static void op_rich(Cur& c, std::ostream& o)
{
  const bool jac = c.idx() != 0u;
  Index k = c.idx();
  Q omega = Q::parse(c.str());
  SolveCtx S(c);
  auto d = S.fresh(), inv = S.fresh();
  for(Index it = 0; it < k; ++it)
  {
    if(!S.apply_axpy(d, S.xs, S.bs, Q(-1))) { o << "DEADLOCK"; return; }      // defect b - A x
    if(jac)
    {
      // JacobiPrecond: extract_diag (synchronised), component_invert, component_product
      for(std::size_t r = 0; r < S.ps.size(); ++r) S.mats[r].extract_diag(inv[r].local());
      if(!S.sync0(inv)) { o << "DEADLOCK"; return; }
      for(std::size_t r = 0; r < S.ps.size(); ++r)
      {
        inv[r].component_invert(inv[r]);
        d[r].component_product(d[r], inv[r]);
      }
    }
    for(std::size_t r = 0; r < S.ps.size(); ++r) S.xs[r].axpy(d[r], omega);
  }
  o << "V";
  for(auto& x : S.xs) show_vec(o, x.local());
}

static void op_cg(Cur& c, std::ostream& o)
{
  Index k = c.idx();
  SolveCtx S(c);
  auto r = S.fresh(), p = S.fresh(), q = S.fresh();
  if(!S.apply_axpy(r, S.xs, S.bs, Q(-1))) { o << "DEADLOCK"; return; }
  for(std::size_t i = 0; i < r.size(); ++i) p[i].copy(r[i]);
  Q rr = S.dot(r, r);
  for(Index it = 0; it < k; ++it)
  {
    if(!S.apply(q, p)) { o << "DEADLOCK"; return; }
    Q a = rr / S.dot(p, q);
    for(std::size_t i = 0; i < r.size(); ++i) { S.xs[i].axpy(p[i], a); r[i].axpy(q[i], -a); }
    Q rr2 = S.dot(r, r);
    Q beta = rr2 / rr;
    for(std::size_t i = 0; i < r.size(); ++i) { p[i].scale(p[i], beta); p[i].axpy(r[i], Q(1)); }   // p = r + beta p
    rr = rr2;
  }
  o << "V";
  for(auto& x : S.xs) show_vec(o, x.local());
  o << " R " << rr.str();
}

// PCG with the Jacobi preconditioner (Solver::PCG + Solver::JacobiPrecond on Global::Matrix / Global::Vector)
static void op_pcg(Cur& c, std::ostream& o)
{
  Index k = c.idx();
  SolveCtx S(c);
  auto r = S.fresh(), z = S.fresh(), p = S.fresh(), q = S.fresh(), inv = S.fresh();
  // JacobiPrecond::init_numeric: extract_diag (synchronised), component_invert
  for(std::size_t i = 0; i < S.ps.size(); ++i) S.mats[i].extract_diag(inv[i].local());
  if(!S.sync0(inv)) { o << "DEADLOCK"; return; }
  for(std::size_t i = 0; i < S.ps.size(); ++i) inv[i].component_invert(inv[i]);
  if(!S.apply_axpy(r, S.xs, S.bs, Q(-1))) { o << "DEADLOCK"; return; }
  for(std::size_t i = 0; i < r.size(); ++i) { z[i].component_product(r[i], inv[i]); p[i].copy(z[i]); }
  Q rz = S.dot(r, z);
  for(Index it = 0; it < k; ++it)
  {
    if(!S.apply(q, p)) { o << "DEADLOCK"; return; }
    Q a = rz / S.dot(p, q);
    for(std::size_t i = 0; i < r.size(); ++i)
    {
      S.xs[i].axpy(p[i], a);
      r[i].axpy(q[i], -a);
      z[i].component_product(r[i], inv[i]);
    }
    Q rz2 = S.dot(r, z);
    Q beta = rz2 / rz;
    for(std::size_t i = 0; i < r.size(); ++i) { p[i].scale(p[i], beta); p[i].axpy(z[i], Q(1)); }   // p = z + beta p
    rz = rz2;
  }
  o << "V";
  for(auto& x : S.xs) show_vec(o, x.local());
  o << " R " << rz.str();
}

template<typename VT_>
static bool dispatch(const std::string& op, Cur& c, std::ostream& o, Index bs)
{
  if(op == "freqs") op_freqs<VT_>(c, o);
  else if(op == "sync0") op_sync<VT_>(c, o, false);
  else if(op == "sync1") op_sync<VT_>(c, o, true);
  else if(op == "dot") op_dot<VT_>(c, o);
  else if(op == "norm") op_norm<VT_>(c, o);
  else if(op == "vmax") op_vmax<VT_>(c, o);
  else if(op == "vops") op_vops<VT_>(c, o);
  else if(op == "valias") op_valias<VT_>(c, o);
  else if(op == "async") op_async<VT_>(c, o);
  else if(op == "mgather") op_mirror<VT_>(c, o, false, bs);
  else if(op == "mscatter") op_mirror<VT_>(c, o, true, bs);
  else return false;
  return true;
}

#include "composite.hpp"

static void handle(const verif::Tokens& t, std::ostream& o)
{
  Cur c(t);
  std::string op = c.str();
  if(op == "csync0" || op == "csync1" || op == "cdot" || op == "casync" || op == "cmuxjoin" || op == "cmuxsplit")
  {
    if(!composite_dispatch(op, c, o)) o << "BAD-OP";
    return;
  }
  if(op == "gapply") { op_gapply(c, o); return; }
  if(op == "gapply2") { op_gapply2(c, o); return; }
  if(op == "gdiag") { op_gdiag(c, o); return; }
  if(op == "gfilter") { op_gfilter(c, o); return; }
  if(op == "gred") { op_gred(c, o); return; }
  if(op == "ticket") { op_ticket(c, o); return; }
  if(op == "rich") { op_rich(c, o); return; }
  if(op == "cg") { op_cg(c, o); return; }
  if(op == "pcg") { op_pcg(c, o); return; }
  if(op == "spljoin") { op_splitter(c, o, true); return; }
  if(op == "splsplit") { op_splitter(c, o, false); return; }
  if(op == "freqs" || op == "sync0" || op == "sync1" || op == "dot" || op == "mgather" || op == "mscatter"
    || op == "norm" || op == "vmax" || op == "vops" || op == "valias" || op == "async")
  {
    Index bs = c.idx();
    bool ok = false;
    if(bs == 1) ok = dispatch<LAFEM::DenseVector<Q, Index>>(op, c, o, 1);
    else if(bs == 2) ok = dispatch<LAFEM::DenseVectorBlocked<Q, Index, 2>>(op, c, o, 2);
    else if(bs == 3) ok = dispatch<LAFEM::DenseVectorBlocked<Q, Index, 3>>(op, c, o, 3);
    if(ok) return;
  }
  o << "BAD-OP";
}

int main(int argc, char** argv)
{
  return verif::run_cases(argc, argv, handle);
}
