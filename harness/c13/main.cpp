// C13 harness, part (a): in-process, exact arithmetic (Q).
// Executes the real LAFEM::VectorMirror gather/scatter_axpy, the real Global::Gate (compile -> frequencies,
// from_1_to_0) and the real DenseVector(Blocked)/SparseMatrixCSR kernels on every patch of a decomposition.
// Only the *message exchange* of SynchVectorTicket is emulated: exactly as in its constructor all send
// buffers are gathered first (mirror.gather), then every patch scatters the buffers it "receives" in the
// arrival order given by the case line (mirror.scatter_axpy), which is what wait() does in wait_any order.
// See lean/FeatModel/Driver/C13.lean for the line protocol.
#include <forkcase.hpp>
#include <exact_q.hpp>
#include <kernel/util/dist.hpp>
#include <kernel/lafem/dense_vector.hpp>
#include <kernel/lafem/dense_vector_blocked.hpp>
#include <kernel/lafem/sparse_matrix_csr.hpp>
#include <kernel/lafem/vector_mirror.hpp>
#include <kernel/global/gate.hpp>
#include <kernel/global/muxer.hpp>
#include <kernel/lafem/tuple_vector.hpp>
#include <kernel/lafem/tuple_mirror.hpp>
#include <kernel/lafem/power_vector.hpp>
#include <kernel/lafem/power_mirror.hpp>

using namespace FEAT;
using verif::Cur;

typedef LAFEM::VectorMirror<Q, Index> MirrorT;
typedef LAFEM::DenseVector<Q, Index> BufferT;

struct PatchIn
{
  Index n;                                   // native local size
  std::vector<int> ranks;
  std::vector<std::vector<Index>> mirs;
};

static std::vector<Q> read_rats(Cur& c)
{
  std::size_t n = c.idx();
  std::vector<Q> v(n);
  for(auto& x : v) x = Q::parse(c.str());
  return v;
}

static std::vector<Index> read_idx(Cur& c)
{
  auto l = c.idxlist();
  return std::vector<Index>(l.begin(), l.end());
}

static std::vector<PatchIn> read_decomp(Cur& c)
{
  c.idx(); // number of global DOFs (oracle only)
  Index np = c.idx();
  std::vector<PatchIn> ps(np);
  for(Index r = 0; r < np; ++r) ps[r].n = Index(c.idxlist().size()); // local->global map: only its length matters here
  for(Index r = 0; r < np; ++r)
  {
    Index nn = c.idx();
    for(Index k = 0; k < nn; ++k)
    {
      ps[r].ranks.push_back(int(c.idx()));
      ps[r].mirs.push_back(read_idx(c));
    }
  }
  return ps;
}

static MirrorT make_mirror(Index size, const std::vector<Index>& idx)
{
  MirrorT m(size, Index(idx.size()));
  Index* p = m.indices();
  for(std::size_t i = 0; i < idx.size(); ++i) p[i] = idx[i];
  return m;
}

template<typename VT_>
static VT_ make_vec(Index n, const std::vector<Q>& pod)
{
  VT_ v(n);
  if(v.template size<LAFEM::Perspective::pod>() != Index(pod.size())) { std::cerr << "\n>>> FATAL ERROR: harness: vector length\n"; std::abort(); }
  Q* e = v.template elements<LAFEM::Perspective::pod>();
  for(std::size_t i = 0; i < pod.size(); ++i) e[i] = pod[i];
  return v;
}

template<typename VT_>
static void show_vec(std::ostream& o, const VT_& v)
{
  Index n = v.template size<LAFEM::Perspective::pod>();
  const Q* e = v.template elements<LAFEM::Perspective::pod>();
  o << " " << n;
  for(Index i = 0; i < n; ++i) o << " " << e[i].str();
}

// the gates of all patches; the communicator is never used for communication in this harness
template<typename VT_>
struct Gates
{
  typedef Global::Gate<VT_, MirrorT> GateT;
  Dist::Comm comm;
  std::vector<std::unique_ptr<GateT>> gates;

  explicit Gates(const std::vector<PatchIn>& ps) : comm(Dist::Comm::world())
  {
    for(const auto& p : ps)
    {
      gates.emplace_back(new GateT(comm));
      GateT& g = *gates.back();
      for(std::size_t k = 0; k < p.ranks.size(); ++k)
      {
        // Gate::push asserts rank < comm.size(), which is 1 without MPI: fill the (public) members like push does
        g._ranks.push_back(p.ranks[k]);
        g._mirrors.push_back(make_mirror(p.n, p.mirs[k]));
      }
      g.compile(VT_(p.n));
    }
  }
};

// emulated SynchVectorTicket over all patches; returns false if some posted receive has no matching send
template<typename Gates_, typename VT_>
static bool emulated_sync0(const Gates_& G, std::vector<VT_>& vecs, const std::vector<std::vector<Index>>& ords)
{
  const std::size_t np = vecs.size();
  // constructor part: every patch gathers one send buffer per neighbour from its unsynchronised vector
  std::vector<std::vector<BufferT>> send(np);
  for(std::size_t r = 0; r < np; ++r)
  {
    const auto& mirrors = G.gates[r]->get_mirrors();
    for(std::size_t k = 0; k < mirrors.size(); ++k)
    {
      send[r].emplace_back(mirrors[k].buffer_size(vecs[r]));
      mirrors[k].gather(send[r].back(), vecs[r]);
    }
  }
  // message matching: the buffer patch r receives from neighbour rank s is the one s sent to rank r
  for(std::size_t r = 0; r < np; ++r)
  {
    const auto ranks = G.gates[r]->get_ranks();
    for(std::size_t k = 0; k < ranks.size(); ++k)
    {
      std::size_t s = std::size_t(ranks[k]);
      if(s >= np) return false;
      const auto sranks = G.gates[s]->get_ranks();
      std::size_t kk = 0;
      while(kk < sranks.size() && std::size_t(sranks[kk]) != r) ++kk;
      if(kk >= sranks.size()) return false;
      if(send[s][kk].size() != G.gates[r]->get_mirrors()[k].buffer_size(vecs[r])) return false;
    }
  }
  // wait part: scatter the received buffers in arrival order
  for(std::size_t r = 0; r < np; ++r)
  {
    const auto& mirrors = G.gates[r]->get_mirrors();
    const auto ranks = G.gates[r]->get_ranks();
    for(Index k : ords[r])
    {
      if(k >= mirrors.size()) continue;
      std::size_t s = std::size_t(ranks[k]);
      const auto sranks = G.gates[s]->get_ranks();
      std::size_t kk = 0;
      while(std::size_t(sranks[kk]) != r) ++kk;
      mirrors[k].scatter_axpy(vecs[r], send[s][kk]);
    }
  }
  return true;
}

template<typename VT_>
static void op_freqs(Cur& c, std::ostream& o)
{
  auto ps = read_decomp(c);
  Gates<VT_> G(ps);
  o << "F";
  for(auto& g : G.gates) show_vec(o, g->get_freqs());
}

template<typename VT_>
static void op_sync(Cur& c, std::ostream& o, bool type1)
{
  auto ps = read_decomp(c);
  std::vector<std::vector<Index>> ords;
  for(std::size_t r = 0; r < ps.size(); ++r) ords.push_back(read_idx(c));
  std::vector<VT_> vecs;
  for(std::size_t r = 0; r < ps.size(); ++r) vecs.push_back(make_vec<VT_>(ps[r].n, read_rats(c)));
  Gates<VT_> G(ps);
  if(type1)
    for(std::size_t r = 0; r < ps.size(); ++r) G.gates[r]->from_1_to_0(vecs[r]);   // first half of Gate::sync_1
  if(!emulated_sync0(G, vecs, ords)) { o << "DEADLOCK"; return; }
  o << "V";
  for(auto& v : vecs) show_vec(o, v);
}

template<typename VT_>
static void op_dot(Cur& c, std::ostream& o)
{
  auto ps = read_decomp(c);
  std::vector<VT_> xs, ys;
  for(std::size_t r = 0; r < ps.size(); ++r) xs.push_back(make_vec<VT_>(ps[r].n, read_rats(c)));
  for(std::size_t r = 0; r < ps.size(); ++r) ys.push_back(make_vec<VT_>(ps[r].n, read_rats(c)));
  Gates<VT_> G(ps);
  // Gate::dot for a communicator with more than one rank: local part as in gate.hpp, allreduce-sum emulated
  Q sum(0);
  for(std::size_t r = 0; r < ps.size(); ++r)
  {
    const auto& g = *G.gates[r];
    Q loc = g.get_ranks().empty() ? xs[r].dot(ys[r]) : g.get_freqs().triple_dot(xs[r], ys[r]);
    sum = sum + loc;
  }
  o << "D " << sum.str();
}

static void op_gapply(Cur& c, std::ostream& o)
{
  typedef LAFEM::DenseVector<Q, Index> VT;
  typedef LAFEM::SparseMatrixCSR<Q, Index> MT;
  auto ps = read_decomp(c);
  std::vector<std::vector<Index>> ords;
  for(std::size_t r = 0; r < ps.size(); ++r) ords.push_back(read_idx(c));
  std::vector<MT> mats;
  for(std::size_t r = 0; r < ps.size(); ++r)
  {
    Index nrows = c.idx();
    std::vector<Index> ptr(1, 0), col; std::vector<Q> val;
    for(Index i = 0; i < nrows; ++i)
    {
      Index k = c.idx();
      for(Index j = 0; j < k; ++j) { col.push_back(c.idx()); val.push_back(Q::parse(c.str())); }
      ptr.push_back(Index(col.size()));
    }
    LAFEM::DenseVector<Index, Index> vptr(Index(ptr.size())), vcol(Index(col.size()));
    LAFEM::DenseVector<Q, Index> vval(Index(val.size()));
    for(std::size_t i = 0; i < ptr.size(); ++i) vptr.elements()[i] = ptr[i];
    for(std::size_t i = 0; i < col.size(); ++i) { vcol.elements()[i] = col[i]; vval.elements()[i] = val[i]; }
    mats.emplace_back(nrows, ps[r].n, vcol, vval, vptr);
  }
  std::vector<VT> xs, ys;
  for(std::size_t r = 0; r < ps.size(); ++r) xs.push_back(make_vec<VT>(ps[r].n, read_rats(c)));
  Gates<VT> G(ps);
  // Global::Matrix::apply: local apply, then sync_0 of the result
  for(std::size_t r = 0; r < ps.size(); ++r)
  {
    ys.emplace_back(mats[r].rows());
    mats[r].apply(ys[r], xs[r]);
  }
  if(!emulated_sync0(G, ys, ords)) { o << "DEADLOCK"; return; }
  o << "V";
  for(auto& v : ys) show_vec(o, v);
}

template<typename VT_>
static void op_mirror(Cur& c, std::ostream& o, bool scatter, Index bs)
{
  Index size = c.idx();
  auto mir = read_idx(c);
  Q alpha(1);
  if(scatter) alpha = Q::parse(c.str());
  Index boff = c.idx();
  auto bufv = read_rats(c);
  auto vecv = read_rats(c);
  MirrorT m = make_mirror(size, mir);
  BufferT buf = make_vec<BufferT>(Index(bufv.size()), bufv);
  VT_ vec = make_vec<VT_>(Index(vecv.size()) / bs, vecv);
  o << "B";
  if(scatter) { m.scatter_axpy(vec, buf, alpha, boff); show_vec(o, vec); }
  else { m.gather(buf, vec, boff); show_vec(o, buf); }
}

template<typename VT_>
static bool dispatch(const std::string& op, Cur& c, std::ostream& o, Index bs)
{
  if(op == "freqs") op_freqs<VT_>(c, o);
  else if(op == "sync0") op_sync<VT_>(c, o, false);
  else if(op == "sync1") op_sync<VT_>(c, o, true);
  else if(op == "dot") op_dot<VT_>(c, o);
  else if(op == "mgather") op_mirror<VT_>(c, o, false, bs);
  else if(op == "mscatter") op_mirror<VT_>(c, o, true, bs);
  else return false;
  return true;
}

#include "composite.hpp"

static void handle(const verif::Tokens& t, std::ostream& o)
{
  Cur c(t);
  std::string op = c.str();
  if(op == "csync0" || op == "csync1" || op == "cdot" || op == "cmuxjoin" || op == "cmuxsplit")
  {
    if(!composite_dispatch(op, c, o)) o << "BAD-OP";
    return;
  }
  if(op == "gapply") { op_gapply(c, o); return; }
  if(op == "freqs" || op == "sync0" || op == "sync1" || op == "dot" || op == "mgather" || op == "mscatter")
  {
    Index bs = c.idx();
    bool ok = false;
    if(bs == 1) ok = dispatch<LAFEM::DenseVector<Q, Index>>(op, c, o, 1);
    else if(bs == 2) ok = dispatch<LAFEM::DenseVectorBlocked<Q, Index, 2>>(op, c, o, 2);
    else if(bs == 3) ok = dispatch<LAFEM::DenseVectorBlocked<Q, Index, 3>>(op, c, o, 3);
    if(ok) return;
  }
  o << "BAD-OP";
}

int main(int argc, char** argv)
{
  return verif::run_cases(argc, argv, handle);
}
