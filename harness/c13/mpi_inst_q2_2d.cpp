#include "mpi_run.hpp"
namespace C13 { int run_q2_2d(const FEAT::Dist::Comm& c, FEAT::SimpleArgParser& a, bool s) { return run<FEAT::Shape::Hypercube<2>, FEAT::Space::Lagrange2::Element, FEAT::Space::Lagrange1::Element>(c, a, s); } }
