#include "mpi_run.hpp"
namespace C13 { int run_q1_3d(const FEAT::Dist::Comm& c, FEAT::SimpleArgParser& a, bool s) { return run<FEAT::Shape::Hypercube<3>, FEAT::Space::Lagrange1::Element, FEAT::Space::Lagrange2::Element>(c, a, s); } }
