// C18 harness: instantiations for HexaMesh
#include "fe.hpp"
namespace c18
{
  bool run_hexa(const std::string& op, const Config& cfg, Cur& c, std::ostream& o)
  {
    if(cfg.space == "l1") { run_case<HexaMesh, TagL1>(op, cfg, c, o); return true; }
    if(cfg.space == "l2") { run_case<HexaMesh, TagL2>(op, cfg, c, o); return true; }
    if(cfg.space == "d0") { run_case<HexaMesh, TagD0>(op, cfg, c, o); return true; }
    if(cfg.space == "cr") { run_case<HexaMesh, TagCR>(op, cfg, c, o); return true; }
    return false;
  }
}
