// C18 harness: executes the real grid-transfer code on one case per line (see FeatModel/Driver/C18.lean)
//   inv n stride a11 .. ann                      Math::invert_matrix<Q,int> (in-situ Gauss-Jordan)
//   xfer <csr P> <csr T> <x> <y>                 SparseMatrixCSR::transpose + LAFEM::Transfer::prol/rest/trunc
//   dump|fe|feo <config> ...                     GridTransfer on real meshes/spaces (fe.hpp)
#include "fe.hpp"

using namespace FEAT;
using verif::Cur;
using namespace c18;

static MatrixType read_csr(Cur& c)
{
  Index rows = c.idx(), cols = c.idx();
  auto rp = c.idxlist(); auto ci = c.idxlist(); std::vector<Q> va = qlist(c);
  Index nnz = Index(ci.size());
  if(rp.size() != rows + 1 || va.size() != nnz) { std::cerr << "\n>>> FATAL ERROR: harness: bad csr\n"; std::abort(); }
  if(nnz == 0)
    return MatrixType(rows, cols);
  LAFEM::DenseVector<Index, Index> vrp(rows + 1), vci(nnz);
  LAFEM::DenseVector<Q, Index> vva(nnz);
  for(Index i(0); i <= rows; ++i) vrp(i, Index(rp[i]));
  for(Index i(0); i < nnz; ++i) { vci(i, Index(ci[i])); vva(i, va[i]); }
  return MatrixType(rows, cols, vci, vva, vrp);
}

static void handle(const verif::Tokens& t, std::ostream& o)
{
  Cur c(t);
  std::string op = c.str();
  if(op == "inv")
  {
    int n = int(c.idx()), stride = int(c.idx());
    std::vector<Q> a(std::size_t(n > 0 ? n * stride : 0) + 1, Q(7));
    for(int i = 0; i < n; ++i)
      for(int j = 0; j < n; ++j)
        a[std::size_t(i * stride + j)] = qtok(c);
    std::vector<int> p(std::size_t(n) + 1, -1);
    Q det = Math::invert_matrix(n, stride, a.data(), p.data());
    o << "I " << det.str() << " " << (n >= 1 && stride >= n ? n * n : 0);
    if(n >= 1 && stride >= n)
      for(int i = 0; i < n; ++i)
        for(int j = 0; j < n; ++j)
          o << " " << a[std::size_t(i * stride + j)].str();
    // pivot order (only written for n >= 2) and padding untouched
    o << " " << (n >= 2 && stride >= n ? n : 0);
    if(n >= 2 && stride >= n)
      for(int i = 0; i < n; ++i) o << " " << p[std::size_t(i)];
    bool pad_ok = true;
    for(int i = 0; i < n; ++i)
      for(int j = n; j < stride; ++j)
        if(i * stride + j < int(a.size()) - 1 && a[std::size_t(i * stride + j)] != Q(7)) pad_ok = false;
    o << (pad_ok ? " PAD-OK" : " PAD-TOUCHED");
    return;
  }
  if(op == "xfer")
  {
    MatrixType prol = read_csr(c);
    MatrixType trunc = read_csr(c);
    std::vector<Q> xv = qlist(c), yv = qlist(c);
    MatrixType rest = prol.transpose();
    o << "R "; show_csr(o, rest);
    VectorType xc(Index(xv.size())), yf(Index(yv.size()));
    for(Index i(0); i < xc.size(); ++i) xc(i, xv[i]);
    for(Index i(0); i < yf.size(); ++i) yf(i, yv[i]);
    LAFEM::Transfer<MatrixType> transfer(std::move(prol), std::move(rest), std::move(trunc));
    VectorType tp(yf.size()), tr(xc.size()), tt(xc.size());
    // start from non-zero contents: the operators must overwrite, not accumulate
    tp.format(Q(5)); tr.format(Q(5)); tt.format(Q(5));
    transfer.prol(tp, xc);
    transfer.rest(yf, tr);
    transfer.trunc(yf, tt);
    o << " XP "; show_vec(o, tp);
    o << " XR "; show_vec(o, tr);
    o << " XT "; show_vec(o, tt);
    o << " TW";
    transfer_twins_sections(o, transfer.get_mat_prol(), transfer.get_mat_rest(), transfer.get_mat_trunc(), xc, yf);
    return;
  }
  if(op == "childmap")
  {
    std::string shape = c.str();
    if(shape == "line") childmap<Shape::Hypercube<1>>(c, o);
    else if(shape == "quad") childmap<Shape::Hypercube<2>>(c, o);
    else if(shape == "hexa") childmap<Shape::Hypercube<3>>(c, o);
    else if(shape == "tria") childmap<Shape::Simplex<2>>(c, o);
    else o << "BAD-OP";
    return;
  }
  if(op == "fxfer")
  {
    MatrixType prol = read_csr(c);
    MatrixType trunc = read_csr(c);
    std::vector<Q> xv = qlist(c), yv = qlist(c);
    MatrixType rest = prol.transpose();
    VectorType xc(Index(xv.size())), yf(Index(yv.size()));
    for(Index i(0); i < xc.size(); ++i) xc(i, xv[i]);
    for(Index i(0); i < yf.size(); ++i) yf(i, yv[i]);
    o << "F";
    float_convert_sections(o, prol, rest, trunc, xc, yf);
    return;
  }
  if(op == "gxfer" || op == "gforbid")
  {
    int which = (op == "gforbid" ? int(c.idx()) : 0);
    MatrixType prol = read_csr(c);
    MatrixType trunc = read_csr(c);
    std::vector<Q> xv = qlist(c), yv = qlist(c);
    MatrixType rest = prol.transpose();
    VectorType xc(Index(xv.size())), yf(Index(yv.size()));
    for(Index i(0); i < xc.size(); ++i) xc(i, xv[i]);
    for(Index i(0); i < yf.size(); ++i) yf(i, yv[i]);
    if(op == "gforbid") { global_transfer_forbidden(o, which, prol, rest, trunc, xc, yf); return; }
    o << "G";
    global_transfer_sections(o, prol, rest, trunc, xc, yf);
    o << " TW";
    transfer_twins_sections(o, prol, rest, trunc, xc, yf);
    return;
  }
  if(op == "dump" || op == "fe" || op == "feo")
  {
    Config cfg; cfg.read(c);
    bool ok = false;
    if(cfg.shape == "quad") ok = run_quad(op, cfg, c, o);
    else if(cfg.shape == "tria") ok = run_tria(op, cfg, c, o);
    else if(cfg.shape == "hexa") ok = run_hexa(op, cfg, c, o);
    else if(cfg.shape == "tetra") ok = run_tetra(op, cfg, c, o);
    if(!ok) o << "BAD-OP";
    return;
  }
  o << "BAD-OP";
}

int main(int argc, char** argv)
{
  return verif::run_cases(argc, argv, handle);
}
