// C18 harness, finite-element part: runs the REAL GridTransfer / LAFEM::Transfer code of /repo at the exact scalar Q
// on small refined meshes and prints (a) the ingredients the assembly loop sees (values of the real basis functions
// at the real cubature points, real dof-mappings, real cell mapping / permutation lookups) and (b) the results of the
// real operators.  Nothing of the code under test is re-implemented: the `dump` only *evaluates* the real evaluators.
#pragma once
#include <exact_q.hpp>
#include <forkcase.hpp>
#include <kernel/assembly/grid_transfer.hpp>
#include <kernel/assembly/symbolic_assembler.hpp>
#include <kernel/assembly/interpolator.hpp>
#include <kernel/analytic/lambda_function.hpp>
#include <kernel/geometry/conformal_mesh.hpp>
#include <kernel/geometry/structured_mesh.hpp>
#include <kernel/geometry/common_factories.hpp>
#include <kernel/geometry/mesh_permutation.hpp>
#include <kernel/lafem/sparse_matrix_csr.hpp>
#include <kernel/lafem/dense_vector.hpp>
#include <kernel/lafem/transfer.hpp>
#include <kernel/cubature/dynamic_factory.hpp>
#include <kernel/cubature/refine_factory.hpp>
#include <kernel/trafo/standard/mapping.hpp>
#include <kernel/space/lagrange1/element.hpp>
#include <kernel/space/lagrange2/element.hpp>
#include <kernel/space/lagrange3/element.hpp>
#include <kernel/space/discontinuous/element.hpp>
#include <kernel/space/bernstein2/element.hpp>
#include <kernel/space/cro_rav_ran_tur/element.hpp>

namespace c18
{
  using namespace FEAT;
  using verif::Cur;
  typedef LAFEM::SparseMatrixCSR<Q, Index> MatrixType;
  typedef LAFEM::DenseVector<Q, Index> VectorType;

  inline Q qtok(Cur& c) { return Q::parse(c.str()); }
  inline std::vector<Q> qlist(Cur& c) { std::size_t n = c.idx(); std::vector<Q> v(n); for(auto& x : v) x = qtok(c); return v; }

  inline void show_vec(std::ostream& o, const VectorType& v)
  {
    o << v.size();
    for(Index i(0); i < v.size(); ++i) o << " " << v(i).str();
  }

  inline void show_dense(std::ostream& o, const MatrixType& m)
  {
    o << m.rows() << " " << m.columns();
    for(Index i(0); i < m.rows(); ++i)
      for(Index j(0); j < m.columns(); ++j)
        o << " " << m(i, j).str();
  }

  // raw CSR arrays; a container without arrays (SparseMatrixCSR(rows, cols)) prints three empty lists
  inline void show_csr(std::ostream& o, const MatrixType& m)
  {
    o << m.rows() << " " << m.columns();
    if(m.row_ptr() == nullptr) { o << " 0 0 0"; return; }
    o << " " << (m.rows() + 1);
    for(Index i(0); i <= m.rows(); ++i) o << " " << m.row_ptr()[i];
    o << " " << m.used_elements();
    for(Index i(0); i < m.used_elements(); ++i) o << " " << m.col_ind()[i];
    o << " " << m.used_elements();
    for(Index i(0); i < m.used_elements(); ++i) o << " " << m.val()[i].str();
  }

  // mesh permutation by strategy number (MeshPermutation::create() cannot be instantiated at Q because of the
  // `static constexpr Coord_ tol_` of the lexicographic strategy, so the individual creators are called):
  // 1 random (default seed), 2 random (other seed), 3 colored, 4/5 Cuthill-McKee (reversed), 6/7 geometric CM (reversed)
  template<typename Mesh_>
  void permute_mesh(Mesh_& mesh, Index k)
  {
    if(k == 0) return;
    typename Mesh_::MeshPermutationType mp;
    const auto& ish = mesh.get_index_set_holder();
    switch(k)
    {
    case 1: mp.create_random(ish); break;
    case 2: { Random rng(Random::SeedType(4711u)); mp.create_random(ish, rng); } break;
    case 3: mp.create_colored(ish); break;
    case 4: mp.create_cmk(ish, false); break;
    case 5: mp.create_cmk(ish, true); break;
    case 6: mp.create_gcmk(ish, mesh.get_vertex_set(), false); break;
    default: mp.create_gcmk(ish, mesh.get_vertex_set(), true); break;
    }
    mesh.set_permutation(std::move(mp));
  }

  // configuration of one FE case (tokens after the op name)
  struct Config
  {
    std::string shape, space, cubature;
    Index level, perm_c, perm_f;
    std::vector<Q> affine;   // dim*dim matrix + dim translation (row major), applied to every coarse vertex
    std::vector<Q> offsets;  // cyclic per-coordinate perturbations of the coarse vertices (non-affine distortion)
    void read(Cur& c)
    {
      shape = c.str(); space = c.str(); cubature = c.str();
      level = c.idx(); perm_c = c.idx(); perm_f = c.idx();
      affine = qlist(c); offsets = qlist(c);
    }
  };

  template<typename Mesh_>
  void distort(Mesh_& mesh, const Config& cfg)
  {
    auto& vtx = mesh.get_vertex_set();
    const int dim = Mesh_::world_dim;
    const Index nv = vtx.get_num_vertices();
    std::size_t k = 0;
    for(Index i(0); i < nv; ++i)
    {
      Q x[3] = {Q(0), Q(0), Q(0)}, y[3];
      for(int d(0); d < dim; ++d) x[d] = vtx[i][d];
      if(cfg.affine.size() == std::size_t(dim * dim + dim))
      {
        for(int r(0); r < dim; ++r)
        {
          y[r] = cfg.affine[std::size_t(dim * dim + r)];
          for(int s(0); s < dim; ++s) y[r] += cfg.affine[std::size_t(r * dim + s)] * x[s];
        }
      }
      else
        for(int r(0); r < dim; ++r) y[r] = x[r];
      for(int d(0); d < dim; ++d)
      {
        if(!cfg.offsets.empty()) { y[d] += cfg.offsets[k % cfg.offsets.size()]; ++k; }
        vtx[i][d] = y[d];
      }
    }
  }

  // everything of one case: meshes, trafos, spaces
  template<typename Mesh_, typename SpaceTag_>
  struct Setup
  {
    typedef Mesh_ MeshType;
    typedef Trafo::Standard::Mapping<Mesh_> TrafoType;
    typedef typename SpaceTag_::template Space<TrafoType> SpaceType;
    std::unique_ptr<Mesh_> mesh_c, mesh_f;
    std::unique_ptr<TrafoType> trafo_c, trafo_f;
    std::unique_ptr<SpaceType> space_c, space_f;

    explicit Setup(const Config& cfg)
    {
      Geometry::RefinedUnitCubeFactory<Mesh_> factory(cfg.level);
      mesh_c.reset(new Mesh_(factory));
      distort(*mesh_c, cfg);
      Geometry::StandardRefinery<Mesh_> refinery(*mesh_c);
      mesh_f.reset(new Mesh_(refinery));
      // the two-level ordering refers to the unpermuted meshes; permute afterwards (as Control::Domain does)
      permute_mesh(*mesh_c, cfg.perm_c);
      permute_mesh(*mesh_f, cfg.perm_f);
      trafo_c.reset(new TrafoType(*mesh_c));
      trafo_f.reset(new TrafoType(*mesh_f));
      space_c.reset(new SpaceType(*trafo_c));
      space_f.reset(new SpaceType(*trafo_f));
    }
  };

  // ---------------------------------------------------------------------------------------------------------------
  // dump: what the assembly loops of GridTransfer see, obtained from the real evaluators -- indexed by MESH cell
  // numbers (no cell lookup is done here: the two permutation lookups and calc_fcell are part of the model)
  //   D nf nc ncells nchild nfine npts  CP <coarse get_perm positions | 0>  FP <fine get_inv_perm positions | 0>
  //     PAT <row_ptr> <col_ind>                                   layout of the prolongation matrix (2-level graph)
  //     REF <reference coordinates of the cubature points>
  //     { cmap  ncp { w C-row }  { C-row [xc..] }*npts*nchild }*ncells     coarse cells in mesh order
  //     { fmap  { w F-row [xf..] }*npts }*nfine                            fine cells in mesh order
  // ---------------------------------------------------------------------------------------------------------------
  template<typename FineSpace_, typename CoarseSpace_>
  void dump(std::ostream& o, const FineSpace_& fine_space, const CoarseSpace_& coarse_space, const String& cubature_name, bool with_points)
  {
    typedef Q DataType;
    typedef typename FineSpace_::TrafoType FineTrafoType;
    typedef typename CoarseSpace_::TrafoType CoarseTrafoType;
    typedef typename CoarseSpace_::ShapeType ShapeType;
    typedef typename FineSpace_::DofMappingType FineDofMapping;
    typedef typename CoarseSpace_::DofMappingType CoarseDofMapping;
    typedef typename FineTrafoType::template Evaluator<ShapeType, DataType>::Type FineTrafoEvaluator;
    typedef typename CoarseTrafoType::template Evaluator<ShapeType, DataType>::Type CoarseTrafoEvaluator;
    typedef typename FineSpace_::template Evaluator<FineTrafoEvaluator>::Type FineSpaceEvaluator;
    typedef typename CoarseSpace_::template Evaluator<CoarseTrafoEvaluator>::Type CoarseSpaceEvaluator;
    typedef typename FineSpaceEvaluator::template ConfigTraits<SpaceTags::value> FineSpaceConfigTraits;
    typedef typename CoarseSpaceEvaluator::template ConfigTraits<SpaceTags::value> CoarseSpaceConfigTraits;
    static constexpr TrafoTags fine_trafo_config = TrafoTags::jac_det | TrafoTags::img_point | FineSpaceConfigTraits::trafo_config;
    static constexpr TrafoTags coarse_trafo_config = TrafoTags::jac_det | TrafoTags::img_point | CoarseSpaceConfigTraits::trafo_config;
    typedef typename FineTrafoEvaluator::template ConfigTraits<fine_trafo_config>::EvalDataType FineTrafoEvalData;
    typedef typename CoarseTrafoEvaluator::template ConfigTraits<coarse_trafo_config>::EvalDataType CoarseTrafoEvalData;
    typedef typename FineSpaceEvaluator::template ConfigTraits<SpaceTags::value>::EvalDataType FineSpaceEvalData;
    typedef typename CoarseSpaceEvaluator::template ConfigTraits<SpaceTags::value>::EvalDataType CoarseSpaceEvalData;
    typedef typename Assembly::Intern::CubatureTraits<FineTrafoEvaluator>::RuleType CubatureRuleType;
    FineTrafoEvalData fine_trafo_data; CoarseTrafoEvalData coarse_trafo_data;
    FineSpaceEvalData fine_space_data; CoarseSpaceEvalData coarse_space_data;

    FineDofMapping fine_dof_mapping(fine_space);
    CoarseDofMapping coarse_dof_mapping(coarse_space);
    const FineTrafoType& fine_trafo = fine_space.get_trafo();
    const CoarseTrafoType& coarse_trafo = coarse_space.get_trafo();
    FineTrafoEvaluator fine_trafo_eval(fine_trafo);
    CoarseTrafoEvaluator coarse_trafo_eval(coarse_trafo);
    FineSpaceEvaluator fine_space_eval(fine_space);
    CoarseSpaceEvaluator coarse_space_eval(coarse_space);

    Cubature::DynamicFactory cubature_factory(cubature_name);
    CubatureRuleType fine_cubature(Cubature::ctor_factory, cubature_factory);
    CubatureRuleType refine_cubature;
    Cubature::RefineFactoryCore::create(refine_cubature, fine_cubature);

    const Adjacency::Permutation& coarse_perm = coarse_trafo.get_mesh().get_mesh_permutation().get_perm();
    const Adjacency::Permutation& fine_perm = fine_trafo.get_mesh().get_mesh_permutation().get_inv_perm();
    const int dim = ShapeType::dimension;
    const Index ncells = coarse_trafo_eval.get_num_cells();
    const Index nfine = fine_trafo_eval.get_num_cells();
    const Index nchild = (ncells > 0 ? nfine / ncells : Index(0));
    const int npts = fine_cubature.get_num_points();

    o << "D " << fine_space.get_num_dofs() << " " << coarse_space.get_num_dofs() << " "
      << ncells << " " << nchild << " " << nfine << " " << npts;
    o << " CP " << coarse_perm.size();
    for(Index i(0); i < coarse_perm.size(); ++i) o << " " << coarse_perm.get_perm_pos()[i];
    o << " FP " << fine_perm.size();
    for(Index i(0); i < fine_perm.size(); ++i) o << " " << fine_perm.get_perm_pos()[i];
    {
      MatrixType pat;
      Assembly::SymbolicAssembler::assemble_matrix_2lvl(pat, fine_space, coarse_space);
      o << " PAT " << (pat.rows() + 1);
      for(Index i(0); i <= pat.rows(); ++i) o << " " << pat.row_ptr()[i];
      o << " " << pat.used_elements();
      for(Index i(0); i < pat.used_elements(); ++i) o << " " << pat.col_ind()[i];
    }
    // reference coordinates of the cubature points (the refined points are the child maps of these)
    o << " REF " << (npts * dim);
    for(int k(0); k < npts; ++k)
      for(int d(0); d < dim; ++d) o << " " << Q(fine_cubature.get_point(k)[d]).str();
    for(Index ccell(0); ccell < ncells; ++ccell)
    {
      coarse_trafo_eval.prepare(ccell);
      coarse_space_eval.prepare(coarse_trafo_eval);
      const int ncl = coarse_space_eval.get_num_local_dofs();
      coarse_dof_mapping.prepare(ccell);
      o << " " << ncl;
      for(int j(0); j < ncl; ++j) o << " " << coarse_dof_mapping.get_index(j);
      coarse_dof_mapping.finish();
      // coarse cubature loop (truncation: coarse mass matrix)
      o << " " << npts;
      for(int k(0); k < npts; ++k)
      {
        coarse_trafo_eval(coarse_trafo_data, fine_cubature.get_point(k));
        coarse_space_eval(coarse_space_data, coarse_trafo_data);
        o << " " << Q(coarse_trafo_data.jac_det * fine_cubature.get_weight(k)).str();
        for(int j(0); j < ncl; ++j) o << " " << Q(coarse_space_data.phi[j].value).str();
      }
      // coarse basis at the points of the refined rule: point l = child * npts + k
      for(int l(0); l < int(nchild) * npts; ++l)
      {
        coarse_trafo_eval(coarse_trafo_data, refine_cubature.get_point(l));
        coarse_space_eval(coarse_space_data, coarse_trafo_data);
        for(int j(0); j < ncl; ++j) o << " " << Q(coarse_space_data.phi[j].value).str();
        if(with_points)
          for(int d(0); d < dim; ++d) o << " " << Q(coarse_trafo_data.img_point[d]).str();
      }
      coarse_space_eval.finish();
      coarse_trafo_eval.finish();
    }
    for(Index fcell(0); fcell < nfine; ++fcell)
    {
      fine_trafo_eval.prepare(fcell);
      fine_space_eval.prepare(fine_trafo_eval);
      const int nfl = fine_space_eval.get_num_local_dofs();
      fine_dof_mapping.prepare(fcell);
      o << " " << nfl;
      for(int i(0); i < nfl; ++i) o << " " << fine_dof_mapping.get_index(i);
      fine_dof_mapping.finish();
      for(int k(0); k < npts; ++k)
      {
        fine_trafo_eval(fine_trafo_data, fine_cubature.get_point(k));
        fine_space_eval(fine_space_data, fine_trafo_data);
        o << " " << Q(fine_trafo_data.jac_det * fine_cubature.get_weight(k)).str();
        for(int i(0); i < nfl; ++i) o << " " << Q(fine_space_data.phi[i].value).str();
        if(with_points)
          for(int d(0); d < dim; ++d) o << " " << Q(fine_trafo_data.img_point[d]).str();
      }
      fine_space_eval.finish();
      fine_trafo_eval.finish();
    }
  }

  // implemented in gxfer.cpp (Global::Transfer around given matrices)
  void global_transfer_sections(std::ostream& o, const MatrixType& prol, const MatrixType& rest, const MatrixType& trunc,
    const VectorType& x, const VectorType& y);
  void transfer_twins_sections(std::ostream& o, const MatrixType& prol, const MatrixType& rest, const MatrixType& trunc,
    const VectorType& x, const VectorType& y);
  void float_convert_sections(std::ostream& o, const MatrixType& prol, const MatrixType& rest, const MatrixType& trunc,
    const VectorType& x, const VectorType& y);
  void global_transfer_forbidden(std::ostream& o, int which, const MatrixType& prol, const MatrixType& rest,
    const MatrixType& trunc, const VectorType& x, const VectorType& y);

  // polynomial sum_{a,b,c} coef * x^a y^b z^c (exponents < 4 each), coefficients listed as (a b c coef)*
  struct Poly
  {
    std::vector<int> ea, eb, ec; std::vector<Q> co;
    void read(Cur& c)
    {
      std::size_t n = c.idx();
      for(std::size_t i = 0; i < n; ++i) { ea.push_back(int(c.idx())); eb.push_back(int(c.idx())); ec.push_back(int(c.idx())); co.push_back(qtok(c)); }
    }
    Q operator()(Q x, Q y, Q z) const
    {
      Q r(0);
      for(std::size_t i = 0; i < co.size(); ++i)
      {
        Q t = co[i];
        for(int k = 0; k < ea[i]; ++k) t = t * x;
        for(int k = 0; k < eb[i]; ++k) t = t * y;
        for(int k = 0; k < ec[i]; ++k) t = t * z;
        r = r + t;
      }
      return r;
    }
  };

  template<int dim_> struct Interp;
  template<> struct Interp<2>
  {
    template<typename Space_> static void run(VectorType& v, const Poly& p, const Space_& space)
    {
      auto f = Analytic::create_lambda_function_scalar_2d([&p](Q x, Q y) -> Q { return p(x, y, Q(0)); });
      Assembly::Interpolator::project(v, f, space);
    }
  };
  template<> struct Interp<3>
  {
    template<typename Space_> static void run(VectorType& v, const Poly& p, const Space_& space)
    {
      auto f = Analytic::create_lambda_function_scalar_3d([&p](Q x, Q y, Q z) -> Q { return p(x, y, z); });
      Assembly::Interpolator::project(v, f, space);
    }
  };

  // ---------------------------------------------------------------------------------------------------------------
  // the ops
  // ---------------------------------------------------------------------------------------------------------------
  template<typename Mesh_, typename SpaceTag_>
  void run_case(const std::string& op, const Config& cfg, Cur& c, std::ostream& o)
  {
    Setup<Mesh_, SpaceTag_> s(cfg);
    const auto& space_f = *s.space_f;
    const auto& space_c = *s.space_c;
    const Index nf = space_f.get_num_dofs(), nc = space_c.get_num_dofs();

    if(op == "dump")
    {
      dump(o, space_f, space_c, cfg.cubature, false);
      return;
    }
    if(op == "fe")
    {
      // fe <cfg> X <coarse vector> Y <fine vector> D <dump>: the dump must be the one of this configuration
      std::string tag = c.str();
      std::vector<Q> xv = qlist(c);
      tag = c.str();
      std::vector<Q> yv = qlist(c);
      std::ostringstream given, fresh;
      while(!c.done()) { given << (given.tellp() > 0 ? " " : "") << c.str(); }
      dump(fresh, space_f, space_c, cfg.cubature, false);
      if(given.str() != fresh.str()) { o << "STALE-DUMP"; return; }
      if(xv.size() != nc || yv.size() != nf) { o << "BAD-VECTOR-SIZE"; return; }

      Cubature::DynamicFactory cubature_factory(cfg.cubature);
      // 1. raw prolongation + weights, then the normalisation exactly as transfer_asm.hpp does it
      MatrixType prol;
      Assembly::SymbolicAssembler::assemble_matrix_2lvl(prol, space_f, space_c);
      VectorType wp = prol.create_vector_l();
      prol.format(); wp.format();
      Assembly::GridTransfer::assemble_prolongation(prol, wp, space_f, space_c, cubature_factory);
      o << "W "; show_vec(o, wp);
      o << " P "; show_dense(o, prol);
      // 2. direct variant
      MatrixType prol_d;
      Assembly::SymbolicAssembler::assemble_matrix_2lvl(prol_d, space_f, space_c);
      Assembly::GridTransfer::assemble_prolongation_direct(prol_d, space_f, space_c, cubature_factory);
      o << " PD "; show_dense(o, prol_d);
      // 3. truncation: raw + weights + direct
      MatrixType trunc;
      trunc.transpose(prol_d);
      VectorType wt = trunc.create_vector_l();
      trunc.format(); wt.format();
      Assembly::GridTransfer::assemble_truncation(trunc, wt, space_f, space_c, cubature_factory);
      o << " WT "; show_vec(o, wt);
      o << " T "; show_dense(o, trunc);
      MatrixType trunc_d;
      trunc_d.transpose(prol_d);
      Assembly::GridTransfer::assemble_truncation_direct(trunc_d, space_f, space_c, cubature_factory);
      o << " TD "; show_dense(o, trunc_d);
      // 4. restriction = transpose of the prolongation (transfer_asm.hpp)
      MatrixType rest = prol_d.transpose();
      o << " R "; show_dense(o, rest);
      o << " PC "; show_csr(o, prol_d);
      o << " RC "; show_csr(o, rest);
      // 5. matrix-free prolongation
      VectorType xc(nc), yf(nf);
      for(Index i(0); i < nc; ++i) xc(i, xv[i]);
      for(Index i(0); i < nf; ++i) yf(i, yv[i]);
      VectorType vf(nf), vw(nf);
      vf.format(); vw.format();
      Assembly::GridTransfer::prolongate_vector(vf, vw, xc, space_f, space_c, cfg.cubature);
      o << " VF "; show_vec(o, vf);
      o << " VW "; show_vec(o, vw);
      VectorType vd(nf);
      vd.format();
      Assembly::GridTransfer::prolongate_vector_direct(vd, xc, space_f, space_c, cfg.cubature);
      o << " VD "; show_vec(o, vd);
      // 6. LAFEM::Transfer
      LAFEM::Transfer<MatrixType> transfer(prol_d.clone(), rest.clone(), trunc_d.clone());
      VectorType tp(nf), tr(nc), tt(nc);
      tp.format(); tr.format(); tt.format();
      transfer.prol(tp, xc);
      transfer.rest(yf, tr);
      transfer.trunc(yf, tt);
      o << " XP "; show_vec(o, tp);
      o << " XR "; show_vec(o, tr);
      o << " XT "; show_vec(o, tt);
      // 7. Global::Transfer (un-muxed, non-child muxer, single-process muxed) around the assembled matrices
      o << " G";
      global_transfer_sections(o, prol_d, rest, trunc_d, xc, yf);
      // 8. converted (index type) and cloned twins of the local and the global transfer objects
      o << " TW";
      transfer_twins_sections(o, prol_d, rest, trunc_d, xc, yf);
      return;
    }
    if(op == "feo")
    {
      // oracle-only evidence:  feo <cfg> <sample cubature> X <coarse vector> POLY <npoly> <poly>*
      // prints PD, TD, R, the sample dump (with physical points) and the interpolated polynomials
      std::string sample_cub = c.str();
      std::string tag = c.str();
      std::vector<Q> xv = qlist(c);
      if(xv.size() != nc) { o << "BAD-VECTOR-SIZE"; return; }
      tag = c.str();
      std::size_t npoly = c.idx();
      Cubature::DynamicFactory cubature_factory(cfg.cubature);
      MatrixType prol_d;
      Assembly::SymbolicAssembler::assemble_matrix_2lvl(prol_d, space_f, space_c);
      Assembly::GridTransfer::assemble_prolongation_direct(prol_d, space_f, space_c, cubature_factory);
      o << "PD "; show_dense(o, prol_d);
      MatrixType trunc_d;
      trunc_d.transpose(prol_d);
      Assembly::GridTransfer::assemble_truncation_direct(trunc_d, space_f, space_c, cubature_factory);
      o << " TD "; show_dense(o, trunc_d);
      MatrixType rest = prol_d.transpose();
      o << " R "; show_csr(o, rest);
      o << " PCSR "; show_csr(o, prol_d);
      VectorType xc(nc);
      for(Index i(0); i < nc; ++i) xc(i, xv[i]);
      VectorType vd(nf);
      vd.format();
      Assembly::GridTransfer::prolongate_vector_direct(vd, xc, space_f, space_c, cfg.cubature);
      o << " VD "; show_vec(o, vd);
      LAFEM::Transfer<MatrixType> transfer(prol_d.clone(), rest.clone(), trunc_d.clone());
      VectorType tp(nf), tt(nc);
      tp.format(); tt.format();
      transfer.prol(tp, xc);
      transfer.trunc(tp, tt);
      o << " XP "; show_vec(o, tp);
      o << " XTP "; show_vec(o, tt);
      o << " IP " << npoly;
      for(std::size_t k = 0; k < npoly; ++k)
      {
        Poly p; p.read(c);
        VectorType ic(nc), jf(nf);
        ic.format(); jf.format();
        Interp<Mesh_::shape_dim>::run(ic, p, space_c);
        Interp<Mesh_::shape_dim>::run(jf, p, space_f);
        VectorType pf(nf);
        pf.format();
        transfer.prol(pf, ic);
        o << " "; show_vec(o, ic);
        o << " "; show_vec(o, jf);
        o << " "; show_vec(o, pf);
      }
      o << " S " << Mesh_::shape_dim << " ";
      dump(o, space_f, space_c, sample_cub, true);
      return;
    }
    o << "BAD-OP";
  }

  // childmap <shape> <point>: the real Cubature::RefineFactoryCore applied to a one-point rule: points and weights of
  // the refined rule = the child maps A_c of the reference cell applied to the point
  template<typename Shape_>
  void childmap(Cur& c, std::ostream& o)
  {
    typedef Cubature::Rule<Shape_, Q, Q, Tiny::Vector<Q, Shape_::dimension>> RuleType;
    RuleType rule_in(1, "point");
    for(int d(0); d < Shape_::dimension; ++d) rule_in.get_coord(0, d) = qtok(c);
    rule_in.get_weight(0) = Q(1);
    RuleType rule;
    Cubature::RefineFactoryCore::create(rule, rule_in);
    o << "CM " << rule.get_num_points() * Shape_::dimension;
    for(int k(0); k < rule.get_num_points(); ++k)
      for(int d(0); d < Shape_::dimension; ++d) o << " " << Q(rule.get_coord(k, d)).str();
    o << " " << rule.get_num_points();
    for(int k(0); k < rule.get_num_points(); ++k) o << " " << Q(rule.get_weight(k)).str();
  }

  // space tags
  struct TagL1 { template<typename T_> using Space = FEAT::Space::Lagrange1::Element<T_>; };
  struct TagL2 { template<typename T_> using Space = FEAT::Space::Lagrange2::Element<T_>; };
  struct TagL3 { template<typename T_> using Space = FEAT::Space::Lagrange3::Element<T_>; };
  struct TagD0 { template<typename T_> using Space = FEAT::Space::Discontinuous::Element<T_, FEAT::Space::Discontinuous::Variant::StdPolyP<0>>; };
  struct TagD1 { template<typename T_> using Space = FEAT::Space::Discontinuous::Element<T_, FEAT::Space::Discontinuous::Variant::StdPolyP<1>>; };
  struct TagCR { template<typename T_> using Space = FEAT::Space::CroRavRanTur::Element<T_>; };
  struct TagB2 { template<typename T_> using Space = FEAT::Space::Bernstein2::Element<T_>; };

  typedef Geometry::ConformalMesh<Shape::Quadrilateral, 2, Q> QuadMesh;
  typedef Geometry::ConformalMesh<Shape::Triangle, 2, Q> TriaMesh;
  typedef Geometry::ConformalMesh<Shape::Hexahedron, 3, Q> HexaMesh;
  typedef Geometry::ConformalMesh<Shape::Tetrahedron, 3, Q> TetraMesh;

  // implemented in fe_<shape>.cpp; returns false if the space name is not available for the shape
  bool run_quad(const std::string& op, const Config& cfg, Cur& c, std::ostream& o);
  bool run_tria(const std::string& op, const Config& cfg, Cur& c, std::ostream& o);
  bool run_hexa(const std::string& op, const Config& cfg, Cur& c, std::ostream& o);
  bool run_tetra(const std::string& op, const Config& cfg, Cur& c, std::ostream& o);
}
