// C18 harness: instantiations for TriaMesh
#include "fe.hpp"
namespace c18
{
  bool run_tria(const std::string& op, const Config& cfg, Cur& c, std::ostream& o)
  {
    if(cfg.space == "l1") { run_case<TriaMesh, TagL1>(op, cfg, c, o); return true; }
    if(cfg.space == "l2") { run_case<TriaMesh, TagL2>(op, cfg, c, o); return true; }
    if(cfg.space == "d0") { run_case<TriaMesh, TagD0>(op, cfg, c, o); return true; }
    if(cfg.space == "d1") { run_case<TriaMesh, TagD1>(op, cfg, c, o); return true; }
    if(cfg.space == "l3") { run_case<TriaMesh, TagL3>(op, cfg, c, o); return true; }
    if(cfg.space == "cr") { run_case<TriaMesh, TagCR>(op, cfg, c, o); return true; }
    return false;
  }
}
