// C18 harness: instantiations for QuadMesh
#include "fe.hpp"
namespace c18
{
  bool run_quad(const std::string& op, const Config& cfg, Cur& c, std::ostream& o)
  {
    if(cfg.space == "l1") { run_case<QuadMesh, TagL1>(op, cfg, c, o); return true; }
    if(cfg.space == "l2") { run_case<QuadMesh, TagL2>(op, cfg, c, o); return true; }
    if(cfg.space == "d0") { run_case<QuadMesh, TagD0>(op, cfg, c, o); return true; }
    if(cfg.space == "d1") { run_case<QuadMesh, TagD1>(op, cfg, c, o); return true; }
    if(cfg.space == "b2") { run_case<QuadMesh, TagB2>(op, cfg, c, o); return true; }
    if(cfg.space == "l3") { run_case<QuadMesh, TagL3>(op, cfg, c, o); return true; }
    if(cfg.space == "cr") { run_case<QuadMesh, TagCR>(op, cfg, c, o); return true; }
    return false;
  }
}
