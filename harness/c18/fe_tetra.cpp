// C18 harness: instantiations for TetraMesh
#include "fe.hpp"
namespace c18
{
  bool run_tetra(const std::string& op, const Config& cfg, Cur& c, std::ostream& o)
  {
    if(cfg.space == "l1") { run_case<TetraMesh, TagL1>(op, cfg, c, o); return true; }
    if(cfg.space == "l2") { run_case<TetraMesh, TagL2>(op, cfg, c, o); return true; }
    if(cfg.space == "d0") { run_case<TetraMesh, TagD0>(op, cfg, c, o); return true; }
    if(cfg.space == "cr") { run_case<TetraMesh, TagCR>(op, cfg, c, o); return true; }
    return false;
  }
}
