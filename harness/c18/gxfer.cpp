// C18 harness: Global::Transfer (kernel/global/transfer.hpp) around given P / R / T matrices, at the exact scalar Q.
//   GU  un-muxed: coarse muxer == nullptr
//   GN  a muxer that is not a child (default constructed: no sibling communicator)
//   GM  muxed: Global::Muxer with set_parent(&comm, 0, identity mirror) on the one-process communicator: the process is
//       child and parent at once, so prol/rest/trunc take the `_vec_tmp` + split/join branch
// every variant prints prol(x), rest(y), trunc(y) and trunc(prol(x)); the gate has no neighbours (sync_0 = identity)
#include "fe.hpp"
#include <kernel/global/transfer.hpp>
#include <kernel/global/gate.hpp>
#include <kernel/global/muxer.hpp>
#include <kernel/global/vector.hpp>
#include <kernel/lafem/vector_mirror.hpp>
#include <kernel/util/dist.hpp>
#include <cstdio>

// Q is a trivially copyable 64-bit handle: for the (memcpy based, single-process) serial Dist::Comm it travels as uint64
namespace FEAT { namespace Dist { template<> const Datatype& autotype<Q>() { return dt_unsigned_int64; } } }

namespace c18
{
  using namespace FEAT;
  typedef LAFEM::VectorMirror<Q, Index> MirrorType;
  typedef Global::Gate<VectorType, MirrorType> GateType;
  typedef Global::Muxer<VectorType, MirrorType> MuxerType;
  typedef Global::Vector<VectorType, MirrorType> GlobalVectorType;
  typedef LAFEM::Transfer<MatrixType> LocalTransferType;
  typedef Global::Transfer<LocalTransferType, MirrorType> GlobalTransferType;

  static MirrorType identity_mirror(Index n)
  {
    MirrorType m(n, n);
    for(Index i(0); i < n; ++i) m.indices()[i] = i;
    return m;
  }

  struct GlobalSetup
  {
    Dist::Comm comm;
    GateType gate_f, gate_c;
    MuxerType mux_none, mux_one;
    GlobalSetup(Index nf, Index nc) : comm(Dist::Comm::world()), gate_f(comm), gate_c(comm)
    {
      gate_f.compile(VectorType(nf, Q(0)));
      gate_c.compile(VectorType(nc, Q(0)));
      mux_one.set_parent(&comm, 0, identity_mirror(nc));
      mux_one.push_child(identity_mirror(nc));
      mux_one.compile(VectorType(nc, Q(0)));
    }
  };

  static void variant(std::ostream& o, const char* tag, const GlobalTransferType& gt, GlobalSetup& gs,
    const VectorType& x, const VectorType& y)
  {
    const Index nf = y.size(), nc = x.size();
    GlobalVectorType gx(&gs.gate_c, x.clone()), gy(&gs.gate_f, y.clone());
    GlobalVectorType gp(&gs.gate_f, VectorType(nf, Q(5))), gr(&gs.gate_c, VectorType(nc, Q(5))),
      gtr(&gs.gate_c, VectorType(nc, Q(5))), gtp(&gs.gate_c, VectorType(nc, Q(5)));
    gt.prol(gp, gx);
    gt.rest(gy, gr);
    gt.trunc(gy, gtr);
    gt.trunc(gp, gtp);
    o << " " << tag << " "; show_vec(o, gp.local());
    o << " "; show_vec(o, gr.local());
    o << " "; show_vec(o, gtr.local());
    o << " "; show_vec(o, gtp.local());
  }

  void global_transfer_sections(std::ostream& o, const MatrixType& prol, const MatrixType& rest, const MatrixType& trunc,
    const VectorType& x, const VectorType& y)
  {
    GlobalSetup gs(prol.rows(), prol.columns());
    // the local transfer for reference
    {
      LocalTransferType lt(prol.clone(), rest.clone(), trunc.clone());
      VectorType p(y.size(), Q(5)), r(x.size(), Q(5)), t(x.size(), Q(5)), tp(x.size(), Q(5));
      lt.prol(p, x); lt.rest(y, r); lt.trunc(y, t); lt.trunc(p, tp);
      o << " LT "; show_vec(o, p); o << " "; show_vec(o, r); o << " "; show_vec(o, t); o << " "; show_vec(o, tp);
    }
    GlobalTransferType gu(nullptr, prol.clone(), rest.clone(), trunc.clone());
    variant(o, "GU", gu, gs, x, y);
    GlobalTransferType gn(&gs.mux_none, prol.clone(), rest.clone(), trunc.clone());
    variant(o, "GN", gn, gs, x, y);
    GlobalTransferType gm(&gs.mux_one, prol.clone(), rest.clone(), trunc.clone());
    o << " FLAGS " << (gs.mux_one.is_child() ? 1 : 0) << " " << (gs.mux_one.is_parent() ? 1 : 0) << " " << (gm.is_ghost() ? 1 : 0);
    variant(o, "GM", gm, gs, x, y);
  }

  // ---------------------------------------------------------------------------------------------------------------
  // converted and cloned twins: LAFEM::Transfer::convert / clone, Global::Transfer::convert / clone.
  // At Q the value type stays Q; convert goes between the index types u64 <-> u32 (the mixed index-type hierarchy).
  // ---------------------------------------------------------------------------------------------------------------
  typedef unsigned int Index32;
  typedef LAFEM::SparseMatrixCSR<Q, Index32> Matrix32;
  typedef LAFEM::DenseVector<Q, Index32> Vector32;
  typedef LAFEM::VectorMirror<Q, Index32> Mirror32;
  typedef LAFEM::Transfer<Matrix32> LocalTransfer32;
  typedef Global::Gate<Vector32, Mirror32> Gate32;
  typedef Global::Muxer<Vector32, Mirror32> Muxer32;
  typedef Global::Vector<Vector32, Mirror32> GlobalVector32;
  typedef Global::Transfer<LocalTransfer32, Mirror32> GlobalTransfer32;

  template<typename Vec_> static void show_any(std::ostream& o, const Vec_& v)
  {
    o << v.size();
    for(Index i(0); i < v.size(); ++i) o << " " << Q(v(typename Vec_::IndexType(i))).str();
  }

  // signature of a stored matrix through its getters: rows cols used_elements sum_k (k+1)*val[k]
  template<typename Mat_> static void show_sig(std::ostream& o, const Mat_& m)
  {
    Q s(0);
    for(Index k(0); k < m.used_elements(); ++k) s = s + Q((long)(k + 1)) * m.val()[k];
    o << " " << m.rows() << " " << m.columns() << " " << m.used_elements() << " " << s.str();
  }

  template<typename Transfer_, typename Vec_>
  static void local_quad(std::ostream& o, const char* tag, const Transfer_& t, const Vec_& x, const Vec_& y)
  {
    Vec_ p(y.size(), Q(5)), r(x.size(), Q(5)), tr(x.size(), Q(5)), tp(x.size(), Q(5));
    t.prol(p, x); t.rest(y, r); t.trunc(y, tr); t.trunc(p, tp);
    o << " " << tag << " "; show_any(o, p); o << " "; show_any(o, r); o << " "; show_any(o, tr); o << " "; show_any(o, tp);
    o << " M"; show_sig(o, t.get_mat_prol()); show_sig(o, t.get_mat_rest()); show_sig(o, t.get_mat_trunc());
  }

  template<typename GT_, typename GV_, typename Gate_, typename Vec_>
  static void global_quad(std::ostream& o, const char* tag, const GT_& gt, const Gate_& gate_f, const Gate_& gate_c,
    const Vec_& x, const Vec_& y)
  {
    GV_ gx(&gate_c, x.clone()), gy(&gate_f, y.clone());
    GV_ gp(&gate_f, Vec_(y.size(), Q(5))), gr(&gate_c, Vec_(x.size(), Q(5))), gtr(&gate_c, Vec_(x.size(), Q(5))),
      gtp(&gate_c, Vec_(x.size(), Q(5)));
    gt.prol(gp, gx); gt.rest(gy, gr); gt.trunc(gy, gtr); gt.trunc(gp, gtp);
    o << " " << tag << " "; show_any(o, gp.local()); o << " "; show_any(o, gr.local()); o << " "; show_any(o, gtr.local());
    o << " "; show_any(o, gtp.local());
    o << " M"; show_sig(o, gt.get_mat_prol()); show_sig(o, gt.get_mat_rest()); show_sig(o, gt.get_mat_trunc());
  }

  void transfer_twins_sections(std::ostream& o, const MatrixType& prol, const MatrixType& rest, const MatrixType& trunc,
    const VectorType& x, const VectorType& y)
  {
    const Index nf = prol.rows(), nc = prol.columns();
    LocalTransferType lt(prol.clone(), rest.clone(), trunc.clone());
    local_quad(o, "OR", lt, x, y);
    // convert u64 -> u32 and back
    Vector32 x32, y32; x32.convert(x); y32.convert(y);
    LocalTransfer32 lt32; lt32.convert(lt);
    local_quad(o, "CV", lt32, x32, y32);
    LocalTransferType ltb; ltb.convert(lt32);
    local_quad(o, "CB", ltb, x, y);
    // clones
    { LocalTransferType c = lt.clone(LAFEM::CloneMode::Shallow); local_quad(o, "CS", c, x, y); }
    { LocalTransferType c = lt.clone(LAFEM::CloneMode::Weak); local_quad(o, "CW", c, x, y); }
    { LocalTransferType c = lt.clone(LAFEM::CloneMode::Deep); local_quad(o, "CD", c, x, y); }
    { LocalTransferType c = lt.clone(); local_quad(o, "CC", c, x, y); }
    // Global::Transfer: un-muxed and muxed, converted to the u32 types (with a muxer of the target type) and cloned
    GlobalSetup gs(nf, nc);
    Dist::Comm comm(Dist::Comm::world());
    Gate32 gate32_f(comm), gate32_c(comm);
    gate32_f.compile(Vector32(Index32(nf), Q(0)));
    gate32_c.compile(Vector32(Index32(nc), Q(0)));
    Muxer32 mux32;
    {
      Mirror32 m1(nc, nc), m2(nc, nc);
      for(Index i(0); i < nc; ++i) { m1.indices()[i] = Index32(i); m2.indices()[i] = Index32(i); }
      mux32.set_parent(&comm, 0, std::move(m1));
      mux32.push_child(std::move(m2));
      mux32.compile(Vector32(Index32(nc), Q(0)));
    }
    GlobalTransferType gu(nullptr, prol.clone(), rest.clone(), trunc.clone());
    GlobalTransferType gm(&gs.mux_one, prol.clone(), rest.clone(), trunc.clone());
    { GlobalTransfer32 g32; g32.convert(nullptr, gu);
      global_quad<GlobalTransfer32, GlobalVector32>(o, "GUV", g32, gate32_f, gate32_c, x32, y32); }
    { GlobalTransfer32 g32; g32.convert(&mux32, gm);
      global_quad<GlobalTransfer32, GlobalVector32>(o, "GMV", g32, gate32_f, gate32_c, x32, y32); }
    { GlobalTransferType c = gu.clone(LAFEM::CloneMode::Deep);
      global_quad<GlobalTransferType, GlobalVectorType>(o, "GUC", c, gs.gate_f, gs.gate_c, x, y); }
    { GlobalTransferType c = gm.clone(LAFEM::CloneMode::Weak);
      global_quad<GlobalTransferType, GlobalVectorType>(o, "GMW", c, gs.gate_f, gs.gate_c, x, y); }
    { GlobalTransferType c = gm.clone(LAFEM::CloneMode::Deep);
      global_quad<GlobalTransferType, GlobalVectorType>(o, "GMD", c, gs.gate_f, gs.gate_c, x, y); }
  }

  // ---------------------------------------------------------------------------------------------------------------
  // value-type conversion on the real code: <double,u64> -> <float,u32> -> <double,u64> (mixed precision hierarchy);
  // oracle-only (results are floats): every member of every converted object, printed with 17 significant digits
  // ---------------------------------------------------------------------------------------------------------------
  template<typename Vec_> static void show_fp(std::ostream& o, const Vec_& v)
  {
    o << v.size();
    char buf[64];
    for(Index i(0); i < v.size(); ++i) { std::snprintf(buf, sizeof(buf), "%.17g", double(v(typename Vec_::IndexType(i)))); o << " " << buf; }
  }

  template<typename Transfer_, typename Vec_>
  static void fp_quad(std::ostream& o, const char* tag, const Transfer_& t, const Vec_& x, const Vec_& y)
  {
    typedef typename Vec_::DataType DT;
    Vec_ p(y.size(), DT(5)), r(x.size(), DT(5)), tr(x.size(), DT(5)), tp(x.size(), DT(5));
    t.prol(p, x); t.rest(y, r); t.trunc(y, tr); t.trunc(p, tp);
    o << " " << tag << " "; show_fp(o, p); o << " "; show_fp(o, r); o << " "; show_fp(o, tr); o << " "; show_fp(o, tp);
  }

  void float_convert_sections(std::ostream& o, const MatrixType& prol, const MatrixType& rest, const MatrixType& trunc,
    const VectorType& x, const VectorType& y)
  {
    typedef LAFEM::SparseMatrixCSR<double, Index> MatrixD;
    typedef LAFEM::DenseVector<double, Index> VectorD;
    typedef LAFEM::SparseMatrixCSR<float, Index32> MatrixF;
    typedef LAFEM::DenseVector<float, Index32> VectorF;
    MatrixD pd, rd, td; pd.convert(prol); rd.convert(rest); td.convert(trunc);
    VectorD xd, yd; xd.convert(x); yd.convert(y);
    LAFEM::Transfer<MatrixD> ltd(std::move(pd), std::move(rd), std::move(td));
    fp_quad(o, "DD", ltd, xd, yd);
    LAFEM::Transfer<MatrixF> ltf; ltf.convert(ltd);
    VectorF xf, yf; xf.convert(xd); yf.convert(yd);
    fp_quad(o, "DF", ltf, xf, yf);
    LAFEM::Transfer<MatrixD> ltb; ltb.convert(ltf);
    fp_quad(o, "FD", ltb, xd, yd);
    { auto c = ltf.clone(LAFEM::CloneMode::Deep); fp_quad(o, "FC", c, xf, yf); }
  }

  // the halves that only a ghost process may call (and prol_cancel, which nobody may call): they must abort
  void global_transfer_forbidden(std::ostream& o, int which, const MatrixType& prol, const MatrixType& rest,
    const MatrixType& trunc, const VectorType& x, const VectorType& y)
  {
    GlobalSetup gs(prol.rows(), prol.columns());
    GlobalTransferType gm(&gs.mux_one, prol.clone(), rest.clone(), trunc.clone());
    GlobalVectorType gy(&gs.gate_f, y.clone());
    switch(which)
    {
    case 0: gm.trunc_send(gy); break;
    case 1: gm.rest_send(gy); break;
    case 2: gm.prol_recv(gy); break;
    default: gm.prol_cancel(); break;
    }
    o << "RETURNED";
  }
}
