// C18 harness: Global::Transfer (kernel/global/transfer.hpp) around given P / R / T matrices, at the exact scalar Q.
//   GU  un-muxed: coarse muxer == nullptr
//   GN  a muxer that is not a child (default constructed: no sibling communicator)
//   GM  muxed: Global::Muxer with set_parent(&comm, 0, identity mirror) on the one-process communicator: the process is
//       child and parent at once, so prol/rest/trunc take the `_vec_tmp` + split/join branch
// every variant prints prol(x), rest(y), trunc(y) and trunc(prol(x)); the gate has no neighbours (sync_0 = identity)
#include "fe.hpp"
#include <kernel/global/transfer.hpp>
#include <kernel/global/gate.hpp>
#include <kernel/global/muxer.hpp>
#include <kernel/global/vector.hpp>
#include <kernel/lafem/vector_mirror.hpp>
#include <kernel/util/dist.hpp>

// Q is a trivially copyable 64-bit handle: for the (memcpy based, single-process) serial Dist::Comm it travels as uint64
namespace FEAT { namespace Dist { template<> const Datatype& autotype<Q>() { return dt_unsigned_int64; } } }

namespace c18
{
  using namespace FEAT;
  typedef LAFEM::VectorMirror<Q, Index> MirrorType;
  typedef Global::Gate<VectorType, MirrorType> GateType;
  typedef Global::Muxer<VectorType, MirrorType> MuxerType;
  typedef Global::Vector<VectorType, MirrorType> GlobalVectorType;
  typedef LAFEM::Transfer<MatrixType> LocalTransferType;
  typedef Global::Transfer<LocalTransferType, MirrorType> GlobalTransferType;

  static MirrorType identity_mirror(Index n)
  {
    MirrorType m(n, n);
    for(Index i(0); i < n; ++i) m.indices()[i] = i;
    return m;
  }

  struct GlobalSetup
  {
    Dist::Comm comm;
    GateType gate_f, gate_c;
    MuxerType mux_none, mux_one;
    GlobalSetup(Index nf, Index nc) : comm(Dist::Comm::world()), gate_f(comm), gate_c(comm)
    {
      gate_f.compile(VectorType(nf, Q(0)));
      gate_c.compile(VectorType(nc, Q(0)));
      mux_one.set_parent(&comm, 0, identity_mirror(nc));
      mux_one.push_child(identity_mirror(nc));
      mux_one.compile(VectorType(nc, Q(0)));
    }
  };

  static void variant(std::ostream& o, const char* tag, const GlobalTransferType& gt, GlobalSetup& gs,
    const VectorType& x, const VectorType& y)
  {
    const Index nf = y.size(), nc = x.size();
    GlobalVectorType gx(&gs.gate_c, x.clone()), gy(&gs.gate_f, y.clone());
    GlobalVectorType gp(&gs.gate_f, VectorType(nf, Q(5))), gr(&gs.gate_c, VectorType(nc, Q(5))),
      gtr(&gs.gate_c, VectorType(nc, Q(5))), gtp(&gs.gate_c, VectorType(nc, Q(5)));
    gt.prol(gp, gx);
    gt.rest(gy, gr);
    gt.trunc(gy, gtr);
    gt.trunc(gp, gtp);
    o << " " << tag << " "; show_vec(o, gp.local());
    o << " "; show_vec(o, gr.local());
    o << " "; show_vec(o, gtr.local());
    o << " "; show_vec(o, gtp.local());
  }

  void global_transfer_sections(std::ostream& o, const MatrixType& prol, const MatrixType& rest, const MatrixType& trunc,
    const VectorType& x, const VectorType& y)
  {
    GlobalSetup gs(prol.rows(), prol.columns());
    // the local transfer for reference
    {
      LocalTransferType lt(prol.clone(), rest.clone(), trunc.clone());
      VectorType p(y.size(), Q(5)), r(x.size(), Q(5)), t(x.size(), Q(5)), tp(x.size(), Q(5));
      lt.prol(p, x); lt.rest(y, r); lt.trunc(y, t); lt.trunc(p, tp);
      o << " LT "; show_vec(o, p); o << " "; show_vec(o, r); o << " "; show_vec(o, t); o << " "; show_vec(o, tp);
    }
    GlobalTransferType gu(nullptr, prol.clone(), rest.clone(), trunc.clone());
    variant(o, "GU", gu, gs, x, y);
    GlobalTransferType gn(&gs.mux_none, prol.clone(), rest.clone(), trunc.clone());
    variant(o, "GN", gn, gs, x, y);
    GlobalTransferType gm(&gs.mux_one, prol.clone(), rest.clone(), trunc.clone());
    o << " FLAGS " << (gs.mux_one.is_child() ? 1 : 0) << " " << (gs.mux_one.is_parent() ? 1 : 0) << " " << (gm.is_ghost() ? 1 : 0);
    variant(o, "GM", gm, gs, x, y);
  }

  // the halves that only a ghost process may call (and prol_cancel, which nobody may call): they must abort
  void global_transfer_forbidden(std::ostream& o, int which, const MatrixType& prol, const MatrixType& rest,
    const MatrixType& trunc, const VectorType& x, const VectorType& y)
  {
    GlobalSetup gs(prol.rows(), prol.columns());
    GlobalTransferType gm(&gs.mux_one, prol.clone(), rest.clone(), trunc.clone());
    GlobalVectorType gy(&gs.gate_f, y.clone());
    switch(which)
    {
    case 0: gm.trunc_send(gy); break;
    case 1: gm.rest_send(gy); break;
    case 2: gm.prol_recv(gy); break;
    default: gm.prol_cancel(); break;
    }
    o << "RETURNED";
  }
}
