// C12 harness: executes the real RootMeshNode::extract_patch / refine_unique / Parti2Lvl / PartiIterative
// code on one case per line (see FeatModel/Driver/C12.lean for the line format of `extract` and `p2l`).
//
//   extract <shape> <mesh> <graph>                  all patches of an explicit elements-at-rank graph (level 0)
//   refine  <shape> <depth> <meshX> <graph>         same, then <depth> joint refinements of base node and patch nodes
//   split   <shape> <mesh> <graph> <l_0>..<l_D>     a base-mesh mesh part (target lists) split among all patches
//   hsplit  <shape> <mesh> <graph> <child list>     two-level partition; inter-parent halos split among the children
//   idist   <shape> <patches> <start> <thr> <mesh>  Intern::parti_iterative_distance
//   iterc   <shape> <seed> <patches> <thr> <centres> <mesh>   PartiIterativeIndividual with Random(seed)
//   p2l     <shape> <num_elems> <num_ranks>         Parti2Lvl decision logic + build_elems_at_rank
//   auto    <shape> <kind> <ranks> <depth> <meshX>  built-in partitioner (kind 0 = Parti2Lvl, 1 = PartiIterative),
//                                                   extraction of every patch, <depth> joint refinements
//
//   <shape>  = h1 | h2 | s2 | h3 | s3
//   <mesh>   = n_0 .. n_D  then every index set <hi,lo> (hi = 1..D, lo = 0..hi-1), each row length-prefixed
//   <meshX>  = n_0 .. n_D  then n_0*D vertex coordinates (rationals p/q), then the index sets as in <mesh>
//   <graph>  = n_image n_domain  then n_domain length-prefixed rows (as in the C19 harness)
#include <forkcase.hpp>
#include <exact_q.hpp>
#include <kernel/adjacency/graph.hpp>
#include <kernel/geometry/conformal_mesh.hpp>
#include <kernel/geometry/mesh_part.hpp>
#include <kernel/geometry/mesh_node.hpp>
#include <kernel/geometry/parti_2lvl.hpp>
#include <kernel/geometry/parti_iterative.hpp>
#include <kernel/geometry/patch_halo_splitter.hpp>
#include <kernel/util/dist.hpp>

#include <memory>
#include <algorithm>
#include <limits>
#include <kernel/util/random.hpp>
#include <type_traits>

using namespace FEAT;
using verif::Cur;

// compile-time loop over all index set pairs <hi,lo>, hi = 1..D, lo = 0..hi-1
template<int D, int hi = 1, int lo = 0>
struct ISLoop
{
  template<typename F>
  static void run(F&& f)
  {
    f(std::integral_constant<int, hi>(), std::integral_constant<int, lo>());
    if constexpr (lo + 1 < hi)
      ISLoop<D, hi, lo + 1>::run(f);
    else if constexpr (hi < D)
      ISLoop<D, hi + 1, 0>::run(f);
  }
};

// compile-time loop over the dimensions 0..D
template<int D, int d = 0>
struct DimLoop
{
  template<typename F>
  static void run(F&& f)
  {
    f(std::integral_constant<int, d>());
    if constexpr (d < D)
      DimLoop<D, d + 1>::run(f);
  }
};

static Adjacency::Graph read_graph(Cur& c)
{
  Index n_img = c.idx(), n_dom = c.idx();
  std::vector<Index> ptr(1, 0), idx;
  for(Index i = 0; i < n_dom; ++i)
  {
    auto l = c.idxlist();
    for(auto x : l) idx.push_back(Index(x));
    ptr.push_back(Index(idx.size()));
  }
  return Adjacency::Graph(n_dom, n_img, Index(idx.size()), ptr.data(), idx.data());
}

static void show_graph(std::ostream& o, const Adjacency::Graph& g)
{
  o << "G " << g.get_num_nodes_image() << " " << g.get_num_nodes_domain() + 1;
  for(Index i = 0; i <= g.get_num_nodes_domain(); ++i) o << " " << g.get_domain_ptr()[i];
  o << " " << g.get_num_indices();
  for(Index i = 0; i < g.get_num_indices(); ++i) o << " " << g.get_image_idx()[i];
}

template<typename Shape_>
struct Run
{
  static constexpr int D = Shape_::dimension;
  typedef Geometry::ConformalMesh<Shape_, D, Q> MeshType;
  typedef Geometry::MeshPart<MeshType> PartType;
  typedef Geometry::RootMeshNode<MeshType> NodeType;

  static std::unique_ptr<MeshType> read_mesh(Cur& c, bool coords)
  {
    Index num[D + 1];
    for(int d = 0; d <= D; ++d) num[d] = c.idx();
    std::unique_ptr<MeshType> mesh(new MeshType(num));
    auto& vtx = mesh->get_vertex_set();
    for(Index i = 0; i < num[0]; ++i)
      for(int j = 0; j < D; ++j)
        vtx[i][j] = coords ? Q::parse(c.str()) : Q(0);
    ISLoop<D>::run([&](auto hi, auto lo)
    {
      auto& is = mesh->template get_index_set<decltype(hi)::value, decltype(lo)::value>();
      for(Index i = 0; i < is.get_num_entities(); ++i)
      {
        Index k = c.idx();
        if(int(k) != is.get_num_indices()) { std::cerr << "\n>>> FATAL ERROR: harness: bad index tuple length\n"; std::abort(); }
        for(int j = 0; j < is.get_num_indices(); ++j)
          is(i, j) = c.idx();
      }
    });
    mesh->fill_neighbors();
    return mesh;
  }

  static void show_target_sets(std::ostream& o, const PartType& part)
  {
    DimLoop<D>::run([&](auto d)
    {
      const auto& ts = part.template get_target_set<decltype(d)::value>();
      o << " " << ts.get_num_entities();
      for(Index i = 0; i < ts.get_num_entities(); ++i) o << " " << ts[i];
    });
  }

  static void show_index_sets(std::ostream& o, const MeshType& mesh)
  {
    ISLoop<D>::run([&](auto hi, auto lo)
    {
      const auto& is = mesh.template get_index_set<decltype(hi)::value, decltype(lo)::value>();
      o << " " << is.get_num_entities() * Index(is.get_num_indices());
      for(Index i = 0; i < is.get_num_entities(); ++i)
        for(int j = 0; j < is.get_num_indices(); ++j)
          o << " " << is(i, j);
    });
  }

  static void show_coords(std::ostream& o, const MeshType& mesh)
  {
    const auto& vtx = mesh.get_vertex_set();
    o << " X " << vtx.get_num_vertices() * Index(D);
    for(Index i = 0; i < vtx.get_num_vertices(); ++i)
      for(int j = 0; j < D; ++j)
        o << " " << Q(vtx[i][j]).str();
  }

  // extracts every patch with the real extract_patch, refines everything `depth` times and dumps the last level
  static void extract_all(std::ostream& o, std::unique_ptr<MeshType> mesh, const Adjacency::Graph& elems_at_rank,
    Index depth, bool coords)
  {
    const Index num_ranks = elems_at_rank.get_num_nodes_domain();
    std::unique_ptr<NodeType> base = NodeType::make_unique(std::move(mesh));
    std::vector<std::unique_ptr<NodeType>> patches(num_ranks);
    std::vector<std::vector<int>> comm(num_ranks);
    for(Index r = 0; r < num_ranks; ++r)
      patches[r] = base->extract_patch(comm[r], elems_at_rank, int(r));

    for(Index l = 0; l < depth; ++l)
    {
      base = base->refine_unique(Geometry::AdaptMode::none);
      for(Index r = 0; r < num_ranks; ++r)
        patches[r] = patches[r]->refine_unique(Geometry::AdaptMode::none);
    }

    if(coords)
    {
      o << "B";
      for(int d = 0; d <= D; ++d) o << " " << base->get_mesh()->get_num_entities(d);
      show_index_sets(o, *base->get_mesh());
      show_coords(o, *base->get_mesh());
      o << " ";
    }
    o << "L " << num_ranks;
    for(Index r = 0; r < num_ranks; ++r)
    {
      o << " C " << comm[r].size();
      for(int s : comm[r]) o << " " << s;
      const PartType* ppart = base->get_patch(int(r));
      if(ppart == nullptr) { o << " NOPATCH"; continue; }
      o << " T";
      show_target_sets(o, *ppart);
      o << " M";
      for(int d = 0; d <= D; ++d) o << " " << patches[r]->get_mesh()->get_num_entities(d);
      show_index_sets(o, *patches[r]->get_mesh());
      if(coords)
        show_coords(o, *patches[r]->get_mesh());
      const auto& halos = patches[r]->get_halo_map();
      o << " H " << halos.size();
      for(const auto& h : halos)
      {
        o << " " << h.first;
        if(h.second) show_target_sets(o, *h.second);
        else o << " NOHALO";
      }
    }
  }

  static void handle(const std::string& op, Cur& c, std::ostream& o)
  {
    if(op == "extract" || op == "refine")
    {
      Index depth = (op == "refine") ? c.idx() : Index(0);
      auto mesh = read_mesh(c, op == "refine");
      Adjacency::Graph g = read_graph(c);
      extract_all(o, std::move(mesh), g, depth, op == "refine");
    }
    else if(op == "split")
    {
      // a base-mesh mesh part (target sets only, no topology) is split among the patches by step 4 of extract_patch
      auto mesh = read_mesh(c, false);
      Adjacency::Graph g = read_graph(c);
      Index pnum[D + 1];
      std::vector<std::vector<std::size_t>> trg(D + 1);
      for(int d = 0; d <= D; ++d) { trg[d] = c.idxlist(); pnum[d] = Index(trg[d].size()); }
      std::unique_ptr<PartType> part(new PartType(pnum, false));
      DimLoop<D>::run([&](auto d)
      {
        auto& ts = part->template get_target_set<decltype(d)::value>();
        for(Index i = 0; i < ts.get_num_entities(); ++i) ts[i] = Index(trg[decltype(d)::value][i]);
      });
      std::unique_ptr<NodeType> base = NodeType::make_unique(std::move(mesh));
      base->add_mesh_part("p", std::move(part));
      const Index num_ranks = g.get_num_nodes_domain();
      o << "L " << num_ranks;
      for(Index r = 0; r < num_ranks; ++r)
      {
        std::vector<int> comm;
        std::unique_ptr<NodeType> patch = base->extract_patch(comm, g, int(r));
        const PartType* sp = patch->find_mesh_part("p");
        o << " S";
        if(sp == nullptr) o << " NONE";
        else show_target_sets(o, *sp);
      }
    }
    else if(op == "hsplit")
    {
      // two-level (recursive) partitioning in one process: parents = ranks of the graph; every base cell carries the
      // index of its child patch inside its parent.  The inter-parent halos are split among the children with the real
      // PatchHaloSplitter (split / serialize / intersect), exactly the calls of _split_basemesh_halos without the MPI
      // transport of the serialized buffers.
      auto mesh = read_mesh(c, false);
      Adjacency::Graph g = read_graph(c);
      auto child_of = c.idxlist();
      const Index num_par = g.get_num_nodes_domain();
      std::unique_ptr<NodeType> base = NodeType::make_unique(std::move(mesh));
      std::vector<std::unique_ptr<NodeType>> par(num_par);
      std::vector<Index> num_child(num_par, 0);
      for(Index a = 0; a < num_par; ++a)
      {
        std::vector<int> comm;
        par[a] = base->extract_patch(comm, g, int(a));
        // elements-at-child graph of the parent patch (local cell numbers, ascending)
        const auto& cells = base->get_patch(int(a))->template get_target_set<D>();
        for(Index i = 0; i < cells.get_num_entities(); ++i)
          num_child[a] = std::max(num_child[a], Index(child_of.at(cells[i])) + 1);
        std::vector<Index> ptr(1, 0), idx;
        for(Index ch = 0; ch < num_child[a]; ++ch)
        {
          for(Index i = 0; i < cells.get_num_entities(); ++i)
            if(Index(child_of.at(cells[i])) == ch) idx.push_back(i);
          ptr.push_back(Index(idx.size()));
        }
        Adjacency::Graph ga(num_child[a], cells.get_num_entities(), Index(idx.size()), ptr.data(), idx.data());
        for(Index ch = 0; ch < num_child[a]; ++ch)
          par[a]->create_patch_meshpart(ga, int(ch));
      }
      // one splitter per (parent, child); all base-mesh halos of the parent are added
      typedef Geometry::PatchHaloSplitter<MeshType> SplitterType;
      std::vector<std::vector<std::unique_ptr<SplitterType>>> spl(num_par);
      for(Index a = 0; a < num_par; ++a)
        for(Index ch = 0; ch < num_child[a]; ++ch)
        {
          spl[a].emplace_back(new SplitterType(*par[a]->get_mesh(), *par[a]->get_patch(int(ch))));
          for(const auto& h : par[a]->get_halo_map())
            spl[a].back()->add_halo(h.first, *h.second);
        }
      o << "HS " << num_par;
      for(Index a = 0; a < num_par; ++a)
      {
        o << " P " << num_child[a];
        for(Index ch = 0; ch < num_child[a]; ++ch)
        {
          o << " K";
          show_target_sets(o, *par[a]->get_patch(int(ch)));
          std::ostringstream hs; Index nh = 0;
          for(const auto& h : par[a]->get_halo_map())
          {
            const Index b = Index(h.first);
            for(Index dh = 0; dh < num_child[b]; ++dh)
            {
              // what child dh of parent b would send about its part of the halo b->a
              if(spl[b][dh]->add_halo(int(a), *par[b]->get_halo(int(a))) == std::size_t(0))
                continue;
              std::vector<Index> buffer = spl[b][dh]->serialize_split_halo(int(a), int(dh));
              if(!spl[a][ch]->intersect_split_halo(int(b), buffer, Index(0)))
                continue;
              std::unique_ptr<PartType> hp = spl[a][ch]->make_unique();
              hs << " " << b << " " << dh;
              show_target_sets(hs, *hp);
              ++nh;
            }
          }
          o << " H " << nh << hs.str();
        }
      }
    }
    else if(op == "idist")
    {
      // the distance function of PartiIterative (deterministic): idist <shape> <num_patches> <start> <thr> <mesh>
      Index num_patches = c.idx(), start = c.idx();
      c.idx(); // threshold: an input of the model only (the C++ computes it with floating point pow)
      auto mesh = read_mesh(c, false);
      std::vector<Index> d = Geometry::Intern::parti_iterative_distance(start, *mesh, num_patches);
      o << "D " << d.size();
      for(Index x : d) o << " " << x;
    }
    else if(op == "iterc")
    {
      // PartiIterativeIndividual with a seeded RNG: iterc <shape> <seed> <num_patches> <thr> <centres> <mesh>
      // <centres> = the cluster centres this seed draws (computed by the generator's xorshift64* replica and checked
      // against the real _centers below)
      Index seed = c.idx(), num_patches = c.idx();
      c.idx();
      auto cen = c.idxlist();
      auto mesh = read_mesh(c, false);
      const Index n = mesh->get_num_elements();
      std::sort(cen.begin(), cen.end());
      // is every cell reached from some centre?  (real distance function; an unreached cell keeps an uninitialised
      // PartiIterativeItem::patch, which the constructor then uses as an index)
      std::vector<bool> reached(n, false);
      for(auto ce : cen)
      {
        std::vector<Index> d = Geometry::Intern::parti_iterative_distance(Index(ce), *mesh, num_patches);
        for(Index i = 0; i < n; ++i)
          if(d.at(i) != std::numeric_limits<Index>::max()) reached[i] = true;
      }
      std::vector<Index> un;
      for(Index i = 0; i < n; ++i) if(!reached[i]) un.push_back(i);
      if(n >= num_patches && !un.empty())
      {
        o << "IC " << cen.size();
        for(auto ce : cen) o << " " << ce;
        o << " UNINIT " << un.size();
        for(Index x : un) o << " " << x;
        return;
      }
      Random rng(seed);
      Geometry::Intern::PartiIterativeIndividual<Shape_, D, Q> indi(*mesh, rng, num_patches);
      o << "IC " << indi._centers.size();
      for(Index ce : indi._centers) o << " " << ce;
      o << " R " << indi._cells_per_patch.size();
      for(const auto& st : indi._cells_per_patch)
      {
        o << " " << st.size();
        for(Index x : st) o << " " << x;
      }
    }
    else if(op == "p2l")
    {
      Index num[D + 1];
      for(int d = 0; d <= D; ++d) num[d] = 0;
      num[D] = c.idx();
      Index ranks = c.idx();
      MeshType mesh(num);
      Geometry::Parti2Lvl<MeshType> parti(mesh, ranks);
      if(!parti.success()) { o << "F"; return; }
      o << "S " << parti.parti_level() << " ";
      show_graph(o, parti.build_elems_at_rank());
    }
    else if(op == "auto")
    {
      Index kind = c.idx(), ranks = c.idx(), depth = c.idx();
      auto mesh = read_mesh(c, true);
      std::unique_ptr<Adjacency::Graph> g;
      Index lvl = 0;
      if(kind == 0)
      {
        Geometry::Parti2Lvl<MeshType> parti(*mesh, ranks);
        if(!parti.success()) { o << "F"; return; }
        lvl = parti.parti_level();
        // refine the mesh up to the partitioning level (step 3 of the documented usage)
        for(Index l = 0; l < lvl; ++l)
        {
          Geometry::StandardRefinery<MeshType> refinery(*mesh);
          mesh = refinery.make_unique();
        }
        g.reset(new Adjacency::Graph(parti.build_elems_at_rank()));
      }
      else
      {
        Dist::Comm comm = Dist::Comm::world();
        Geometry::PartiIterative<MeshType> parti(*mesh, comm, ranks, 0.0, kind == 1 ? 0.0 : 0.02);
        g.reset(new Adjacency::Graph(parti.build_elems_at_rank()));
      }
      o << "P " << lvl << " ";
      show_graph(o, *g);
      // an empty patch is a partitioner failure by itself (extract_patch would only abort): leave it to the oracle
      for(Index r = 0; r < g->get_num_nodes_domain(); ++r)
        if(g->degree(r) == Index(0)) { o << " EMPTY"; return; }
      o << " ";
      extract_all(o, std::move(mesh), *g, depth, true);
    }
    else
      o << "BAD-OP";
  }
};

static void handle(const verif::Tokens& t, std::ostream& o)
{
  Cur c(t);
  std::string op = c.str();
  if(op != "extract" && op != "refine" && op != "p2l" && op != "auto" && op != "split" && op != "hsplit" && op != "idist" && op != "iterc") { o << "BAD-OP"; return; }
  std::string shape = c.str();
  if(shape == "h1") Run<Shape::Hypercube<1>>::handle(op, c, o);
  else if(shape == "h2") Run<Shape::Hypercube<2>>::handle(op, c, o);
  else if(shape == "s2") Run<Shape::Simplex<2>>::handle(op, c, o);
  else if(shape == "h3") Run<Shape::Hypercube<3>>::handle(op, c, o);
  else if(shape == "s3") Run<Shape::Simplex<3>>::handle(op, c, o);
  else o << "BAD-OP";
}

int main(int argc, char** argv)
{
  return verif::run_cases(argc, argv, handle);
}
