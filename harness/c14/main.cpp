// C14 harness: executes the real kernel/cubature code on one case per line (see FeatModel/Driver/C14.lean)
//   head  <pfx> <shape> <hexname>   DynamicFactory::create at double  -> OK <rule name> <#points> | REFUSED
//   rule  <pfx> <shape> <hexname>   the same, full rule (every double printed as its exact rational value)
//   ruleq <pfx> <shape> <hexname>   DynamicFactory::create at the exact rational type Q, full rule
//   headt / rulet                   like head / rule, but through DynamicFactory(name).create_throw(rule)
//                                   (Cubature::UnknownRule -> REFUSED)
//   refine <shape> <k> <dyrule>     RefineFactoryCore::create(rule, rule_in, k) at Q
//   tensor <dim> <dyrule>           TensorProductFactoryBase<..>::create(rule, scalar_rule) at Q
//   sscalar <dyrule>                SimplexScalarFactoryBase<..>::create(rule, scalar_rule) at Q
//   auto <pfx> <shape> <d>          Intern::AutoDegree<Shape>::choose(d)
// <dyrule> = ew ec dim n  W_1 X_11 .. X_1dim  W_2 ..   (weights W/2^ew, coordinates X/2^ec)
// The binary is built twice: plain, and with -DFEAT_CUBATURE_TENSOR_PREFIX -DFEAT_CUBATURE_SCALAR_PREFIX (pfx = 1).
#include <exact_q.hpp>
#include <forkcase.hpp>
#include <kernel/cubature/dynamic_factory.hpp>
#include <kernel/cubature/scalar/dynamic_factory.hpp>

using namespace FEAT;
using verif::Cur;

#ifdef FEAT_CUBATURE_TENSOR_PREFIX
static const int my_pfx = 1;
#else
static const int my_pfx = 0;
#endif

static std::string unhex(const std::string& h)
{
  if(h == "-") return std::string();
  std::string r;
  for(std::size_t i = 0; i + 1 < h.size(); i += 2)
    r.push_back(char(std::stoi(h.substr(i, 2), nullptr, 16)));
  return r;
}

static std::string qstr(double v) { return Q(v).str(); }
static std::string qstr(Q v) { return v.str(); }

template<typename Shape_, typename DT_>
static void show_rule(std::ostream& o, const std::string& name, const Cubature::Rule<Shape_, DT_, DT_, Tiny::Vector<DT_, Shape_::dimension>>& rule)
{
  o << "R " << name << " " << rule.get_num_points();
  for(int i = 0; i < rule.get_num_points(); ++i)
  {
    o << " " << qstr(rule.get_weight(i));
    for(int j = 0; j < Shape_::dimension; ++j) o << " " << qstr(rule.get_coord(i, j));
  }
}

template<typename Shape_, typename DT_>
static void do_create(const std::string& op, const std::string& name, std::ostream& o)
{
  Cubature::Rule<Shape_, DT_, DT_, Tiny::Vector<DT_, Shape_::dimension>> rule;
  bool ok = false;
  if(op == "headt" || op == "rulet")
  {
    try { Cubature::DynamicFactory fac{String(name)}; fac.create_throw(rule); ok = true; }
    catch(const Cubature::UnknownRule&) { ok = false; }
  }
  else
    ok = Cubature::DynamicFactory::create(rule, String(name));
  if(!ok) { o << "REFUSED"; return; }
  if(op == "head" || op == "headt") o << "OK " << rule.get_name() << " " << rule.get_num_points();
  else show_rule<Shape_, DT_>(o, rule.get_name(), rule);
}

template<typename Shape_>
static void do_create_s(const std::string& op, const std::string& name, std::ostream& o)
{
  if(op == "ruleq") do_create<Shape_, Q>(op, name, o);
  else do_create<Shape_, double>(op, name, o);
}

static mpq_class dy(long long num, unsigned long e)
{
  mpq_class q(mpz_class((long)num), mpz_class(1) << e);
  q.canonicalize();
  return q;
}

// reads a dyadic rule into a Rule<Shape_, Q..>
template<typename Shape_>
static Cubature::Rule<Shape_, Q, Q, Tiny::Vector<Q, Shape_::dimension>> read_rule(Cur& c)
{
  unsigned long ew = c.idx(), ec = c.idx();
  int dim = int(c.idx()), n = int(c.idx());
  if(dim != Shape_::dimension) { std::cerr << "\n>>> FATAL ERROR: harness: dimension mismatch\n"; std::abort(); }
  Cubature::Rule<Shape_, Q, Q, Tiny::Vector<Q, Shape_::dimension>> r(n, "in");
  for(int i = 0; i < n; ++i)
  {
    r.get_weight(i) = Q(dy(c.i64(), ew));
    for(int j = 0; j < dim; ++j) r.get_coord(i, j) = Q(dy(c.i64(), ec));
  }
  return r;
}

static Cubature::Scalar::Rule<Q, Q> read_scalar_rule(Cur& c)
{
  unsigned long ew = c.idx(), ec = c.idx();
  int dim = int(c.idx()), n = int(c.idx());
  if(dim != 1) { std::cerr << "\n>>> FATAL ERROR: harness: scalar rule expected\n"; std::abort(); }
  Cubature::Scalar::Rule<Q, Q> r(n, "in");
  for(int i = 0; i < n; ++i)
  {
    r.get_weight(i) = Q(dy(c.i64(), ew));
    r.get_coord(i) = Q(dy(c.i64(), ec));
  }
  return r;
}

template<typename Shape_>
static void do_refine(Cur& c, Index k, std::ostream& o)
{
  auto rin = read_rule<Shape_>(c);
  Cubature::Rule<Shape_, Q, Q, Tiny::Vector<Q, Shape_::dimension>> rule;
  Cubature::RefineFactoryCore::create(rule, rin, k);
  show_rule<Shape_, Q>(o, "-", rule);
}

template<typename Shape_>
static void do_tensor(Cur& c, std::ostream& o)
{
  auto sr = read_scalar_rule(c);
  Cubature::Rule<Shape_, Q, Q, Tiny::Vector<Q, Shape_::dimension>> rule;
  // the scalar driver type only selects the factory used for names; create(rule, scalar_rule) is driver independent
  Cubature::TensorProductFactoryBase<Cubature::Scalar::GaussLegendreDriver, Shape_>::create(rule, sr);
  show_rule<Shape_, Q>(o, "-", rule);
}

#define DISPATCH(tag, CALL) \
  if(tag == "s1") { CALL(Shape::Simplex<1>); } else if(tag == "s2") { CALL(Shape::Simplex<2>); } \
  else if(tag == "s3") { CALL(Shape::Simplex<3>); } else if(tag == "h1") { CALL(Shape::Hypercube<1>); } \
  else if(tag == "h2") { CALL(Shape::Hypercube<2>); } else if(tag == "h3") { CALL(Shape::Hypercube<3>); } \
  else { o << "BAD-OP unknown shape"; }

static void handle(const verif::Tokens& t, std::ostream& o)
{
  Cur c(t);
  std::string op = c.str();
  if(op == "head" || op == "rule" || op == "ruleq" || op == "headt" || op == "rulet")
  {
    int pfx = int(c.idx());
    std::string tag = c.str();
    std::string name = unhex(c.str());
    if(pfx != my_pfx) { o << "CFG-MISMATCH"; return; }
#define CALL(S) do_create_s<S>(op, name, o)
    DISPATCH(tag, CALL)
#undef CALL
  }
  else if(op == "refine")
  {
    std::string tag = c.str();
    Index k = c.idx();
#define CALL(S) do_refine<S>(c, k, o)
    DISPATCH(tag, CALL)
#undef CALL
  }
  else if(op == "tensor")
  {
    int dim = int(c.idx());
    if(dim == 1) do_tensor<Shape::Hypercube<1>>(c, o);
    else if(dim == 2) do_tensor<Shape::Hypercube<2>>(c, o);
    else if(dim == 3) do_tensor<Shape::Hypercube<3>>(c, o);
    else o << "BAD-OP dim";
  }
  else if(op == "sscalar")
  {
    auto sr = read_scalar_rule(c);
    Cubature::Rule<Shape::Simplex<1>, Q, Q, Tiny::Vector<Q, 1>> rule;
    Cubature::SimplexScalarFactoryBase<Cubature::Scalar::GaussLegendreDriver>::create(rule, sr);
    show_rule<Shape::Simplex<1>, Q>(o, "-", rule);
  }
  else if(op == "auto")
  {
    int pfx = int(c.idx());
    std::string tag = c.str();
    Index d = Index(c.idx());
    if(pfx != my_pfx) { o << "CFG-MISMATCH"; return; }
#define CALL(S) o << Cubature::Intern::AutoDegree<S>::choose(d)
    DISPATCH(tag, CALL)
#undef CALL
  }
  else
    o << "BAD-OP unknown op";
}

int main(int argc, char** argv)
{
  return verif::run_cases(argc, argv, handle);
}
