// C01 harness, meta-matrices: builds real TupleMatrix / Power{Diag,Full,Row,Col}Matrix / SaddlePointMatrix objects over
// CSR / BCSR / dense leaves at Q from a prefix tree expression and calls their apply members with the matching
// TupleVector / PowerVector operands.
//
//   meta <cppType> OP <tree> alpha L(x) L(y) alias        OP in {apply, applyT, axpy, axpyT} (Tuple/PowerVector operands)
//                                                          or {applyF, applyTF, axpyF, axpyTF}: the flat DenseVector overloads
//   <tree> ::= R <tree> <tree>        first block left of the rest   (PowerRowMatrix / TupleMatrixRow recursion)
//            | C <tree> <tree>        first block above the rest     (PowerColMatrix / TupleMatrix recursion)
//            | D <tree> <tree>        block diagonal                 (PowerDiagMatrix recursion)
//            | S <tree> <tree> <tree> saddle point [A B; D 0]
//            | csr rows cols L(rowPtr) L(colInd) L(val) | bcsr bh bw rows cols L(rowPtr) L(colInd) L(val)
//            | dense rows cols L(val)
// x, y, r are the concatenated pod arrays of the leaf vectors in tree order. Output as in main.cpp: "R n r.. U<0|1>".
#include <forkcase.hpp>
#include <exact_q.hpp>
#include <kernel/lafem/dense_vector.hpp>
#include <kernel/lafem/dense_vector_blocked.hpp>
#include <kernel/lafem/power_vector.hpp>
#include <kernel/lafem/tuple_vector.hpp>
#include <kernel/lafem/sparse_matrix_csr.hpp>
#include <kernel/lafem/sparse_matrix_bcsr.hpp>
#include <kernel/lafem/dense_matrix.hpp>
#include <kernel/lafem/sparse_matrix_cscr.hpp>
#include <kernel/lafem/sparse_matrix_banded.hpp>
#include <kernel/lafem/power_row_matrix.hpp>
#include <kernel/lafem/power_col_matrix.hpp>
#include <kernel/lafem/power_diag_matrix.hpp>
#include <kernel/lafem/power_full_matrix.hpp>
#include <kernel/lafem/tuple_matrix.hpp>
#include <kernel/lafem/tuple_diag_matrix.hpp>
#include <kernel/lafem/saddle_point_matrix.hpp>

using namespace FEAT;
using namespace FEAT::LAFEM;
using verif::Cur;

namespace
{
  typedef std::vector<Q> QV;
  typedef std::vector<std::size_t> NV;
  typedef SparseMatrixCSR<Q, Index> Csr;
  template<int bh_, int bw_> using Bcsr = SparseMatrixBCSR<Q, Index, bh_, bw_>;
  typedef DenseMatrix<Q, Index> Dns;
  typedef SparseMatrixCSCR<Q, Index> Cscr;
  typedef SparseMatrixBanded<Q, Index> Bnd;

  QV qlist(Cur& c) { std::size_t n = c.idx(); QV v(n); for(auto& x : v) x = Q::parse(c.str()); return v; }
  DenseVector<Index, Index> ivec(const NV& v) { DenseVector<Index, Index> r(Index(v.size())); for(Index i(0); i < Index(v.size()); ++i) r(i, Index(v[i])); return r; }
  DenseVector<Q, Index> qvec(const QV& v) { DenseVector<Q, Index> r(Index(v.size())); for(Index i(0); i < Index(v.size()); ++i) r(i, v[i]); return r; }

  void expect(Cur& c, const char* tok)
  {
    if(c.str() != tok) { std::cerr << "\n>>> FATAL ERROR: harness: tree does not match the C++ type (expected " << tok << ")\n"; std::abort(); }
  }

  // ---------------------------------------------------------------- matrix builders
  template<typename T_> struct Meta;

  template<> struct Meta<Csr>
  {
    static Csr make(Cur& c)
    {
      expect(c, "csr");
      Index rows = c.idx(), cols = c.idx();
      NV rp = c.idxlist(), ci = c.idxlist(); QV val = qlist(c);
      if(val.empty()) return Csr(rows, cols);
      auto vci = ivec(ci); auto vrp = ivec(rp); auto vv = qvec(val);
      return Csr(rows, cols, vci, vv, vrp);
    }
  };

  template<int bh_, int bw_> struct Meta<Bcsr<bh_, bw_>>
  {
    static Bcsr<bh_, bw_> make(Cur& c)
    {
      expect(c, "bcsr");
      if(int(c.idx()) != bh_ || int(c.idx()) != bw_) { std::cerr << "\n>>> FATAL ERROR: harness: block shape mismatch\n"; std::abort(); }
      Index rows = c.idx(), cols = c.idx();
      NV rp = c.idxlist(), ci = c.idxlist(); QV val = qlist(c);
      if(val.empty()) return Bcsr<bh_, bw_>(rows, cols);
      auto vci = ivec(ci); auto vrp = ivec(rp); auto vv = qvec(val);
      return Bcsr<bh_, bw_>(rows, cols, vci, vv, vrp);
    }
  };

  template<> struct Meta<Cscr>
  {
    static Cscr make(Cur& c)
    {
      expect(c, "cscr");
      Index rows = c.idx(), cols = c.idx();
      NV rp = c.idxlist(), ci = c.idxlist(); QV val = qlist(c); NV rn = c.idxlist();
      if(val.empty()) return Cscr(rows, cols);
      auto vci = ivec(ci); auto vrp = ivec(rp); auto vv = qvec(val); auto vrn = ivec(rn);
      return Cscr(rows, cols, vci, vv, vrp, vrn);
    }
  };

  template<> struct Meta<Bnd>
  {
    static Bnd make(Cur& c)
    {
      expect(c, "banded");
      Index rows = c.idx(), cols = c.idx();
      NV off = c.idxlist(); QV val = qlist(c);
      auto voff = ivec(off); auto vv = qvec(val);
      return Bnd(rows, cols, vv, voff);
    }
  };

  template<> struct Meta<Dns>
  {
    static Dns make(Cur& c)
    {
      expect(c, "dense");
      Index rows = c.idx(), cols = c.idx();
      QV val = qlist(c);
      Dns a(rows, cols);
      for(Index i(0); i < rows; ++i) for(Index j(0); j < cols; ++j) a(i, j, val[i * cols + j]);
      return a;
    }
  };

  template<typename Sub_, int n_> struct Meta<PowerRowMatrix<Sub_, n_>>
  {
    static PowerRowMatrix<Sub_, n_> make(Cur& c)
    {
      if constexpr (n_ == 1) { PowerRowMatrix<Sub_, 1> m; m.first() = Meta<Sub_>::make(c); return m; }
      else { expect(c, "R"); PowerRowMatrix<Sub_, n_> m; m.first() = Meta<Sub_>::make(c);
             m.rest() = Meta<PowerRowMatrix<Sub_, n_ - 1>>::make(c); return m; }
    }
  };

  template<typename Sub_, int n_> struct Meta<PowerColMatrix<Sub_, n_>>
  {
    static PowerColMatrix<Sub_, n_> make(Cur& c)
    {
      if constexpr (n_ == 1) { PowerColMatrix<Sub_, 1> m; m.first() = Meta<Sub_>::make(c); return m; }
      else { expect(c, "C"); PowerColMatrix<Sub_, n_> m; m.first() = Meta<Sub_>::make(c);
             m.rest() = Meta<PowerColMatrix<Sub_, n_ - 1>>::make(c); return m; }
    }
  };

  template<typename Sub_, int n_> struct Meta<PowerDiagMatrix<Sub_, n_>>
  {
    static PowerDiagMatrix<Sub_, n_> make(Cur& c)
    {
      if constexpr (n_ == 1) { PowerDiagMatrix<Sub_, 1> m; m.first() = Meta<Sub_>::make(c); return m; }
      else { expect(c, "D"); PowerDiagMatrix<Sub_, n_> m; m.first() = Meta<Sub_>::make(c);
             m.rest() = Meta<PowerDiagMatrix<Sub_, n_ - 1>>::make(c); return m; }
    }
  };

  // note the parameter order of PowerFullMatrix: <Sub, width, height>
  template<typename Sub_, int w_, int h_> struct Meta<PowerFullMatrix<Sub_, w_, h_>>
  {
    static PowerFullMatrix<Sub_, w_, h_> make(Cur& c)
    {
      typedef PowerColMatrix<PowerRowMatrix<Sub_, w_>, h_> Cont;
      PowerFullMatrix<Sub_, w_, h_> m;
      m.get_container() = Meta<Cont>::make(c);
      return m;
    }
  };

  template<typename First_, typename... Rest_> struct Meta<TupleMatrixRow<First_, Rest_...>>
  {
    static TupleMatrixRow<First_, Rest_...> make(Cur& c)
    {
      if constexpr (sizeof...(Rest_) == 0) { TupleMatrixRow<First_> m; m.first() = Meta<First_>::make(c); return m; }
      else { expect(c, "R"); First_ f = Meta<First_>::make(c); auto r = Meta<TupleMatrixRow<Rest_...>>::make(c);
             return TupleMatrixRow<First_, Rest_...>(std::move(f), std::move(r)); }
    }
  };

  template<typename First_, typename... Rest_> struct Meta<TupleMatrix<First_, Rest_...>>
  {
    static TupleMatrix<First_, Rest_...> make(Cur& c)
    {
      if constexpr (sizeof...(Rest_) == 0) { TupleMatrix<First_> m; m.first() = Meta<First_>::make(c); return m; }
      else { expect(c, "C"); First_ f = Meta<First_>::make(c); auto r = Meta<TupleMatrix<Rest_...>>::make(c);
             return TupleMatrix<First_, Rest_...>(std::move(f), std::move(r)); }
    }
  };

  template<typename First_, typename... Rest_> struct Meta<TupleDiagMatrix<First_, Rest_...>>
  {
    static TupleDiagMatrix<First_, Rest_...> make(Cur& c)
    {
      if constexpr (sizeof...(Rest_) == 0) { TupleDiagMatrix<First_> m; m.first() = Meta<First_>::make(c); return m; }
      else { expect(c, "D"); TupleDiagMatrix<First_, Rest_...> m; m.first() = Meta<First_>::make(c);
             m.rest() = Meta<TupleDiagMatrix<Rest_...>>::make(c); return m; }
    }
  };

  template<typename A_, typename B_, typename D_> struct Meta<SaddlePointMatrix<A_, B_, D_>>
  {
    static SaddlePointMatrix<A_, B_, D_> make(Cur& c)
    {
      expect(c, "S");
      A_ a = Meta<A_>::make(c); B_ b = Meta<B_>::make(c); D_ d = Meta<D_>::make(c);
      return SaddlePointMatrix<A_, B_, D_>(std::move(a), std::move(b), std::move(d));
    }
  };

  // ---------------------------------------------------------------- vector fill / flatten (pod order)
  template<typename V_> struct Vec;

  template<> struct Vec<DenseVector<Q, Index>>
  {
    typedef DenseVector<Q, Index> V;
    static void fill(V& v, const Q*& p) { for(Index i(0); i < v.size(); ++i) v(i, *p++); }
    static void fillc(V& v, Q val) { for(Index i(0); i < v.size(); ++i) v(i, val); }
    static void flat(const V& v, QV& o) { for(Index i(0); i < v.size(); ++i) o.push_back(v(i)); }
  };

  template<int bs_> struct Vec<DenseVectorBlocked<Q, Index, bs_>>
  {
    typedef DenseVectorBlocked<Q, Index, bs_> V;
    static void fill(V& v, const Q*& p) { Q* e = v.template elements<Perspective::pod>(); for(Index i(0); i < v.size() * Index(bs_); ++i) e[i] = *p++; }
    static void fillc(V& v, Q val) { Q* e = v.template elements<Perspective::pod>(); for(Index i(0); i < v.size() * Index(bs_); ++i) e[i] = val; }
    static void flat(const V& v, QV& o) { const Q* e = v.template elements<Perspective::pod>(); for(Index i(0); i < v.size() * Index(bs_); ++i) o.push_back(e[i]); }
  };

  template<typename Sub_, int n_> struct Vec<PowerVector<Sub_, n_>>
  {
    typedef PowerVector<Sub_, n_> V;
    static void fill(V& v, const Q*& p) { Vec<Sub_>::fill(v.first(), p); if constexpr (n_ > 1) Vec<PowerVector<Sub_, n_ - 1>>::fill(v.rest(), p); }
    static void fillc(V& v, Q val) { Vec<Sub_>::fillc(v.first(), val); if constexpr (n_ > 1) Vec<PowerVector<Sub_, n_ - 1>>::fillc(v.rest(), val); }
    static void flat(const V& v, QV& o) { Vec<Sub_>::flat(v.first(), o); if constexpr (n_ > 1) Vec<PowerVector<Sub_, n_ - 1>>::flat(v.rest(), o); }
  };

  template<typename First_, typename... Rest_> struct Vec<TupleVector<First_, Rest_...>>
  {
    typedef TupleVector<First_, Rest_...> V;
    static void fill(V& v, const Q*& p) { Vec<First_>::fill(v.first(), p); if constexpr (sizeof...(Rest_) > 0) Vec<TupleVector<Rest_...>>::fill(v.rest(), p); }
    static void fillc(V& v, Q val) { Vec<First_>::fillc(v.first(), val); if constexpr (sizeof...(Rest_) > 0) Vec<TupleVector<Rest_...>>::fillc(v.rest(), val); }
    static void flat(const V& v, QV& o) { Vec<First_>::flat(v.first(), o); if constexpr (sizeof...(Rest_) > 0) Vec<TupleVector<Rest_...>>::flat(v.rest(), o); }
  };

  template<typename V_> void fill_from(V_& v, const QV& src, const char* what)
  {
    QV probe; Vec<V_>::flat(v, probe);
    if(probe.size() != src.size()) { std::cerr << "\n>>> FATAL ERROR: harness: operand " << what << " has " << src.size() << " entries, the vector needs " << probe.size() << "\n"; std::abort(); }
    const Q* p = src.data(); Vec<V_>::fill(v, p);
  }

  bool same(const QV& a, const QV& b) { if(a.size() != b.size()) return false; for(std::size_t i(0); i < a.size(); ++i) if(!(a[i] == b[i])) return false; return true; }

  void show(std::ostream& o, const QV& r, bool unchanged)
  {
    o << "R " << r.size();
    for(const auto& q : r) o << " " << q;
    o << (unchanged ? " U1" : " U0");
  }

  // ---------------------------------------------------------------- one case
  // has_flat_: the type also has the overloads taking plain DenseVector operands (all leaves use DenseVector)
  template<typename Mat_, bool has_flat_ = false>
  void run(Cur& c, std::ostream& o, const std::string& op_in)
  {
    Mat_ a = Meta<Mat_>::make(c);
    Q alpha = Q::parse(c.str()); QV xs = qlist(c), ys = qlist(c); bool alias = (c.idx() != 0);
    const Q sentinel(777);
    std::string op = op_in;
    const bool flat = (op.size() > 1 && op.back() == 'F');
    if(flat) op.pop_back();
    const bool tr = (op == "applyT" || op == "axpyT");
    const bool ax = (op == "axpy" || op == "axpyT");
    if(!(tr || ax || op == "apply")) { o << "BAD-OP"; return; }
    // generic driver over the vector types: mkr() / mkx() create compatible (sized) vectors
    auto drive = [&](auto trtag, auto mkr, auto mkx)
    {
      constexpr bool TR = decltype(trtag)::value;
      auto x = mkx(); fill_from(x, xs, "x");
      auto r = mkr();
      typedef decltype(r) RV; typedef decltype(x) XV;
      if(!ax)
      {
        Vec<RV>::fillc(r, sentinel);
        if constexpr (TR) a.apply_transposed(r, x); else a.apply(r, x);
      }
      else if(alias)
      {
        fill_from(r, ys, "y");
        if constexpr (TR) a.apply_transposed(r, x, r, alpha); else a.apply(r, x, r, alpha);
      }
      else
      {
        auto y = mkr(); fill_from(y, ys, "y"); Vec<RV>::fillc(r, sentinel);
        if constexpr (TR) a.apply_transposed(r, x, y, alpha); else a.apply(r, x, y, alpha);
        QV yf; Vec<RV>::flat(y, yf);
        if(!same(yf, ys)) { QV rf; Vec<RV>::flat(r, rf); show(o, rf, false); return; }
      }
      QV rf, xf; Vec<RV>::flat(r, rf); Vec<XV>::flat(x, xf);
      show(o, rf, same(xf, xs));
    };
    if(!flat)
    {
      if(tr) drive(std::true_type(), [&]() { return a.create_vector_r(); }, [&]() { return a.create_vector_l(); });
      else drive(std::false_type(), [&]() { return a.create_vector_l(); }, [&]() { return a.create_vector_r(); });
    }
    else if constexpr (has_flat_)
    {
      // pod sizes from the compatible Tuple/Power vectors
      QV pl, pr; { auto vl = a.create_vector_l(); Vec<decltype(vl)>::flat(vl, pl); auto vr = a.create_vector_r(); Vec<decltype(vr)>::flat(vr, pr); }
      const Index nl = Index(pl.size()), nrr = Index(pr.size());
      if(tr) drive(std::true_type(), [&]() { return DenseVector<Q, Index>(nrr); }, [&]() { return DenseVector<Q, Index>(nl); });
      else drive(std::false_type(), [&]() { return DenseVector<Q, Index>(nl); }, [&]() { return DenseVector<Q, Index>(nrr); });
    }
    else
      o << "BAD-OP";
  }
}

// the catalogue of concrete C++ types (depth <= 3)
void handle_meta(Cur& c, std::ostream& o)
{
  std::string ty = c.str(), op = c.str();
  typedef PowerRowMatrix<Csr, 2> Row2;
  typedef PowerColMatrix<Csr, 2> Col2;
  typedef PowerDiagMatrix<Csr, 2> Diag2;
  typedef SaddlePointMatrix<Csr, Csr, Csr> Sad;
  if(ty == "prow3_csr") run<PowerRowMatrix<Csr, 3>, true>(c, o, op);
  else if(ty == "pcol3_csr") run<PowerColMatrix<Csr, 3>, true>(c, o, op);
  else if(ty == "pdiag2_csr") run<Diag2, true>(c, o, op);
  else if(ty == "pdiag2_bcsr23") run<PowerDiagMatrix<Bcsr<2, 3>, 2>>(c, o, op);
  else if(ty == "pfull_w3h2_csr") run<PowerFullMatrix<Csr, 3, 2>, true>(c, o, op);
  else if(ty == "pfull22_bcsr22") run<PowerFullMatrix<Bcsr<2, 2>, 2, 2>>(c, o, op);
  else if(ty == "saddle_csr") run<Sad, true>(c, o, op);
  else if(ty == "saddle_stokes") run<SaddlePointMatrix<Diag2, Col2, Row2>, true>(c, o, op);
  else if(ty == "saddle_bcsr") run<SaddlePointMatrix<Bcsr<2, 2>, Bcsr<2, 1>, Bcsr<1, 2>>>(c, o, op);
  else if(ty == "tuple22_csr_dense") run<TupleMatrix<TupleMatrixRow<Csr, Dns>, TupleMatrixRow<Dns, Csr>>>(c, o, op);
  else if(ty == "tuple22_bcsr") run<TupleMatrix<TupleMatrixRow<Bcsr<2, 2>, Bcsr<2, 3>>, TupleMatrixRow<Bcsr<3, 2>, Bcsr<3, 3>>>>(c, o, op);
  else if(ty == "tuple32_csr") run<TupleMatrix<TupleMatrixRow<Csr, Csr>, TupleMatrixRow<Csr, Csr>, TupleMatrixRow<Csr, Csr>>>(c, o, op);
  else if(ty == "tuple12_saddle") run<TupleMatrix<TupleMatrixRow<Sad, Sad>>>(c, o, op);
  else if(ty == "pdiag2_pfull22") run<PowerDiagMatrix<PowerFullMatrix<Csr, 2, 2>, 2>, true>(c, o, op);
  else if(ty == "tdiag_csr_dense") run<TupleDiagMatrix<Csr, Dns>>(c, o, op);
  else if(ty == "tdiag_csr_saddle_csr") run<TupleDiagMatrix<Csr, Sad, Csr>>(c, o, op);
  else if(ty == "pdiag2_cscr") run<PowerDiagMatrix<Cscr, 2>, true>(c, o, op);
  else if(ty == "pcol2_cscr") run<PowerColMatrix<Cscr, 2>, true>(c, o, op);
  else if(ty == "prow2_banded") run<PowerRowMatrix<Bnd, 2>, true>(c, o, op);
  else if(ty == "saddle_banded") run<SaddlePointMatrix<Bnd, Csr, Cscr>, true>(c, o, op);
  else if(ty == "tuple22_banded_cscr") run<TupleMatrix<TupleMatrixRow<Bnd, Cscr>, TupleMatrixRow<Cscr, Bnd>>>(c, o, op);
  else o << "BAD-OP";
}
