// C01 harness: executes the real LAFEM matrix containers' apply / apply_transposed members at the exact
// rational scalar Q on one case per line (see FeatModel/Driver/C01.lean for the line format).
//
//   csr    IT       OP rows cols L(rowPtr) L(colInd) L(val)              alpha L(x) L(y) alias
//   csrsb  IT BS    OP rows cols L(rowPtr) L(colInd) L(val)              alpha L(x) L(y) alias
//   cscr   IT       OP rows cols L(rowPtr) L(colInd) L(val) L(rowNumbers) alpha L(x) L(y) alias
//   bcsr   IT BH BW VK OP rows cols L(rowPtr) L(colInd) L(val)           alpha L(x) L(y) alias
//   banded IT       OP rows cols L(offsets) L(val)                       alpha L(x) L(y) alias
//   dense           OP rows cols L(val)                                  alpha L(x) L(y) alias
//
// OP in {apply, applyT, axpy, axpyT, dense};  VK = which of the vectors are DenseVectorBlocked
// (0: none, 1: r(,y) blocked, 2: x blocked, 3: all blocked, 4: r,x blocked and y scalar (axpy only)).
// Output:  "R n r_1 .. r_n U<0|1>"   (U1 = x, y and all matrix arrays are bit-identical to the input afterwards)
//          "D rows cols a_11 a_12 .."  for OP = dense (operator()(i,j) of the container)
#include <forkcase.hpp>
#include <exact_q.hpp>
#include <kernel/lafem/dense_vector.hpp>
#include <kernel/lafem/dense_vector_blocked.hpp>
#include <kernel/lafem/sparse_matrix_csr.hpp>
#include <kernel/lafem/sparse_matrix_bcsr.hpp>
#include <kernel/lafem/sparse_matrix_cscr.hpp>
#include <kernel/lafem/sparse_matrix_banded.hpp>
#include <kernel/lafem/dense_matrix.hpp>

using namespace FEAT;
using namespace FEAT::LAFEM;
using verif::Cur;

typedef std::vector<Q> QV;
typedef std::vector<std::size_t> NV;

static QV qlist(Cur& c)
{
  std::size_t n = c.idx();
  QV v(n);
  for(auto& x : v) x = Q::parse(c.str());
  return v;
}

template<typename IT_>
static DenseVector<IT_, IT_> mk_ivec(const NV& v)
{
  DenseVector<IT_, IT_> r(Index(v.size()));
  for(Index i(0); i < Index(v.size()); ++i) r(i, IT_(v[i]));
  return r;
}

template<typename IT_>
static DenseVector<Q, IT_> mk_vec(const QV& v)
{
  DenseVector<Q, IT_> r(Index(v.size()));
  for(Index i(0); i < Index(v.size()); ++i) r(i, v[i]);
  return r;
}

template<typename IT_, int bs_>
static DenseVectorBlocked<Q, IT_, bs_> mk_bvec(const QV& v)
{
  DenseVectorBlocked<Q, IT_, bs_> r(Index(v.size()) / Index(bs_));
  Q* p = r.template elements<Perspective::pod>();
  for(std::size_t i(0); i < v.size(); ++i) p[i] = v[i];
  return r;
}

static bool same(const Q* p, const QV& v)
{
  for(std::size_t i(0); i < v.size(); ++i) if(!(p[i] == v[i])) return false;
  return true;
}

template<typename IT_>
static bool same(const IT_* p, const NV& v)
{
  for(std::size_t i(0); i < v.size(); ++i) if(std::size_t(p[i]) != v[i]) return false;
  return true;
}

static void show(std::ostream& o, const Q* p, Index n, bool unchanged)
{
  o << "R " << n;
  for(Index i(0); i < n; ++i) o << " " << p[i];
  o << (unchanged ? " U1" : " U0");
}

static const long long SENTINEL = 777;

// common tail of every case
struct Tail
{
  Q alpha; QV x, y; bool alias;
  explicit Tail(Cur& c) { alpha = Q::parse(c.str()); x = qlist(c); y = qlist(c); alias = (c.idx() != 0); }
};

// run one of the four operations with scalar vectors on any matrix type
template<typename IT_, typename Mat_, typename Chk_>
static void run_scalar(std::ostream& o, const Mat_& a, const std::string& op, const Tail& t, Index nr, const Chk_& mat_unchanged)
{
  DenseVector<Q, IT_> x(mk_vec<IT_>(t.x));
  if(op == "apply" || op == "applyT")
  {
    DenseVector<Q, IT_> r(nr, Q(SENTINEL));
    if(op == "apply") a.apply(r, x); else a.apply_transposed(r, x);
    show(o, r.elements(), r.size(), same(x.elements(), t.x) && mat_unchanged());
  }
  else if(t.alias)
  {
    DenseVector<Q, IT_> r(mk_vec<IT_>(t.y));
    if(op == "axpy") a.apply(r, x, r, t.alpha); else a.apply_transposed(r, x, r, t.alpha);
    show(o, r.elements(), r.size(), same(x.elements(), t.x) && mat_unchanged());
  }
  else
  {
    DenseVector<Q, IT_> y(mk_vec<IT_>(t.y));
    DenseVector<Q, IT_> r(nr, Q(SENTINEL));
    if(op == "axpy") a.apply(r, x, y, t.alpha); else a.apply_transposed(r, x, y, t.alpha);
    show(o, r.elements(), r.size(), same(x.elements(), t.x) && same(y.elements(), t.y) && mat_unchanged());
  }
}

// ---------------------------------------------------------------------------------------------------------------
template<typename IT_>
static void do_csr(Cur& c, std::ostream& o, int bs)
{
  std::string op = c.str();
  Index rows = c.idx(), cols = c.idx();
  NV rp = c.idxlist(), ci = c.idxlist(); QV val = qlist(c);
  Tail t(c);
  typedef SparseMatrixCSR<Q, IT_> Mat;
  Mat a;
  if(val.empty())
    a = Mat(rows, cols);
  else
  {
    auto vci = mk_ivec<IT_>(ci); auto vrp = mk_ivec<IT_>(rp); auto vv = mk_vec<IT_>(val);
    a = Mat(rows, cols, vci, vv, vrp);
  }
  auto unchanged = [&]() { return val.empty() || (same(a.val(), val) && same(a.col_ind(), ci) && same(a.row_ptr(), rp)); };
  if(op == "dense")
  {
    o << "D " << rows << " " << cols;
    for(Index i(0); i < rows; ++i) for(Index j(0); j < cols; ++j) o << " " << (val.empty() ? Q(0) : a(i, j));
    return;
  }
  if(bs == 0)
  {
    run_scalar<IT_>(o, a, op, t, (op == "apply" || op == "axpy") ? rows : cols, unchanged);
    return;
  }
  // CSR matrix times blocked vector (csrsb kernel); no transposed variant exists
  auto go = [&](auto tag)
  {
    constexpr int BS = decltype(tag)::value;
    typedef DenseVectorBlocked<Q, IT_, BS> BV;
    BV x(mk_bvec<IT_, BS>(t.x));
    if(op == "apply")
    {
      BV r(rows, Q(SENTINEL));
      a.apply(r, x);
      show(o, r.template elements<Perspective::pod>(), rows * Index(BS), same(x.template elements<Perspective::pod>(), t.x) && unchanged());
    }
    else if(op == "axpy" && t.alias)
    {
      BV r(mk_bvec<IT_, BS>(t.y));
      a.apply(r, x, r, t.alpha);
      show(o, r.template elements<Perspective::pod>(), rows * Index(BS), same(x.template elements<Perspective::pod>(), t.x) && unchanged());
    }
    else if(op == "axpy")
    {
      BV y(mk_bvec<IT_, BS>(t.y));
      BV r(rows, Q(SENTINEL));
      a.apply(r, x, y, t.alpha);
      show(o, r.template elements<Perspective::pod>(), rows * Index(BS),
        same(x.template elements<Perspective::pod>(), t.x) && same(y.template elements<Perspective::pod>(), t.y) && unchanged());
    }
    else
      o << "BAD-OP";
  };
  switch(bs)
  {
  case 1: go(std::integral_constant<int, 1>()); break;
  case 2: go(std::integral_constant<int, 2>()); break;
  case 3: go(std::integral_constant<int, 3>()); break;
  default: o << "BAD-OP";
  }
}

// ---------------------------------------------------------------------------------------------------------------
template<typename IT_>
static void do_cscr(Cur& c, std::ostream& o)
{
  std::string op = c.str();
  Index rows = c.idx(), cols = c.idx();
  NV rp = c.idxlist(), ci = c.idxlist(); QV val = qlist(c); NV rn = c.idxlist();
  Tail t(c);
  typedef SparseMatrixCSCR<Q, IT_> Mat;
  Mat a;
  if(val.empty())
    a = Mat(rows, cols);
  else
  {
    auto vci = mk_ivec<IT_>(ci); auto vrp = mk_ivec<IT_>(rp); auto vv = mk_vec<IT_>(val); auto vrn = mk_ivec<IT_>(rn);
    a = Mat(rows, cols, vci, vv, vrp, vrn);
  }
  auto unchanged = [&]() { return val.empty() || (same(a.val(), val) && same(a.col_ind(), ci) && same(a.row_ptr(), rp) && same(a.row_numbers(), rn)); };
  if(op == "dense")
  {
    o << "D " << rows << " " << cols;
    for(Index i(0); i < rows; ++i) for(Index j(0); j < cols; ++j) o << " " << (val.empty() ? Q(0) : a(i, j));
    return;
  }
  run_scalar<IT_>(o, a, op, t, (op == "apply" || op == "axpy") ? rows : cols, unchanged);
}

// ---------------------------------------------------------------------------------------------------------------
template<typename IT_, int BH_, int BW_>
static void do_bcsr_b(Cur& c, std::ostream& o, Index vk)
{
  std::string op = c.str();
  Index rows = c.idx(), cols = c.idx();
  NV rp = c.idxlist(), ci = c.idxlist(); QV val = qlist(c);
  Tail t(c);
  typedef SparseMatrixBCSR<Q, IT_, BH_, BW_> Mat;
  Mat a;
  if(val.empty())
    a = Mat(rows, cols);
  else
  {
    auto vci = mk_ivec<IT_>(ci); auto vrp = mk_ivec<IT_>(rp); auto vv = mk_vec<IT_>(val);
    a = Mat(rows, cols, vci, vv, vrp);
  }
  auto unchanged = [&]() { return val.empty() || (same(a.template val<Perspective::pod>(), val) && same(a.col_ind(), ci) && same(a.row_ptr(), rp)); };
  if(op == "dense")
  {
    o << "D " << rows * Index(BH_) << " " << cols * Index(BW_);
    for(Index i(0); i < rows; ++i) for(int h(0); h < BH_; ++h) for(Index j(0); j < cols; ++j) for(int w(0); w < BW_; ++w)
      o << " " << (val.empty() ? Q(0) : a(i, j)(h, w));
    return;
  }
  const bool tr = (op == "applyT" || op == "axpyT");
  const bool ax = (op == "axpy" || op == "axpyT");
  typedef DenseVector<Q, IT_> SV;
  typedef DenseVectorBlocked<Q, IT_, BH_> BVH;
  typedef DenseVectorBlocked<Q, IT_, BW_> BVW;
  const Index nr = tr ? cols * Index(BW_) : rows * Index(BH_);
  // generic driver over the concrete vector types of r, x, y
  auto drive = [&](auto trtag, auto mkr, auto mkx, auto mky, auto ptr_r, auto ptr_x, auto ptr_y, bool y_same_type)
  {
    constexpr bool TR = decltype(trtag)::value;
    auto x = mkx(t.x);
    if(!ax)
    {
      auto r = mkr(QV(nr, Q(SENTINEL)));
      if constexpr (TR) a.apply_transposed(r, x); else a.apply(r, x);
      show(o, ptr_r(r), nr, same(ptr_x(x), t.x) && unchanged());
    }
    else if(t.alias && y_same_type)
    {
      auto r = mkr(t.y);
      // r and y are the same object
      if constexpr (std::is_same<decltype(mkr(t.y)), decltype(mky(t.y))>::value)
      {
        if constexpr (TR) a.apply_transposed(r, x, r, t.alpha); else a.apply(r, x, r, t.alpha);
      }
      show(o, ptr_r(r), nr, same(ptr_x(x), t.x) && unchanged());
    }
    else
    {
      auto y = mky(t.y);
      auto r = mkr(QV(nr, Q(SENTINEL)));
      if constexpr (TR) a.apply_transposed(r, x, y, t.alpha); else a.apply(r, x, y, t.alpha);
      show(o, ptr_r(r), nr, same(ptr_x(x), t.x) && same(ptr_y(y), t.y) && unchanged());
    }
  };
  auto mks = [](const QV& v) { return mk_vec<IT_>(v); };
  auto mkh = [](const QV& v) { return mk_bvec<IT_, BH_>(v); };
  auto mkw = [](const QV& v) { return mk_bvec<IT_, BW_>(v); };
  auto ps = [](SV& v) { return v.elements(); };
  auto ph = [](BVH& v) { return v.template elements<Perspective::pod>(); };
  auto pw = [](BVW& v) { return v.template elements<Perspective::pod>(); };
  // result-side block size: BH for apply, BW for transposed; x-side the other one
  if(!tr)
  {
    switch(vk)
    {
    case 0: drive(std::false_type(), mks, mks, mks, ps, ps, ps, true); break;
    case 1: drive(std::false_type(), mkh, mks, mkh, ph, ps, ph, true); break;
    case 2: drive(std::false_type(), mks, mkw, mks, ps, pw, ps, true); break;
    case 3: drive(std::false_type(), mkh, mkw, mkh, ph, pw, ph, true); break;
    case 4: if(!ax) { o << "BAD-OP"; break; } drive(std::false_type(), mkh, mkw, mks, ph, pw, ps, false); break;
    default: o << "BAD-OP";
    }
  }
  else
  {
    switch(vk)
    {
    case 0: drive(std::true_type(), mks, mks, mks, ps, ps, ps, true); break;
    case 1: drive(std::true_type(), mkw, mks, mkw, pw, ps, pw, true); break;
    case 2: drive(std::true_type(), mks, mkh, mks, ps, ph, ps, true); break;
    case 3: drive(std::true_type(), mkw, mkh, mkw, pw, ph, pw, true); break;
    case 4: if(!ax) { o << "BAD-OP"; break; } drive(std::true_type(), mkw, mkh, mks, pw, ph, ps, false); break;
    default: o << "BAD-OP";
    }
  }
}

template<typename IT_>
static void do_bcsr(Cur& c, std::ostream& o)
{
  Index bh = c.idx(), bw = c.idx(), vk = c.idx();
  switch(bh * 10 + bw)
  {
  case 11: do_bcsr_b<IT_, 1, 1>(c, o, vk); break;
  case 22: do_bcsr_b<IT_, 2, 2>(c, o, vk); break;
  case 23: do_bcsr_b<IT_, 2, 3>(c, o, vk); break;
  case 32: do_bcsr_b<IT_, 3, 2>(c, o, vk); break;
  case 31: do_bcsr_b<IT_, 3, 1>(c, o, vk); break;
  case 13: do_bcsr_b<IT_, 1, 3>(c, o, vk); break;
  default: o << "BAD-OP";
  }
}

// ---------------------------------------------------------------------------------------------------------------
template<typename IT_>
static void do_banded(Cur& c, std::ostream& o)
{
  std::string op = c.str();
  Index rows = c.idx(), cols = c.idx();
  NV off = c.idxlist(); QV val = qlist(c);
  Tail t(c);
  typedef SparseMatrixBanded<Q, IT_> Mat;
  Mat a;   // default-constructed (0x0, no bands) unless the case has bands
  if(!(rows == Index(0) && cols == Index(0) && off.empty()))
  {
    auto voff = mk_ivec<IT_>(off); auto vv = mk_vec<IT_>(val);
    a = Mat(rows, cols, vv, voff);
  }
  auto unchanged = [&]() { return off.empty() || (same(a.val(), val) && same(a.offsets(), off)); };
  if(op == "dense")
  {
    o << "D " << rows << " " << cols;
    for(Index i(0); i < rows; ++i) for(Index j(0); j < cols; ++j) o << " " << a(i, j);
    return;
  }
  run_scalar<IT_>(o, a, op, t, (op == "apply" || op == "axpy") ? rows : cols, unchanged);
}

// ---------------------------------------------------------------------------------------------------------------
static void do_dense(Cur& c, std::ostream& o)
{
  std::string op = c.str();
  Index rows = c.idx(), cols = c.idx();
  QV val = qlist(c);
  Tail t(c);
  typedef DenseMatrix<Q, Index> Mat;
  Mat a;
  if(rows != Index(0) && cols != Index(0))
  {
    a = Mat(rows, cols);
    for(Index i(0); i < rows; ++i) for(Index j(0); j < cols; ++j) a(i, j, val[i * cols + j]);
  }
  auto unchanged = [&]() { return val.empty() || same(a.elements(), val); };
  if(op == "dense")
  {
    o << "D " << rows << " " << cols;
    for(Index i(0); i < rows; ++i) for(Index j(0); j < cols; ++j) o << " " << a(i, j);
    return;
  }
  run_scalar<Index>(o, a, op, t, (op == "apply" || op == "axpy") ? rows : cols, unchanged);
}

void handle_meta(Cur& c, std::ostream& o);   // meta.cpp
void handle_f64(Cur& c, std::ostream& o);    // f64.cpp
void handle_f32(Cur& c, std::ostream& o);    // f64.cpp

static void handle(const verif::Tokens& tk, std::ostream& o)
{
  Cur c(tk);
  std::string fmt = c.str();
  if(fmt == "meta") { handle_meta(c, o); return; }
  if(fmt == "f64") { handle_f64(c, o); return; }
  if(fmt == "f32") { handle_f32(c, o); return; }
  if(fmt == "dense") { do_dense(c, o); return; }
  Index it = c.idx();
  if(it != 32 && it != 64) { o << "BAD-OP"; return; }
  if(fmt == "csr") { if(it == 32) do_csr<std::uint32_t>(c, o, 0); else do_csr<std::uint64_t>(c, o, 0); }
  else if(fmt == "csrsb") { int bs = int(c.idx()); if(it == 32) do_csr<std::uint32_t>(c, o, bs); else do_csr<std::uint64_t>(c, o, bs); }
  else if(fmt == "cscr") { if(it == 32) do_cscr<std::uint32_t>(c, o); else do_cscr<std::uint64_t>(c, o); }
  else if(fmt == "bcsr") { if(it == 32) do_bcsr<std::uint32_t>(c, o); else do_bcsr<std::uint64_t>(c, o); }
  else if(fmt == "banded") { if(it == 32) do_banded<std::uint32_t>(c, o); else do_banded<std::uint64_t>(c, o); }
  else o << "BAD-OP";
}

int main(int argc, char** argv)
{
  return verif::run_cases(argc, argv, handle);
}
