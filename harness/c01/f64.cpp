// C01 harness, floating point conformance (T3-lite): the same case lines as main.cpp, prefixed with "f64", are run
// with the real containers at DT_ = double, index type std::uint64_t/std::uint32_t, scalar (DenseVector) operands.
// A separate result vector r is pre-filled with quiet NaNs, so that a kernel which accumulates into stale r-data
// (instead of overwriting it) or skips a row is visible even where exact arithmetic hides it (0 * garbage = 0).
// "f32" runs the same at float. Output: "F n v_1 .. v_n" with %a hex floats ("nan" / "inf" for non-finite values).
#include <forkcase.hpp>
#include <kernel/lafem/dense_vector.hpp>
#include <kernel/lafem/sparse_matrix_csr.hpp>
#include <kernel/lafem/sparse_matrix_bcsr.hpp>
#include <kernel/lafem/sparse_matrix_cscr.hpp>
#include <kernel/lafem/sparse_matrix_banded.hpp>
#include <kernel/lafem/dense_matrix.hpp>
#include <cmath>
#include <limits>

using namespace FEAT;
using namespace FEAT::LAFEM;
using verif::Cur;

#define REAL double
#define NS c01_f64
#include "f64_impl.inc"
#undef REAL
#undef NS
#define REAL float
#define NS c01_f32
#include "f64_impl.inc"
#undef REAL
#undef NS

void handle_f64(Cur& c, std::ostream& o) { c01_f64::handle(c, o); }
void handle_f32(Cur& c, std::ostream& o) { c01_f32::handle(c, o); }
