// C01 harness, floating point conformance (T3-lite): the same case lines as main.cpp, prefixed with "f64", are run
// with the real containers at DT_ = double, index type std::uint64_t/std::uint32_t, scalar (DenseVector) operands.
// A separate result vector r is pre-filled with quiet NaNs, so that a kernel which accumulates into stale r-data
// (instead of overwriting it) or skips a row is visible even where exact arithmetic hides it (0 * garbage = 0).
// Output: "F n v_1 .. v_n" with %a hex floats ("nan" / "inf" for non-finite values).
#include <forkcase.hpp>
#include <kernel/lafem/dense_vector.hpp>
#include <kernel/lafem/sparse_matrix_csr.hpp>
#include <kernel/lafem/sparse_matrix_bcsr.hpp>
#include <kernel/lafem/sparse_matrix_cscr.hpp>
#include <kernel/lafem/sparse_matrix_banded.hpp>
#include <kernel/lafem/dense_matrix.hpp>
#include <cmath>
#include <limits>

using namespace FEAT;
using namespace FEAT::LAFEM;
using verif::Cur;

namespace
{
  typedef std::vector<double> DV;
  typedef std::vector<std::size_t> NV;

  double dparse(const std::string& s)
  {
    std::size_t p = s.find('/');
    if(p == std::string::npos) return std::stod(s);
    return std::stod(s.substr(0, p)) / std::stod(s.substr(p + 1));
  }
  DV dlist(Cur& c) { std::size_t n = c.idx(); DV v(n); for(auto& x : v) x = dparse(c.str()); return v; }

  template<typename IT_> DenseVector<IT_, IT_> ivec(const NV& v) { DenseVector<IT_, IT_> r(Index(v.size())); for(Index i(0); i < Index(v.size()); ++i) r(i, IT_(v[i])); return r; }
  template<typename IT_> DenseVector<double, IT_> dvec(const DV& v) { DenseVector<double, IT_> r(Index(v.size())); for(Index i(0); i < Index(v.size()); ++i) r(i, v[i]); return r; }

  void show(std::ostream& o, const double* p, Index n)
  {
    o << "F " << n;
    char buf[64];
    for(Index i(0); i < n; ++i)
    {
      if(std::isnan(p[i])) o << " nan";
      else if(std::isinf(p[i])) o << " inf";
      else { std::snprintf(buf, sizeof(buf), "%a", p[i]); o << " " << buf; }
    }
  }

  template<typename IT_, typename Mat_>
  void run(std::ostream& o, const Mat_& a, const std::string& op, Cur& c, Index rows, Index cols)
  {
    double alpha = dparse(c.str()); DV xs = dlist(c), ys = dlist(c); bool alias = (c.idx() != 0);
    const double nan = std::numeric_limits<double>::quiet_NaN();
    const bool tr = (op == "applyT" || op == "axpyT");
    const Index nr = tr ? cols : rows;
    DenseVector<double, IT_> x(dvec<IT_>(xs));
    if(op == "apply" || op == "applyT")
    {
      DenseVector<double, IT_> r(nr, nan);
      if(tr) a.apply_transposed(r, x); else a.apply(r, x);
      show(o, r.elements(), r.size());
    }
    else if(alias)
    {
      DenseVector<double, IT_> r(dvec<IT_>(ys));
      if(tr) a.apply_transposed(r, x, r, alpha); else a.apply(r, x, r, alpha);
      show(o, r.elements(), r.size());
    }
    else
    {
      DenseVector<double, IT_> y(dvec<IT_>(ys)); DenseVector<double, IT_> r(nr, nan);
      if(tr) a.apply_transposed(r, x, y, alpha); else a.apply(r, x, y, alpha);
      show(o, r.elements(), r.size());
    }
  }

  template<typename IT_>
  void go(const std::string& fmt, Cur& c, std::ostream& o)
  {
    if(fmt == "csr" || fmt == "cscr")
    {
      std::string op = c.str(); Index rows = c.idx(), cols = c.idx();
      NV rp = c.idxlist(), ci = c.idxlist(); DV val = dlist(c);
      NV rn; if(fmt == "cscr") rn = c.idxlist();
      auto vci = ivec<IT_>(ci); auto vrp = ivec<IT_>(rp); auto vv = dvec<IT_>(val); auto vrn = ivec<IT_>(rn);
      if(fmt == "csr")
      {
        SparseMatrixCSR<double, IT_> a;
        if(val.empty()) a = SparseMatrixCSR<double, IT_>(rows, cols); else a = SparseMatrixCSR<double, IT_>(rows, cols, vci, vv, vrp);
        run<IT_>(o, a, op, c, rows, cols);
      }
      else
      {
        SparseMatrixCSCR<double, IT_> a;
        if(val.empty()) a = SparseMatrixCSCR<double, IT_>(rows, cols); else a = SparseMatrixCSCR<double, IT_>(rows, cols, vci, vv, vrp, vrn);
        run<IT_>(o, a, op, c, rows, cols);
      }
    }
    else if(fmt == "bcsr")
    {
      Index bh = c.idx(), bw = c.idx(); c.idx(); // vector kind: scalar vectors here
      std::string op = c.str(); Index rows = c.idx(), cols = c.idx();
      NV rp = c.idxlist(), ci = c.idxlist(); DV val = dlist(c);
      auto vci = ivec<IT_>(ci); auto vrp = ivec<IT_>(rp); auto vv = dvec<IT_>(val);
      auto doit = [&](auto th, auto tw)
      {
        constexpr int BH = decltype(th)::value, BW = decltype(tw)::value;
        SparseMatrixBCSR<double, IT_, BH, BW> a;
        if(val.empty()) a = SparseMatrixBCSR<double, IT_, BH, BW>(rows, cols); else a = SparseMatrixBCSR<double, IT_, BH, BW>(rows, cols, vci, vv, vrp);
        run<IT_>(o, a, op, c, rows * Index(BH), cols * Index(BW));
      };
      typedef std::integral_constant<int, 1> I1; typedef std::integral_constant<int, 2> I2; typedef std::integral_constant<int, 3> I3;
      if(bh == 2 && bw == 2) doit(I2(), I2()); else if(bh == 2 && bw == 3) doit(I2(), I3());
      else if(bh == 3 && bw == 2) doit(I3(), I2()); else if(bh == 1 && bw == 1) doit(I1(), I1());
      else o << "BAD-OP";
    }
    else if(fmt == "banded")
    {
      std::string op = c.str(); Index rows = c.idx(), cols = c.idx();
      NV off = c.idxlist(); DV val = dlist(c);
      auto voff = ivec<IT_>(off); auto vv = dvec<IT_>(val);
      SparseMatrixBanded<double, IT_> a(rows, cols, vv, voff);
      run<IT_>(o, a, op, c, rows, cols);
    }
    else o << "BAD-OP";
  }
}

void handle_f64(Cur& c, std::ostream& o)
{
  std::string fmt = c.str();
  if(fmt == "dense")
  {
    std::string op = c.str(); Index rows = c.idx(), cols = c.idx(); DV val = dlist(c);
    DenseMatrix<double, Index> a(rows, cols);
    for(Index i(0); i < rows; ++i) for(Index j(0); j < cols; ++j) a(i, j, val[i * cols + j]);
    run<Index>(o, a, op, c, rows, cols);
    return;
  }
  Index it = c.idx();
  if(it == 32) go<std::uint32_t>(fmt, c, o); else go<std::uint64_t>(fmt, c, o);
}
