// C19 harness: executes the real kernel/adjacency code on one case per line (see FeatModel/Driver/C19.lean)
#include <forkcase.hpp>
#include <kernel/adjacency/graph.hpp>
#include <kernel/adjacency/permutation.hpp>
#include <kernel/adjacency/coloring.hpp>
#include <kernel/adjacency/cuthill_mckee.hpp>

using namespace FEAT;
using namespace FEAT::Adjacency;
using verif::Cur;

static Graph read_graph(Cur& c)
{
  Index n_img = c.idx(), n_dom = c.idx();
  std::vector<Index> ptr(1, 0), idx;
  for(Index i = 0; i < n_dom; ++i)
  {
    auto l = c.idxlist();
    for(auto x : l) idx.push_back(Index(x));
    ptr.push_back(Index(idx.size()));
  }
  // Copy-Array constructor (works for empty index arrays as well)
  return Graph(n_dom, n_img, Index(idx.size()), ptr.data(), idx.data());
}

static void show_list(std::ostream& o, const Index* p, Index n)
{
  o << n;
  for(Index i = 0; i < n; ++i) o << " " << p[i];
}

static void show_graph(std::ostream& o, const Graph& g)
{
  o << "G " << g.get_num_nodes_image() << " ";
  show_list(o, g.get_domain_ptr(), g.get_num_nodes_domain() + 1);
  o << " ";
  show_list(o, g.get_image_idx(), g.get_num_indices());
}

static void show_perm(std::ostream& o, const Permutation& p)
{
  o << "P "; show_list(o, p.get_perm_pos(), p.size());
  o << " "; show_list(o, p.get_swap_pos(), p.size());
}

static Permutation::ConstrType ctype(Index k)
{
  switch(k)
  {
  case 1: return Permutation::ConstrType::identity;
  case 2: return Permutation::ConstrType::perm;
  case 3: return Permutation::ConstrType::swap;
  case 4: return Permutation::ConstrType::inv_perm;
  case 5: return Permutation::ConstrType::inv_swap;
  default: return Permutation::ConstrType::none;
  }
}

static void handle(const verif::Tokens& t, std::ostream& o)
{
  Cur c(t);
  std::string op = c.str();
  if(op == "render")
  {
    Index rt = c.idx();
    Graph g = read_graph(c);
    Graph r(RenderType(rt), g);
    show_graph(o, r);
  }
  else if(op == "render2")
  {
    Index rt = c.idx();
    Graph a = read_graph(c);
    Graph b = read_graph(c);
    Graph r(RenderType(rt), a, b);
    show_graph(o, r);
  }
  else if(op == "sort")
  {
    Graph g = read_graph(c);
    g.sort_indices();
    show_graph(o, g);
  }
  else if(op == "gperm")
  {
    Graph g = read_graph(c);
    auto dp = c.idxlist(); auto ip = c.idxlist();
    std::vector<Index> d(dp.begin(), dp.end()), i(ip.begin(), ip.end());
    Permutation pd(Index(d.size()), Permutation::ConstrType::perm, d.data());
    Permutation pi(Index(i.size()), Permutation::ConstrType::perm, i.data());
    Graph r(g, pd, pi);
    show_graph(o, r);
  }
  else if(op == "perm")
  {
    Index kind = c.idx();
    auto v = c.idxlist(); std::vector<Index> w(v.begin(), v.end());
    Permutation p(Index(w.size()), ctype(kind), w.data());
    show_perm(o, p);
  }
  else if(op == "apply")
  {
    Index kind = c.idx();
    auto v = c.idxlist(); std::vector<Index> w(v.begin(), v.end());
    auto xv = c.idxlist(); std::vector<Index> x(xv.begin(), xv.end());
    Permutation p(Index(w.size()), ctype(kind), w.data());
    std::vector<Index> a(x), b(x), cc(x.size()), d(x.size());
    p.apply(a.data(), false);
    p.apply(b.data(), true);
    p.apply(cc.data(), x.data(), false);
    p.apply(d.data(), x.data(), true);
    o << "A "; show_list(o, a.data(), Index(a.size()));
    o << " "; show_list(o, b.data(), Index(b.size()));
    o << " "; show_list(o, cc.data(), Index(cc.size()));
    o << " "; show_list(o, d.data(), Index(d.size()));
  }
  else if(op == "concat")
  {
    auto v1 = c.idxlist(); std::vector<Index> w1(v1.begin(), v1.end());
    auto v2 = c.idxlist(); std::vector<Index> w2(v2.begin(), v2.end());
    Permutation p1(Index(w1.size()), Permutation::ConstrType::perm, w1.data());
    Permutation p2(Index(w2.size()), Permutation::ConstrType::perm, w2.data());
    p1.concat(p2);
    show_perm(o, p1);
  }
  else if(op == "inverse")
  {
    auto v1 = c.idxlist(); std::vector<Index> w1(v1.begin(), v1.end());
    Permutation p1(Index(w1.size()), Permutation::ConstrType::perm, w1.data());
    Permutation q = p1.inverse();
    show_perm(o, q);
  }
  else if(op == "color" || op == "colororder")
  {
    Graph g = read_graph(c);
    Coloring col;
    if(op == "color")
      col = Coloring(g);
    else
    {
      auto ov = c.idxlist(); std::vector<Index> ord(ov.begin(), ov.end());
      col = Coloring(g, ord.data());
    }
    o << "C " << col.get_num_colors() << " ";
    show_list(o, col.get_coloring(), col.get_num_nodes());
    o << " ";
    Graph pg = col.create_partition_graph();
    show_graph(o, pg);
  }
  else if(op == "cm")
  {
    Index rev = c.idx(), rt = c.idx(), st = c.idx();
    Graph g = read_graph(c);
    std::vector<Index> layers;
    CuthillMcKee::RootType r = rt == 1 ? CuthillMcKee::RootType::minimum_degree : rt == 2 ? CuthillMcKee::RootType::maximum_degree : CuthillMcKee::RootType::standard;
    CuthillMcKee::SortType s = st == 1 ? CuthillMcKee::SortType::asc : st == 2 ? CuthillMcKee::SortType::desc : CuthillMcKee::SortType::standard;
    Permutation p = CuthillMcKee::compute(layers, g, rev != 0, r, s);
    o << "CM "; show_list(o, p.get_perm_pos(), p.size());
    o << " "; show_list(o, p.get_swap_pos(), p.size());
    o << " "; show_list(o, layers.data(), Index(layers.size()));
  }
  else
    o << "BAD-OP";
}

int main(int argc, char** argv)
{
  return verif::run_cases(argc, argv, handle);
}
