// C19 harness: executes the real kernel/adjacency code on one case per line (see FeatModel/Driver/C19.lean)
#include <forkcase.hpp>
#include <kernel/adjacency/graph.hpp>
#include <kernel/adjacency/permutation.hpp>
#include <kernel/adjacency/coloring.hpp>
#include <kernel/adjacency/cuthill_mckee.hpp>
#include <kernel/adjacency/dynamic_graph.hpp>
#include <kernel/adjacency/adjactor.hpp>
#include <kernel/util/random.hpp>
#include <exact_q.hpp>
#include <kernel/util/tiny_algebra.hpp>
#include <kernel/lafem/dense_vector.hpp>
#include <kernel/lafem/dense_vector_blocked.hpp>
#include <kernel/lafem/sparse_matrix_csr.hpp>
#include <kernel/geometry/index_set.hpp>
#include <kernel/geometry/vertex_set.hpp>

using namespace FEAT;
using namespace FEAT::Adjacency;
using verif::Cur;

static Graph read_graph(Cur& c)
{
  Index n_img = c.idx(), n_dom = c.idx();
  std::vector<Index> ptr(1, 0), idx;
  for(Index i = 0; i < n_dom; ++i)
  {
    auto l = c.idxlist();
    for(auto x : l) idx.push_back(Index(x));
    ptr.push_back(Index(idx.size()));
  }
  // Copy-Array constructor (works for empty index arrays as well)
  return Graph(n_dom, n_img, Index(idx.size()), ptr.data(), idx.data());
}

static void show_list(std::ostream& o, const Index* p, Index n)
{
  o << n;
  for(Index i = 0; i < n; ++i) o << " " << p[i];
}

static void show_graph(std::ostream& o, const Graph& g)
{
  o << "G " << g.get_num_nodes_image() << " ";
  show_list(o, g.get_domain_ptr(), g.get_num_nodes_domain() + 1);
  o << " ";
  show_list(o, g.get_image_idx(), g.get_num_indices());
  // scalar observers of every graph that is shown: num_nodes_domain, num_indices, degree(), degree(i)
  o << " Q " << g.get_num_nodes_domain() << " " << g.get_num_indices() << " " << g.degree() << " " << g.get_num_nodes_domain();
  for(Index i = 0; i < g.get_num_nodes_domain(); ++i) o << " " << g.degree(i);
}

static void show_perm(std::ostream& o, const Permutation& p)
{
  o << "P "; show_list(o, p.get_perm_pos(), p.size());
  o << " "; show_list(o, p.get_swap_pos(), p.size());
}


static Permutation mk_perm(const std::vector<std::size_t>& v)
{
  // an empty array is the empty permutation (Permutation() - "no permutation")
  if(v.empty()) return Permutation();
  std::vector<Index> w(v.begin(), v.end());
  return Permutation(Index(w.size()), Permutation::ConstrType::perm, w.data());
}

static Index q2idx(const Q& q) { return Index(q.v().get_num().get_ui()); }

template<int bs_>
static void apply_blocked(std::ostream& o, const Permutation& p, const std::vector<std::size_t>& x)
{
  typedef Tiny::Vector<Index, bs_> Blk;
  const Index n = p.size();
  std::vector<Blk> src(n);
  for(Index i = 0; i < n; ++i) for(int k = 0; k < bs_; ++k) src[i][k] = Index(x.at(i * Index(bs_) + Index(k)));
  std::vector<Blk> a(src), b(src), cc(n), d(n);
  p.apply(a.data(), false);
  p.apply(b.data(), true);
  p.apply(cc.data(), src.data(), false);
  p.apply(d.data(), src.data(), true);
  const std::vector<Blk>* all[4] = {&a, &b, &cc, &d};
  o << "AB";
  for(auto* v : all)
  {
    o << " " << n * Index(bs_);
    for(Index i = 0; i < n; ++i) for(int k = 0; k < bs_; ++k) o << " " << (*v)[i][k];
  }
}

static Permutation::ConstrType ctype(Index k);

static Permutation::ConstrType ctype(Index k)
{
  switch(k)
  {
  case 1: return Permutation::ConstrType::identity;
  case 2: return Permutation::ConstrType::perm;
  case 3: return Permutation::ConstrType::swap;
  case 4: return Permutation::ConstrType::inv_perm;
  case 5: return Permutation::ConstrType::inv_swap;
  default: return Permutation::ConstrType::none;
  }
}

static void handle(const verif::Tokens& t, std::ostream& o)
{
  Cur c(t);
  std::string op = c.str();
  if(op == "render")
  {
    Index rt = c.idx();
    Graph g = read_graph(c);
    Graph r(RenderType(rt), g);
    show_graph(o, r);
  }
  else if(op == "render2")
  {
    Index rt = c.idx();
    Graph a = read_graph(c);
    Graph b = read_graph(c);
    Graph r(RenderType(rt), a, b);
    show_graph(o, r);
  }
  else if(op == "sort")
  {
    Graph g = read_graph(c);
    g.sort_indices();
    show_graph(o, g);
  }
  else if(op == "gperm")
  {
    Graph g = read_graph(c);
    auto dp = c.idxlist(); auto ip = c.idxlist();
    std::vector<Index> d(dp.begin(), dp.end()), i(ip.begin(), ip.end());
    Permutation pd(Index(d.size()), Permutation::ConstrType::perm, d.data());
    Permutation pi(Index(i.size()), Permutation::ConstrType::perm, i.data());
    Graph r(g, pd, pi);
    show_graph(o, r);
  }
  else if(op == "perm")
  {
    Index kind = c.idx();
    auto v = c.idxlist(); std::vector<Index> w(v.begin(), v.end());
    Permutation p(Index(w.size()), ctype(kind), w.data());
    show_perm(o, p);
  }
  else if(op == "apply")
  {
    Index kind = c.idx();
    auto v = c.idxlist(); std::vector<Index> w(v.begin(), v.end());
    auto xv = c.idxlist(); std::vector<Index> x(xv.begin(), xv.end());
    Permutation p(Index(w.size()), ctype(kind), w.data());
    std::vector<Index> a(x), b(x), cc(x.size()), d(x.size());
    p.apply(a.data(), false);
    p.apply(b.data(), true);
    p.apply(cc.data(), x.data(), false);
    p.apply(d.data(), x.data(), true);
    o << "A "; show_list(o, a.data(), Index(a.size()));
    o << " "; show_list(o, b.data(), Index(b.size()));
    o << " "; show_list(o, cc.data(), Index(cc.size()));
    o << " "; show_list(o, d.data(), Index(d.size()));
  }
  else if(op == "concat")
  {
    auto v1 = c.idxlist(); std::vector<Index> w1(v1.begin(), v1.end());
    auto v2 = c.idxlist(); std::vector<Index> w2(v2.begin(), v2.end());
    Permutation p1(Index(w1.size()), Permutation::ConstrType::perm, w1.data());
    Permutation p2(Index(w2.size()), Permutation::ConstrType::perm, w2.data());
    p1.concat(p2);
    show_perm(o, p1);
  }
  else if(op == "inverse")
  {
    auto v1 = c.idxlist(); std::vector<Index> w1(v1.begin(), v1.end());
    Permutation p1(Index(w1.size()), Permutation::ConstrType::perm, w1.data());
    Permutation q = p1.inverse();
    show_perm(o, q);
  }
  else if(op == "color" || op == "colororder")
  {
    Graph g = read_graph(c);
    Coloring col;
    if(op == "color")
      col = Coloring(g);
    else
    {
      auto ov = c.idxlist(); std::vector<Index> ord(ov.begin(), ov.end());
      col = Coloring(g, ord.data());
    }
    o << "C " << col.get_num_colors() << " ";
    show_list(o, col.get_coloring(), col.get_num_nodes());
    o << " ";
    Graph pg = col.create_partition_graph();
    show_graph(o, pg);
    // round trip: the transposed partition graph lists for every node its colour
    o << " T ";
    Graph tp(RenderType::transpose, pg);
    show_graph(o, tp);
  }
  else if(op == "cm")
  {
    Index rev = c.idx(), rt = c.idx(), st = c.idx();
    Graph g = read_graph(c);
    std::vector<Index> layers;
    CuthillMcKee::RootType r = rt == 1 ? CuthillMcKee::RootType::minimum_degree : rt == 2 ? CuthillMcKee::RootType::maximum_degree : CuthillMcKee::RootType::standard;
    CuthillMcKee::SortType s = st == 1 ? CuthillMcKee::SortType::asc : st == 2 ? CuthillMcKee::SortType::desc : CuthillMcKee::SortType::standard;
    Permutation p = CuthillMcKee::compute(layers, g, rev != 0, r, s);
    o << "CM "; show_list(o, p.get_perm_pos(), p.size());
    o << " "; show_list(o, p.get_swap_pos(), p.size());
    o << " "; show_list(o, layers.data(), Index(layers.size()));
  }
  else if(op == "degree")
  {
    // Graph::degree() and degree(i) for every domain node
    Graph g = read_graph(c);
    o << "D " << g.degree() << " " << g.get_num_nodes_domain();
    for(Index i = 0; i < g.get_num_nodes_domain(); ++i) o << " " << g.degree(i);
  }
  else if(op == "ctor")
  {
    // kind 0: Copy-Array constructor, 1: Copy-Vector constructor, 2: clone() of 0, 3: clone() of a default graph,
    // 4: move-construct from 0
    Index kind = c.idx();
    Index n_img = c.idx(), n_dom = c.idx();
    std::vector<Index> ptr(1, 0), idx;
    for(Index i = 0; i < n_dom; ++i)
    {
      auto l = c.idxlist();
      for(auto x : l) idx.push_back(Index(x));
      ptr.push_back(Index(idx.size()));
    }
    if(kind == 0) { Graph g(n_dom, n_img, Index(idx.size()), ptr.data(), idx.data()); show_graph(o, g); }
    else if(kind == 1) { Graph g(n_img, ptr, idx); show_graph(o, g); }
    else if(kind == 2) { Graph g(n_dom, n_img, Index(idx.size()), ptr.data(), idx.data()); Graph h = g.clone(); g.clear(); show_graph(o, h); }
    else if(kind == 3) { Graph g; Graph h = g.clone(); o << "G " << h.get_num_nodes_image() << " " << h.get_num_nodes_domain() << " " << h.get_num_indices(); }
    else { Graph g(n_img, ptr, idx); Graph h(std::move(g)); show_graph(o, h); }
  }
  else if(op == "gpermidx")
  {
    Graph g = read_graph(c);
    auto ip = c.idxlist();
    std::vector<Index> i(ip.begin(), ip.end());
    Permutation pi(Index(i.size()), Permutation::ConstrType::perm, i.data());
    g.permute_indices(pi);
    show_graph(o, g);
  }
  else if(op == "randperm")
  {
    // Permutation(n, Random&): the case line repeats the swap array the constructor drew (see c19.py)
    Index n = c.idx(); Index seed = c.idx();
    Random rng{Random::SeedType(seed)};
    Permutation p(n, rng);
    show_perm(o, p);
  }
  else if(op == "randswap")
  {
    Index n = c.idx(); Index seed = c.idx();
    Random rng{Random::SeedType(seed)};
    Permutation p(n, rng);
    show_list(o, p.get_swap_pos(), p.size());
  }
  else if(op == "permx")
  {
    // inverse of inverse, clone, concat with an equal (but distinct) permutation, concat with own inverse
    auto v = c.idxlist(); std::vector<Index> w(v.begin(), v.end());
    Permutation p(Index(w.size()), Permutation::ConstrType::perm, w.data());
    Permutation ii = p.inverse().inverse();
    Permutation cl = p.clone();
    Permutation sq = p.clone(); sq.concat(p);
    Permutation pi = p.clone(); pi.concat(p.inverse());
    o << "X "; show_perm(o, ii); o << " "; show_perm(o, cl); o << " "; show_perm(o, sq); o << " "; show_perm(o, pi);
  }
  else if(op == "permself")
  {
    // aliased self-concatenation p.concat(p) (reads entries it has already overwritten)
    auto v = c.idxlist(); std::vector<Index> w(v.begin(), v.end());
    Permutation p(Index(w.size()), Permutation::ConstrType::perm, w.data());
    p.concat(p);
    show_perm(o, p);
  }
  else if(op == "colorctor")
  {
    // kind 0: array constructor (num_colors = number of distinct colours), 1: vector constructor with the given
    // num_colors, 2: clone of 0
    Index kind = c.idx(); Index nc = c.idx();
    auto cv = c.idxlist(); std::vector<Index> col(cv.begin(), cv.end());
    Coloring co;
    if(kind == 0) co = Coloring(Index(col.size()), col.data());
    else if(kind == 1) co = Coloring(nc, col);
    else { Coloring t(Index(col.size()), col.data()); co = t.clone(); }
    o << "K " << co.get_num_colors() << " " << co.get_max_color() << " ";
    show_list(o, co.get_coloring(), co.get_num_nodes());
  }
  else if(op == "adjcomp")
  {
    // CompositeAdjactor<Graph,Graph>: images of every domain node through the lazy iterator
    Graph a = read_graph(c);
    Graph b = read_graph(c);
    CompositeAdjactor<Graph, Graph> ca(a, b);
    o << "J " << ca.get_num_nodes_domain() << " " << ca.get_num_nodes_image();
    Index guard = 0;
    for(Index i = 0; i < ca.get_num_nodes_domain(); ++i)
    {
      std::vector<Index> im;
      auto it = ca.image_begin(i); auto jt = ca.image_end(i);
      for(; it != jt; ++it) { im.push_back(*it); if(++guard > 100000) { o << " RUNAWAY"; return; } }
      o << " "; show_list(o, im.data(), Index(im.size()));
    }
  }
  else if(op == "adjrender")
  {
    // Graph(render_type, CompositeAdjactor): the single-adjactor kernels on the lazy iterator
    Index rt = c.idx();
    Graph a = read_graph(c);
    Graph b = read_graph(c);
    CompositeAdjactor<Graph, Graph> ca(a, b);
    Graph r(RenderType(rt), ca);
    show_graph(o, r);
  }
  else if(op == "dyn")
  {
    // script on a DynamicGraph(n_dom, n_img): "i d k" insert, "e d k" erase, "x d k" exists, "c" clear,
    // "r rt" render as Graph, "g" degree()/get_num_indices()/degree(i), "l" clone and continue on the clone
    Index n_img = c.idx(), n_dom = c.idx();
    DynamicGraph dg(n_dom, n_img);
    o << "Y";
    while(!c.done())
    {
      std::string k = c.str();
      if(k == "i") { Index d = c.idx(), im = c.idx(); o << " " << (dg.insert(d, im) ? 1 : 0); }
      else if(k == "e") { Index d = c.idx(), im = c.idx(); o << " " << (dg.erase(d, im) ? 1 : 0); }
      else if(k == "x") { Index d = c.idx(), im = c.idx(); o << " " << (dg.exists(d, im) ? 1 : 0); }
      else if(k == "c") { dg.clear(); o << " c"; }
      else if(k == "l") { DynamicGraph t = dg.clone(); dg.clear(); dg = std::move(t); o << " l"; }
      else if(k == "g")
      {
        o << " " << dg.degree() << " " << dg.get_num_indices() << " " << dg.get_num_nodes_domain();
        for(Index i = 0; i < dg.get_num_nodes_domain(); ++i) o << " " << dg.degree(i);
      }
      else if(k == "r") { Index rt = c.idx(); Graph r(RenderType(rt), dg); o << " "; show_graph(o, r); }
      else { o << " BAD-OP"; return; }
    }
  }
  else if(op == "dynrender")
  {
    // DynamicGraph(render_type, graph) [kind 1] / DynamicGraph(render_type, a, b) [kind 2] /
    // DynamicGraph(as_is, a).compose(b) [kind 3], rendered back as_is
    Index kind = c.idx(); Index rt = c.idx();
    Graph a = read_graph(c);
    if(kind == 1) { DynamicGraph dg(RenderType(rt), a); Graph r(RenderType::as_is, dg); show_graph(o, r); }
    else
    {
      Graph b = read_graph(c);
      if(kind == 2) { DynamicGraph dg(RenderType(rt), a, b); Graph r(RenderType::as_is, dg); show_graph(o, r); }
      else { DynamicGraph dg(RenderType(rt), a); dg.compose(b); Graph r(RenderType::as_is, dg); show_graph(o, r); }
    }
  }
  else if(op == "applyblk")
  {
    // apply / inverse apply, in-situ and out-of-place, on an array of Tiny::Vector<Index, bs> blocks
    Index kind = c.idx();
    auto v = c.idxlist(); std::vector<Index> w(v.begin(), v.end());
    Index bs = c.idx();
    auto x = c.idxlist();
    Permutation p(Index(w.size()), ctype(kind), w.data());
    if(bs == 1) apply_blocked<1>(o, p, x);
    else if(bs == 2) apply_blocked<2>(o, p, x);
    else if(bs == 3) apply_blocked<3>(o, p, x);
    else o << "BAD-OP";
  }
  else if(op == "dvperm")
  {
    // blocked = 0: DenseVector<Q>::permute; 1: DenseVectorBlocked<Q, Index, 2>::permute
    Index blocked = c.idx();
    auto pv = c.idxlist();
    auto x = c.idxlist();
    Permutation p = mk_perm(pv);
    o << "DV " << x.size();
    if(blocked == 0)
    {
      LAFEM::DenseVector<Q, Index> dv{Index(x.size())};
      for(Index i = 0; i < Index(x.size()); ++i) dv(i, Q((unsigned long)x[i]));
      dv.permute(p);
      for(Index i = 0; i < dv.size(); ++i) o << " " << q2idx(dv(i));
    }
    else
    {
      LAFEM::DenseVectorBlocked<Q, Index, 2> dv{Index(x.size() / 2)};
      for(Index i = 0; i < dv.size(); ++i)
      {
        Tiny::Vector<Q, 2> t; t[0] = Q((unsigned long)x[2*i]); t[1] = Q((unsigned long)x[2*i+1]);
        dv(i, t);
      }
      dv.permute(p);
      for(Index i = 0; i < dv.size(); ++i) { auto t = dv(i); o << " " << q2idx(t[0]) << " " << q2idx(t[1]); }
    }
  }
  else if(op == "isperm")
  {
    // Geometry::IndexSet<3>::permute(perm, inv_perm_face) (the MeshPermutation way of permuting a mesh's index sets)
    auto pv = c.idxlist(); auto qv = c.idxlist();
    Index bound = c.idx();
    auto x = c.idxlist();
    const Index n = Index(x.size() / 3);
    Geometry::IndexSet<3> is(n, bound);
    for(Index i = 0; i < n; ++i) for(int k = 0; k < 3; ++k) is(i, k) = Index(x[3*i + Index(k)]);
    Permutation p = mk_perm(pv), q = mk_perm(qv);
    is.permute(p, q);
    o << "IS " << is.get_num_entities() << " " << is.get_index_bound() << " " << 3*n;
    for(Index i = 0; i < n; ++i) for(int k = 0; k < 3; ++k) o << " " << is(i, k);
    // the same index set seen as an adjactor, rendered
    Graph g(RenderType::as_is, is);
    o << " "; show_graph(o, g);
  }
  else if(op == "vsperm")
  {
    // Geometry::VertexSet<2, Q>::permute(perm, invert)
    Index inv = c.idx();
    auto pv = c.idxlist();
    auto x = c.idxlist();
    const Index n = Index(x.size() / 2);
    Geometry::VertexSet<2, Q> vs(n);
    for(Index i = 0; i < n; ++i) { vs[i][0] = Q((unsigned long)x[2*i]); vs[i][1] = Q((unsigned long)x[2*i+1]); }
    Permutation p = mk_perm(pv);
    vs.permute(p, inv != 0);
    o << "VS " << 2*n;
    for(Index i = 0; i < n; ++i) o << " " << q2idx(vs[i][0]) << " " << q2idx(vs[i][1]);
  }
  else if(op == "csrperm")
  {
    // SparseMatrixCSR(graph).permute(p, q): its pattern vs Graph(graph, p, q^-1) + sort_indices
    Graph g0 = read_graph(c);
    auto pv = c.idxlist(); auto qv = c.idxlist();
    Graph g(RenderType::injectify_sorted, g0);
    LAFEM::SparseMatrixCSR<Q, Index> a(g);
    // mark every entry with its original (row, column) so that values are seen to travel with the pattern
    {
      const Index* rp = a.row_ptr(); const Index* ci = a.col_ind(); Q* va = a.val();
      for(Index r = 0; r < a.rows(); ++r) for(Index k = rp[r]; k < rp[r+1]; ++k) va[k] = Q((unsigned long)(r * 1000 + ci[k]));
    }
    Permutation p = mk_perm(pv), q = mk_perm(qv);
    a.permute(p, q);
    o << "CP ";
    Graph pat(RenderType::as_is, a);
    show_graph(o, pat);
    o << " V " << a.used_elements();
    for(Index k = 0; k < a.used_elements(); ++k) o << " " << q2idx(a.val()[k]);
    o << " ";
    if(p.empty() && q.empty())
    {
      // "no permutation": the matrix is left alone, and so is the graph
      show_graph(o, g);
    }
    else
    {
      Permutation qi = q.inverse();
      Graph r(g, p, qi);
      r.sort_indices();
      show_graph(o, r);
    }
  }
  else
    o << "BAD-OP";
}

int main(int argc, char** argv)
{
  return verif::run_cases(argc, argv, handle);
}
