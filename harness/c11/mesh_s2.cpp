// C11 harness: MeshFileReader/Writer instantiation for one mesh type (separate unit for parallel builds)
#include <c11/mesh_run.hpp>
void run_mesh_s2(Geometry::MeshFileReader& r, std::ostream& o) { run_mesh<MeshS2>(r, o); }
