// shared part of the C11 mesh harness: dump of a mesh node through the real accessors and the two-generation round trip
#pragma once
#include <forkcase.hpp>
#include <c11/q_io.hpp>
#include <kernel/util/xml_scanner.hpp>
#include <kernel/geometry/mesh_file_reader.hpp>
#include <kernel/geometry/mesh_file_writer.hpp>
#include <kernel/geometry/partition_set.hpp>

using namespace FEAT;

inline std::string hex(const std::string& s)
{
  static const char* d = "0123456789abcdef";
  std::string r("x");
  for(unsigned char c : s) { r.push_back(d[c >> 4]); r.push_back(d[c & 15]); }
  return r;
}

// ------------------------------------------------------------------------------------------------
// mesh files
// ------------------------------------------------------------------------------------------------
template<typename Shape_, int d_ = Shape_::dimension>
struct TopoDump
{
  static void run(std::ostream& o, const Geometry::IndexSetHolder<Shape_>& ish)
  {
    TopoDump<Shape_, d_ - 1>::run(o, ish);
    const auto& is = ish.template get_index_set<d_, 0>();
    o << " T " << d_ << " " << is.get_num_entities() << " " << is.num_indices;
    for(Index i = 0; i < is.get_num_entities(); ++i)
      for(int j = 0; j < is.num_indices; ++j) o << " " << is[i][j];
  }
};
template<typename Shape_> struct TopoDump<Shape_, 0> { static void run(std::ostream&, const Geometry::IndexSetHolder<Shape_>&) {} };

template<typename Shape_, int d_ = Shape_::dimension>
struct MapDump
{
  static void run(std::ostream& o, const Geometry::TargetSetHolder<Shape_>& tsh)
  {
    MapDump<Shape_, d_ - 1>::run(o, tsh);
    const auto& ts = tsh.template get_target_set<d_>();
    o << " " << ts.get_num_entities();
    for(Index i = 0; i < ts.get_num_entities(); ++i) o << " " << ts[i];
  }
};
template<typename Shape_> struct MapDump<Shape_, 0>
{
  static void run(std::ostream& o, const Geometry::TargetSetHolder<Shape_>& tsh)
  {
    const auto& ts = tsh.template get_target_set<0>();
    o << " " << ts.get_num_entities();
    for(Index i = 0; i < ts.get_num_entities(); ++i) o << " " << ts[i];
  }
};

template<typename MeshT>
std::string dump_node(const Geometry::RootMeshNode<MeshT>& node, const Geometry::MeshAtlas<MeshT>& atlas,
  const Geometry::PartitionSet& pset)
{
  typedef typename MeshT::ShapeType ShapeT;
  std::ostringstream o;
  const MeshT* mesh = node.get_mesh();
  if(mesh == nullptr) o << "M 0";
  else
  {
    o << "M 1";
    for(int d = 0; d <= MeshT::shape_dim; ++d) o << " " << mesh->get_num_entities(d);
    const auto& vs = mesh->get_vertex_set();
    o << " V " << vs.get_num_vertices();
    for(Index i = 0; i < vs.get_num_vertices(); ++i)
      for(int j = 0; j < MeshT::world_dim; ++j) o << " " << vs[i][j];
    TopoDump<ShapeT>::run(o, mesh->get_index_set_holder());
  }
  std::deque<String> names = node.get_mesh_part_names();
  o << " NP " << names.size();
  for(const auto& nm : names)
  {
    const auto* part = node.find_mesh_part(nm);
    String cn = node.find_mesh_part_chart_name(nm);
    o << " P " << hex(nm) << " " << hex(cn) << " " << (part->has_topology() ? 1 : 0);
    for(int d = 0; d <= MeshT::shape_dim; ++d) o << " " << part->get_num_entities(d);
    o << " MAP";
    MapDump<ShapeT>::run(o, part->get_target_set_holder());
    if(part->has_topology()) TopoDump<ShapeT>::run(o, *part->get_topology());
    const auto& attrs = part->get_mesh_attributes();
    o << " NA " << attrs.size();
    for(auto it = attrs.begin(); it != attrs.end(); ++it)
    {
      const auto& a = *(it->second);
      o << " A " << hex(it->first) << " " << a.get_dimension() << " " << a.get_num_values();
      for(Index i = 0; i < a.get_num_values(); ++i)
        for(int j = 0; j < a.get_dimension(); ++j) o << " " << a(i, j);
    }
  }
  const auto& parts = pset.get_partitions();
  o << " NPS " << parts.size();
  for(const auto& p : parts)
  {
    const Adjacency::Graph& g = p.get_patches();
    o << " PS " << hex(p.get_name()) << " " << p.get_priority() << " " << p.get_level() << " " << p.get_num_patches()
      << " " << p.get_num_elements();
    for(Index i = 0; i < g.get_num_nodes_domain(); ++i)
    {
      o << " " << g.degree(i);
      for(auto it = g.image_begin(i); it != g.image_end(i); ++it) o << " " << *it;
    }
  }
  std::deque<String> cn = atlas.get_chart_names();
  o << " NC " << cn.size();
  for(const auto& c : cn) o << " " << hex(c);
  return o.str();
}

#define CATCH_XML(o, tag) \
  catch(const Xml::SyntaxError& ex_) { o.str(""); o << tag << " SyntaxError " << ex_.get_line_number(); } \
  catch(const Xml::GrammarError& ex_) { o.str(""); o << tag << " GrammarError " << ex_.get_line_number(); } \
  catch(const Xml::ContentError& ex_) { o.str(""); o << tag << " ContentError " << ex_.get_line_number(); } \
  catch(const Geometry::MeshNodeLinkerError&) { o.str(""); o << tag << " LinkerError 0"; }

template<typename MeshT>
void run_mesh(Geometry::MeshFileReader& reader, std::ostream& out)
{
  std::ostringstream o;
  std::string d1, w1;
  try
  {
    Geometry::MeshAtlas<MeshT> atlas;
    Geometry::PartitionSet pset;
    auto node = reader.parse<MeshT>(atlas, &pset);
    d1 = dump_node(*node, atlas, pset);
    std::ostringstream w;
    Geometry::MeshFileWriter writer(w);
    writer.write(node.get(), &atlas, &pset, false);
    w1 = w.str();
  }
  CATCH_XML(o, "ERR")
  if(!o.str().empty()) { out << o.str(); return; }
  o << "OK " << d1 << " W " << hex(w1);
  std::string head = o.str();
  // second generation: parse the writer's output with the same mesh type and write it again
  std::ostringstream o2;
  try
  {
    std::istringstream is2(w1);
    Geometry::MeshFileReader r2(is2);
    Geometry::MeshAtlas<MeshT> a2;
    Geometry::PartitionSet p2;
    auto n2 = r2.parse<MeshT>(a2, &p2);
    std::string d2 = dump_node(*n2, a2, p2);
    std::ostringstream w;
    Geometry::MeshFileWriter writer(w);
    writer.write(n2.get(), &a2, &p2, false);
    o2 << " RT " << (d2 == d1 ? 1 : 0) << " " << (w.str() == w1 ? 1 : 0);
  }
  CATCH_XML(o2, " RTERR")
  out << head << o2.str();
}


typedef Geometry::ConformalMesh<Shape::Hypercube<1>, 1, Q> MeshH1;
typedef Geometry::ConformalMesh<Shape::Hypercube<2>, 2, Q> MeshH2;
typedef Geometry::ConformalMesh<Shape::Hypercube<3>, 3, Q> MeshH3;
typedef Geometry::ConformalMesh<Shape::Simplex<2>, 2, Q> MeshS2;
typedef Geometry::ConformalMesh<Shape::Simplex<3>, 3, Q> MeshS3;
// mesh types embedded in a higher-dimensional world (surface meshes, curves)
typedef Geometry::ConformalMesh<Shape::Simplex<2>, 3, Q> MeshS2W3;
typedef Geometry::ConformalMesh<Shape::Hypercube<2>, 3, Q> MeshH2W3;
typedef Geometry::ConformalMesh<Shape::Hypercube<1>, 2, Q> MeshH1W2;
typedef Geometry::ConformalMesh<Shape::Hypercube<1>, 3, Q> MeshH1W3;
void run_mesh_s2w3(Geometry::MeshFileReader&, std::ostream&);
void run_mesh_h2w3(Geometry::MeshFileReader&, std::ostream&);
void run_mesh_h1w2(Geometry::MeshFileReader&, std::ostream&);
void run_mesh_h1w3(Geometry::MeshFileReader&, std::ostream&);
typedef Geometry::ConformalMesh<Shape::Hypercube<2>, 2, double> MeshH2D;   // "printed precision" clause at double
void run_mesh_h2d(Geometry::MeshFileReader&, std::ostream&);
typedef Geometry::ConformalMesh<Shape::Hypercube<3>, 3, double> MeshH3D;   // 3D charts (Extrude needs sin/cos) at double
void run_mesh_h3d(Geometry::MeshFileReader&, std::ostream&);
void run_mesh_h1(Geometry::MeshFileReader&, std::ostream&);
void run_mesh_h2(Geometry::MeshFileReader&, std::ostream&);
void run_mesh_h3(Geometry::MeshFileReader&, std::ostream&);
void run_mesh_s2(Geometry::MeshFileReader&, std::ostream&);
void run_mesh_s3(Geometry::MeshFileReader&, std::ostream&);
