// C11 harness: MeshFileReader/Writer at double in 3D (Sphere / SurfaceMesh / Extrude charts; oracle-only streams)
#include <c11/mesh_run.hpp>
void run_mesh_h3d(Geometry::MeshFileReader& r, std::ostream& o) { run_mesh<MeshH3D>(r, o); }
