// C11 harness: MeshFileReader/Writer for a mesh type embedded in a higher-dimensional world (separate unit for parallel builds)
#include <c11/mesh_run.hpp>
void run_mesh_h1w3(Geometry::MeshFileReader& r, std::ostream& o) { run_mesh<MeshH1W3>(r, o); }
