// Stream extraction for the exact scalar Q (the harness' scalar I/O; FEAT's String::parse<T>() needs `is >> t`)
// and aborting stand-ins for the transcendental functions that the chart classes reference but never call
// while parsing or writing a mesh file.
//
// Grammar accepted by `is >> Q` (mirrored literally by FeatModel.MeshFile.parseQ):
//   ws* [+-]? D+ ( '/' D+  |  ('.' D*)? ([eE] [+-]? D+)? )
// The longest such prefix is consumed; no digits / zero denominator / |exponent| > 400 -> failbit.
#pragma once
#include <exact_q.hpp>
#include <istream>

inline std::istream& operator>>(std::istream& is, Q& out)
{
  std::istream::sentry s(is);
  if(!s) return is;
  auto peek = [&]() -> int { return is.rdbuf()->sgetc(); };
  auto bump = [&]() { is.rdbuf()->sbumpc(); };
  auto isd = [](int c) { return c >= '0' && c <= '9'; };
  bool neg = false;
  int c = peek();
  if(c == '+' || c == '-') { neg = (c == '-'); bump(); c = peek(); }
  if(!isd(c)) { is.setstate(std::ios::failbit); return is; }
  mpz_class num(0), den(1);
  while(isd(c = peek())) { num = num * 10 + (c - '0'); bump(); }
  if(c == '/')
  {
    // rational form; the '/' is consumed only if a digit follows
    std::streampos dummy; (void)dummy;
    bump();
    if(!isd(peek())) { is.setstate(std::ios::failbit); return is; }
    mpz_class d(0);
    while(isd(c = peek())) { d = d * 10 + (c - '0'); bump(); }
    if(d == 0) { is.setstate(std::ios::failbit); return is; }
    den = d;
  }
  else
  {
    if(c == '.')
    {
      bump();
      while(isd(c = peek())) { num = num * 10 + (c - '0'); den *= 10; bump(); }
    }
    if(c == 'e' || c == 'E')
    {
      bump();
      bool eneg = false;
      c = peek();
      if(c == '+' || c == '-') { eneg = (c == '-'); bump(); c = peek(); }
      if(!isd(c)) { is.setstate(std::ios::failbit); return is; }
      long e = 0; bool big = false;
      while(isd(c = peek())) { if(e <= 400) e = e * 10 + (c - '0'); if(e > 400) big = true; bump(); }
      if(big) { is.setstate(std::ios::failbit); return is; }
      for(long i = 0; i < e; ++i) { if(eneg) den *= 10; else num *= 10; }
    }
  }
  if(neg) num = -num;
  mpq_class q(num, den); q.canonicalize();
  out = Q(q);
  if(peek() == std::char_traits<char>::eof()) is.setstate(std::ios::eofbit);
  return is;
}

namespace FEAT
{
  namespace Math
  {
#define Q_NOFUN(name) inline Q name(Q) { std::cerr << "\n>>> FATAL ERROR: Q: transcendental " #name "\n"; std::abort(); }
    Q_NOFUN(sin) Q_NOFUN(cos) Q_NOFUN(tan) Q_NOFUN(asin) Q_NOFUN(acos) Q_NOFUN(atan) Q_NOFUN(exp) Q_NOFUN(log)
    Q_NOFUN(sinh) Q_NOFUN(cosh) Q_NOFUN(tanh) Q_NOFUN(log10) Q_NOFUN(floor) Q_NOFUN(ceil) Q_NOFUN(round)
#undef Q_NOFUN
    inline Q atan2(Q, Q) { std::cerr << "\n>>> FATAL ERROR: Q: transcendental atan2\n"; std::abort(); }
    inline Q sqr(Q x) { return x * x; }
    inline Q signum(Q x) { return x.v() < 0 ? Q(-1) : (x.v() > 0 ? Q(1) : Q(0)); }
    inline Q min(Q a, Q b) { return a < b ? a : b; }
    inline Q max(Q a, Q b) { return a < b ? b : a; }
    template<> inline Q pi<Q>() { return Q(mpq_class(355, 113)); }
  }
}
