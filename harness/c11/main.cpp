// C11 harness: mesh-file / XML-scanner / property-map / graph-serialisation round trips on the real FEAT code.
// One case per line (see FeatModel/Driver/C11.lean for the protocol).  Texts are hex-encoded byte strings.
#include <forkcase.hpp>
#include <c11/q_io.hpp>
#include <kernel/util/xml_scanner.hpp>
#include <kernel/util/property_map.hpp>
#include <kernel/adjacency/graph.hpp>
#include <c11/mesh_run.hpp>
using verif::Cur;

static std::string unhex(const std::string& h)
{
  std::string r;
  auto val = [](char c) -> int { return (c >= '0' && c <= '9') ? c - '0' : (c >= 'a' && c <= 'f') ? c - 'a' + 10 : -1; };
  // a leading 'x' marks a (possibly empty) hex string
  std::size_t i = (!h.empty() && h[0] == 'x') ? 1 : 0;
  for(; i + 1 < h.size(); i += 2)
  {
    int a = val(h[i]), b = val(h[i + 1]);
    if(a < 0 || b < 0) { std::cerr << "\n>>> FATAL ERROR: harness: bad hex\n"; std::abort(); }
    r.push_back(char(a * 16 + b));
  }
  return r;
}

// ------------------------------------------------------------------------------------------------
// XML scanner: a recording parser (observer only; accepts everything, checks no attributes)
// ------------------------------------------------------------------------------------------------
struct RecParser : public Xml::MarkupParser
{
  std::ostream& o; int& n;
  RecParser(std::ostream& oo, int& nn) : o(oo), n(nn) {}
  virtual bool attribs(std::map<String, bool>&) const override { return false; }
  virtual void create(int iline, const String&, const String& name, const std::map<String, String>& attrs, bool closed) override
  {
    ++n;
    o << " C:" << iline << ":" << hex(name) << ":" << (closed ? 1 : 0) << ":" << attrs.size();
    for(auto& kv : attrs) o << ":" << hex(kv.first) << "=" << hex(kv.second);
  }
  virtual void close(int iline, const String&) override { ++n; o << " X:" << iline; }
  virtual std::shared_ptr<Xml::MarkupParser> markup(int, const String&, const String&) override { return std::make_shared<RecParser>(o, n); }
  virtual bool content(int iline, const String& sline) override { ++n; o << " T:" << iline << ":" << hex(sline); return true; }
};

static void do_scan(const std::string& text, std::ostream& o)
{
  std::istringstream is(text);
  std::ostringstream ev; int n = 0;
  try
  {
    Xml::Scanner scanner(is);
    scanner.scan(std::make_shared<RecParser>(ev, n));
    o << "OK" << ev.str();
  }
  catch(const Xml::SyntaxError& e) { o << "ERR SyntaxError " << e.get_line_number(); }
  catch(const Xml::GrammarError& e) { o << "ERR GrammarError " << e.get_line_number(); }
  catch(const Xml::ContentError& e) { o << "ERR ContentError " << e.get_line_number(); }
}

static void do_mesh(const std::string& text, std::ostream& o, bool at_double = false)
{
  std::istringstream is(text);
  Geometry::MeshFileReader reader(is);
  std::ostringstream e;
  try { reader.read_root_markup(); }
  CATCH_XML(e, "ERR")
  if(!e.str().empty()) { o << e.str(); return; }
  typedef Geometry::MeshFileReader R;
  const bool hyper = reader.get_shape_type() == R::ShapeType::hypercube;
  const bool simpl = reader.get_shape_type() == R::ShapeType::simplex;
  const int sd = reader.get_shape_dim(), wd = reader.get_world_dim();
  if(reader.get_meshtype_string().empty()) { o << "NOTYPE"; return; }
  if(at_double)
  {
    if(hyper && sd == 2 && wd == 2) run_mesh_h2d(reader, o);
    else if(hyper && sd == 3 && wd == 3) run_mesh_h3d(reader, o);
    else o << "NOTYPE";
    return;
  }
  if(hyper && sd == 1 && wd == 1) run_mesh_h1(reader, o);
  else if(hyper && sd == 2 && wd == 2) run_mesh_h2(reader, o);
  else if(hyper && sd == 3 && wd == 3) run_mesh_h3(reader, o);
  else if(simpl && sd == 2 && wd == 2) run_mesh_s2(reader, o);
  else if(simpl && sd == 3 && wd == 3) run_mesh_s3(reader, o);
  else if(simpl && sd == 2 && wd == 3) run_mesh_s2w3(reader, o);
  else if(hyper && sd == 2 && wd == 3) run_mesh_h2w3(reader, o);
  else if(hyper && sd == 1 && wd == 2) run_mesh_h1w2(reader, o);
  else if(hyper && sd == 1 && wd == 3) run_mesh_h1w3(reader, o);
  else o << "NOTYPE";
}

// ------------------------------------------------------------------------------------------------
// property maps
// ------------------------------------------------------------------------------------------------
static void dump_pmap(std::ostream& o, const PropertyMap& pm)
{
  std::size_t ne = 0, ns = 0;
  for(auto it = pm.begin_entry(); it != pm.end_entry(); ++it) ++ne;
  for(auto it = pm.begin_section(); it != pm.end_section(); ++it) ++ns;
  o << " E " << ne;
  for(auto it = pm.begin_entry(); it != pm.end_entry(); ++it) o << " " << hex(it->first) << " " << hex(it->second);
  o << " S " << ns;
  for(auto it = pm.begin_section(); it != pm.end_section(); ++it) { o << " " << hex(it->first); dump_pmap(o, *it->second); }
}

static void do_ini(const std::string& text, bool replace, std::ostream& o)
{
  std::string d1, w1;
  try
  {
    PropertyMap pm;
    std::istringstream is(text);
    pm.read(is, replace);
    std::ostringstream d; dump_pmap(d, pm); d1 = d.str();
    std::ostringstream w; pm.write(w); w1 = w.str();
  }
  catch(const FEAT::SyntaxError&) { o << "ERR SyntaxError"; return; }
  o << "OK" << d1 << " W " << hex(w1);
  try
  {
    PropertyMap p2;
    std::istringstream is(w1);
    p2.read(is, replace);
    std::ostringstream d; dump_pmap(d, p2);
    std::ostringstream w; p2.write(w);
    o << " RT " << (d.str() == d1 ? 1 : 0) << " " << (w.str() == w1 ? 1 : 0);
  }
  catch(const FEAT::SyntaxError&) { o << " RTERR SyntaxError"; }
}

// ------------------------------------------------------------------------------------------------
// graph serialisation
// ------------------------------------------------------------------------------------------------
static void show_list(std::ostream& o, const Index* p, Index n)
{
  o << n;
  for(Index i = 0; i < n; ++i) o << " " << p[i];
}

static void show_graph(std::ostream& o, const Adjacency::Graph& g)
{
  o << "G " << g.get_num_nodes_domain() << " " << g.get_num_nodes_image() << " " << g.get_num_indices() << " ";
  // the pointer array may be absent (default-constructed / deserialised empty graph)
  if(g.get_domain_ptr() == nullptr || g.get_num_nodes_domain() == 0) o << "0";
  else show_list(o, g.get_domain_ptr(), g.get_num_nodes_domain() + 1);
  o << " ";
  if(g.get_image_idx() == nullptr) o << "0"; else show_list(o, g.get_image_idx(), g.get_num_indices());
}

static void show_bytes(std::ostream& o, const std::vector<char>& b)
{
  // as 64-bit little-endian words, prefixed by the byte count
  o << "B " << b.size() << " " << b.size() / 8;
  for(std::size_t i = 0; i + 8 <= b.size(); i += 8)
  {
    std::uint64_t w; std::memcpy(&w, b.data() + i, 8); o << " " << w;
  }
}

static void graph_roundtrip(const Adjacency::Graph& g, std::ostream& o)
{
  std::vector<char> b1 = g.serialize();
  show_bytes(o, b1);
  Adjacency::Graph g2(b1);
  o << " "; show_graph(o, g2);
  std::vector<char> b2 = g2.serialize();
  o << " RT " << (b1 == b2 ? 1 : 0) << " ";
  show_bytes(o, b2);
}

static void handle(const verif::Tokens& t, std::ostream& o)
{
  Cur c(t);
  std::string op = c.str();
  if(op == "scan") { do_scan(unhex(c.str()), o); }
  else if(op == "mesh") { c.str(); do_mesh(unhex(c.str()), o); }
  else if(op == "meshd") { c.str(); do_mesh(unhex(c.str()), o, true); }
  else if(op == "ini") { std::string r = c.str(); do_ini(unhex(c.str()), r == "1", o); }
  else if(op == "graph")
  {
    Index n_img = c.idx(), n_dom = c.idx();
    std::vector<Index> ptr(1, 0), idx;
    for(Index i = 0; i < n_dom; ++i)
    {
      auto l = c.idxlist();
      for(auto x : l) idx.push_back(Index(x));
      ptr.push_back(Index(idx.size()));
    }
    Adjacency::Graph g(n_dom, n_img, Index(idx.size()), ptr.data(), idx.data());
    graph_roundtrip(g, o);
  }
  else if(op == "graphdef") { Adjacency::Graph g; graph_roundtrip(g, o); }
  else if(op == "gbytes")
  {
    // a well-formed buffer built by the generator straight from the documented layout
    auto w = c.idxlist();
    std::vector<char> b(w.size() * 8);
    for(std::size_t i = 0; i < w.size(); ++i) { std::uint64_t x = w[i]; std::memcpy(b.data() + 8 * i, &x, 8); }
    Adjacency::Graph g(b);
    show_graph(o, g);
    o << " ";
    show_bytes(o, g.serialize());
  }
  else
    o << "BAD-OP";
}

int main(int argc, char** argv)
{
  // debugging aid: `c11 <file> direct` runs the first case in-process (no fork), so sanitizer reports reach stderr
  if(argc > 2 && std::string(argv[2]) == "direct")
  {
    std::ifstream f(argv[1]); std::string line; std::getline(f, line);
    handle(verif::split(line), std::cout); std::cout << std::endl;
    return 0;
  }
  return verif::run_cases(argc, argv, handle);
}
