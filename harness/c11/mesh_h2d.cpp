// C11 harness: MeshFileReader/Writer at double (the "to the printed precision" clause; oracle-only stream)
#include <c11/mesh_run.hpp>
void run_mesh_h2d(Geometry::MeshFileReader& r, std::ostream& o) { run_mesh<MeshH2D>(r, o); }
