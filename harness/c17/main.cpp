// C17 harness: executes the real Assembly::DomainAssembler (kernel/assembly/domain_assembler.hpp) on one case
// per line (see FeatModel/Driver/C17.lean for the protocol).
//
//   dist  S W nvt ncells {k v1..vk}*ncells  nsel c1..  -> "D strategy nw nfences <ei> <le> <tl> <ce>"
//         (the protected work-distribution arrays, read through a derived class)
//   run   S W nvt ncells cells sel ns ncb reps pseed   -> "R nw reps {nseq seqs vec integral ncomb hooks nev events}*reps"
//         a real (multi-threaded) DomainAssembler::assemble of an instrumented job; events = (kind thread arg):
//         0 fence open, 1 fence wait returned, 2 fence close (only with hook H2), 3 scatter enter, 4 scatter leave,
//         5 combine enter, 6 combine leave, 8 thread-label binding (label, first prepared cell), 9 master joined,
//         10 fence wait begins (hook H2 only; statistics, ignored by the model),
//         11 fence open(false), 12 fence wait returned false (hook H2), 13 task throws (thread, cell)
//         optional failure injection for the FIRST job: "... pseed fwhere fcell" with fwhere 1 assemble, 2 scatter,
//         3 finish, 4 combine (of the task that assembled fcell) throws at cell fcell
//   trace <run case> | <run output>                     -> "T nw reps {nseq seqs vec integral ncomb}*reps"
//         (echo of the schedule-independent part of a recorded run; the Lean driver validates the events)
//
// The job data are integer-valued doubles (Q is not thread-safe); sums are exact.
#include <forkcase.hpp>
#include <kernel/geometry/conformal_mesh.hpp>
#include <kernel/trafo/standard/mapping.hpp>
#include <kernel/assembly/domain_assembler.hpp>
#include <kernel/util/thread.hpp>

#include <atomic>
#include <chrono>
#include <thread>
#include <random>
#include <algorithm>
#include <stdexcept>

using namespace FEAT;
using verif::Cur;

// ------------------------------------------------------------------------------------------------
// event log (lock-free: one slot per event, claimed with a relaxed fetch_add so that the log itself adds
// no synchronisation that could hide a race from ThreadSanitizer)
// ------------------------------------------------------------------------------------------------
struct Rec { int kind; int label; std::size_t arg; };
static std::vector<Rec> g_log;
static std::atomic<std::size_t> g_log_pos(0);
static std::atomic<int> g_next_label(1);
static thread_local int t_label = -1;
static thread_local std::uint64_t t_rng = 0;
static std::uint64_t g_pseed = 0;

static int my_label()
{
  if(t_label < 0) t_label = g_next_label.fetch_add(1, std::memory_order_relaxed);
  return t_label;
}

static void log_event(int kind, std::size_t arg)
{
  std::size_t i = g_log_pos.fetch_add(1, std::memory_order_relaxed);
  if(i < g_log.size()) { g_log[i].kind = kind; g_log[i].label = my_label(); g_log[i].arg = arg; }
}

// seeded schedule perturbation: nothing / yield / short sleep
static void perturb()
{
  if(g_pseed == 0) return;
  if(t_rng == 0) t_rng = g_pseed * 0x9E3779B97F4A7C15ull + std::uint64_t(my_label()) * 0xBF58476D1CE4E5B9ull + 1u;
  t_rng ^= t_rng << 13; t_rng ^= t_rng >> 7; t_rng ^= t_rng << 17;
  unsigned r = unsigned(t_rng % 16u);
  if(r < 6u) return;
  if(r < 12u) { std::this_thread::yield(); return; }
  std::this_thread::sleep_for(std::chrono::microseconds(1 + (t_rng >> 8) % 60u));
}

// seeded "slow starter": about one thread in three sleeps 0.2-1 ms before its first cell, so that its neighbour
// reaches its last layer (resp. the master its wait loop) early and really has to block on the fence
static void slow_start()
{
  if(g_pseed == 0) return;
  std::uint64_t h = (g_pseed ^ (g_pseed >> 11)) * 0xD6E8FEB86659FD93ull + std::uint64_t(my_label()) * 0x9E3779B97F4A7C15ull;
  h ^= h >> 32;
  if(h % 3u == 0u)
    std::this_thread::sleep_for(std::chrono::microseconds(200 + (h >> 8) % 800u));
}

// ------------------------------------------------------------------------------------------------
// instrumented job: cell c adds (c+1)*(k+1) to the entry of its k-th vertex (read - perturb - write, so a
// concurrent scatter on vertex-adjacent cells loses updates), integral += 7*(c+1) via combine
// ------------------------------------------------------------------------------------------------
template<typename Mesh_, bool ns_, bool nc_>
class InstrJob
{
public:
  const Mesh_& mesh;
  std::vector<double> vec;
  double integral;
  int ncomb;
  int fail_where;
  Index fail_cell;
  std::mutex* mtx;   // the assembler's `_thread_mutex` (probe: is it held while combine() runs?)
  explicit InstrJob(const Mesh_& m) : mesh(m), vec(m.get_num_entities(0), 0.0), integral(0.0), ncomb(0),
    fail_where(0), fail_cell(0), mtx(nullptr) {}

  class Task
  {
  public:
    static constexpr bool need_scatter = ns_;
    static constexpr bool need_combine = nc_;
    static constexpr int nvc = Shape::FaceTraits<typename Mesh_::ShapeType, 0>::count;
    InstrJob& job;
    Index cell;
    double loc[nvc];
    double loc_int;
    bool first, saw_fail_cell;
    explicit Task(InstrJob& j) : job(j), cell(0), loc_int(0.0), first(true), saw_fail_cell(false) {}
    void maybe_fail(int where)
    {
      if(job.fail_where == where && (where == 4 ? saw_fail_cell : (cell == job.fail_cell)))
      {
        log_event(13, cell);
        throw std::runtime_error("injected task failure");
      }
    }
    void prepare(Index c)
    {
      cell = c;
      log_event(first ? 8 : 7, c);
      if(first) slow_start();
      first = false;
      perturb();
    }
    void assemble()
    {
      if(cell == job.fail_cell) saw_fail_cell = true;
      maybe_fail(1);
      for(int k(0); k < nvc; ++k) loc[k] = double(cell + 1u) * double(k + 1);
      loc_int += 7.0 * double(cell + 1u);
    }
    void scatter()
    {
      log_event(3, cell);
      maybe_fail(2);
      const auto& idx = job.mesh.template get_index_set<Mesh_::shape_dim, 0>()[cell];
      for(int k(0); k < nvc; ++k)
      {
        double t = job.vec.at(idx[k]);
        perturb();
        job.vec.at(idx[k]) = t + loc[k];
      }
      log_event(4, cell);
    }
    void finish() { maybe_fail(3); }
    void combine()
    {
      log_event(5, 0);
      // probe (kind 14, arg 1 = held): combine() must run while `_thread_mutex` is locked.  try_lock() from the
      // owning thread is formally undefined for std::mutex; with glibc's default (non-recursive) mutex it fails with
      // EBUSY, which is all we need.  Not compiled into the ThreadSanitizer build.
#if !defined(__SANITIZE_THREAD__)
      if(job.mtx != nullptr)
      {
        bool got = job.mtx->try_lock();
        if(got) job.mtx->unlock();
        log_event(14, got ? 0u : 1u);
      }
#endif
      maybe_fail(4);
      double t = job.integral;
      perturb();
      job.integral = t + loc_int;
      ++job.ncomb;
      log_event(6, 0);
    }
  };
};

// ------------------------------------------------------------------------------------------------
// derived class: read access to the protected work distribution
// ------------------------------------------------------------------------------------------------
template<typename Trafo_>
class OpenDA : public Assembly::DomainAssembler<Trafo_>
{
public:
  typedef Assembly::DomainAssembler<Trafo_> Base;
  explicit OpenDA(const Trafo_& t) : Base(t) {}
  const std::vector<Index>& ei() const { return this->_element_indices; }
  const std::vector<Index>& le() const { return this->_layer_elements; }
  const std::vector<Index>& tl() const { return this->_thread_layers; }
  const std::vector<Index>& ce() const { return this->_color_elements; }
  const std::vector<ThreadFence>& fences() const { return this->_thread_fences; }
  std::mutex& thread_mutex() { return this->_thread_mutex; }
};

static Assembly::ThreadingStrategy strat(Index s)
{
  switch(s)
  {
  case 1: return Assembly::ThreadingStrategy::single;
  case 2: return Assembly::ThreadingStrategy::layered;
  case 3: return Assembly::ThreadingStrategy::layered_sorted;
  case 4: return Assembly::ThreadingStrategy::colored;
  default: return Assembly::ThreadingStrategy::automatic;
  }
}

static void show_list(std::ostream& o, const std::vector<Index>& v)
{
  o << v.size();
  for(auto x : v) o << " " << x;
}

struct Input
{
  Index strategy, max_w, nvt;
  std::vector<std::vector<std::size_t>> cells;
  std::vector<std::size_t> sel;
  void read(Cur& c)
  {
    strategy = c.idx(); max_w = c.idx(); nvt = c.idx();
    Index nc = c.idx();
    cells.resize(nc);
    for(auto& l : cells) l = c.idxlist();
    sel = c.idxlist();
  }
};

#ifdef FEAT_VERIF_HOOK_H2
static const ThreadFence* g_fence_base = nullptr;
static std::size_t g_fence_count = 0;
static void h2_callback(int kind, const void* obj, std::size_t arg)
{
  if(kind <= 2)
  {
    const ThreadFence* f = static_cast<const ThreadFence*>(obj);
    // open / wait carry the fence's okay flag: 0 open(true), 11 open(false), 1 wait -> true, 12 wait -> false
    int k = kind;
    if(kind == 0 && arg == 0u) k = 11;
    if(kind == 1 && arg == 0u) k = 12;
    if(g_fence_base != nullptr && f >= g_fence_base && f < g_fence_base + g_fence_count)
      log_event(k, std::size_t(f - g_fence_base));
  }
  else
  {
    perturb();
    // "wait begins" marker (kind 10): lets the check measure which fence waits really had to block
    if(kind == 10)
    {
      const ThreadFence* f = static_cast<const ThreadFence*>(obj);
      if(g_fence_base != nullptr && f >= g_fence_base && f < g_fence_base + g_fence_count)
        log_event(10, std::size_t(f - g_fence_base));
    }
  }
}
#endif

// one job of a session on one assembler
struct JobSpec { bool ns, ncb; int fwhere; Index fcell; };

template<typename Shape_>
struct Runner
{
  typedef Geometry::ConformalMesh<Shape_, Shape_::dimension, double> MeshType;
  typedef Trafo::Standard::Mapping<MeshType> TrafoType;
  typedef OpenDA<TrafoType> DAType;
  static constexpr int nvc = Shape::FaceTraits<Shape_, 0>::count;

  static MeshType* make_mesh(const Input& in)
  {
    Index ne[4] = {0, 0, 0, 0};
    ne[0] = in.nvt;
    ne[Shape_::dimension] = Index(in.cells.size());
    MeshType* mesh = new MeshType(ne);
    auto& vtx = mesh->get_vertex_set();
    for(Index i(0); i < in.nvt; ++i)
      for(int d(0); d < Shape_::dimension; ++d)
        vtx[i][d] = double(i + 1u) * double(d + 1);
    auto& idx = mesh->template get_index_set<Shape_::dimension, 0>();
    for(Index i(0); i < Index(in.cells.size()); ++i)
      for(int k(0); k < nvc; ++k)
        idx[i][k] = Index(in.cells[i].at(std::size_t(k)));
    return mesh;
  }

  static void setup(DAType& da, const Input& in)
  {
    da.set_threading_strategy(strat(in.strategy));
    da.set_max_worker_threads(in.max_w);
    for(auto c : in.sel) da.add_element(Index(c));
    da.compile();
  }

  static void dist(const Input& in, std::ostream& o)
  {
    std::unique_ptr<MeshType> mesh(make_mesh(in));
    TrafoType trafo(*mesh);
    DAType da(trafo);
    setup(da, in);
    o << "D " << int(da.get_threading_strategy()) << " " << da.get_num_worker_threads() << " " << da.fences().size() << " ";
    show_list(o, da.ei()); o << " ";
    show_list(o, da.le()); o << " ";
    show_list(o, da.tl()); o << " ";
    show_list(o, da.ce());
  }

  template<bool ns_, bool nc_>
  static void run_rep(DAType& da, const MeshType& mesh, std::ostream& o, int fail_where, Index fail_cell)
  {
    typedef InstrJob<MeshType, ns_, nc_> JobType;
    {
      JobType job(mesh);
      job.fail_where = fail_where;
      job.fail_cell = fail_cell;
      job.mtx = &da.thread_mutex();
      g_log.assign(8u * da.ei().size() + 96u * (da.get_num_worker_threads() + 2u) * (da.ce().size() + 2u) + 64u, Rec());
      g_log_pos.store(0);
      bool hooks = false;
#ifdef FEAT_VERIF_HOOK_H2
      hooks = true;
      g_fence_base = da.fences().data();
      g_fence_count = da.fences().size();
      FEAT::VerifHooks::h2_callback() = &h2_callback;
#endif
      da.assemble(job);
      log_event(9, 0);
#ifdef FEAT_VERIF_HOOK_H2
      FEAT::VerifHooks::h2_callback() = nullptr;
#endif
      std::size_t nev = std::min(g_log_pos.load(), g_log.size());
      // per-thread prepare sequences, sorted by first cell
      std::vector<std::pair<int, std::vector<Index>>> seqs;
      for(std::size_t i(0); i < nev; ++i)
      {
        const Rec& r = g_log[i];
        if(r.kind != 7 && r.kind != 8) continue;
        auto it = std::find_if(seqs.begin(), seqs.end(), [&](const std::pair<int, std::vector<Index>>& p) { return p.first == r.label; });
        if(it == seqs.end()) { seqs.push_back(std::make_pair(r.label, std::vector<Index>())); it = seqs.end() - 1; }
        it->second.push_back(Index(r.arg));
      }
      std::sort(seqs.begin(), seqs.end(), [](const std::pair<int, std::vector<Index>>& a, const std::pair<int, std::vector<Index>>& b)
        { return a.second.front() < b.second.front(); });
      o << " " << seqs.size();
      for(auto& s : seqs) { o << " "; show_list(o, s.second); }
      o << " " << job.vec.size();
      for(double x : job.vec) o << " " << (long long)x;
      o << " " << (long long)job.integral << " " << job.ncomb << " " << (hooks ? 1 : 0);
      std::size_t cnt = 0;
      for(std::size_t i(0); i < nev; ++i) if(g_log[i].kind != 7) ++cnt;
      o << " " << cnt;
      // bindings first, then the events in log order
      for(std::size_t i(0); i < nev; ++i)
        if(g_log[i].kind == 8) o << " 8 " << g_log[i].label << " " << g_log[i].arg;
      for(std::size_t i(0); i < nev; ++i)
        if(g_log[i].kind != 7 && g_log[i].kind != 8) o << " " << g_log[i].kind << " " << g_log[i].label << " " << g_log[i].arg;
      if(g_log_pos.load() > g_log.size()) o << " LOG-OVERFLOW";
    }
  }

  // ns / ncb: 0 = no, 1 = yes, 2 = alternate (even repetitions yes): jobs with and without scatter on ONE assembler
  static void run(const Input& in, const std::vector<JobSpec>& specs, std::ostream& o)
  {
    std::unique_ptr<MeshType> mesh(make_mesh(in));
    TrafoType trafo(*mesh);
    DAType da(trafo);
    setup(da, in);
    t_label = 0; // the master thread
    o << "R " << da.get_num_worker_threads() << " " << specs.size();
    for(const JobSpec& sp : specs)
    {
      bool ns = sp.ns, ncb = sp.ncb;
      int fw = sp.fwhere; Index fcell = sp.fcell;
      if(ns && ncb) run_rep<true, true>(da, *mesh, o, fw, fcell);
      else if(ns) run_rep<true, false>(da, *mesh, o, fw, fcell);
      else if(ncb) run_rep<false, true>(da, *mesh, o, fw, fcell);
      else run_rep<false, false>(da, *mesh, o, fw, fcell);
    }
  }
};

template<typename F2_, typename F3_, typename F4_>
static void by_shape(const Input& in, F2_ f2, F3_ f3, F4_ f4)
{
  std::size_t k = in.cells.empty() ? 2u : in.cells.front().size();
  for(auto& l : in.cells)
    if(l.size() != k) { std::cerr << "\n>>> FATAL ERROR: harness: mixed cell sizes\n"; std::abort(); }
  if(k == 2u) f2();
  else if(k == 3u) f3();
  else if(k == 4u) f4();
  else { std::cerr << "\n>>> FATAL ERROR: harness: unsupported cell size\n"; std::abort(); }
}

void c17_featjob(const verif::Tokens& t, std::ostream& o);

static void handle(const verif::Tokens& t, std::ostream& o)
{
  Cur c(t);
  std::string op = c.str();
  if(op == "dist")
  {
    Input in; in.read(c);
    by_shape(in,
      [&]() { Runner<Shape::Hypercube<1>>::dist(in, o); },
      [&]() { Runner<Shape::Simplex<2>>::dist(in, o); },
      [&]() { Runner<Shape::Hypercube<2>>::dist(in, o); });
  }
  else if(op == "run")
  {
    Input in; in.read(c);
    // ns / ncb: 0 = no, 1 = yes, 2 = alternate (even jobs yes); optional failure injection for the first job
    Index ns = c.idx(), ncb = c.idx();
    Index reps = c.idx();
    g_pseed = std::uint64_t(c.idx());
    int fwhere = 0; Index fcell = 0;
    if(!c.done()) { fwhere = int(c.idx()); fcell = c.idx(); }
    std::vector<JobSpec> specs;
    for(Index rep(0); rep < reps; ++rep)
      specs.push_back(JobSpec{(ns == 2u) ? (rep % 2u == 0u) : (ns != 0u), (ncb == 2u) ? (rep % 2u == 0u) : (ncb != 0u),
        rep == 0u ? fwhere : 0, fcell});
    by_shape(in,
      [&]() { Runner<Shape::Hypercube<1>>::run(in, specs, o); },
      [&]() { Runner<Shape::Simplex<2>>::run(in, specs, o); },
      [&]() { Runner<Shape::Hypercube<2>>::run(in, specs, o); });
  }
  else if(op == "session")
  {
    // session <input> pseed njobs {ns ncb fwhere fcell}*njobs : an explicit sequence of jobs on ONE assembler
    Input in; in.read(c);
    g_pseed = std::uint64_t(c.idx());
    Index nj = c.idx();
    std::vector<JobSpec> specs;
    for(Index j(0); j < nj; ++j)
    {
      JobSpec sp; sp.ns = c.idx() != 0; sp.ncb = c.idx() != 0; sp.fwhere = int(c.idx()); sp.fcell = c.idx();
      specs.push_back(sp);
    }
    by_shape(in,
      [&]() { Runner<Shape::Hypercube<1>>::run(in, specs, o); },
      [&]() { Runner<Shape::Simplex<2>>::run(in, specs, o); },
      [&]() { Runner<Shape::Hypercube<2>>::run(in, specs, o); });
  }
  else if(op == "fjob")
  {
    c17_featjob(t, o);   // real FEAT jobs, see featjobs.cpp
  }
  else if(op == "trace" || op == "strace")
  {
    // echo the schedule-independent part of the recorded run
    Input in; in.read(c);
    std::vector<bool> fails;
    std::string bar;
    if(op == "trace")
    {
      c.idx(); c.idx(); Index reps0 = c.idx(); c.idx();
      bar = c.str();
      bool failing = false;
      if(bar != "|") { failing = (bar != "0"); c.idx(); bar = c.str(); }
      fails.assign(reps0, false);
      if(reps0 > 0u) fails[0] = failing;
    }
    else
    {
      c.idx();
      Index nj = c.idx();
      for(Index j(0); j < nj; ++j) { c.idx(); c.idx(); fails.push_back(c.idx() != 0u); c.idx(); }
      bar = c.str();
    }
    if(bar != "|") { o << "BAD-OP"; return; }
    std::string r = c.str();
    if(r != "R") { o << r; return; }
    Index nw = c.idx(), reps = c.idx();
    o << "T " << nw << " " << reps;
    for(Index rep(0); rep < reps; ++rep)
    {
      // the results of a job with an injected failure are schedule dependent: placeholder "F"
      std::ostringstream dump;
      const bool frep = rep < fails.size() && fails[rep];
      std::ostream& q = frep ? static_cast<std::ostream&>(dump) : o;
      if(frep) o << " F";
      Index nseq = c.idx();
      q << " " << nseq;
      for(Index s(0); s < nseq; ++s) { auto l = c.idxlist(); q << " " << l.size(); for(auto x : l) q << " " << x; }
      auto v = c.idxlist(); q << " " << v.size(); for(auto x : v) q << " " << x;
      q << " " << c.idx();       // integral
      q << " " << c.idx();       // ncomb
      c.idx();                   // hooks flag
      Index nev = c.idx();
      for(Index e(0); e < 3u * nev; ++e) c.idx();
    }
  }
  else
    o << "BAD-OP";
}

int main(int argc, char** argv)
{
  return verif::run_cases(argc, argv, handle);
}
