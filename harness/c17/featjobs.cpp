// C17 harness, second translation unit: REAL FEAT assembly jobs (matrix / vector / integral) executed by a
// multi-threaded DomainAssembler on 1D meshes of arbitrary topology, at double precision.
//   fjob S W nvt ncells {2 a b}*ncells nsel c.. kind reps pseed
//        kind 0: BilinearOperatorMatrixAssemblyJob1<LaplaceOperator> on Lagrange-1 (CSR matrix)
//        kind 1: ForceFunctionalAssemblyJob<ConstantFunction(3)> (dense vector)
//        kind 2: DiscreteFunctionIntegralJob (no scatter, combine) of the FE function u(v) = v + 1
//   -> "J nw reps {n (i j value)*n}*reps"   (vector: j = 0; integral: one entry 0 0 value); values as %.17g
// vertex v has the coordinate x = v + 1; cells must have a < b.
#include <forkcase.hpp>
#include <kernel/geometry/conformal_mesh.hpp>
#include <kernel/trafo/standard/mapping.hpp>
#include <kernel/space/lagrange1/element.hpp>
#include <kernel/cubature/dynamic_factory.hpp>
#include <kernel/assembly/domain_assembler.hpp>
#include <kernel/assembly/symbolic_assembler.hpp>
#include <kernel/assembly/basic_assembly_jobs.hpp>
#include <kernel/assembly/common_operators.hpp>
#include <kernel/assembly/function_integral_jobs.hpp>
#include <kernel/analytic/common.hpp>
#include <kernel/lafem/sparse_matrix_csr.hpp>
#include <kernel/lafem/dense_vector.hpp>
#include <kernel/util/thread.hpp>

#include <chrono>
#include <thread>
#include <cstdio>

using namespace FEAT;

namespace
{
  std::uint64_t fj_seed = 0;
  thread_local std::uint64_t fj_rng = 0;

#ifdef FEAT_VERIF_HOOK_H2
  // seeded schedule perturbation at the fence operations (hook H2)
  void fj_callback(int kind, const void* obj, std::size_t)
  {
    if(kind < 10 || fj_seed == 0) return;
    if(fj_rng == 0) fj_rng = fj_seed * 0x9E3779B97F4A7C15ull + std::uint64_t(reinterpret_cast<std::uintptr_t>(&fj_rng)) + 1u;
    (void)obj;
    fj_rng ^= fj_rng << 13; fj_rng ^= fj_rng >> 7; fj_rng ^= fj_rng << 17;
    unsigned r = unsigned(fj_rng % 16u);
    if(r < 8u) return;
    if(r < 13u) { std::this_thread::yield(); return; }
    std::this_thread::sleep_for(std::chrono::microseconds(1 + (fj_rng >> 8) % 200u));
  }
#endif

  void put(std::ostream& o, Index i, Index j, double v)
  {
    char buf[64];
    std::snprintf(buf, sizeof(buf), "%.17g", v);
    o << " " << i << " " << j << " " << buf;
  }
}

void c17_featjob(const verif::Tokens& t, std::ostream& o)
{
  verif::Cur c(t, 1);
  typedef Geometry::ConformalMesh<Shape::Hypercube<1>, 1, double> MeshType;
  typedef Trafo::Standard::Mapping<MeshType> TrafoType;
  typedef Space::Lagrange1::Element<TrafoType> SpaceType;
  typedef LAFEM::SparseMatrixCSR<double, Index> MatrixType;
  typedef LAFEM::DenseVector<double, Index> VectorType;

  Index strategy = c.idx(), max_w = c.idx(), nvt = c.idx(), nc = c.idx();
  std::vector<std::vector<std::size_t>> cells(nc);
  for(auto& l : cells) l = c.idxlist();
  auto sel = c.idxlist();
  Index kind = c.idx(), reps = c.idx();
  fj_seed = std::uint64_t(c.idx());

  Index ne[2] = {nvt, nc};
  MeshType mesh(ne);
  for(Index i(0); i < nvt; ++i) mesh.get_vertex_set()[i][0] = double(i + 1u);
  for(Index i(0); i < nc; ++i)
    for(int k(0); k < 2; ++k)
      mesh.get_index_set<1, 0>()[i][k] = Index(cells[i].at(std::size_t(k)));
  TrafoType trafo(mesh);
  SpaceType space(trafo);

  Assembly::DomainAssembler<TrafoType> da(trafo);
  da.set_threading_strategy(strategy == 1u ? Assembly::ThreadingStrategy::single : strategy == 2u ? Assembly::ThreadingStrategy::layered :
    strategy == 3u ? Assembly::ThreadingStrategy::layered_sorted : strategy == 4u ? Assembly::ThreadingStrategy::colored : Assembly::ThreadingStrategy::automatic);
  da.set_max_worker_threads(max_w);
  for(auto e : sel) da.add_element(Index(e));
  da.compile();

#ifdef FEAT_VERIF_HOOK_H2
  FEAT::VerifHooks::h2_callback() = &fj_callback;
#endif

  o << "J " << da.get_num_worker_threads() << " " << reps;
  const String cub("gauss-legendre:2");
  for(Index rep(0); rep < reps; ++rep)
  {
    if(kind == 0u)
    {
      MatrixType matrix;
      Assembly::SymbolicAssembler::assemble_matrix_std1(matrix, space);
      matrix.format();
      Assembly::Common::LaplaceOperator op;
      Assembly::BilinearOperatorMatrixAssemblyJob1<Assembly::Common::LaplaceOperator, MatrixType, SpaceType> job(op, matrix, space, cub);
      da.assemble(job);
      o << " " << matrix.used_elements();
      const Index* rp = matrix.row_ptr(); const Index* ci = matrix.col_ind(); const double* v = matrix.val();
      for(Index i(0); i < matrix.rows(); ++i)
        for(Index k(rp[i]); k < rp[i + 1]; ++k)
          put(o, i, ci[k], v[k]);
    }
    else if(kind == 1u)
    {
      VectorType vec(space.get_num_dofs(), 0.0);
      Analytic::Common::ConstantFunction<1, double> f(3.0);
      Assembly::ForceFunctionalAssemblyJob<Analytic::Common::ConstantFunction<1, double>, VectorType, SpaceType> job(f, vec, space, cub);
      da.assemble(job);
      o << " " << vec.size();
      for(Index i(0); i < vec.size(); ++i) put(o, i, 0u, vec(i));
    }
    else
    {
      VectorType u(space.get_num_dofs(), 0.0);
      for(Index i(0); i < u.size(); ++i) u(i, double(i + 1u));
      Assembly::DiscreteFunctionIntegralJob<VectorType, SpaceType, 0> job(u, space, cub);
      da.assemble(job);
      o << " 1";
      put(o, 0u, 0u, job.result().value);
    }
  }
#ifdef FEAT_VERIF_HOOK_H2
  FEAT::VerifHooks::h2_callback() = nullptr;
#endif
}
