// C15 harness core: builds a FEAT ConformalMesh from explicit index sets (arbitrary orientation of every entity),
// instantiates the REAL trafo / space evaluators / DOF mappings / Interpolator at the exact rational Q and prints
// what they return.  Nothing of the code under test is re-implemented here: the only arithmetic done by the harness
// is the linear combination  u_h = sum_i u[dofmap(i)] * phi_i  of values returned by FEAT.
#pragma once
#include <forkcase.hpp>
#include <exact_q.hpp>
#include <kernel/shape.hpp>
#include <kernel/geometry/conformal_mesh.hpp>
#include <kernel/trafo/standard/mapping.hpp>
#include <kernel/space/lagrange1/element.hpp>
#include <kernel/space/lagrange2/element.hpp>
#include <kernel/space/lagrange3/element.hpp>
#include <kernel/space/discontinuous/element.hpp>
#include <kernel/space/cro_rav_ran_tur/element.hpp>
#include <kernel/space/bernstein2/element.hpp>
#include <kernel/space/p2bubble/element.hpp>
#include <kernel/space/hermite3/element.hpp>
#include <kernel/space/bogner_fox_schmit/element.hpp>
#include <kernel/assembly/interpolator.hpp>
#include <kernel/analytic/function.hpp>
#include <kernel/trafo/inverse_mapping.hpp>
#include <kernel/cubature/dynamic_factory.hpp>
#include <cstdio>
#include <cstring>
#include <type_traits>
#include <utility>
#include <kernel/lafem/dense_vector.hpp>
#include <memory>

namespace c15
{
  using namespace FEAT;
  using verif::Cur;

  inline Q rq(Cur& c) { return Q::parse(c.str()); }

  // ---------------------------------------------------------------------------------------------------------
  // mesh input:  <S|H> <dim> <nv> coords(nv*dim)  then for d = 1..dim:  n_d  then for f = 0..d-1: n_d*cnt(d,f) indices
  // ---------------------------------------------------------------------------------------------------------
  struct MeshIn
  {
    char shape; int dim; std::size_t num[4]; std::vector<Q> coords;
    std::vector<std::size_t> idx[4][3];
  };

  inline long binom(int n, int k) { long r = 1; for(int i = 1; i <= k; ++i) r = r * (n - k + i) / i; return r; }
  inline int face_count(char shape, int d, int f)
  {
    return shape == 'S' ? int(binom(d + 1, f + 1)) : int((1 << (d - f)) * binom(d, f));
  }

  inline void read_mesh_header(Cur& c, MeshIn& m)
  {
    m.shape = c.str()[0]; m.dim = int(c.idx());
  }

  inline void read_mesh_body(Cur& c, MeshIn& m)
  {
    m.num[0] = c.idx();
    m.coords.resize(m.num[0] * std::size_t(m.dim));
    for(auto& x : m.coords) x = rq(c);
    for(int d = 1; d <= m.dim; ++d)
    {
      m.num[d] = c.idx();
      for(int f = 0; f < d; ++f)
      {
        std::size_t n = m.num[d] * std::size_t(face_count(m.shape, d, f));
        m.idx[d][f].resize(n);
        for(auto& x : m.idx[d][f]) x = c.idx();
      }
    }
  }

  template<typename Mesh_, int d_, int f_>
  struct FillF
  {
    static void go(Mesh_& mesh, const MeshIn& in)
    {
      auto& is = mesh.template get_index_set<d_, f_>();
      typedef typename Mesh_::template IndexSet<d_, f_>::Type IS;
      constexpr int cnt = IS::num_indices;
      const auto& src = in.idx[d_][f_];
      for(std::size_t i = 0; i < in.num[d_]; ++i)
        for(int j = 0; j < cnt; ++j)
        {
          if(src[i * cnt + j] >= in.num[f_]) { std::cerr << "\n>>> FATAL ERROR: harness: mesh index out of range\n"; std::abort(); }
          is(Index(i), j) = Index(src[i * cnt + j]);
        }
      if constexpr(f_ > 0) FillF<Mesh_, d_, f_ - 1>::go(mesh, in);
    }
  };
  template<typename Mesh_, int d_>
  struct FillD
  {
    static void go(Mesh_& mesh, const MeshIn& in)
    {
      FillF<Mesh_, d_, d_ - 1>::go(mesh, in);
      if constexpr(d_ > 1) FillD<Mesh_, d_ - 1>::go(mesh, in);
    }
  };

  template<typename Shape_>
  struct Ctx
  {
    static constexpr int dim = Shape_::dimension;
    typedef Geometry::ConformalMesh<Shape_, dim, Q> MeshType;
    typedef Trafo::Standard::Mapping<MeshType> TrafoType;
    std::unique_ptr<MeshType> mesh;
    std::unique_ptr<TrafoType> trafo;

    explicit Ctx(const MeshIn& in)
    {
      Index ne[dim + 1];
      for(int i = 0; i <= dim; ++i) ne[i] = Index(in.num[i]);
      mesh.reset(new MeshType(ne));
      auto& vs = mesh->get_vertex_set();
      for(std::size_t i = 0; i < in.num[0]; ++i)
        for(int k = 0; k < dim; ++k)
          vs[Index(i)][k] = in.coords[i * dim + k];
      FillD<MeshType, dim>::go(*mesh, in);
      mesh->fill_neighbors();
      trafo.reset(new TrafoType(*mesh));
    }
  };

  // ---------------------------------------------------------------------------------------------------------
  // polynomial analytic function (exact):  sum_t c_t * prod_k x_k^e_tk
  // ---------------------------------------------------------------------------------------------------------
  template<int dim_>
  class PolyFunction : public Analytic::Function
  {
  public:
    static constexpr int domain_dim = dim_;
    typedef Analytic::Image::Scalar ImageType;
    static constexpr bool can_value = true;
    static constexpr bool can_grad = true;
    static constexpr bool can_hess = true;
    std::vector<Q> coef; std::vector<int> expo; // expo: nterms*dim

    // sum_t c_t * d/dx_a d/dx_b prod_k x_k^e_tk   (a, b = -1: no derivative), exact
    Q deriv(const Q* p, int a, int b) const
    {
      Q s(0);
      for(std::size_t t = 0; t < coef.size(); ++t)
      {
        std::vector<int> e(expo.begin() + long(t) * dim_, expo.begin() + long(t + 1) * dim_);
        Q m = coef[t];
        bool zero = false;
        for(int d : {a, b})
        {
          if(d < 0) continue;
          if(e[std::size_t(d)] == 0) { zero = true; break; }
          m = m * Q(e[std::size_t(d)]);
          --e[std::size_t(d)];
        }
        if(zero) continue;
        for(int k = 0; k < dim_; ++k)
          for(int j = 0; j < e[std::size_t(k)]; ++j) m = m * p[k];
        s = s + m;
      }
      return s;
    }

    template<typename Traits_>
    class Evaluator : public Analytic::Function::Evaluator<Traits_>
    {
    public:
      typedef typename Traits_::PointType PointType;
      typedef typename Traits_::ValueType ValueType;
      typedef typename Traits_::GradientType GradientType;
      typedef typename Traits_::HessianType HessianType;
      const PolyFunction& f;
      explicit Evaluator(const PolyFunction& ff) : f(ff) {}
      ValueType value(const PointType& p) { Q x[dim_]; for(int k = 0; k < dim_; ++k) x[k] = p[k]; return f.deriv(x, -1, -1); }
      GradientType gradient(const PointType& p)
      {
        Q x[dim_]; for(int k = 0; k < dim_; ++k) x[k] = p[k];
        GradientType g; for(int a = 0; a < dim_; ++a) g[a] = f.deriv(x, a, -1); return g;
      }
      HessianType hessian(const PointType& p)
      {
        Q x[dim_]; for(int k = 0; k < dim_; ++k) x[k] = p[k];
        HessianType h; for(int a = 0; a < dim_; ++a) for(int b = 0; b < dim_; ++b) h[a][b] = f.deriv(x, a, b); return h;
      }
    };
  };

  template<int dim_>
  inline void read_poly(Cur& c, PolyFunction<dim_>& f)
  {
    std::size_t n = c.idx();
    for(std::size_t t = 0; t < n; ++t)
    {
      f.coef.push_back(rq(c));
      for(int k = 0; k < dim_; ++k) f.expo.push_back(int(c.idx()));
    }
  }

  // ---------------------------------------------------------------------------------------------------------
  // families
  // ---------------------------------------------------------------------------------------------------------
  template<typename T_> using FamL1 = Space::Lagrange1::Element<T_>;
  template<typename T_> using FamL2 = Space::Lagrange2::Element<T_>;
  template<typename T_> using FamL3 = Space::Lagrange3::Element<T_>;
  template<typename T_> using FamD0 = Space::Discontinuous::Element<T_, Space::Discontinuous::Variant::StdPolyP<0>>;
  template<typename T_> using FamD1 = Space::Discontinuous::Element<T_, Space::Discontinuous::Variant::StdPolyP<1>>;
  template<typename T_> using FamCR = Space::CroRavRanTur::Element<T_>;
  template<typename T_> using FamB2 = Space::Bernstein2::Element<T_>;
  template<typename T_> using FamPB = Space::P2Bubble::Element<T_>;
  template<typename T_> using FamHE = Space::Hermite3::Element<T_>;
  template<typename T_> using FamBF = Space::BognerFoxSchmit::Element<T_>;

  template<typename Shape_> struct IsSimplex { static constexpr bool value = false; };
  template<int n_> struct IsSimplex<Shape::Simplex<n_>> { static constexpr bool value = true; };

  // elements whose node functionals need derivatives of the interpolated function
  template<typename Space_> struct NeedsDeriv { static constexpr bool value = false; };
  template<typename T_> struct NeedsDeriv<FamHE<T_>> { static constexpr bool value = true; };

  template<typename V_> inline void pv(std::ostream& o, const V_& v, int n) { for(int i = 0; i < n; ++i) o << " " << Q(v[i]); }

  // ---------------------------------------------------------------------------------------------------------
  // the operations, for one space type
  // ---------------------------------------------------------------------------------------------------------
  template<typename Shape_, template<typename> class Fam_>
  struct Ops
  {
    static constexpr int dim = Shape_::dimension;
    typedef Ctx<Shape_> CtxType;
    typedef typename CtxType::MeshType MeshType;
    typedef typename CtxType::TrafoType TrafoType;
    typedef Fam_<TrafoType> SpaceType;
    typedef typename TrafoType::template Evaluator<Shape_, Q>::Type TrafoEvaluator;
    typedef typename SpaceType::template Evaluator<TrafoEvaluator>::Type SpaceEvaluator;
    static constexpr SpaceTags caps = SpaceEvaluator::eval_caps;
    static constexpr bool has_hess = *(caps & SpaceTags::hess);
    static constexpr bool has_grad = *(caps & SpaceTags::grad);
    static constexpr bool has_ref = *(caps & SpaceTags::ref_value);
    static constexpr SpaceTags space_tags = SpaceTags::value | (has_grad ? SpaceTags::grad : SpaceTags::none)
      | (has_hess ? SpaceTags::hess : SpaceTags::none);
    typedef typename SpaceEvaluator::template ConfigTraits<space_tags> SpaceCfg;
    typedef typename SpaceCfg::EvalDataType SpaceData;
    static constexpr TrafoTags trafo_tags = SpaceCfg::trafo_config | TrafoTags::img_point | TrafoTags::jac_mat | TrafoTags::jac_det;
    typedef typename TrafoEvaluator::template ConfigTraits<trafo_tags>::EvalDataType TrafoData;
    typedef typename TrafoEvaluator::DomainPointType DomPoint;

    static DomPoint read_point(Cur& c) { DomPoint p; for(int k = 0; k < dim; ++k) p[k] = rq(c); return p; }

    // ev <cell> <pt>   ->  E nloc hasgrad hashess {value grad hess}* T img jac det
    static void ev(CtxType& cx, Cur& c, std::ostream& o)
    {
      SpaceType space(*cx.trafo);
      Index cell = Index(c.idx());
      DomPoint pt = read_point(c);
      TrafoEvaluator te(*cx.trafo); SpaceEvaluator se(space);
      te.prepare(cell); se.prepare(te);
      TrafoData td; SpaceData sd;
      te(td, pt); se(sd, td);
      int nl = se.get_num_local_dofs();
      o << "E " << nl << " " << int(has_grad) << " " << int(has_hess);
      for(int i = 0; i < nl; ++i)
      {
        o << " " << Q(sd.phi[i].value);
        if constexpr(has_grad) pv(o, sd.phi[i].grad, dim);
        if constexpr(has_hess) for(int a = 0; a < dim; ++a) pv(o, sd.phi[i].hess[a], dim);
      }
      o << " T"; pv(o, td.img_point, dim);
      for(int a = 0; a < dim; ++a) pv(o, td.jac_mat[a], dim);
      o << " " << Q(td.jac_det);
      se.finish(); te.finish();
    }

    // ref <cell> <npts> <pts>  ->  R nloc hasgrad hashess { {ref_value ref_grad ref_hess}*nloc }*npts   (parametric evaluators only)
    static void ref(CtxType& cx, Cur& c, std::ostream& o)
    {
      if constexpr(has_ref)
      {
        SpaceType space(*cx.trafo);
        Index cell = Index(c.idx());
        std::size_t np = c.idx();
        TrafoEvaluator te(*cx.trafo); SpaceEvaluator se(space);
        te.prepare(cell); se.prepare(te);
        int nl = se.get_num_local_dofs();
        static constexpr bool rg = *(caps & SpaceTags::ref_grad);
        static constexpr bool rh = *(caps & SpaceTags::ref_hess);
        o << "R " << nl << " " << int(rg) << " " << int(rh);
        for(std::size_t q = 0; q < np; ++q)
        {
          DomPoint pt = read_point(c);
          TrafoData td; SpaceData sd;
          te(td, pt); se(sd, td);
          for(int i = 0; i < nl; ++i)
          {
            o << " " << Q(sd.phi[i].ref_value);
            if constexpr(rg) pv(o, sd.phi[i].ref_grad, dim);
            if constexpr(rh) for(int a = 0; a < dim; ++a) pv(o, sd.phi[i].ref_hess[a], dim);
          }
        }
        se.finish(); te.finish();
      }
      else
        o << "UNSUPPORTED";
    }

    // dofs  ->  D ndofs ncells nloc {global index}*(ncells*nloc)
    static void dofs(CtxType& cx, Cur&, std::ostream& o)
    {
      SpaceType space(*cx.trafo);
      typename SpaceType::DofMappingType dm(space);
      Index nc = cx.mesh->get_num_entities(dim);
      o << "D " << space.get_num_dofs() << " " << nc << " ";
      bool first = true;
      for(Index cell = 0; cell < nc; ++cell)
      {
        dm.prepare(cell);
        if(first) { o << dm.get_num_local_dofs(); first = false; }
        for(int i = 0; i < dm.get_num_local_dofs(); ++i) o << " " << dm.get_index(i);
        dm.finish();
      }
    }

    // interp <poly> <nq> {cell pt}*  ->  I ndofs coeffs.. nq { img value grad hess }*
    static void interp(CtxType& cx, Cur& c, std::ostream& o)
    {
      if constexpr(!SpaceType::have_node_func) { o << "UNSUPPORTED"; return; } else {
      SpaceType space(*cx.trafo);
      PolyFunction<dim> f; read_poly(c, f);
      LAFEM::DenseVector<Q, Index> vec;
      Assembly::Interpolator::project(vec, f, space);
      o << "I " << vec.size();
      for(Index i = 0; i < vec.size(); ++i) o << " " << Q(vec(i));
      std::size_t nq = c.idx();
      o << " " << nq << " " << int(has_grad) << " " << int(has_hess);
      typename SpaceType::DofMappingType dm(space);
      TrafoEvaluator te(*cx.trafo); SpaceEvaluator se(space);
      for(std::size_t q = 0; q < nq; ++q)
      {
        Index cell = Index(c.idx());
        DomPoint pt = read_point(c);
        te.prepare(cell); se.prepare(te); dm.prepare(cell);
        TrafoData td; SpaceData sd;
        te(td, pt); se(sd, td);
        int nl = se.get_num_local_dofs();
        Q val(0); Q g[dim]; Q h[dim][dim];
        for(int a = 0; a < dim; ++a) { g[a] = Q(0); for(int b = 0; b < dim; ++b) h[a][b] = Q(0); }
        for(int i = 0; i < nl; ++i)
        {
          Q u = vec(dm.get_index(i));
          val += u * sd.phi[i].value;
          if constexpr(has_grad) for(int a = 0; a < dim; ++a) g[a] += u * sd.phi[i].grad[a];
          if constexpr(has_hess) for(int a = 0; a < dim; ++a) for(int b = 0; b < dim; ++b) h[a][b] += u * sd.phi[i].hess[a][b];
        }
        pv(o, td.img_point, dim);
        o << " " << val;
        if constexpr(has_grad) for(int a = 0; a < dim; ++a) o << " " << g[a];
        if constexpr(has_hess) for(int a = 0; a < dim; ++a) for(int b = 0; b < dim; ++b) o << " " << h[a][b];
        dm.finish(); se.finish(); te.finish();
      }
      }
    }


    // ---------------------------------------------------------------------------------------------------
    // nfdual <cell>  ->  M nloc { N_i(phi_j) : i = 0..nloc-1 }*nloc  (row j)
    // The REAL node functionals applied to the REAL basis functions: basis function j of the cell (the space evaluator
    // evaluated at arbitrary real points: non-parametric evaluators read the image point only, parametric ones on
    // affine cells get the exact reference point J^-1 (x - T(0))) is interpolated with Assembly::Interpolator (node
    // functionals of every entity + DofAssignment); the coefficients at the cell's DOFs (DofMapping) are N_i(phi_j).
    // ---------------------------------------------------------------------------------------------------
    struct BasisFn : public Analytic::Function
    {
      static constexpr int domain_dim = dim;
      typedef Analytic::Image::Scalar ImageType;
      static constexpr bool can_value = true;
      static constexpr bool can_grad = false;
      static constexpr bool can_hess = false;
      const SpaceEvaluator* se; const TrafoEvaluator* te; int j;
      typedef typename SpaceEvaluator::template ConfigTraits<SpaceTags::value> VCfg;
      typedef typename TrafoEvaluator::template ConfigTraits<VCfg::trafo_config | TrafoTags::img_point | TrafoTags::jac_inv>::EvalDataType VTD;
      VTD lin; // trafo data at the reference origin: img_point = T(0), jac_inv = J(0)^-1

      template<typename Traits_>
      class Evaluator : public Analytic::Function::Evaluator<Traits_>
      {
      public:
        typedef typename Traits_::PointType PointType;
        typedef typename Traits_::ValueType ValueType;
        const BasisFn& f;
        explicit Evaluator(const BasisFn& ff) : f(ff) {}
        ValueType value(const PointType& p)
        {
          VTD td = f.lin;
          for(int a = 0; a < dim; ++a) td.img_point[a] = p[a];
          for(int a = 0; a < dim; ++a)
          {
            Q s(0);
            for(int b = 0; b < dim; ++b) s += f.lin.jac_inv[a][b] * (p[b] - f.lin.img_point[b]);
            td.dom_point[a] = s;
          }
          typename VCfg::EvalDataType sd;
          (*f.se)(sd, td);
          return sd.phi[f.j].value;
        }
      };
    };

    static void nfdual(CtxType& cx, Cur& c, std::ostream& o)
    {
      if constexpr(!SpaceType::have_node_func || NeedsDeriv<SpaceType>::value) { o << "UNSUPPORTED"; return; } else {
      SpaceType space(*cx.trafo);
      Index cell = Index(c.idx());
      TrafoEvaluator te(*cx.trafo); SpaceEvaluator se(space);
      te.prepare(cell); se.prepare(te);
      BasisFn fn; fn.se = &se; fn.te = &te;
      DomPoint zero; for(int k = 0; k < dim; ++k) zero[k] = Q(0);
      te(fn.lin, zero);
      typename SpaceType::DofMappingType dm(space);
      dm.prepare(cell);
      int nl = se.get_num_local_dofs();
      o << "M " << nl;
      for(int j = 0; j < nl; ++j)
      {
        fn.j = j;
        LAFEM::DenseVector<Q, Index> vec;
        Assembly::Interpolator::project(vec, fn, space);
        for(int i = 0; i < nl; ++i) o << " " << Q(vec(dm.get_index(i)));
      }
      dm.finish(); se.finish(); te.finish();
      }
    }

    // evpts <cell> <npts> <pts>  ->  P nloc hasgrad hashess { {value grad hess}*nloc }*npts : all local basis functions
    // in real coordinates at several reference points of one cell (used at the cell's vertices: the oracle applies the
    // definition of the derivative node functionals to these numbers)
    static void evpts(CtxType& cx, Cur& c, std::ostream& o)
    {
      SpaceType space(*cx.trafo);
      Index cell = Index(c.idx());
      std::size_t np = c.idx();
      TrafoEvaluator te(*cx.trafo); SpaceEvaluator se(space);
      te.prepare(cell); se.prepare(te);
      int nl = se.get_num_local_dofs();
      o << "P " << nl << " " << int(has_grad) << " " << int(has_hess);
      for(std::size_t q = 0; q < np; ++q)
      {
        DomPoint pt = read_point(c);
        TrafoData td; SpaceData sd;
        te(td, pt); se(sd, td);
        for(int i = 0; i < nl; ++i)
        {
          o << " " << Q(sd.phi[i].value);
          if constexpr(has_grad) pv(o, sd.phi[i].grad, dim);
          if constexpr(has_hess) for(int a = 0; a < dim; ++a) pv(o, sd.phi[i].hess[a], dim);
        }
      }
      se.finish(); te.finish();
    }

    // ---------------------------------------------------------------------------------------------------
    // evcfg <cell> <pt> <mask> <poison>: evaluate with exactly the requested SpaceTags mask (FEAT bit values:
    // value 1, grad 2, hess 4, ref_value 8, ref_grad 16, ref_hess 32) as its own template instantiation.  The
    // trafo data is requested with exactly SpaceEvaluator::ConfigTraits<mask>::trafo_config (nothing extra), both
    // evaluation-data objects are pre-filled with the poison byte so that a quantity that is read but was never
    // written shows up deterministically (0xFF: an invalid Q handle -> crash; 0x00: the value 0).
    //   ->  C nloc mask { requested quantities of basis function i in the order value grad hess ref_value ref_grad ref_hess }*
    //       F fullmask { the same for the full mask (all capabilities) }*
    // ---------------------------------------------------------------------------------------------------
    template<int mask_>
    static void evcfg_one(CtxType& cx, Index cell, const DomPoint& pt, int poison, std::ostream& o)
    {
      static constexpr SpaceTags req = static_cast<SpaceTags>(mask_);
      if constexpr((static_cast<int>(caps) & mask_) != mask_) { o << "UNSUPPORTED-MASK"; }
      else
      {
        SpaceType space(*cx.trafo);
        typedef typename SpaceEvaluator::template ConfigTraits<req> Cfg;
        typedef typename Cfg::EvalDataType SD;
        typedef typename TrafoEvaluator::template ConfigTraits<Cfg::trafo_config>::EvalDataType TD;
        TrafoEvaluator te(*cx.trafo); SpaceEvaluator se(space);
        te.prepare(cell); se.prepare(te);
        TD td; SD sd;
        std::memset(static_cast<void*>(&td), poison, sizeof(td));
        std::memset(static_cast<void*>(&sd), poison, sizeof(sd));
        te(td, pt); se(sd, td);
        int nl = se.get_num_local_dofs();
        o << "C " << nl << " " << mask_;
        for(int i = 0; i < nl; ++i)
        {
          if constexpr((mask_ & 1) != 0) o << " " << Q(sd.phi[i].value);
          if constexpr((mask_ & 2) != 0) pv(o, sd.phi[i].grad, dim);
          if constexpr((mask_ & 4) != 0) for(int a = 0; a < dim; ++a) pv(o, sd.phi[i].hess[a], dim);
          if constexpr((mask_ & 8) != 0) o << " " << Q(sd.phi[i].ref_value);
          if constexpr((mask_ & 16) != 0) pv(o, sd.phi[i].ref_grad, dim);
          if constexpr((mask_ & 32) != 0) for(int a = 0; a < dim; ++a) pv(o, sd.phi[i].ref_hess[a], dim);
        }
        // the same quantities from the full-mask evaluation (fresh, equally poisoned objects): "F" section
        {
          static constexpr int fullm = static_cast<int>(caps) & 0x3F;
          typedef typename SpaceEvaluator::template ConfigTraits<static_cast<SpaceTags>(fullm)> FCfg;
          typedef typename FCfg::EvalDataType FSD;
          typedef typename TrafoEvaluator::template ConfigTraits<FCfg::trafo_config>::EvalDataType FTD;
          FTD ftd; FSD fsd;
          std::memset(static_cast<void*>(&ftd), poison, sizeof(ftd));
          std::memset(static_cast<void*>(&fsd), poison, sizeof(fsd));
          te(ftd, pt); se(fsd, ftd);
          o << " F " << fullm;
          for(int i = 0; i < nl; ++i)
          {
            if constexpr((fullm & 1) != 0) o << " " << Q(fsd.phi[i].value);
            if constexpr((fullm & 2) != 0) pv(o, fsd.phi[i].grad, dim);
            if constexpr((fullm & 4) != 0) for(int a = 0; a < dim; ++a) pv(o, fsd.phi[i].hess[a], dim);
            if constexpr((fullm & 8) != 0) o << " " << Q(fsd.phi[i].ref_value);
            if constexpr((fullm & 16) != 0) pv(o, fsd.phi[i].ref_grad, dim);
            if constexpr((fullm & 32) != 0) for(int a = 0; a < dim; ++a) pv(o, fsd.phi[i].ref_hess[a], dim);
          }
        }
        se.finish(); te.finish();
      }
    }

    static void evcfg(CtxType& cx, Cur& c, std::ostream& o)
    {
      Index cell = Index(c.idx());
      DomPoint pt = read_point(c);
      int mask = int(c.idx());
      int poison = int(c.idx());
      switch(mask)
      {
#define C15_M(m) case m: evcfg_one<m>(cx, cell, pt, poison, o); break;
      C15_M(1) C15_M(2) C15_M(3) C15_M(4) C15_M(5) C15_M(6) C15_M(7)
      C15_M(8) C15_M(16) C15_M(24) C15_M(32) C15_M(40) C15_M(48) C15_M(56)
      C15_M(17) C15_M(12) C15_M(34) C15_M(63)
#undef C15_M
      default: o << "UNSUPPORTED-MASK";
      }
    }

    // caps  ->  K advertised deliverable : eval_caps of the evaluator and what it implements (detected: the reference
    // evaluation functions it defines; for non-parametric evaluators the advertised caps are taken as delivered)
    template<typename E_, typename = void> struct HasRV : std::false_type {};
    template<typename E_> struct HasRV<E_, std::void_t<decltype(std::declval<const E_&>().eval_ref_values(std::declval<SpaceData&>(), std::declval<const DomPoint&>()))>> : std::true_type {};
    template<typename E_, typename = void> struct HasRG : std::false_type {};
    template<typename E_> struct HasRG<E_, std::void_t<decltype(std::declval<const E_&>().eval_ref_gradients(std::declval<SpaceData&>(), std::declval<const DomPoint&>()))>> : std::true_type {};
    template<typename E_, typename = void> struct HasRH : std::false_type {};
    template<typename E_> struct HasRH<E_, std::void_t<decltype(std::declval<const E_&>().eval_ref_hessians(std::declval<SpaceData&>(), std::declval<const DomPoint&>()))>> : std::true_type {};

    static void capsop(CtxType&, Cur&, std::ostream& o)
    {
      int adv = static_cast<int>(SpaceEvaluator::eval_caps) & 0x3F;
      int del = adv;
      constexpr bool rv = HasRV<SpaceEvaluator>::value, rg = HasRG<SpaceEvaluator>::value, rh = HasRH<SpaceEvaluator>::value;
      constexpr int tc = static_cast<int>(TrafoEvaluator::eval_caps);
      if(rv) del |= 8 | ((tc & 1) ? 1 : 0);
      if(rg) del |= 16 | (((tc & 1) && (tc & 8)) ? 2 : 0);
      if(rh) del |= 32 | (((tc & 1) && (tc & 8) && (tc & 64)) ? 4 : 0);
      o << "K " << adv << " " << del << " " << (tc & 0x7F);
    }

    static void run(const std::string& op, CtxType& cx, Cur& c, std::ostream& o)
    {
      if(op == "ev") ev(cx, c, o);
      else if(op == "evcfg") evcfg(cx, c, o);
      else if(op == "evpts") evpts(cx, c, o);
      else if(op == "nfdual") nfdual(cx, c, o);
      else if(op == "caps") capsop(cx, c, o);
      else if(op == "ref") ref(cx, c, o);
      else if(op == "dofs") dofs(cx, c, o);
      else if(op == "interp") interp(cx, c, o);
      else o << "BAD-OP";
    }
  };

  // trafo-only op:  vol  ->  V ncells {volume}*
  template<typename Shape_>
  inline void op_vol(Ctx<Shape_>& cx, Cur&, std::ostream& o)
  {
    constexpr int dim = Shape_::dimension;
    typedef typename Ctx<Shape_>::TrafoType TrafoType;
    typename TrafoType::template Evaluator<Shape_, Q>::Type te(*cx.trafo);
    Index nc = cx.mesh->get_num_entities(dim);
    o << "V " << nc;
    for(Index cell = 0; cell < nc; ++cell) { te.prepare(cell); o << " " << Q(te.volume()); te.finish(); }
  }

  // unmap <cell> <pt>  (double precision: InverseMapping cannot be constructed at Q, its tolerance is eps^0.9)
  //   ->  U <n> { cell dom_point }*n   : all cells InverseMapping::unmap_point finds for img = map_point(cell, pt)
  template<typename Shape_>
  inline void op_unmap(const MeshIn& in, Cur& c, std::ostream& o)
  {
    constexpr int dim = Shape_::dimension;
    typedef Geometry::ConformalMesh<Shape_, dim, double> MeshD;
    typedef Trafo::Standard::Mapping<MeshD> TrafoD;
    Index ne[dim + 1];
    for(int i = 0; i <= dim; ++i) ne[i] = Index(in.num[i]);
    MeshD mesh(ne);
    auto& vs = mesh.get_vertex_set();
    for(std::size_t i = 0; i < in.num[0]; ++i)
      for(int k = 0; k < dim; ++k)
        vs[Index(i)][k] = double(in.coords[i * dim + k]);
    FillD<MeshD, dim>::go(mesh, in);
    mesh.fill_neighbors();
    TrafoD trafo(mesh);
    Index cell = Index(c.idx());
    typedef typename TrafoD::template Evaluator<Shape_, double>::Type TE;
    typename TE::DomainPointType pt;
    for(int k = 0; k < dim; ++k) pt[k] = double(rq(c));
    TE te(trafo);
    te.prepare(cell);
    typename TE::ImagePointType img;
    te.map_point(img, pt);
    te.finish();
    Trafo::InverseMapping<TrafoD, double> inv(trafo);
    auto data = inv.unmap_point(img, true);
    o << "U " << data.size();
    char buf[64];
    for(std::size_t k = 0; k < data.size(); ++k)
    {
      o << " " << data.cells[k];
      for(int a = 0; a < dim; ++a) { std::snprintf(buf, sizeof(buf), "%.17g", data.dom_points[k][a]); o << " " << buf; }
    }
  }

  // trcfg <cell> <pt> <mask> <poison>: the trafo evaluator with exactly the requested TrafoTags mask (FEAT bits: img_point 2,
  // jac_mat 4, jac_inv 8, jac_det 16, hess_ten 32, hess_inv 64), poison-prefilled evaluation data
  //   ->  G mask {img}{jac_mat}{jac_inv}{jac_det}{hess_ten}{hess_inv}   (requested ones only, row major)
  template<typename Shape_, int mask_>
  struct TrCfg
  {
    static void go(Ctx<Shape_>& cx, Index cell, int mask, int poison, const std::vector<Q>& p, std::ostream& o)
    {
      if(mask != mask_) { if constexpr(mask_ + 2 <= 126) TrCfg<Shape_, mask_ + 2>::go(cx, cell, mask, poison, p, o); else o << "UNSUPPORTED-MASK"; return; }
      constexpr int dim = Shape_::dimension;
      typedef typename Ctx<Shape_>::TrafoType TrafoType;
      typedef typename TrafoType::template Evaluator<Shape_, Q>::Type TE;
      static constexpr TrafoTags req = static_cast<TrafoTags>(mask_);
      typedef typename TE::template ConfigTraits<req>::EvalDataType TD;
      TE te(*cx.trafo);
      te.prepare(cell);
      typename TE::DomainPointType pt;
      for(int k = 0; k < dim; ++k) pt[k] = p[std::size_t(k)];
      TD td;
      std::memset(static_cast<void*>(&td), poison, sizeof(td));
      te(td, pt);
      o << "G " << mask_;
      if constexpr((mask_ & 2) != 0) pv(o, td.img_point, dim);
      if constexpr((mask_ & 4) != 0) for(int a = 0; a < dim; ++a) pv(o, td.jac_mat[a], dim);
      if constexpr((mask_ & 8) != 0) for(int a = 0; a < dim; ++a) pv(o, td.jac_inv[a], dim);
      if constexpr((mask_ & 16) != 0) o << " " << Q(td.jac_det);
      if constexpr((mask_ & 32) != 0) for(int a = 0; a < dim; ++a) for(int b = 0; b < dim; ++b) for(int e = 0; e < dim; ++e) o << " " << Q(td.hess_ten(a, b, e));
      if constexpr((mask_ & 64) != 0) for(int a = 0; a < dim; ++a) for(int b = 0; b < dim; ++b) for(int e = 0; e < dim; ++e) o << " " << Q(td.hess_inv(a, b, e));
      te.finish();
    }
  };

  template<typename Shape_>
  inline void op_trcfg(Ctx<Shape_>& cx, Cur& c, std::ostream& o)
  {
    constexpr int dim = Shape_::dimension;
    Index cell = Index(c.idx());
    std::vector<Q> p;
    for(int k = 0; k < dim; ++k) p.push_back(rq(c));
    int mask = int(c.idx());
    int poison = int(c.idx());
    if(mask < 2 || mask > 126 || (mask & 1)) { o << "UNSUPPORTED-MASK"; return; }
    TrCfg<Shape_, 2>::go(cx, cell, mask, poison, p, o);
  }

  // volq  ->  W ncells { sum_q w_q * jac_det(x_q) }* : the Jacobian determinant integrated over the reference cell with a real
  // FEAT cubature rule of sufficient degree whose points are rational (hypercubes: tensor Simpson rule, exact for
  // coordinate degree 3 >= degree of det J; simplices: barycentre rule, det J is constant) and the real trafo evaluator
  template<typename Shape_>
  inline void op_volq(Ctx<Shape_>& cx, Cur&, std::ostream& o)
  {
    constexpr int dim = Shape_::dimension;
    typedef typename Ctx<Shape_>::TrafoType TrafoType;
    typedef typename TrafoType::template Evaluator<Shape_, Q>::Type TE;
    typedef typename TE::template ConfigTraits<TrafoTags::jac_det>::EvalDataType TD;
    Cubature::Rule<Shape_, Q, Q, Tiny::Vector<Q, dim>> rule;
    if(!Cubature::DynamicFactory::create(rule, String(IsSimplex<Shape_>::value ? "barycentre" : "simpson")))
    { o << "NO-RULE"; return; }
    TE te(*cx.trafo);
    Index nc = cx.mesh->get_num_entities(dim);
    o << "W " << nc;
    for(Index cell = 0; cell < nc; ++cell)
    {
      te.prepare(cell);
      Q s(0);
      for(int q = 0; q < rule.get_num_points(); ++q)
      {
        TD td;
        te(td, rule.get_point(q));
        s += rule.get_weight(q) * td.jac_det;
      }
      o << " " << s;
      te.finish();
    }
  }

  // newton <cell> <pt>  (double precision)  ->  N <converged> <dom_point> : InverseMapping::unmap_point_by_newton applied to
  // img = map_point(cell, pt): the Newton iteration of the inverse mapping on one given cell
  template<typename Shape_>
  inline void op_newton(const MeshIn& in, Cur& c, std::ostream& o)
  {
    constexpr int dim = Shape_::dimension;
    typedef Geometry::ConformalMesh<Shape_, dim, double> MeshD;
    typedef Trafo::Standard::Mapping<MeshD> TrafoD;
    Index ne[dim + 1];
    for(int i = 0; i <= dim; ++i) ne[i] = Index(in.num[i]);
    MeshD mesh(ne);
    auto& vs = mesh.get_vertex_set();
    for(std::size_t i = 0; i < in.num[0]; ++i)
      for(int k = 0; k < dim; ++k)
        vs[Index(i)][k] = double(in.coords[i * dim + k]);
    FillD<MeshD, dim>::go(mesh, in);
    mesh.fill_neighbors();
    TrafoD trafo(mesh);
    Index cell = Index(c.idx());
    typedef typename TrafoD::template Evaluator<Shape_, double>::Type TE;
    typename TE::DomainPointType pt;
    for(int k = 0; k < dim; ++k) pt[k] = double(rq(c));
    TE te(trafo);
    te.prepare(cell);
    typename TE::ImagePointType img;
    te.map_point(img, pt);
    te.finish();
    Trafo::InverseMapping<TrafoD, double> inv(trafo);
    typename Trafo::InverseMapping<TrafoD, double>::DomainPointType dp;
    bool conv = inv.unmap_point_by_newton(dp, img, cell);
    o << "N " << int(conv);
    char buf[64];
    for(int a = 0; a < dim; ++a) { std::snprintf(buf, sizeof(buf), "%.17g", dp[a]); o << " " << buf; }
  }

  // per-shape entry points (defined in shape_*.cpp so that the shapes compile in parallel)
  void run_s2(const std::string& op, const std::string& fam, const MeshIn& in, Cur& c, std::ostream& o);
  void run_s3(const std::string& op, const std::string& fam, const MeshIn& in, Cur& c, std::ostream& o);
  void run_h1(const std::string& op, const std::string& fam, const MeshIn& in, Cur& c, std::ostream& o);
  void run_h2(const std::string& op, const std::string& fam, const MeshIn& in, Cur& c, std::ostream& o);
  void run_h3(const std::string& op, const std::string& fam, const MeshIn& in, Cur& c, std::ostream& o);
}
