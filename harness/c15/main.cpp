// C15 harness: executes the real FEAT trafo / space evaluators / DOF mappings / Interpolator at the exact
// rational type Q, one case per line (see FeatModel/Driver/C15.lean for the line protocol).
//   <op> <fam> <S|H> <dim> <mesh body> <op arguments>
//   ops: ev, evpts, evcfg (every config mask), caps, ref, dofs, interp, vol, trcfg (trafo config masks), unmap (double precision)      fams: L1 L2 L3 D0 D1 CR B2 PB HE (Hermite-3) BF (Bogner-Fox-Schmit) (vol, unmap: fam is "-")
#include "c15_ops.hpp"

using namespace c15;

static void handle(const verif::Tokens& t, std::ostream& o)
{
  verif::Cur c(t);
  std::string op = c.str();
  std::string fam = c.str();
  MeshIn in;
  read_mesh_header(c, in);
  if(!((in.shape == 'S' && (in.dim == 2 || in.dim == 3)) || (in.shape == 'H' && in.dim >= 1 && in.dim <= 3)))
  { o << "UNSUPPORTED"; return; }
  read_mesh_body(c, in);
  if(in.shape == 'S' && in.dim == 2) run_s2(op, fam, in, c, o);
  else if(in.shape == 'S' && in.dim == 3) run_s3(op, fam, in, c, o);
  else if(in.shape == 'H' && in.dim == 1) run_h1(op, fam, in, c, o);
  else if(in.shape == 'H' && in.dim == 2) run_h2(op, fam, in, c, o);
  else run_h3(op, fam, in, c, o);
}

int main(int argc, char** argv)
{
  return verif::run_cases(argc, argv, handle);
}
