// C15 harness, shape Shape::Hypercube<3> (one translation unit per shape so that the shapes compile in parallel)
#include "c15_ops.hpp"
namespace c15 {
void run_h3(const std::string& op, const std::string& fam, const MeshIn& in, Cur& c, std::ostream& o)
{
  typedef Shape::Hypercube<3> ShapeT;
  Ctx<ShapeT> cx(in);
  if(op == "vol") { op_vol<ShapeT>(cx, c, o); return; }
  if(op == "unmap") { op_unmap<ShapeT>(in, c, o); return; }
  if(op == "newton") { op_newton<ShapeT>(in, c, o); return; }
  if(op == "volq") { op_volq<ShapeT>(cx, c, o); return; }
  if(op == "trcfg") { op_trcfg<ShapeT>(cx, c, o); return; }
  if(fam == "L1") { Ops<ShapeT, FamL1>::run(op, cx, c, o); return; }
  if(fam == "L2") { Ops<ShapeT, FamL2>::run(op, cx, c, o); return; }
  if(fam == "L3") { Ops<ShapeT, FamL3>::run(op, cx, c, o); return; }
  if(fam == "D0") { Ops<ShapeT, FamD0>::run(op, cx, c, o); return; }
  if(fam == "B2") { Ops<ShapeT, FamB2>::run(op, cx, c, o); return; }
  if(fam == "CR") { Ops<ShapeT, FamCR>::run(op, cx, c, o); return; }
  if(fam == "D1") { Ops<ShapeT, FamD1>::run(op, cx, c, o); return; }
  o << "UNSUPPORTED";
}
}
