// C04 harness: executes the real kernel/lafem vector operations at the exact rational type Q, one case per line
// (protocol: see FeatModel/Driver/C04.lean).
//
//   <op> <pattern> <cl> <ns s1..sns> <shape> <nl n1..nnl> <data of class a> <data of class b> ...
//
// pattern : one letter per operand (operand 0 is `this`); equal letters = the same vector
// cl      : 0 = aliased operands are the very same object, 1 = aliased operands are shallow clones (same arrays)
// shape   : prefix notation  D | B b | T k s1..sk | P k s
// nl..    : native size of every leaf in flattening order
// output  : R <nres res..> <nclasses> <len data..>...      (final flattened state of every distinct operand)
#include <exact_q.hpp>
#include <forkcase.hpp>
#include <kernel/lafem/dense_vector.hpp>
#include <kernel/lafem/dense_vector_blocked.hpp>
#include <kernel/lafem/sparse_vector.hpp>
#include <kernel/lafem/sparse_vector_blocked.hpp>
#include <kernel/lafem/tuple_vector.hpp>
#include <kernel/lafem/power_vector.hpp>
#include <map>
#include <memory>

using namespace FEAT;
using namespace FEAT::LAFEM;
using verif::Cur;

typedef DenseVector<Q, Index> DV;
template<int b_> using DB = DenseVectorBlocked<Q, Index, b_>;

struct Src
{
  const std::vector<std::size_t>& sz; std::size_t si;
  const std::vector<Q>& d; std::size_t di;
  std::size_t size() { return sz.at(si++); }
  Q val() { return d.at(di++); }
};

static std::vector<Q> read_qlist(Cur& c)
{
  std::size_t n = c.idx(); std::vector<Q> v; v.reserve(n);
  for(std::size_t i = 0; i < n; ++i) v.push_back(Q::parse(c.str()));
  return v;
}
static void show_qlist(std::ostream& o, const std::vector<Q>& v)
{
  o << v.size();
  for(auto& x : v) o << " " << x.str();
}

// ---- shape descriptors: name (token string), construction from flat data, flattening ----------------
template<typename T_> struct Sh;

template<> struct Sh<DV>
{
  static std::string name() { return "D"; }
  static DV make(Src& s)
  {
    Index n = Index(s.size());
    DV v(n);
    Q* p = v.elements();
    for(Index i = 0; i < n; ++i) p[i] = s.val();
    return v;
  }
  static void flat(const DV& v, std::vector<Q>& out)
  {
    const Q* p = v.elements();
    for(Index i = 0; i < v.size(); ++i) out.push_back(p[i]);
  }
};

template<int b_> struct Sh<DB<b_>>
{
  static std::string name() { return "B " + std::to_string(b_); }
  static DB<b_> make(Src& s)
  {
    Index n = Index(s.size());
    DB<b_> v(n);
    Q* p = v.template elements<Perspective::pod>();
    for(Index i = 0; i < n * Index(b_); ++i) p[i] = s.val();
    return v;
  }
  static void flat(const DB<b_>& v, std::vector<Q>& out)
  {
    const Q* p = v.template elements<Perspective::pod>();
    for(Index i = 0; i < v.template size<Perspective::pod>(); ++i) out.push_back(p[i]);
  }
};

// tuple tails: the token string of the members (without the "T k" header)
template<typename First_, typename... Rest_> struct TupTail
{
  static std::string names() { return Sh<First_>::name() + " " + TupTail<Rest_...>::names(); }
  static TupleVector<First_, Rest_...> make(Src& s)
  {
    First_ f = Sh<First_>::make(s);
    TupleVector<Rest_...> r = TupTail<Rest_...>::make(s);
    return TupleVector<First_, Rest_...>(std::move(f), std::move(r));
  }
  static void flat(const TupleVector<First_, Rest_...>& v, std::vector<Q>& out)
  {
    Sh<First_>::flat(v.first(), out);
    TupTail<Rest_...>::flat(v.rest(), out);
  }
};
template<typename First_> struct TupTail<First_>
{
  static std::string names() { return Sh<First_>::name(); }
  static TupleVector<First_> make(Src& s)
  {
    First_ f = Sh<First_>::make(s);
    return TupleVector<First_>(std::move(f));
  }
  static void flat(const TupleVector<First_>& v, std::vector<Q>& out) { Sh<First_>::flat(v.first(), out); }
};
template<typename First_, typename... Rest_> struct Sh<TupleVector<First_, Rest_...>>
{
  static std::string name() { return "T " + std::to_string(1 + sizeof...(Rest_)) + " " + TupTail<First_, Rest_...>::names(); }
  static TupleVector<First_, Rest_...> make(Src& s) { return TupTail<First_, Rest_...>::make(s); }
  static void flat(const TupleVector<First_, Rest_...>& v, std::vector<Q>& out) { TupTail<First_, Rest_...>::flat(v, out); }
};

template<typename Sub_, int n_> struct PowTail
{
  static PowerVector<Sub_, n_> make(Src& s)
  {
    Sub_ f = Sh<Sub_>::make(s);
    PowerVector<Sub_, n_ - 1> r = PowTail<Sub_, n_ - 1>::make(s);
    return PowerVector<Sub_, n_>(std::move(f), std::move(r));
  }
  static void flat(const PowerVector<Sub_, n_>& v, std::vector<Q>& out)
  {
    Sh<Sub_>::flat(v.first(), out);
    PowTail<Sub_, n_ - 1>::flat(v.rest(), out);
  }
};
template<typename Sub_> struct PowTail<Sub_, 1>
{
  static PowerVector<Sub_, 1> make(Src& s)
  {
    Sub_ f = Sh<Sub_>::make(s);
    return PowerVector<Sub_, 1>(std::move(f));
  }
  static void flat(const PowerVector<Sub_, 1>& v, std::vector<Q>& out) { Sh<Sub_>::flat(v.first(), out); }
};
template<typename Sub_, int n_> struct Sh<PowerVector<Sub_, n_>>
{
  static std::string name() { return "P " + std::to_string(n_) + " " + Sh<Sub_>::name(); }
  static PowerVector<Sub_, n_> make(Src& s) { return PowTail<Sub_, n_>::make(s); }
  static void flat(const PowerVector<Sub_, n_>& v, std::vector<Q>& out) { PowTail<Sub_, n_>::flat(v, out); }
};

template<typename T_> struct BlockOf { static constexpr int value = 0; };
template<int b_> struct BlockOf<DB<b_>> { static constexpr int value = b_; };

// ---- one case ---------------------------------------------------------------------------------------
struct Case
{
  std::string op, pattern;
  int cl;
  std::vector<Q> scal;
  std::vector<std::size_t> sizes;
};

template<int b_>
static Tiny::Vector<Q, b_> tiny_of(const std::vector<Q>& s)
{
  Tiny::Vector<Q, b_> t;
  for(int j = 0; j < b_; ++j) t[j] = s.at(std::size_t(j));
  return t;
}
template<int b_>
static std::vector<Q> list_of(const Tiny::Vector<Q, b_>& t)
{
  std::vector<Q> r;
  for(int j = 0; j < b_; ++j) r.push_back(t[j]);
  return r;
}

template<typename T_>
static void run(const Case& k, Cur& c, std::ostream& o)
{
  const std::size_t nop = k.pattern.size();
  // distinct classes in order of first appearance
  std::string classes;
  for(char ch : k.pattern) if(classes.find(ch) == std::string::npos) classes.push_back(ch);

  constexpr int bs = BlockOf<T_>::value;
  // ops whose second operand class is a plain (flat) DenseVector
  const bool ccopy = (k.op == "ccopy" || k.op == "ccopyto" || k.op == "flatcopy" || k.op == "flatcopyinv" || k.op == "flatrtinv");

  std::vector<std::unique_ptr<T_>> objs;
  std::unique_ptr<DV> dvx;     // second operand of component_copy(_to)
  for(std::size_t ci = 0; ci < classes.size(); ++ci)
  {
    std::vector<Q> data = read_qlist(c);
    if(ccopy && ci == 1)
    {
      std::vector<std::size_t> one(1, data.size());
      Src s{one, 0, data, 0};
      dvx.reset(new DV(Sh<DV>::make(s)));
      continue;
    }
    Src s{k.sizes, 0, data, 0};
    objs.emplace_back(new T_(Sh<T_>::make(s)));
  }

  // operands
  std::vector<std::unique_ptr<T_>> clones;
  std::vector<T_*> opnd(nop, nullptr);
  std::string seen;
  for(std::size_t i = 0; i < nop; ++i)
  {
    std::size_t ci = classes.find(k.pattern[i]);
    if(ccopy && ci == 1) continue;
    if(ccopy && ci > 1) ci -= 1;
    bool first = seen.find(k.pattern[i]) == std::string::npos;
    seen.push_back(k.pattern[i]);
    if(first || k.cl == 0)
      opnd[i] = objs.at(ci).get();
    else
    {
      clones.emplace_back(new T_(objs.at(ci)->clone(CloneMode::Shallow)));
      opnd[i] = clones.back().get();
    }
  }

  std::vector<Q> res;
  const Q a = k.scal.empty() ? Q(0) : k.scal[0];
  const std::string& op = k.op;
  bool known = true;
  if(op == "axpy") opnd.at(0)->axpy(*opnd.at(1), a);
  else if(op == "scale") opnd.at(0)->scale(*opnd.at(1), a);
  else if(op == "cinv") opnd.at(0)->component_invert(*opnd.at(1), a);
  else if(op == "cprod") opnd.at(0)->component_product(*opnd.at(1), *opnd.at(2));
  else if(op == "copy") opnd.at(0)->copy(*opnd.at(1), !(a == Q(0)));
  else if(op == "format") opnd.at(0)->format(a);
  else if(op == "dot") res.push_back(opnd.at(0)->dot(*opnd.at(1)));
  else if(op == "tdot") res.push_back(opnd.at(0)->triple_dot(*opnd.at(1), *opnd.at(2)));
  else if(op == "norm2") res.push_back(opnd.at(0)->norm2());
  else if(op == "norm2sqr") res.push_back(opnd.at(0)->norm2sqr());
  else if(op == "maxabs") res.push_back(opnd.at(0)->max_abs_element());
  else if(op == "minabs") res.push_back(opnd.at(0)->min_abs_element());
  else if(op == "max") res.push_back(opnd.at(0)->max_element());
  else if(op == "min") res.push_back(opnd.at(0)->min_element());
  // flat <-> composed copies (DenseVector::copy(VT_) / copy_inv(VT_) / convert(VT_) = set_vec / set_vec_inv)
  else if(op == "flatcopy") dvx->copy(*opnd.at(0));            // flat <- composed
  else if(op == "flatcopyinv") dvx->copy_inv(*opnd.at(0));     // composed <- flat
  else if(op == "flatconvert")
  {
    DV f;
    f.convert(*opnd.at(0));
    Sh<DV>::flat(f, res);
  }
  else if(op == "flatrt")                                      // a -> flat -> b : b becomes a
  {
    DV f(opnd.at(0)->template size<Perspective::pod>(), Q(0));
    f.copy(*opnd.at(0));
    f.copy_inv(*opnd.at(1));
    Sh<DV>::flat(f, res);
  }
  else if(op == "flatrtinv")                                   // flat -> a -> flat2 : flat2 equals flat
  {
    dvx->copy_inv(*opnd.at(0));
    DV g(opnd.at(0)->template size<Perspective::pod>(), Q(0));
    g.copy(*opnd.at(0));
    Sh<DV>::flat(g, res);
  }
  else if constexpr(bs > 0)
  {
    if(op == "axpyb") opnd.at(0)->axpy_blocked(*opnd.at(1), tiny_of<bs>(k.scal));
    else if(op == "scaleb") opnd.at(0)->scale_blocked(*opnd.at(1), tiny_of<bs>(k.scal));
    else if(op == "dotb") res = list_of<bs>(opnd.at(0)->dot_blocked(*opnd.at(1)));
    else if(op == "tdotb") res = list_of<bs>(opnd.at(0)->triple_dot_blocked(*opnd.at(1), *opnd.at(2)));
    else if(op == "norm2b") res = list_of<bs>(opnd.at(0)->norm2_blocked());
    else if(op == "norm2sqrb") res = list_of<bs>(opnd.at(0)->norm2sqr_blocked());
    else if(op == "maxabsb") res = list_of<bs>(opnd.at(0)->max_abs_element_blocked());
    else if(op == "minabsb") res = list_of<bs>(opnd.at(0)->min_abs_element_blocked());
    else if(op == "maxb") res = list_of<bs>(opnd.at(0)->max_element_blocked());
    else if(op == "minb") res = list_of<bs>(opnd.at(0)->min_element_blocked());
    else if(op == "denseblocked")                               // blocked -> dense -> blocked (array re-interpretation)
    {
      DV d;
      d.convert(*opnd.at(0));
      T_ v;
      v.convert(d);
      DV d2(*opnd.at(0));
      T_ v2(d2);
      Sh<DV>::flat(d, res); Sh<T_>::flat(v, res); Sh<DV>::flat(d2, res); Sh<T_>::flat(v2, res);
      res.push_back(Q((unsigned long)d.size())); res.push_back(Q((unsigned long)v.size()));
    }
    else if(op == "ccopy") opnd.at(0)->component_copy(*dvx, int(double(a)));
    else if(op == "ccopyto") opnd.at(0)->component_copy_to(*dvx, int(double(a)));
    else known = false;
  }
  else
    known = false;
  if(!known) { o << "BAD-OP"; return; }

  o << "R "; show_qlist(o, res);
  o << " " << classes.size();
  std::size_t oi = 0;
  for(std::size_t ci = 0; ci < classes.size(); ++ci)
  {
    std::vector<Q> f;
    if(ccopy && ci == 1) Sh<DV>::flat(*dvx, f);
    else Sh<T_>::flat(*objs.at(oi++), f);
    o << " "; show_qlist(o, f);
  }
}

typedef void (*Runner)(const Case&, Cur&, std::ostream&);
static std::map<std::string, Runner>& registry() { static std::map<std::string, Runner> r; return r; }
template<typename T_> static void reg() { registry()[Sh<T_>::name()] = &run<T_>; }

static std::string read_shape(Cur& c)
{
  std::string t = c.str();
  if(t == "D") return t;
  if(t == "B") return t + " " + c.str();
  if(t == "T")
  {
    std::size_t kk = std::stoul(c.str());
    std::string r = "T " + std::to_string(kk);
    for(std::size_t i = 0; i < kk; ++i) r += " " + read_shape(c);
    return r;
  }
  if(t == "P")
  {
    std::string kk = c.str();
    return "P " + kk + " " + read_shape(c);
  }
  return "?";
}

// ---- sparse vectors -----------------------------------------------------------------------------------
// sv <size> <n> (idx val)*n             : SparseVector filled through operator()(idx, val) in the given order
// svb <b> <size> <n> (idx val*b)*n      : SparseVectorBlocked<b>
// sub-op (first token after sv/svb header): get | maxabs | minabs | max | min | format <v>
template<typename SV_, int b_>
static void run_sparse(Cur& c, std::ostream& o)
{
  std::string sub = c.str();
  Q fv(0);
  if(sub == "format") fv = Q::parse(c.str());
  Index size = c.idx();
  std::size_t n = c.idx();
  SV_ v(size);
  for(std::size_t i = 0; i < n; ++i)
  {
    Index idx = c.idx();
    if constexpr(b_ == 0)
      v(idx, Q::parse(c.str()));
    else
    {
      Tiny::Vector<Q, (b_ > 0 ? b_ : 1)> t;
      for(int j = 0; j < b_; ++j) t[j] = Q::parse(c.str());
      v(idx, t);
    }
  }
  std::vector<Q> res;
  if(sub == "get") {}
  else if(sub == "format") v.format(fv);
  else if(sub == "maxabs") res.push_back(v.max_abs_element());
  else if(sub == "minabs") res.push_back(v.min_abs_element());
  else if(sub == "max") res.push_back(v.max_element());
  else if(sub == "min") res.push_back(v.min_element());
  else { o << "BAD-OP"; return; }
  // dense read-out through the public element access
  std::vector<Q> f;
  for(Index i = 0; i < size; ++i)
  {
    if constexpr(b_ == 0) f.push_back(v(i));
    else { auto t = v(i); for(int j = 0; j < b_; ++j) f.push_back(t[j]); }
  }
  o << "R "; show_qlist(o, res);
  o << " 1 "; show_qlist(o, f);
  o << " U " << v.used_elements();
}

// svs <b> <size> <n> (w idx val*max(b,1) | r idx | f v | u | m maxabs|minabs|max|min)*n
//   a script of member calls on one SparseVector (b = 0) / SparseVectorBlocked<b>: writes, element reads,
//   format, used_elements(), min/max members in any order; output: the results of r/u/m in order, then the dense
//   read-out and used_elements() as for sv/svb
template<typename SV_, int b_>
static void run_sparse_script(Cur& c, std::ostream& o)
{
  Index size = c.idx();
  std::size_t n = c.idx();
  SV_ v(size);
  std::vector<Q> res;
  for(std::size_t k = 0; k < n; ++k)
  {
    std::string what = c.str();
    if(what == "w")
    {
      Index idx = c.idx();
      if constexpr(b_ == 0)
        v(idx, Q::parse(c.str()));
      else
      {
        Tiny::Vector<Q, (b_ > 0 ? b_ : 1)> t;
        for(int j = 0; j < b_; ++j) t[j] = Q::parse(c.str());
        v(idx, t);
      }
    }
    else if(what == "r")
    {
      Index idx = c.idx();
      if constexpr(b_ == 0) res.push_back(v(idx));
      else { auto t = v(idx); for(int j = 0; j < b_; ++j) res.push_back(t[j]); }
    }
    else if(what == "f") v.format(Q::parse(c.str()));
    else if(what == "u") res.push_back(Q((unsigned long)v.used_elements()));
    else if(what == "m")
    {
      std::string kind = c.str();
      if(kind == "maxabs") res.push_back(v.max_abs_element());
      else if(kind == "minabs") res.push_back(v.min_abs_element());
      else if(kind == "max") res.push_back(v.max_element());
      else if(kind == "min") res.push_back(v.min_element());
      else { o << "BAD-OP"; return; }
    }
    else { o << "BAD-OP"; return; }
  }
  std::vector<Q> f;
  for(Index i = 0; i < size; ++i)
  {
    if constexpr(b_ == 0) f.push_back(v(i));
    else { auto t = v(i); for(int j = 0; j < b_; ++j) f.push_back(t[j]); }
  }
  o << "R "; show_qlist(o, res);
  o << " 1 "; show_qlist(o, f);
  o << " U " << v.used_elements();
}

static void handle(const verif::Tokens& t, std::ostream& o)
{
  Cur c(t);
  Case k;
  k.op = c.str();
  if(k.op == "sv") { run_sparse<SparseVector<Q, Index>, 0>(c, o); return; }
  if(k.op == "svb")
  {
    std::size_t b = c.idx();
    if(b == 1) run_sparse<SparseVectorBlocked<Q, Index, 1>, 1>(c, o);
    else if(b == 2) run_sparse<SparseVectorBlocked<Q, Index, 2>, 2>(c, o);
    else if(b == 3) run_sparse<SparseVectorBlocked<Q, Index, 3>, 3>(c, o);
    else o << "BAD-OP";
    return;
  }
  if(k.op == "svs")
  {
    std::size_t b = c.idx();
    if(b == 0) run_sparse_script<SparseVector<Q, Index>, 0>(c, o);
    else if(b == 1) run_sparse_script<SparseVectorBlocked<Q, Index, 1>, 1>(c, o);
    else if(b == 2) run_sparse_script<SparseVectorBlocked<Q, Index, 2>, 2>(c, o);
    else if(b == 3) run_sparse_script<SparseVectorBlocked<Q, Index, 3>, 3>(c, o);
    else if(b == 32) run_sparse_script<SparseVector<Q, unsigned int>, 0>(c, o);                 // 32-bit index type
    else if(b == 322) run_sparse_script<SparseVectorBlocked<Q, unsigned int, 2>, 2>(c, o);      // 32-bit index type, blocks of 2
    else o << "BAD-OP";
    return;
  }
  k.pattern = c.str();
  k.cl = int(c.idx());
  k.scal = read_qlist(c);
  std::string shape = read_shape(c);
  k.sizes = c.idxlist();
  auto it = registry().find(shape);
  if(it == registry().end()) { o << "BAD-OP"; return; }
  it->second(k, c, o);
}

int main(int argc, char** argv)
{
  typedef PowerVector<DV, 2> P2D;
  reg<DV>();
  reg<DB<1>>(); reg<DB<2>>(); reg<DB<3>>(); reg<DB<4>>();
  reg<TupleVector<DV>>();
  reg<TupleVector<DV, DB<2>>>();
  reg<TupleVector<DB<3>, DV, DB<2>>>();
  reg<TupleVector<P2D, DV>>();                       // the MetaVector of the FEAT meta_vector tests
  reg<TupleVector<TupleVector<DV, DV>, DB<2>>>();
  reg<PowerVector<DV, 1>>();
  reg<P2D>();
  reg<PowerVector<DV, 3>>();
  reg<PowerVector<DB<2>, 2>>();
  reg<PowerVector<P2D, 2>>();
  reg<PowerVector<TupleVector<DV, DB<2>>, 2>>();
  reg<TupleVector<PowerVector<DB<3>, 3>, TupleVector<DV>>>();
  // blocked components in first / middle position, all block sizes
  reg<TupleVector<DB<2>, DV>>();
  reg<TupleVector<DV, DB<4>, DV>>();
  reg<TupleVector<DB<1>, DB<3>>>();
  reg<TupleVector<DB<3>, DB<2>, DV>>();
  reg<PowerVector<DB<4>, 3>>();
  reg<PowerVector<TupleVector<DB<2>, DV>, 2>>();
  if(argc > 1 && std::string(argv[1]) == "--shapes")
  {
    for(auto& e : registry()) std::cout << e.first << "\n";
    return 0;
  }
  return verif::run_cases(argc, argv, handle);
}
