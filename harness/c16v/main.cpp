// C16 supporting-evidence harness (double precision): the voxel assemblers (kernel/voxel_assembly, instantiated for
// float/double only) against the classic cell-loop assemblers and the domain-assembler jobs on voxel-compatible meshes
// (refined unit square / cube, Lagrange-2).  Prints every route as hex doubles; the oracle compares within an a-priori
// rounding bound.
//   vox poisson <dim> <level> <rule>
//   vox defo    <dim> <level> <rule> <nu>
//   vox burgers <dim> <level> <rule> <nu> <theta> <beta> <frechet> <sd_delta> <deform 0|1> <alpha> <field seed>
#include <forkcase.hpp>
#include <kernel/runtime.hpp>
#include <kernel/voxel_assembly/poisson_assembler.hpp>
#include <kernel/voxel_assembly/defo_assembler.hpp>
#include <kernel/voxel_assembly/burgers_assembler.hpp>
#include <kernel/voxel_assembly/helper/voxel_coloring.hpp>
#include <kernel/assembly/bilinear_operator_assembler.hpp>
#include <kernel/assembly/common_operators.hpp>
#include <kernel/assembly/burgers_assembler.hpp>
#include <kernel/assembly/burgers_assembly_job.hpp>
#include <kernel/geometry/conformal_mesh.hpp>
#include <kernel/geometry/common_factories.hpp>
#include <kernel/trafo/standard/mapping.hpp>
#include <kernel/space/lagrange2/element.hpp>
#include <kernel/assembly/symbolic_assembler.hpp>
#include <kernel/assembly/domain_assembler.hpp>
#include <kernel/assembly/domain_assembler_helpers.hpp>
#include <kernel/cubature/dynamic_factory.hpp>
#include <kernel/lafem/dense_vector_blocked.hpp>
#include <kernel/lafem/sparse_matrix_csr.hpp>
#include <kernel/lafem/sparse_matrix_bcsr.hpp>
#include <cstdio>

using namespace FEAT;
using verif::Cur;

static void hexd(std::ostream& o, double v) { char b[64]; std::snprintf(b, sizeof(b), "%a", v); o << " " << b; }

template<typename M_> static void show_csr(std::ostream& o, const char* tag, const M_& m)
{
  o << " " << tag << " " << m.used_elements();
  for(Index k = 0; k < m.used_elements(); ++k) hexd(o, m.val()[k]);
}
template<typename M_, int d_> static void show_bcsr(std::ostream& o, const char* tag, const M_& m)
{
  o << " " << tag << " " << m.used_elements() * Index(d_ * d_);
  for(Index k = 0; k < m.used_elements(); ++k) for(int a = 0; a < d_; ++a) for(int b = 0; b < d_; ++b) hexd(o, m.val()[k][a][b]);
}

template<typename Shape_>
static void run(Cur& c, std::ostream& o, const std::string& kind)
{
  static constexpr int dim = Shape_::dimension;
  typedef double DT; typedef Index IT;
  typedef Geometry::ConformalMesh<Shape_, dim, DT> MeshType;
  typedef Trafo::Standard::Mapping<MeshType> TrafoType;
  typedef Space::Lagrange2::Element<TrafoType> SpaceType;
  Index level = c.idx(); std::string rule = c.str();
  Geometry::RefinedUnitCubeFactory<MeshType> fac(level);
  MeshType mesh(fac); TrafoType trafo(mesh); SpaceType space(trafo);
  std::vector<int> coloring = VoxelAssembly::UnitCubeColoring<Shape_>::create_coloring(int(level));
  Cubature::DynamicFactory cub(rule);
  Assembly::DomainAssembler<TrafoType> dom_asm(trafo);
  dom_asm.compile_all_elements();
  o << "VX " << kind << " " << dim;
  if(kind == "poisson")
  {
    typedef LAFEM::SparseMatrixCSR<DT, IT> MT;
    MT a, b, v;
    Assembly::SymbolicAssembler::assemble_matrix_std1(a, space); a.format(); b = a.clone(LAFEM::CloneMode::Layout); b.format(); v = a.clone(LAFEM::CloneMode::Layout); v.format();
    Assembly::Common::LaplaceOperator op;
    Assembly::BilinearOperatorAssembler::assemble_matrix1(a, op, space, cub);
    Assembly::assemble_bilinear_operator_matrix_1(dom_asm, b, op, space, rule);
    VoxelAssembly::VoxelPoissonAssembler<SpaceType, DT, IT> va(space, coloring, dim == 3 ? 8 : 4);
    va.assemble_matrix1(v, space, cub);
    o << " R "; { o << a.rows() + 1; for(Index i = 0; i <= a.rows(); ++i) o << " " << a.row_ptr()[i]; }
    show_csr(o, "A", a); show_csr(o, "B", b); show_csr(o, "V", v);
    return;
  }
  typedef LAFEM::SparseMatrixBCSR<DT, IT, dim, dim> MT;
  typedef LAFEM::DenseVectorBlocked<DT, IT, dim> VT;
  MT a, b, v;
  Assembly::SymbolicAssembler::assemble_matrix_std1(a, space); a.format(); b = a.clone(LAFEM::CloneMode::Layout); b.format(); v = a.clone(LAFEM::CloneMode::Layout); v.format();
  o << " R "; { o << a.rows() + 1; for(Index i = 0; i <= a.rows(); ++i) o << " " << a.row_ptr()[i]; }
  VT conv = a.create_vector_r(); conv.format();
  if(kind == "defo")
  {
    DT nu = std::stod(c.str());
    Assembly::BurgersAssembler<DT, IT, dim> ba; ba.deformation = true; ba.nu = nu;
    ba.assemble_matrix(a, conv, space, cub);
    Assembly::BurgersBlockedMatrixAssemblyJob<MT, SpaceType, VT> job(b, conv, space, rule); job.deformation = true; job.nu = nu;
    dom_asm.assemble(job);
    VoxelAssembly::VoxelDefoAssembler<SpaceType, DT, IT> va(space, coloring, dim == 3 ? 8 : 4); va.nu = nu;
    va.assemble_matrix1(v, space, cub);
  }
  else
  {
    DT nu = std::stod(c.str()), theta = std::stod(c.str()), beta = std::stod(c.str()), fre = std::stod(c.str()), sdd = std::stod(c.str());
    bool defo = c.idx() != 0; DT alpha = std::stod(c.str()); Index seed = c.idx();
    // deterministic dyadic convection field
    std::uint64_t s = 88172645463325252ull + seed * 2654435761ull;
    for(Index i = 0; i < conv.size(); ++i)
    {
      auto t = conv(i);
      for(int d = 0; d < dim; ++d) { s ^= s << 13; s ^= s >> 7; s ^= s << 17; t[d] = DT(int(s % 129) - 64) / DT(64); }
      conv(i, t);
    }
    Assembly::BurgersAssembler<DT, IT, dim> ba;
    ba.deformation = defo; ba.nu = nu; ba.sd_nu = nu; ba.beta = beta; ba.frechet_beta = fre; ba.theta = theta; ba.sd_delta = sdd; ba.set_sd_v_norm(conv);
    ba.assemble_matrix(a, conv, space, cub, alpha);
    MT b1 = a.clone(LAFEM::CloneMode::Layout); b1.format();
    Assembly::BurgersBlockedMatrixAssemblyJob<MT, SpaceType, VT> job(b1, conv, space, rule);
    job.deformation = defo; job.nu = nu; job.sd_nu = nu; job.beta = beta; job.frechet_beta = fre; job.theta = theta; job.sd_delta = sdd; job.set_sd_v_norm(conv);
    dom_asm.assemble(job);
    b.axpy(b1, alpha); // the job has no scaling factor of its own
    VoxelAssembly::VoxelBurgersAssembler<SpaceType, DT, IT> va(space, coloring);
    va.deformation = defo; va.nu = nu; va.sd_nu = nu; va.beta = beta; va.frechet_beta = fre; va.theta = theta; va.sd_delta = sdd; va.set_sd_v_norm(conv);
    va.assemble_matrix1(v, conv, space, cub, alpha);
  }
  show_bcsr<MT, dim>(o, "A", a); show_bcsr<MT, dim>(o, "B", b); show_bcsr<MT, dim>(o, "V", v);
}

static void handle(const verif::Tokens& t, std::ostream& o)
{
  Cur c(t);
  std::string op = c.str();
  if(op != "vox") { o << "BAD-OP"; return; }
  std::string kind = c.str();
  Index dim = c.idx();
  if(dim == 2) run<Shape::Hypercube<2>>(c, o, kind);
  else if(dim == 3) run<Shape::Hypercube<3>>(c, o, kind);
  else o << "BAD-OP";
}

int main(int argc, char** argv)
{
  Runtime::ScopeGuard guard(argc, argv);
  return verif::run_cases(argc, argv, handle);
}
