// Exact rational scalar type for instantiating FEAT templates in exact arithmetic.
// Q is a trivially copyable 64-bit handle into an arena of GMP rationals; handle 0 is the value 0,
// so zero-filled memory (MemoryPool, memset) is a valid vector of zeros.
#pragma once
#include <kernel/base_header.hpp>
#include <kernel/util/type_traits.hpp>
#include <kernel/util/math.hpp>
#include <gmpxx.h>
#include <deque>
#include <iostream>
#include <sstream>
#include <string>
#include <cmath>
#include <type_traits>

struct QArena
{
  static std::deque<mpq_class>& tab() { static std::deque<mpq_class> t(1, mpq_class(0)); return t; }
  static std::uint64_t put(const mpq_class& v) { auto& t = tab(); t.push_back(v); return t.size() - 1; }
};

struct Q
{
  std::uint64_t id; // 0 == zero
  Q() = default;
  Q(const mpq_class& v) { id = (v == 0) ? 0 : QArena::put(v); }
  Q(long long a) : Q(mpq_class((long)a)) {}
  Q(int a) : Q(mpq_class(a)) {}
  Q(long a) : Q(mpq_class(a)) {}
  Q(unsigned int a) : Q(mpq_class(a)) {}
  Q(unsigned long a) : Q(mpq_class(a)) {}
  Q(unsigned long long a) : Q(mpq_class((unsigned long)a)) {}
  Q(double a) : Q(mpq_class(a)) {}
  Q(float a) : Q(mpq_class(double(a))) {}
  Q(long double a) : Q(mpq_class(double(a))) {}
  const mpq_class& v() const { return QArena::tab()[id]; }
  operator double() const { return v().get_d(); }
  explicit operator int() const { return int(v().get_d()); }
  explicit operator unsigned long() const { return (unsigned long)(v().get_d()); }
  // parse "p/q" or "p"
  static Q parse(const std::string& s) { mpq_class r(s); r.canonicalize(); return Q(r); }
  std::string str() const { std::ostringstream o; o << v().get_num() << "/" << v().get_den(); return o.str(); }
};
static_assert(std::is_trivially_copyable<Q>::value, "Q must be trivially copyable");

inline Q operator+(Q a, Q b) { return Q(mpq_class(a.v() + b.v())); }
inline Q operator-(Q a, Q b) { return Q(mpq_class(a.v() - b.v())); }
inline Q operator-(Q a) { return Q(mpq_class(-a.v())); }
inline Q operator+(Q a) { return a; }
inline Q operator*(Q a, Q b) { return Q(mpq_class(a.v() * b.v())); }
inline Q operator/(Q a, Q b)
{
  if(b.v() == 0) { std::cerr << "\n>>> FATAL ERROR: Q: division by zero\n"; std::abort(); }
  return Q(mpq_class(a.v() / b.v()));
}
inline Q& operator+=(Q& a, Q b) { a = a + b; return a; }
inline Q& operator-=(Q& a, Q b) { a = a - b; return a; }
inline Q& operator*=(Q& a, Q b) { a = a * b; return a; }
inline Q& operator/=(Q& a, Q b) { a = a / b; return a; }
inline bool operator<(Q a, Q b) { return a.v() < b.v(); }
inline bool operator>(Q a, Q b) { return b < a; }
inline bool operator<=(Q a, Q b) { return !(b < a); }
inline bool operator>=(Q a, Q b) { return !(a < b); }
inline bool operator==(Q a, Q b) { return a.v() == b.v(); }
inline bool operator!=(Q a, Q b) { return !(a == b); }

#define QMIX(op, ret) \
template<typename T_, typename = typename std::enable_if<std::is_arithmetic<T_>::value>::type> inline ret operator op(Q a, T_ b) { return a op Q(b); } \
template<typename T_, typename = typename std::enable_if<std::is_arithmetic<T_>::value>::type> inline ret operator op(T_ a, Q b) { return Q(a) op b; }
QMIX(+, Q) QMIX(-, Q) QMIX(*, Q) QMIX(/, Q) QMIX(<, bool) QMIX(>, bool) QMIX(<=, bool) QMIX(>=, bool) QMIX(==, bool) QMIX(!=, bool)
#undef QMIX
inline std::ostream& operator<<(std::ostream& o, Q a) { return o << a.v().get_num() << "/" << a.v().get_den(); }

// deterministic rational "square root": floor(sqrt(n*d*2^80)) / (d*2^40)   (n/d >= 0)
// The Lean models use exactly the same function (Nat.sqrt), so results compare for equality.
inline Q q_sqrt(Q x)
{
  if(x.v() < 0) { std::cerr << "\n>>> FATAL ERROR: Q: sqrt of negative\n"; std::abort(); }
  mpz_class n = x.v().get_num(), d = x.v().get_den();
  mpz_class r = n * d; r <<= 80;
  mpz_class s; mpz_sqrt(s.get_mpz_t(), r.get_mpz_t());
  mpz_class den = d; den <<= 40;
  mpq_class q(s, den); q.canonicalize();
  return Q(q);
}

namespace FEAT
{
  namespace Type
  {
    template<> struct Traits<Q>
    {
      static constexpr bool is_int = false, is_float = true, is_bool = false, is_signed = true;
      typedef FloatingClass TypeClass;
      static String name() { return "Q"; }
      static uint64_t feature_hash() { return uint64_t(sizeof(Q)) | uint64_t(1) << 33 | uint64_t(1) << 34; }
    };
  }
  namespace Math
  {
    template<> inline Q eps<Q>() { static Q e(mpq_class(1, mpz_class(1) << 52)); return e; }
    template<> inline Q huge<Q>() { static Q e(mpq_class(mpz_class(1) << 1000)); return e; }
    template<> inline Q tiny<Q>() { static Q e(mpq_class(1, mpz_class(1) << 1000)); return e; }
    inline Q sqrt(Q x) { return q_sqrt(x); }
    inline bool isfinite(Q) { return true; }
    inline bool isnormal(Q x) { return x.v() != 0; }
    inline Q abs(Q x) { return x.v() < 0 ? -x : x; }
    inline Q pow(Q x, Q y)
    {
      // only integer exponents are exact
      mpq_class e = y.v();
      if(e.get_den() != 1) { std::cerr << "\n>>> FATAL ERROR: Q: non-integer pow\n"; std::abort(); }
      long k = e.get_num().get_si();
      mpq_class r(1), b = x.v();
      bool neg = k < 0; if(neg) k = -k;
      for(long i = 0; i < k; ++i) r *= b;
      if(neg) r = 1 / r;
      return Q(r);
    }
  }
}
