// Fork-per-case runner: every input line is one case; it is executed in a forked child so that an
// XABORT / XASSERT / uncaught exception / sanitizer trap / hang is an *outcome*, not a harness crash.
// Output: one line per case:  "<payload>"  |  "ABORT:<class>"  |  "EXC:<class>"  |  "TIMEOUT" | "SIGNAL:<n>"
#pragma once
#include <unistd.h>
#include <sys/wait.h>
#include <sys/types.h>
#include <signal.h>
#include <poll.h>
#include <cstdio>
#include <cstdlib>
#include <cstring>
#include <string>
#include <vector>
#include <sstream>
#include <fstream>
#include <iostream>
#include <functional>
#include <typeinfo>
#include <exception>

namespace verif
{
  typedef std::vector<std::string> Tokens;

  inline Tokens split(const std::string& line)
  {
    Tokens t; std::istringstream is(line); std::string s;
    while(is >> s) t.push_back(s);
    return t;
  }

  // token cursor
  struct Cur
  {
    const Tokens& t; std::size_t p;
    explicit Cur(const Tokens& tt, std::size_t pp = 0) : t(tt), p(pp) {}
    bool done() const { return p >= t.size(); }
    const std::string& str() { if(p >= t.size()) { std::cerr << "\n>>> FATAL ERROR: harness: token underrun\n"; std::abort(); } return t[p++]; }
    long long i64() { return std::stoll(str()); }
    std::size_t idx() { return (std::size_t)std::stoull(str()); }
    std::vector<std::size_t> idxlist() { std::size_t n = idx(); std::vector<std::size_t> v(n); for(auto& x : v) x = idx(); return v; }
  };

  inline std::string sanitize(const std::string& s, std::size_t maxlen = 80)
  {
    std::string r;
    for(char c : s)
    {
      if(r.size() >= maxlen) break;
      if((c >= 'a' && c <= 'z') || (c >= 'A' && c <= 'Z') || (c >= '0' && c <= '9') || c == '_' || c == '-' || c == '!' || c == '.' || c == ':' ) r.push_back(c);
      else if(c == ' ' ) r.push_back('_');
    }
    return r;
  }

  inline std::string classify_stderr(const std::string& err)
  {
    // sanitizers first
    if(err.find("AddressSanitizer") != std::string::npos)
    {
      std::size_t p = err.find("AddressSanitizer: ");
      std::string k = (p == std::string::npos) ? "unknown" : err.substr(p + 18, err.find_first_of(" \n", p + 18) - (p + 18));
      return "SANITIZER:asan:" + sanitize(k);
    }
    if(err.find("runtime error:") != std::string::npos) return "SANITIZER:ubsan";
    if(err.find("ThreadSanitizer") != std::string::npos) return "SANITIZER:tsan";
    std::size_t p = err.find(">>> FATAL ERROR: ");
    if(p != std::string::npos)
    {
      std::size_t e = err.find('\n', p);
      return "ABORT:" + sanitize(err.substr(p + 17, e == std::string::npos ? std::string::npos : e - (p + 17)));
    }
    p = err.find("terminate called after throwing an instance of '");
    if(p != std::string::npos)
    {
      std::size_t b = p + 48, e = err.find('\'', b);
      return "EXC:" + sanitize(err.substr(b, e - b));
    }
    return "";
  }

  typedef std::function<void(const Tokens&, std::ostream&)> Handler;

  inline std::string run_one(const Tokens& tok, const Handler& h, unsigned timeout_s)
  {
    int po[2], pe[2];
    if(pipe(po) != 0 || pipe(pe) != 0) { perror("pipe"); std::exit(2); }
    fflush(stdout); fflush(stderr);
    pid_t pid = fork();
    if(pid < 0) { perror("fork"); std::exit(2); }
    if(pid == 0)
    {
      close(po[0]); close(pe[0]);
      dup2(pe[1], 2); close(pe[1]);
      alarm(timeout_s);
      std::ostringstream out;
      try { h(tok, out); }
      catch(const std::exception& e)
      {
        out.str(""); out << "EXC:" << sanitize(typeid(e).name()) ;
        std::cerr << "exception what(): " << e.what() << "\n";
      }
      catch(...) { out.str(""); out << "EXC:unknown"; }
      std::string s = out.str();
      std::size_t off = 0;
      while(off < s.size()) { ssize_t w = write(po[1], s.data() + off, s.size() - off); if(w <= 0) break; off += (std::size_t)w; }
      close(po[1]);
      _exit(0);
    }
    close(po[1]); close(pe[1]);
    std::string so, se;
    struct pollfd fds[2] = {{po[0], POLLIN, 0}, {pe[0], POLLIN, 0}};
    int open_fds = 2; char buf[65536];
    while(open_fds > 0)
    {
      if(poll(fds, 2, -1) < 0) { if(errno == EINTR) continue; break; }
      for(int k = 0; k < 2; ++k)
      {
        if(fds[k].fd < 0) continue;
        if(fds[k].revents & (POLLIN | POLLHUP | POLLERR))
        {
          ssize_t r = read(fds[k].fd, buf, sizeof(buf));
          if(r > 0) { (k == 0 ? so : se).append(buf, (std::size_t)r); }
          else { close(fds[k].fd); fds[k].fd = -1; --open_fds; }
        }
      }
    }
    int st = 0; waitpid(pid, &st, 0);
    if(WIFEXITED(st) && WEXITSTATUS(st) == 0)
    {
      for(char& c : so) if(c == '\n') c = ' ';
      return so;
    }
    if(WIFSIGNALED(st) && WTERMSIG(st) == SIGALRM) return "TIMEOUT";
    std::string c = classify_stderr(se);
    if(!c.empty()) return c;
    if(WIFSIGNALED(st)) return "SIGNAL:" + std::to_string(WTERMSIG(st));
    return "EXIT:" + std::to_string(WEXITSTATUS(st));
  }

  // main loop: argv[1] = case file ("-" = stdin). env VERIF_CASE_TIMEOUT (seconds, default 20)
  inline int run_cases(int argc, char** argv, const Handler& h)
  {
    unsigned timeout_s = 20;
    if(const char* e = getenv("VERIF_CASE_TIMEOUT")) timeout_s = (unsigned)atoi(e);
    std::istream* in = &std::cin; std::ifstream f;
    if(argc > 1 && std::string(argv[1]) != "-") { f.open(argv[1]); if(!f) { std::cerr << "cannot open " << argv[1] << "\n"; return 2; } in = &f; }
    std::string line;
    while(std::getline(*in, line))
    {
      Tokens tok = split(line);
      if(tok.empty()) { std::cout << "\n"; continue; }
      std::cout << run_one(tok, h, timeout_s) << "\n";
      std::cout.flush();
    }
    return 0;
  }
}
