// C20 harness: interprets one lifetime history per line on the REAL FEAT containers and prints, after every
// operation, the complete MemoryPool / container / layout state (see FeatModel/Driver/C20.lean for the format).
//
// Observation of the private static MemoryPool::_pool: read-only, through the standard-conforming
// "explicit instantiation names a private member" idiom below - no hook in /repo is needed (hook H1 of DESIGN.md
// is therefore not required for this check).  The protected flag Container::_foreign_memory is read through a
// derived-class pointer-to-member.  Nothing of the code under test is re-implemented here: every lifetime
// operation is one call of the FEAT API; the harness only fills freshly allocated (uninitialised) arrays with
// known values through the public array accessors so that contents can be compared.
#include <forkcase.hpp>
#include <exact_q.hpp>
#include <kernel/util/memory_pool.hpp>
#include <kernel/lafem/dense_vector.hpp>
#include <kernel/lafem/dense_vector_blocked.hpp>
#include <kernel/lafem/sparse_matrix_csr.hpp>
#include <kernel/lafem/sparse_matrix_bcsr.hpp>
#include <kernel/lafem/sparse_matrix_banded.hpp>
#include <kernel/lafem/sparse_layout.hpp>
#include <kernel/lafem/dense_matrix.hpp>
#include <kernel/lafem/tuple_vector.hpp>
#include <kernel/lafem/sparse_matrix_cscr.hpp>
#include <kernel/lafem/sparse_vector.hpp>
#include <kernel/lafem/sparse_vector_blocked.hpp>
#include <map>
#include <algorithm>
#include <fcntl.h>

using namespace FEAT;
using namespace FEAT::LAFEM;
using verif::Cur;

// ---------------------------------------------------------------------------------------------------------
// read-only views of private/protected state
// ---------------------------------------------------------------------------------------------------------
typedef std::map<void*, Util::Intern::MemoryInfo> PoolMap;
struct PoolTag { typedef PoolMap* type; friend type get(PoolTag); };
template<typename Tag, typename Tag::type M> struct Rob { friend typename Tag::type get(Tag) { return M; } };
template struct Rob<PoolTag, &MemoryPool::_pool>;
static const PoolMap& pool() { return *get(PoolTag()); }

template<class D, class I> struct Peek : Container<D, I>
{
  static bool foreign(const Container<D, I>& c) { return c.*(&Peek::_foreign_memory); }
};

// ---------------------------------------------------------------------------------------------------------
// type zoo: kind x data type x index type
// ---------------------------------------------------------------------------------------------------------
struct KDV   { template<class D, class I> using type = DenseVector<D, I>; };
struct KDVB  { template<class D, class I> using type = DenseVectorBlocked<D, I, 2>; };
struct KCSR  { template<class D, class I> using type = SparseMatrixCSR<D, I>; };
struct KBCSR { template<class D, class I> using type = SparseMatrixBCSR<D, I, 2, 2>; };
struct KBAND { template<class D, class I> using type = SparseMatrixBanded<D, I>; };
struct KDM   { template<class D, class I> using type = DenseMatrix<D, I>; };
struct KCSCR { template<class D, class I> using type = SparseMatrixCSCR<D, I>; };
struct KSV   { template<class D, class I> using type = SparseVector<D, I>; };
struct KSVB  { template<class D, class I> using type = SparseVectorBlocked<D, I, 2>; };
template<class K> struct HasCopy { static constexpr bool value = true; };
template<> struct HasCopy<KSV> { static constexpr bool value = false; };
template<> struct HasCopy<KSVB> { static constexpr bool value = false; };
template<class K> struct HasLayout { static constexpr bool value = false; };
template<> struct HasLayout<KCSR> { static constexpr bool value = true; };
template<> struct HasLayout<KBCSR> { static constexpr bool value = true; };
template<> struct HasLayout<KBAND> { static constexpr bool value = true; };
template<> struct HasLayout<KCSCR> { static constexpr bool value = true; };

typedef unsigned int U32;
typedef unsigned long U64;

template<class D> struct Tag { typedef D type; };

template<class F> static void with_di(int dt, int it, F f)
{
  switch(dt * 2 + it)
  {
  case 0: f(Tag<Q>(), Tag<U32>()); break;
  case 1: f(Tag<Q>(), Tag<U64>()); break;
  case 2: f(Tag<float>(), Tag<U32>()); break;
  case 3: f(Tag<float>(), Tag<U64>()); break;
  default: std::cerr << "\n>>> FATAL ERROR: harness: bad type code\n"; std::abort();
  }
}
template<class F> static void with_it(int it, F f)
{
  if(it == 0) f(Tag<U32>()); else f(Tag<U64>());
}
template<class F> static void with_kind(int k, F f)
{
  switch(k)
  {
  case 0: f(KDV()); break;
  case 1: f(KDVB()); break;
  case 2: f(KCSR()); break;
  case 3: f(KBCSR()); break;
  case 4: f(KBAND()); break;
  case 5: f(KDM()); break;
  case 6: f(KCSCR()); break;
  case 7: f(KSV()); break;
  case 8: f(KSVB()); break;
  default: std::cerr << "\n>>> FATAL ERROR: harness: bad kind code\n"; std::abort();
  }
}

struct Box { void* obj = nullptr; int kind = 0, dt = 0, it = 0, comp = -1; bool alive() const { return obj != nullptr; } };
// TupleVector<DenseVector, DenseVector> objects; their two components are registered in two container slots
struct TBox { void* obj = nullptr; int dt = 0, it = 0, s0 = -1, s1 = -1; bool alive() const { return obj != nullptr; } };
static const int NTUP = 4;
static TBox tups[NTUP];
struct LBox { void* obj = nullptr; int lk = 0, it = 0; bool alive() const { return obj != nullptr; } };

static const int MAXSLOT = 320, NLAY = 4;
static int NSLOT = 8;     // `SLOTS n` as the first tokens of a line raises it (boundary-size stream)
static Box slots[MAXSLOT];
static LBox lays[NLAY];

struct BadOp { std::string why; };
static void bad(const std::string& s) { throw BadOp{s}; }

template<class K, class D, class I> static typename K::template type<D, I>& as(Box& b)
{
  return *static_cast<typename K::template type<D, I>*>(b.obj);
}

static long long to_ll(Q x)
{
  return (long long)x.v().get_num().get_si();
}
static long long to_ll(float x) { return (long long)x; }
static long long to_ll(U32 x) { return (long long)x; }
static long long to_ll(U64 x) { return (long long)x; }

// ---------------------------------------------------------------------------------------------------------
// snapshot
// ---------------------------------------------------------------------------------------------------------
struct Namer
{
  std::map<void*, int> names;
  std::map<void*, bool> used;
  int next = 0;
};

template<class T> static void show_array(std::ostream& o, Namer& nm, T* p, Index size)
{
  o << " ";
  if(p == nullptr) { o << "- " << size << " 0"; return; }
  const PoolMap& pm = pool();
  auto it = pm.upper_bound((void*)p);
  bool found = false;
  if(it != pm.begin())
  {
    --it;
    char* base = (char*)it->first;
    if((char*)p >= base && (char*)p < base + it->second.size)
    {
      found = true;
      auto f = nm.names.find(it->first);
      int name;
      if(f == nm.names.end()) { name = nm.next++; nm.names[it->first] = name; } else name = f->second;
      Index off = Index(((char*)p - base) / sizeof(T));
      o << "#" << name << "+" << off << ":" << it->second.counter << ":" << it->second.size << " " << size;
      if(((char*)p - base) + size * sizeof(T) <= it->second.size)
      {
        o << " " << size;
        for(Index i = 0; i < size; ++i) o << " " << to_ll(p[i]);
      }
      else
        o << " 0";
    }
  }
  if(!found) o << "? " << size << " 0";
}

static void show_idx(std::ostream& o, const std::vector<Index>& v)
{
  o << " " << v.size();
  for(auto x : v) o << " " << x;
}

static void snapshot(std::ostream& o)
{
  Namer nm;
  o << " ; S " << pool().size() << " " << MemoryPool::allocated_memory();
  for(int s = 0; s < NSLOT; ++s)
  {
    Box& b = slots[s];
    if(!b.alive()) continue;
    with_di(b.dt, b.it, [&](auto dtag, auto itag)
    {
      typedef typename decltype(dtag)::type D; typedef typename decltype(itag)::type I;
      // every kind derives from Container<D, I>; the cast goes through the concrete type
      Container<D, I>* c = nullptr;
      with_kind(b.kind, [&](auto k) { c = &as<decltype(k), D, I>(b); });
      o << " C " << s << " " << b.kind << " " << b.dt << " " << b.it << " " << (Peek<D, I>::foreign(*c) ? 1 : 0);
      show_idx(o, c->get_scalar_index());
      o << " E " << c->get_elements().size();
      for(std::size_t j = 0; j < c->get_elements().size(); ++j)
        show_array(o, nm, c->get_elements()[j], c->get_elements_size().at(j));
      o << " I " << c->get_indices().size();
      for(std::size_t j = 0; j < c->get_indices().size(); ++j)
        show_array(o, nm, c->get_indices()[j], c->get_indices_size().at(j));
    });
  }
  for(int l = 0; l < NLAY; ++l)
  {
    LBox& b = lays[l];
    if(!b.alive()) continue;
    with_it(b.it, [&](auto itag)
    {
      typedef typename decltype(itag)::type I;
      auto emit = [&](auto& L)
      {
        o << " L " << l << " " << b.lk << " " << b.it;
        show_idx(o, L._scalar_index);
        o << " I " << L._indices.size();
        for(std::size_t j = 0; j < L._indices.size(); ++j)
          show_array(o, nm, L._indices[j], L._indices_size.at(j));
      };
      if(b.lk == 0) emit(*static_cast<SparseLayout<I, SparseLayoutId::lt_csr>*>(b.obj));
      else if(b.lk == 2) emit(*static_cast<SparseLayout<I, SparseLayoutId::lt_cscr>*>(b.obj));
      else emit(*static_cast<SparseLayout<I, SparseLayoutId::lt_banded>*>(b.obj));
    });
  }
  // chunks nobody refers to
  std::vector<std::pair<Index, Index>> orph;
  for(auto& e : pool())
    if(nm.names.find(e.first) == nm.names.end()) orph.push_back(std::make_pair(e.second.counter, e.second.size));
  std::sort(orph.begin(), orph.end());
  o << " O " << orph.size();
  for(auto& e : orph) o << " " << e.first << " " << e.second;
}

// ---------------------------------------------------------------------------------------------------------
// helpers
// ---------------------------------------------------------------------------------------------------------
template<class D, class I> static void fill_arrays(Container<D, I>& c, long long v, bool elems, bool inds)
{
  if(elems)
    for(std::size_t j = 0; j < c.get_elements().size(); ++j)
      for(Index i = 0; i < c.get_elements_size().at(j); ++i)
        c.get_elements()[j][i] = D(v + (long long)i);
  if(inds)
    for(std::size_t j = 0; j < c.get_indices().size(); ++j)
      for(Index i = 0; i < c.get_indices_size().at(j); ++i)
        c.get_indices()[j][i] = I(v + (long long)i);
}

static void need_dead(int a) { if(a < 0 || a >= NSLOT || slots[a].alive()) bad("slot not free"); }
static void need_alive(int a) { if(a < 0 || a >= NSLOT || !slots[a].alive()) bad("slot not alive"); }

template<class K, class D, class I> static void put(int a, typename K::template type<D, I>* p, int kind, int dt, int it)
{
  slots[a].obj = p; slots[a].kind = kind; slots[a].dt = dt; slots[a].it = it;
}

static void destroy_slot(int a)
{
  Box& b = slots[a];
  with_kind(b.kind, [&](auto k) { with_di(b.dt, b.it, [&](auto dtag, auto itag)
  {
    typedef typename decltype(dtag)::type D; typedef typename decltype(itag)::type I;
    delete &as<decltype(k), D, I>(b);
  }); });
  b.obj = nullptr;
}

static void destroy_layout(int l)
{
  LBox& b = lays[l];
  with_it(b.it, [&](auto itag)
  {
    typedef typename decltype(itag)::type I;
    if(b.lk == 0) delete static_cast<SparseLayout<I, SparseLayoutId::lt_csr>*>(b.obj);
    else if(b.lk == 2) delete static_cast<SparseLayout<I, SparseLayoutId::lt_cscr>*>(b.obj);
    else delete static_cast<SparseLayout<I, SparseLayoutId::lt_banded>*>(b.obj);
  });
  b.obj = nullptr;
}

// ---------------------------------------------------------------------------------------------------------
// one operation
// ---------------------------------------------------------------------------------------------------------
static bool do_op(Cur& c, std::ostream& o)
{
  std::string op = c.str();
  if(op == "new")
  {
    int a = (int)c.i64(), k = (int)c.i64(), dt = (int)c.i64(), it = (int)c.i64(); Index n = c.idx(); long long v = c.i64();
    need_dead(a);
    if(k != 0 && k != 1) bad("new: kind");
    with_di(dt, it, [&](auto dtag, auto itag)
    {
      typedef typename decltype(dtag)::type D; typedef typename decltype(itag)::type I;
      if(k == 0) { auto* p = new DenseVector<D, I>(n, D(v)); fill_arrays<D, I>(*p, v, true, false); put<KDV, D, I>(a, p, k, dt, it); }
      else { auto* p = new DenseVectorBlocked<D, I, 2>(n, D(v)); fill_arrays<D, I>(*p, v, true, false); put<KDVB, D, I>(a, p, k, dt, it); }
    });
  }
  else if(op == "mat")
  {
    int a = (int)c.i64(), k = (int)c.i64(), dt = (int)c.i64(), it = (int)c.i64();
    Index r = c.idx(), cc = c.idx(), p = c.idx(); long long v = c.i64(); int variant = (int)c.i64();
    need_dead(a);
    if(k != 2 && k != 3) bad("mat: kind");
    Index nnz = r * p;
    with_di(dt, it, [&](auto dtag, auto itag)
    {
      typedef typename decltype(dtag)::type D; typedef typename decltype(itag)::type I;
      auto build = [&](auto ktag, Index bs)
      {
        typedef typename decltype(ktag)::template type<D, I> M;
        M* m = nullptr;
        if(variant == 0 && nnz == 0)
          m = new M(r, cc);
        else if(variant == 0)
        {
          DenseVector<I, I> ci(nnz), rp(r + 1);
          DenseVector<D, I> val(nnz * bs);
          for(Index i = 0; i < nnz; ++i) ci.elements()[i] = I(i % p);
          for(Index i = 0; i <= r; ++i) rp.elements()[i] = I(i * p);
          for(Index i = 0; i < nnz * bs; ++i) val.elements()[i] = D(v + (long long)i);
          m = new M(r, cc, ci, val, rp);
        }
        else
        {
          m = new M(r, cc, nnz);
          Container<D, I>& b = *m;
          for(Index i = 0; i < b.get_indices_size().at(0); ++i) b.get_indices()[0][i] = I(i % (p ? p : 1));
          for(Index i = 0; i < b.get_indices_size().at(1); ++i) b.get_indices()[1][i] = I(i * p);
          for(Index i = 0; i < b.get_elements_size().at(0); ++i) b.get_elements()[0][i] = D(v + (long long)i);
        }
        slots[a].obj = m; slots[a].kind = k; slots[a].dt = dt; slots[a].it = it;
      };
      if(k == 2) build(KCSR(), 1); else build(KBCSR(), 4);
    });
  }
  else if(op == "band")
  {
    int a = (int)c.i64(), dt = (int)c.i64(), it = (int)c.i64(); Index r = c.idx(), noff = c.idx(); long long v = c.i64();
    need_dead(a);
    with_di(dt, it, [&](auto dtag, auto itag)
    {
      typedef typename decltype(dtag)::type D; typedef typename decltype(itag)::type I;
      SparseMatrixBanded<D, I>* m = nullptr;
      if(noff == 0)
        m = new SparseMatrixBanded<D, I>();
      else
      {
        DenseVector<D, I> val(r * noff);
        DenseVector<I, I> offs(noff);
        for(Index i = 0; i < r * noff; ++i) val.elements()[i] = D(v + (long long)i);
        for(Index j = 0; j < noff; ++j) offs.elements()[j] = I(r - 1 + j);
        m = new SparseMatrixBanded<D, I>(r, r, val, offs);
      }
      slots[a].obj = m; slots[a].kind = 4; slots[a].dt = dt; slots[a].it = it;
    });
  }
  else if(op == "mk")
  {
    int a = (int)c.i64(), k = (int)c.i64(), dt = (int)c.i64(), it = (int)c.i64(); Index n = c.idx(); long long v = c.i64();
    need_dead(a);
    if(k < 5 || k > 8 || (n == 0 && k < 7)) bad("mk: kind/size");
    with_di(dt, it, [&](auto dtag, auto itag)
    {
      typedef typename decltype(dtag)::type D; typedef typename decltype(itag)::type I;
      if(k == 5)
      {
        auto* m = new DenseMatrix<D, I>(n, 2, D(v));
        fill_arrays<D, I>(*m, v, true, false);
        slots[a].obj = m;
      }
      else if(k == 6)
      {
        DenseVector<I, I> ci(n), rp(2), rn(1);
        DenseVector<D, I> val(n);
        for(Index i = 0; i < n; ++i) { ci.elements()[i] = I(i % 2); val.elements()[i] = D(v + (long long)i); }
        rp.elements()[0] = I(0); rp.elements()[1] = I(n); rn.elements()[0] = I(0);
        slots[a].obj = new SparseMatrixCSCR<D, I>(3, 2, ci, val, rp, rn);
      }
      else if(k == 7)
      {
        DenseVector<D, I> el(n); DenseVector<I, I> ix(n);
        for(Index i = 0; i < n; ++i) { el.elements()[i] = D(v + (long long)i); ix.elements()[i] = I(i); }
        slots[a].obj = new SparseVector<D, I>(n + 3, el, ix, true);
      }
      else
      {
        DenseVectorBlocked<D, I, 2> el(n); DenseVector<I, I> ix(n);
        for(Index i = 0; i < 2 * n; ++i) el.template elements<Perspective::pod>()[i] = D(v + (long long)i);
        for(Index i = 0; i < n; ++i) ix.elements()[i] = I(i);
        slots[a].obj = new SparseVectorBlocked<D, I, 2>(n + 3, el, ix, true);
      }
      slots[a].kind = k; slots[a].dt = dt; slots[a].it = it;
    });
  }
  else if(op == "adopt")
  {
    int a = (int)c.i64(), b = (int)c.i64();
    need_dead(a); need_alive(b);
    Box& sb = slots[b];
    if(sb.kind > 1) bad("adopt: kind");
    with_di(sb.dt, sb.it, [&](auto dtag, auto itag)
    {
      typedef typename decltype(dtag)::type D; typedef typename decltype(itag)::type I;
      if(sb.kind == 0)
      {
        auto& src = as<KDV, D, I>(sb);
        put<KDV, D, I>(a, new DenseVector<D, I>(src.size(), src.elements()), 0, sb.dt, sb.it);
      }
      else
      {
        auto& src = as<KDVB, D, I>(sb);
        put<KDVB, D, I>(a, new DenseVectorBlocked<D, I, 2>(src.size(), src.template elements<Perspective::pod>()), 1, sb.dt, sb.it);
      }
    });
  }
  else if(op == "range")
  {
    int a = (int)c.i64(), b = (int)c.i64(); Index n = c.idx(), off = c.idx();
    need_dead(a); need_alive(b);
    Box& sb = slots[b];
    if(sb.kind > 1) bad("range: kind");
    with_di(sb.dt, sb.it, [&](auto dtag, auto itag)
    {
      typedef typename decltype(dtag)::type D; typedef typename decltype(itag)::type I;
      if(sb.kind == 0)
      {
        auto& src = as<KDV, D, I>(sb);
        put<KDV, D, I>(a, new DenseVector<D, I>(src, n, off), 0, sb.dt, sb.it);
      }
      else
      {
        auto& src = as<KDVB, D, I>(sb);
        // the blocked range constructor has no checks of its own: never call it out of range
        if(n == 0 || n + off > src.size()) bad("range: blocked range out of bounds");
        put<KDVB, D, I>(a, new DenseVectorBlocked<D, I, 2>(src, n, off), 1, sb.dt, sb.it);
      }
    });
  }
  else if(op == "clone")
  {
    int a = (int)c.i64(), b = (int)c.i64(), mode = (int)c.i64(); long long fill = c.i64();
    need_alive(b);
    if(a < 0 || a >= NSLOT) bad("clone: slot");
    if(mode < 0 || mode > 4) bad("clone: mode");
    Box& sb = slots[b]; Box& sa = slots[a];
    CloneMode cm = CloneMode(mode);
    bool fe = (cm == CloneMode::Allocate || cm == CloneMode::Layout), fi = (cm == CloneMode::Allocate);
    if(!sa.alive())
    {
      with_kind(sb.kind, [&](auto k) { with_di(sb.dt, sb.it, [&](auto dtag, auto itag)
      {
        typedef typename decltype(dtag)::type D; typedef typename decltype(itag)::type I;
        typedef typename decltype(k)::template type<D, I> T;
        T* p = new T(as<decltype(k), D, I>(sb).clone(cm));
        fill_arrays<D, I>(*p, fill, fe, fi);
        sa.obj = p; sa.kind = sb.kind; sa.dt = sb.dt; sa.it = sb.it;
      }); });
    }
    else
    {
      if(sa.kind != sb.kind) bad("clone: kind mismatch");
      with_kind(sb.kind, [&](auto k) { with_di(sb.dt, sb.it, [&](auto dtag, auto itag) { with_di(sa.dt, sa.it, [&](auto dtag2, auto itag2)
      {
        typedef typename decltype(dtag)::type D; typedef typename decltype(itag)::type I;
        typedef typename decltype(dtag2)::type D2; typedef typename decltype(itag2)::type I2;
        auto& dst = as<decltype(k), D2, I2>(sa);
        dst.clone(as<decltype(k), D, I>(sb), cm);
        fill_arrays<D2, I2>(dst, fill, fe, fi);
      }); }); });
    }
  }
  else if(op == "conv")
  {
    int a = (int)c.i64(), b = (int)c.i64(), dt = (int)c.i64(), it = (int)c.i64();
    need_alive(b);
    if(a < 0 || a >= NSLOT) bad("conv: slot");
    Box& sb = slots[b]; Box& sa = slots[a];
    if(sa.alive() && sa.kind != sb.kind) bad("conv: kind mismatch");
    if(!sa.alive())
    {
      with_kind(sb.kind, [&](auto k) { with_di(dt, it, [&](auto dtag, auto itag)
      {
        typedef typename decltype(dtag)::type D; typedef typename decltype(itag)::type I;
        sa.obj = new typename decltype(k)::template type<D, I>();
        sa.kind = sb.kind; sa.dt = dt; sa.it = it;
      }); });
    }
    with_kind(sb.kind, [&](auto k) { with_di(sb.dt, sb.it, [&](auto dtag, auto itag) { with_di(sa.dt, sa.it, [&](auto dtag2, auto itag2)
    {
      typedef typename decltype(dtag)::type D; typedef typename decltype(itag)::type I;
      typedef typename decltype(dtag2)::type D2; typedef typename decltype(itag2)::type I2;
      as<decltype(k), D2, I2>(sa).convert(as<decltype(k), D, I>(sb));
    }); }); });
  }
  else if(op == "xconv")
  {
    int a = (int)c.i64(), b = (int)c.i64();
    need_alive(b);
    if(a < 0 || a >= NSLOT) bad("xconv: slot");
    Box& sb = slots[b]; Box& sa = slots[a];
    if(sb.kind > 1) bad("xconv: kind");
    if(sa.alive() && (sa.kind != 1 - sb.kind || sa.dt != sb.dt || sa.it != sb.it)) bad("xconv: type mismatch");
    with_di(sb.dt, sb.it, [&](auto dtag, auto itag)
    {
      typedef typename decltype(dtag)::type D; typedef typename decltype(itag)::type I;
      if(sb.kind == 0)
      {
        if(!sa.alive()) { sa.obj = new DenseVectorBlocked<D, I, 2>(); sa.kind = 1; sa.dt = sb.dt; sa.it = sb.it; }
        as<KDVB, D, I>(sa).convert(as<KDV, D, I>(sb));
      }
      else
      {
        if(!sa.alive()) { sa.obj = new DenseVector<D, I>(); sa.kind = 0; sa.dt = sb.dt; sa.it = sb.it; }
        as<KDV, D, I>(sa).convert(as<KDVB, D, I>(sb));
      }
    });
  }
  else if(op == "move")
  {
    int a = (int)c.i64(), b = (int)c.i64();
    need_alive(b);
    if(a < 0 || a >= NSLOT) bad("move: slot");
    Box& sb = slots[b]; Box& sa = slots[a];
    if(sa.alive() && (sa.kind != sb.kind || sa.dt != sb.dt || sa.it != sb.it)) bad("move: type mismatch");
    with_kind(sb.kind, [&](auto k) { with_di(sb.dt, sb.it, [&](auto dtag, auto itag)
    {
      typedef typename decltype(dtag)::type D; typedef typename decltype(itag)::type I;
      typedef typename decltype(k)::template type<D, I> T;
      T& src = as<decltype(k), D, I>(sb);
      if(!sa.alive()) { sa.obj = new T(std::move(src)); sa.kind = sb.kind; sa.dt = sb.dt; sa.it = sb.it; }
      else as<decltype(k), D, I>(sa) = std::move(src);
    }); });
  }
  else if(op == "copy")
  {
    int a = (int)c.i64(), b = (int)c.i64(), full = (int)c.i64();
    need_alive(a); need_alive(b);
    Box& sb = slots[b]; Box& sa = slots[a];
    if(sa.kind != sb.kind || sa.dt != sb.dt || sa.it != sb.it || sa.kind >= 7) bad("copy: type mismatch");
    with_kind(sb.kind, [&](auto k) { with_di(sb.dt, sb.it, [&](auto dtag, auto itag)
    {
      typedef typename decltype(dtag)::type D; typedef typename decltype(itag)::type I;
      if constexpr(HasCopy<decltype(k)>::value)
        as<decltype(k), D, I>(sa).copy(as<decltype(k), D, I>(sb), full != 0);
    }); });
  }
  else if(op == "clear")
  {
    int a = (int)c.i64(); need_alive(a);
    Box& sa = slots[a];
    with_kind(sa.kind, [&](auto k) { with_di(sa.dt, sa.it, [&](auto dtag, auto itag)
    {
      typedef typename decltype(dtag)::type D; typedef typename decltype(itag)::type I;
      as<decltype(k), D, I>(sa).clear();
    }); });
  }
  else if(op == "destroy")
  {
    int a = (int)c.i64(); need_alive(a);
    if(slots[a].comp >= 0) bad("destroy: component of a tuple");
    destroy_slot(a);
  }
  else if(op == "format")
  {
    int a = (int)c.i64(); long long v = c.i64(); need_alive(a);
    Box& sa = slots[a];
    with_kind(sa.kind, [&](auto k) { with_di(sa.dt, sa.it, [&](auto dtag, auto itag)
    {
      typedef typename decltype(dtag)::type D; typedef typename decltype(itag)::type I;
      as<decltype(k), D, I>(sa).format(D(v));
    }); });
  }
  else if(op == "write")
  {
    int a = (int)c.i64(), w = (int)c.i64(); Index j = c.idx(), i = c.idx(); long long v = c.i64(); need_alive(a);
    Box& sa = slots[a];
    with_kind(sa.kind, [&](auto k) { with_di(sa.dt, sa.it, [&](auto dtag, auto itag)
    {
      typedef typename decltype(dtag)::type D; typedef typename decltype(itag)::type I;
      Container<D, I>& cc = as<decltype(k), D, I>(sa);
      if(w == 0)
      {
        if(j >= cc.get_elements().size() || i >= cc.get_elements_size().at(j) || cc.get_elements()[j] == nullptr) bad("write: position");
        cc.get_elements()[j][i] = D(v);
      }
      else
      {
        if(j >= cc.get_indices().size() || i >= cc.get_indices_size().at(j) || cc.get_indices()[j] == nullptr) bad("write: position");
        cc.get_indices()[j][i] = I(v);
      }
    }); });
  }
  else if(op == "lay")
  {
    int l = (int)c.i64(), a = (int)c.i64(); need_alive(a);
    if(l < 0 || l >= NLAY) bad("lay: slot");
    Box& sa = slots[a]; LBox& sl = lays[l];
    if(sa.kind < 2 || sa.kind > 6 || sa.kind == 5) bad("lay: kind");
    int lk = (sa.kind == 4) ? 1 : (sa.kind == 6) ? 2 : 0;
    if(sl.alive() && (sl.lk != lk || sl.it != sa.it)) bad("lay: type mismatch");
    with_kind(sa.kind, [&](auto k) { with_di(sa.dt, sa.it, [&](auto dtag, auto itag)
    {
      typedef typename decltype(dtag)::type D; typedef typename decltype(itag)::type I;
      typedef typename decltype(k)::template type<D, I> T;
      if constexpr(HasLayout<decltype(k)>::value)
      {
        typedef SparseLayout<I, T::layout_id> LT;
        T& m = as<decltype(k), D, I>(sa);
        if(!sl.alive()) { sl.obj = new LT(m.layout()); sl.lk = lk; sl.it = sa.it; }
        else *static_cast<LT*>(sl.obj) = m.layout();
      }
    }); });
  }
  else if(op == "mlay")
  {
    int a = (int)c.i64(), l = (int)c.i64(), k0 = (int)c.i64(), dt0 = (int)c.i64(); long long fill = c.i64();
    if(l < 0 || l >= NLAY || !lays[l].alive()) bad("mlay: layout");
    if(a < 0 || a >= NSLOT) bad("mlay: slot");
    LBox& sl = lays[l]; Box& sa = slots[a];
    bool fresh = !sa.alive();
    int kind = fresh ? k0 : sa.kind, dt = fresh ? dt0 : sa.dt;
    if(kind < 2 || kind > 6 || kind == 5 || ((kind == 4) ? 1 : (kind == 6) ? 2 : 0) != sl.lk) bad("mlay: kind mismatch");
    if(!fresh && sa.it != sl.it) bad("mlay: index type mismatch");
    with_kind(kind, [&](auto k) { with_di(dt, sl.it, [&](auto dtag, auto itag)
    {
      typedef typename decltype(dtag)::type D; typedef typename decltype(itag)::type I;
      typedef typename decltype(k)::template type<D, I> T;
      if constexpr(HasLayout<decltype(k)>::value)
      {
        typedef SparseLayout<I, T::layout_id> LT;
        LT& L = *static_cast<LT*>(sl.obj);
        if(fresh) { sa.obj = new T(L); sa.kind = kind; sa.dt = dt; sa.it = sl.it; }
        else as<decltype(k), D, I>(sa) = L;
        fill_arrays<D, I>(as<decltype(k), D, I>(sa), fill, true, false);
      }
    }); });
  }
  else if(op == "lmove")
  {
    // SparseLayout special members: move construction into a free layout slot, move assignment onto a live one
    int d = (int)c.i64(), src = (int)c.i64();
    if(d < 0 || d >= NLAY || src < 0 || src >= NLAY || !lays[src].alive()) bad("lmove: layout");
    LBox& ls = lays[src]; LBox& ld = lays[d];
    if(ld.alive() && d != src && (ld.lk != ls.lk || ld.it != ls.it)) bad("lmove: type mismatch");
    with_it(ls.it, [&](auto itag)
    {
      typedef typename decltype(itag)::type I;
      auto go = [&](auto* dummy)
      {
        typedef typename std::remove_pointer<decltype(dummy)>::type LT;
        LT& S = *static_cast<LT*>(ls.obj);
        if(!ld.alive()) { ld.obj = new LT(std::move(S)); ld.lk = ls.lk; ld.it = ls.it; }
        else *static_cast<LT*>(ld.obj) = std::move(S);
      };
      if(ls.lk == 0) go((SparseLayout<I, SparseLayoutId::lt_csr>*)nullptr);
      else if(ls.lk == 2) go((SparseLayout<I, SparseLayoutId::lt_cscr>*)nullptr);
      else go((SparseLayout<I, SparseLayoutId::lt_banded>*)nullptr);
    });
  }
  else if(op == "lvec")
  {
    // every live layout travels through a std::vector (push_back + reallocations = move constructions of the stored
    // objects) or through a by-value class member, and back into its slot
    int k = (int)c.i64();
    for(int l = 0; l < NLAY; ++l)
    {
      LBox& b = lays[l];
      if(!b.alive()) continue;
      with_it(b.it, [&](auto itag)
      {
        typedef typename decltype(itag)::type I;
        auto go = [&](auto* dummy)
        {
          typedef typename std::remove_pointer<decltype(dummy)>::type LT;
          LT*& P = reinterpret_cast<LT*&>(b.obj);
          if(k == 0)
          {
            std::vector<LT> v;
            v.push_back(LT());
            v.push_back(std::move(*P));
            for(int r = 0; r < 5; ++r) v.push_back(LT());   // reallocations move the stored layouts
            *P = std::move(v[1]);                           // move assignment onto the moved-from object
          }
          else
          {
            struct Holder { LT lay; explicit Holder(LT&& x) : lay(std::move(x)) {} };
            Holder h(std::move(*P));
            Holder h2(std::move(h.lay));
            delete P;
            P = new LT(std::move(h2.lay));
          }
        };
        if(b.lk == 0) go((SparseLayout<I, SparseLayoutId::lt_csr>*)nullptr);
        else if(b.lk == 2) go((SparseLayout<I, SparseLayoutId::lt_cscr>*)nullptr);
        else go((SparseLayout<I, SparseLayoutId::lt_banded>*)nullptr);
      });
    }
  }
  else if(op == "ldrop")
  {
    int l = (int)c.i64();
    if(l < 0 || l >= NLAY || !lays[l].alive()) bad("ldrop: layout");
    destroy_layout(l);
  }
  else if(op == "T2")
  {
    // one operation of the real TupleVector<DenseVector, DenseVector>; the line spells out the two component
    // operations it must be equivalent to (the model executes exactly those two)
    int t = (int)c.i64();
    if(t < 0 || t >= NTUP) bad("T2: tuple index");
    struct COp { std::string name; std::vector<long long> a; };
    auto arity = [](const std::string& n) -> int { return n == "new" ? 6 : n == "clone" ? 4 : n == "move" ? 2 : n == "clear" ? 1
      : n == "format" ? 2 : n == "copy" ? 3 : n == "destroy" ? 1 : -1; };
    COp o[2];
    for(int k = 0; k < 2; ++k)
    {
      o[k].name = c.str();
      int ar = arity(o[k].name);
      if(ar < 0) bad("T2: op");
      for(int j = 0; j < ar; ++j) o[k].a.push_back(c.i64());
    }
    if(o[0].name != o[1].name) bad("T2: component ops differ");
    const std::string& nm = o[0].name;
    TBox& ta = tups[t];
    auto find_tuple = [&](int s0, int s1) -> int
    {
      for(int k = 0; k < NTUP; ++k) if(tups[k].alive() && tups[k].s0 == s0 && tups[k].s1 == s1) return k;
      return -1;
    };
    auto reg = [&](TBox& tb, int tidx, int s0, int s1, int dt, int it, void* c0, void* c1)
    {
      tb.s0 = s0; tb.s1 = s1; tb.dt = dt; tb.it = it;
      slots[s0].obj = c0; slots[s0].kind = 0; slots[s0].dt = dt; slots[s0].it = it; slots[s0].comp = tidx;
      slots[s1].obj = c1; slots[s1].kind = 0; slots[s1].dt = dt; slots[s1].it = it; slots[s1].comp = tidx;
    };
    int a0 = (int)o[0].a[0], a1 = (int)o[1].a[0];
    if(a0 < 0 || a0 >= NSLOT || a1 < 0 || a1 >= NSLOT || a0 == a1) bad("T2: slots");
    if(ta.alive() ? (ta.s0 != a0 || ta.s1 != a1) : (slots[a0].alive() || slots[a1].alive())) bad("T2: target slots");
    int dt = ta.alive() ? ta.dt : 0, it = ta.alive() ? ta.it : 0, tb_idx = -1;
    if(nm == "new") { dt = (int)o[0].a[2]; it = (int)o[0].a[3]; if(ta.alive() || o[0].a[1] != 0 || o[1].a[1] != 0 || o[1].a[2] != dt || o[1].a[3] != it) bad("T2: new"); }
    if(nm == "clone" || nm == "move" || nm == "copy")
    {
      tb_idx = find_tuple((int)o[0].a[1], (int)o[1].a[1]);
      if(tb_idx < 0) bad("T2: source is not a tuple");
      if(ta.alive() && (ta.dt != tups[tb_idx].dt || ta.it != tups[tb_idx].it)) bad("T2: types");
      dt = tups[tb_idx].dt; it = tups[tb_idx].it;
    }
    if(!ta.alive() && !(nm == "new" || nm == "clone" || nm == "move")) bad("T2: dead tuple");
    with_di(dt, it, [&](auto dtag, auto itag)
    {
      typedef typename decltype(dtag)::type D; typedef typename decltype(itag)::type I;
      typedef DenseVector<D, I> V; typedef TupleVector<V, V> TV;
      TV* pa = static_cast<TV*>(ta.obj);
      TV* pb = tb_idx >= 0 ? static_cast<TV*>(tups[tb_idx].obj) : nullptr;
      if(nm == "new")
      {
        pa = new TV(V(Index(o[0].a[4]), D(o[0].a[5])), V(Index(o[1].a[4]), D(o[1].a[5])));
        fill_arrays<D, I>(pa->template at<0>(), o[0].a[5], true, false);
        fill_arrays<D, I>(pa->template at<1>(), o[1].a[5], true, false);
      }
      else if(nm == "clone")
      {
        if(o[0].a[2] != o[1].a[2] || o[0].a[2] < 0 || o[0].a[2] > 4) bad("T2: clone mode");
        CloneMode cm = CloneMode((int)o[0].a[2]);
        if(pa == nullptr) pa = new TV(pb->clone(cm)); else pa->clone(*pb, cm);
        bool fe = (cm == CloneMode::Allocate || cm == CloneMode::Layout);
        fill_arrays<D, I>(pa->template at<0>(), o[0].a[3], fe, false);
        fill_arrays<D, I>(pa->template at<1>(), o[1].a[3], fe, false);
      }
      else if(nm == "move") { if(pa == nullptr) pa = new TV(std::move(*pb)); else *pa = std::move(*pb); }
      else if(nm == "clear") pa->clear();
      else if(nm == "format") { if(o[0].a[1] != o[1].a[1]) bad("T2: format value"); pa->format(D(o[0].a[1])); }
      else if(nm == "copy") { if(o[0].a[2] != o[1].a[2]) bad("T2: copy flag"); pa->copy(*pb, o[0].a[2] != 0); }
      else if(nm == "destroy")
      {
        delete pa; pa = nullptr;
        slots[a0] = Box(); slots[a1] = Box(); ta = TBox();
      }
      if(pa != nullptr)
      {
        ta.obj = pa;
        reg(ta, t, a0, a1, dt, it, &pa->template at<0>(), &pa->template at<1>());
      }
    });
  }
  else if(op == "end")
  {
    o << " ; END " << MemoryPool::allocated_memory() << " " << pool().size();
    o.flush();
    // the real shutdown check: exits with status 1 if the pool still holds chunks (its message goes to the
    // process's stdout, which is the runner's result channel - send it to /dev/null in this forked child)
    std::cout.flush();
    { int fd = ::open("/dev/null", O_WRONLY); if(fd >= 0) { ::dup2(fd, 1); ::close(fd); } }
    MemoryPool::finalize();
    o << " FIN";
    return false;
  }
  else
    bad("unknown op " + op);
  return true;
}

static void handle(const verif::Tokens& t, std::ostream& o)
{
  Cur c(t);
  if(!c.done() && t[0] == "SLOTS")
  {
    c.str();
    int n = (int)c.i64();
    NSLOT = (n >= 1 && n <= MAXSLOT) ? n : 8;
  }
  o << "H";
  try
  {
    while(!c.done())
    {
      if(!do_op(c, o)) break;
      snapshot(o);
    }
  }
  catch(const BadOp& e)
  {
    o << " ; BAD-OP";
  }
}

int main(int argc, char** argv)
{
  return verif::run_cases(argc, argv, handle);
}
