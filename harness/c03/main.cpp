// C03 harness: executes the real matrix-level operations of LAFEM::SparseMatrixCSR / SparseMatrixBCSR at the exact
// rational scalar Q, one case per line (the model driver FeatModel/Driver/C03.lean reads the same lines).
//
//   csr  IT        OP args          bcsr IT BH BW  OP args
//
// a matrix M is  rows cols L(rowPtr) L(colInd) L(val)   (BCSR: rows/cols count blocks, val is the pod array);
// a matrix without stored entries (L(val) empty) is built as the array-less `Mat(rows, cols)`.
//
//   axpy M(this) M(x) alpha alias        this <- this + alpha x   (alias = 1: x is *this, M(x) is ignored)   -> V
//   scale M(this) M(x) alpha alias       this <- alpha x                                                     -> V
//   scale_rows|scale_cols M(this) M(x) L(s) alias                                                           -> V
//   mm   M(X) M(D) M(B) alpha allow      X.add_mat_mat_product(D, B, alpha, allow)                           -> V | ABORT
//   dmm  M(X) M(D) M(A) M(B) alpha allow X.add_double_mat_product(D, A, B, alpha, allow)                     -> V | ABORT
//   dgm  M(X) M(D) L(a) M(B) alpha allow X.add_double_mat_product(D, a, B, alpha, allow)   (CSR only)        -> V | ABORT
//   dmm_csr M(X) Mcsr(D) M(A) Mcsr(B) alpha allow   (BCSR only: CSR * BCSR * CSR)                           -> V | ABORT
//   lump M | rownorm2 M | rownorm2sqr M | rownorm2sqr_s M L(scal)                                            -> V
//   diag M                               extract_diag  (CSR: values and extract_diag_indices)                -> V [I]
//   frob M | maxabs M | minabs M | max M | min M                                                            -> S
//   shrink M eps   (CSR only)                                                                               -> M
//
// Output:  "V n v_1 .. v_n"  (value array of the result matrix / the result vector),  "S v",
//          "V n .. I n i_1 .. i_n" (diag),  "M rows cols L(rowPtr) L(colInd) L(val)" (shrink; entry-free: "M r c 0 0 0")
#include <forkcase.hpp>
#include <exact_q.hpp>
#include <kernel/lafem/dense_vector.hpp>
#include <kernel/lafem/dense_vector_blocked.hpp>
#include <kernel/lafem/sparse_matrix_csr.hpp>
#include <kernel/lafem/sparse_matrix_bcsr.hpp>

using namespace FEAT;
using namespace FEAT::LAFEM;
using verif::Cur;

typedef std::vector<Q> QV;
typedef std::vector<std::size_t> NV;

static QV qlist(Cur& c)
{
  std::size_t n = c.idx();
  QV v(n);
  for(auto& x : v) x = Q::parse(c.str());
  return v;
}

template<typename IT_>
static DenseVector<IT_, IT_> mk_ivec(const NV& v)
{
  DenseVector<IT_, IT_> r(Index(v.size()));
  for(Index i(0); i < Index(v.size()); ++i) r(i, IT_(v[i]));
  return r;
}

template<typename IT_>
static DenseVector<Q, IT_> mk_vec(const QV& v)
{
  DenseVector<Q, IT_> r(Index(v.size()));
  for(Index i(0); i < Index(v.size()); ++i) r(i, v[i]);
  return r;
}

template<typename IT_, int bs_>
static DenseVectorBlocked<Q, IT_, bs_> mk_bvec(const QV& v)
{
  DenseVectorBlocked<Q, IT_, bs_> r(Index(v.size()) / Index(bs_));
  Q* p = r.template elements<Perspective::pod>();
  for(std::size_t i(0); i < v.size(); ++i) p[i] = v[i];
  return r;
}

static void showV(std::ostream& o, const Q* p, Index n)
{
  o << "V " << n;
  for(Index i(0); i < n; ++i) o << " " << p[i];
}

template<typename Mat_>
static Mat_ read_mat(Cur& c)
{
  typedef typename Mat_::IndexType IT;
  Index rows = c.idx(), cols = c.idx();
  NV rp = c.idxlist(), ci = c.idxlist(); QV val = qlist(c);
  if(val.empty())
    return Mat_(rows, cols);
  auto vci = mk_ivec<IT>(ci); auto vrp = mk_ivec<IT>(rp); auto vv = mk_vec<IT>(val);
  return Mat_(rows, cols, vci, vv, vrp);
}

// ---------------------------------------------------------------------------------------------------------------
template<typename IT_>
static void do_csr(Cur& c, std::ostream& o)
{
  typedef SparseMatrixCSR<Q, IT_> Mat;
  std::string op = c.str();
  if(op == "axpy" || op == "scale")
  {
    Mat t(read_mat<Mat>(c)); Mat x(read_mat<Mat>(c));
    Q alpha = Q::parse(c.str()); bool alias = (c.idx() != 0);
    if(op == "axpy") { if(alias) t.axpy(t, alpha); else t.axpy(x, alpha); }
    else { if(alias) t.scale(t, alpha); else t.scale(x, alpha); }
    showV(o, t.val(), t.used_elements());
  }
  else if(op == "scale_rows" || op == "scale_cols")
  {
    Mat t(read_mat<Mat>(c)); Mat x(read_mat<Mat>(c));
    DenseVector<Q, IT_> s(mk_vec<IT_>(qlist(c))); bool alias = (c.idx() != 0);
    if(op == "scale_rows") { if(alias) t.scale_rows(t, s); else t.scale_rows(x, s); }
    else { if(alias) t.scale_cols(t, s); else t.scale_cols(x, s); }
    showV(o, t.val(), t.used_elements());
  }
  else if(op == "mm")
  {
    Mat x(read_mat<Mat>(c)); Mat d(read_mat<Mat>(c)); Mat b(read_mat<Mat>(c));
    Q alpha = Q::parse(c.str()); bool allow = (c.idx() != 0);
    x.add_mat_mat_product(d, b, alpha, allow);
    showV(o, x.val(), x.used_elements());
  }
  else if(op == "dmm")
  {
    Mat x(read_mat<Mat>(c)); Mat d(read_mat<Mat>(c)); Mat a(read_mat<Mat>(c)); Mat b(read_mat<Mat>(c));
    Q alpha = Q::parse(c.str()); bool allow = (c.idx() != 0);
    x.add_double_mat_product(d, a, b, alpha, allow);
    showV(o, x.val(), x.used_elements());
  }
  else if(op == "dgm")
  {
    Mat x(read_mat<Mat>(c)); Mat d(read_mat<Mat>(c)); DenseVector<Q, IT_> a(mk_vec<IT_>(qlist(c))); Mat b(read_mat<Mat>(c));
    Q alpha = Q::parse(c.str()); bool allow = (c.idx() != 0);
    x.add_double_mat_product(d, a, b, alpha, allow);
    showV(o, x.val(), x.used_elements());
  }
  else if(op == "lump" || op == "rownorm2" || op == "rownorm2sqr")
  {
    Mat a(read_mat<Mat>(c));
    DenseVector<Q, IT_> r(a.rows(), Q(777));
    if(op == "lump") a.lump_rows(r); else if(op == "rownorm2") a.row_norm2(r); else a.row_norm2sqr(r);
    showV(o, r.elements(), r.size());
  }
  else if(op == "rownorm2sqr_s")
  {
    Mat a(read_mat<Mat>(c)); DenseVector<Q, IT_> s(mk_vec<IT_>(qlist(c)));
    DenseVector<Q, IT_> r(a.rows(), Q(777));
    a.row_norm2sqr(r, s);
    showV(o, r.elements(), r.size());
  }
  else if(op == "diag")
  {
    Mat a(read_mat<Mat>(c));
    DenseVector<Q, IT_> r(a.rows(), Q(777));
    a.extract_diag(r);
    DenseVector<IT_, IT_> di(a.extract_diag_indices());
    showV(o, r.elements(), r.size());
    o << " I " << di.size();
    for(Index i(0); i < di.size(); ++i) o << " " << std::size_t(di.elements()[i]);
  }
  else if(op == "frob" || op == "maxabs" || op == "minabs" || op == "max" || op == "min")
  {
    Mat a(read_mat<Mat>(c));
    Q r = (op == "frob") ? a.norm_frobenius() : (op == "maxabs") ? a.max_abs_element() : (op == "minabs") ? a.min_abs_element()
      : (op == "max") ? a.max_element() : a.min_element();
    o << "S " << r;
  }
  else if(op == "shrink")
  {
    Mat a(read_mat<Mat>(c)); Q eps = Q::parse(c.str());
    a.shrink(eps);
    o << "M " << a.rows() << " " << a.columns();
    if(a.used_elements() == Index(0)) { o << " 0 0 0"; return; }
    o << " " << a.rows() + 1;
    for(Index i(0); i <= a.rows(); ++i) o << " " << std::size_t(a.row_ptr()[i]);
    o << " " << a.used_elements();
    for(Index i(0); i < a.used_elements(); ++i) o << " " << std::size_t(a.col_ind()[i]);
    o << " " << a.used_elements();
    for(Index i(0); i < a.used_elements(); ++i) o << " " << a.val()[i];
  }
  else
    o << "BAD-OP";
}

// ---------------------------------------------------------------------------------------------------------------
template<typename IT_, int BH_, int BW_>
static void do_bcsr_b(Cur& c, std::ostream& o)
{
  typedef SparseMatrixBCSR<Q, IT_, BH_, BW_> Mat;
  typedef SparseMatrixCSR<Q, IT_> CMat;
  std::string op = c.str();
  auto pod = [](Mat& m) { return m.template val<Perspective::pod>(); };
  auto npod = [](Mat& m) { return m.template used_elements<Perspective::pod>(); };
  if(op == "axpy" || op == "scale")
  {
    Mat t(read_mat<Mat>(c)); Mat x(read_mat<Mat>(c));
    Q alpha = Q::parse(c.str()); bool alias = (c.idx() != 0);
    if(op == "axpy") { if(alias) t.axpy(t, alpha); else t.axpy(x, alpha); }
    else { if(alias) t.scale(t, alpha); else t.scale(x, alpha); }
    showV(o, pod(t), npod(t));
  }
  else if(op == "scale_rows")
  {
    Mat t(read_mat<Mat>(c)); Mat x(read_mat<Mat>(c));
    DenseVectorBlocked<Q, IT_, BH_> s(mk_bvec<IT_, BH_>(qlist(c))); bool alias = (c.idx() != 0);
    if(alias) t.scale_rows(t, s); else t.scale_rows(x, s);
    showV(o, pod(t), npod(t));
  }
  else if(op == "scale_cols")
  {
    Mat t(read_mat<Mat>(c)); Mat x(read_mat<Mat>(c));
    DenseVectorBlocked<Q, IT_, BW_> s(mk_bvec<IT_, BW_>(qlist(c))); bool alias = (c.idx() != 0);
    if(alias) t.scale_cols(t, s); else t.scale_cols(x, s);
    showV(o, pod(t), npod(t));
  }
  else if(op == "dmm")
  {
    if constexpr (BH_ == BW_)
    {
      Mat x(read_mat<Mat>(c)); Mat d(read_mat<Mat>(c)); Mat a(read_mat<Mat>(c)); Mat b(read_mat<Mat>(c));
      Q alpha = Q::parse(c.str()); bool allow = (c.idx() != 0);
      x.add_double_mat_product(d, a, b, alpha, allow);
      showV(o, pod(x), npod(x));
    }
    else o << "BAD-OP";
  }
  else if(op == "dmm_csr")
  {
    if constexpr (BH_ == BW_)
    {
      Mat x(read_mat<Mat>(c)); CMat d(read_mat<CMat>(c)); Mat a(read_mat<Mat>(c)); CMat b(read_mat<CMat>(c));
      Q alpha = Q::parse(c.str()); bool allow = (c.idx() != 0);
      x.add_double_mat_product(d, a, b, alpha, allow);
      showV(o, pod(x), npod(x));
    }
    else o << "BAD-OP";
  }
  else if(op == "lump" || op == "rownorm2" || op == "rownorm2sqr" || op == "diag")
  {
    Mat a(read_mat<Mat>(c));
    DenseVectorBlocked<Q, IT_, BH_> r(a.rows(), Q(777));
    if(op == "lump") a.lump_rows(r); else if(op == "rownorm2") a.row_norm2(r); else if(op == "rownorm2sqr") a.row_norm2sqr(r);
    else a.extract_diag(r);
    showV(o, r.template elements<Perspective::pod>(), r.template size<Perspective::pod>());
  }
  else if(op == "rownorm2sqr_s")
  {
    Mat a(read_mat<Mat>(c)); DenseVectorBlocked<Q, IT_, BW_> s(mk_bvec<IT_, BW_>(qlist(c)));
    DenseVectorBlocked<Q, IT_, BH_> r(a.rows(), Q(777));
    a.row_norm2sqr(r, s);
    showV(o, r.template elements<Perspective::pod>(), r.template size<Perspective::pod>());
  }
  else if(op == "frob" || op == "maxabs" || op == "minabs" || op == "max" || op == "min")
  {
    Mat a(read_mat<Mat>(c));
    Q r = (op == "frob") ? a.norm_frobenius() : (op == "maxabs") ? a.max_abs_element() : (op == "minabs") ? a.min_abs_element()
      : (op == "max") ? a.max_element() : a.min_element();
    o << "S " << r;
  }
  else
    o << "BAD-OP";
}

// ---------------------------------------------------------------------------------------------------------------
// double-precision conformance (supporting evidence for the sqrt clauses): `csrd IT frob|rownorm2 M`, the values of M
// are dyadic rationals that are exactly representable; output "D n <hex doubles>"
template<typename IT_>
static void do_csrd(Cur& c, std::ostream& o)
{
  typedef SparseMatrixCSR<double, IT_> Mat;
  std::string op = c.str();
  Index rows = c.idx(), cols = c.idx();
  NV rp = c.idxlist(), ci = c.idxlist(); QV val = qlist(c);
  if(val.empty()) { o << "BAD-OP"; return; }
  DenseVector<double, IT_> vv(Index(val.size()));
  for(Index i(0); i < Index(val.size()); ++i) vv(i, double(val[i]));
  auto vci = mk_ivec<IT_>(ci); auto vrp = mk_ivec<IT_>(rp);
  Mat a(rows, cols, vci, vv, vrp);
  char buf[64];
  if(op == "frob")
  {
    std::snprintf(buf, sizeof(buf), "%a", a.norm_frobenius());
    o << "D 1 " << buf;
  }
  else if(op == "rownorm2")
  {
    DenseVector<double, IT_> r(a.rows(), 777.0);
    a.row_norm2(r);
    o << "D " << r.size();
    for(Index i(0); i < r.size(); ++i) { std::snprintf(buf, sizeof(buf), "%a", r(i)); o << " " << buf; }
  }
  else
    o << "BAD-OP";
}

template<typename IT_>
static void do_bcsr(Cur& c, std::ostream& o)
{
  Index bh = c.idx(), bw = c.idx();
  switch(bh * 10 + bw)
  {
  case 22: do_bcsr_b<IT_, 2, 2>(c, o); break;
  case 33: do_bcsr_b<IT_, 3, 3>(c, o); break;
  case 23: do_bcsr_b<IT_, 2, 3>(c, o); break;
  case 32: do_bcsr_b<IT_, 3, 2>(c, o); break;
  default: o << "BAD-OP";
  }
}

static void handle(const verif::Tokens& tk, std::ostream& o)
{
  Cur c(tk);
  std::string fmt = c.str();
  Index it = c.idx();
  if(it != 32 && it != 64) { o << "BAD-OP"; return; }
  if(fmt == "csr") { if(it == 32) do_csr<std::uint32_t>(c, o); else do_csr<std::uint64_t>(c, o); }
  else if(fmt == "bcsr") { if(it == 32) do_bcsr<std::uint32_t>(c, o); else do_bcsr<std::uint64_t>(c, o); }
  else if(fmt == "csrd") { if(it == 32) do_csrd<std::uint32_t>(c, o); else do_csrd<std::uint64_t>(c, o); }
  else o << "BAD-OP";
}

int main(int argc, char** argv)
{
  return verif::run_cases(argc, argv, handle);
}
