// C10 harness: executes the real FEAT refinement code on one case per line (see FeatModel/Driver/C10.lean)
//   refine <s|h> <dim> <depth> <mesh> <nparts> <part>*
//     -> RootMeshNode::refine_unique (StandardRefinery<ConformalMesh>, StandardRefinery<MeshPart> for mesh parts and
//        halos), ConformalMesh::fill_neighbors (FacetNeighbors), BoundaryFactory on every level
//   sampler <s|h> <cd> <src> <trg>  -> CongruencySampler::compare + CongruencyMapping::map
#include <forkcase.hpp>
#include <exact_q.hpp>
#include <kernel/geometry/conformal_mesh.hpp>
#include <kernel/geometry/mesh_part.hpp>
#include <kernel/geometry/mesh_node.hpp>
#include <kernel/geometry/boundary_factory.hpp>
#include <kernel/geometry/intern/congruency_sampler.hpp>
#include <kernel/geometry/intern/congruency_mapping.hpp>

using namespace FEAT;
using namespace FEAT::Geometry;
using verif::Cur;

// ---- compile-time loops over all index sets <c,f>, c = 1..dim, f = 0..c-1 (c ascending, f ascending) ----
template<typename Shape_, int c_ = Shape_::dimension, int f_ = c_ - 1>
struct IdxIO
{
  template<typename ISH_> static void read(ISH_& h, Cur& cur)
  {
    IdxIO<Shape_, c_, f_ - 1>::read(h, cur);
    auto& is = h.template get_index_set<c_, f_>();
    for(Index i(0); i < is.get_num_entities(); ++i)
      for(int j(0); j < is.num_indices; ++j)
        is[i][j] = Index(cur.idx());
  }
  template<typename ISH_> static void write(const ISH_& h, std::ostream& o)
  {
    IdxIO<Shape_, c_, f_ - 1>::write(h, o);
    const auto& is = h.template get_index_set<c_, f_>();
    for(Index i(0); i < is.get_num_entities(); ++i)
      for(int j(0); j < is.num_indices; ++j)
        o << " " << is[i][j];
  }
};
template<typename Shape_, int c_>
struct IdxIO<Shape_, c_, -1>
{
  template<typename ISH_> static void read(ISH_& h, Cur& cur) { IdxIO<Shape_, c_ - 1, c_ - 2>::read(h, cur); }
  template<typename ISH_> static void write(const ISH_& h, std::ostream& o) { IdxIO<Shape_, c_ - 1, c_ - 2>::write(h, o); }
};
template<typename Shape_>
struct IdxIO<Shape_, 0, -1>
{
  template<typename ISH_> static void read(ISH_&, Cur&) {}
  template<typename ISH_> static void write(const ISH_&, std::ostream&) {}
};

// ---- target sets 0..d_ ----
template<int d_>
struct TrgIO
{
  template<typename Part_> static void fill(Part_& p, const std::vector<std::vector<std::size_t>>& t)
  {
    TrgIO<d_ - 1>::fill(p, t);
    auto& ts = p.template get_target_set<d_>();
    for(Index i(0); i < ts.get_num_entities(); ++i) ts[i] = Index(t[d_][i]);
  }
  template<typename Part_> static void write(const Part_& p, std::ostream& o, int upto)
  {
    TrgIO<d_ - 1>::write(p, o, upto);
    if(d_ > upto) return;
    const auto& ts = p.template get_target_set<d_>();
    o << " " << ts.get_num_entities();
    for(Index i(0); i < ts.get_num_entities(); ++i) o << " " << ts[i];
  }
};
template<>
struct TrgIO<-1>
{
  template<typename Part_> static void fill(Part_&, const std::vector<std::vector<std::size_t>>&) {}
  template<typename Part_> static void write(const Part_&, std::ostream&, int) {}
};

template<typename Shape_>
struct Run
{
  static constexpr int dim = Shape_::dimension;
  typedef ConformalMesh<Shape_, dim, Q> MeshType;
  typedef MeshPart<MeshType> PartType;
  typedef RootMeshNode<MeshType> NodeType;

  struct PartRef { bool halo; int rank; String name; Index nchild; };

  // <m|h> <topo> <targets per dim> [topology] <nattr:0|1> [values] <nchildren>
  static std::unique_ptr<PartType> read_part(Cur& c, std::string& what, Index& nchild)
  {
    what = c.str();
    Index topo = Index(c.idx());
    std::vector<std::vector<std::size_t>> t;
    Index pn[dim + 1];
    for(int d(0); d <= dim; ++d) { t.push_back(c.idxlist()); pn[d] = Index(t.back().size()); }
    std::unique_ptr<PartType> part(new PartType(pn, topo != 0));
    TrgIO<dim>::fill(*part, t);
    if(topo != 0)
      IdxIO<Shape_>::read(*part->get_topology(), c);
    Index na = Index(c.idx());
    if(na != 0)
    {
      std::unique_ptr<typename PartType::AttributeSetType> at(new typename PartType::AttributeSetType(pn[0], 1));
      for(Index i(0); i < pn[0]; ++i) (*at)(i, 0) = Q::parse(c.str());
      part->add_attribute(std::move(at), "a");
    }
    nchild = Index(c.idx());
    return part;
  }

  static void show_part(const PartType* p, std::ostream& o)
  {
    if(p == nullptr) { o << " MISSING"; return; }
    o << (p->has_topology() ? " T" : " S");
    TrgIO<dim>::write(*p, o, dim);
    if(p->has_topology())
      IdxIO<Shape_>::write(*p->get_topology(), o);
    const auto* at = p->find_attribute("a");
    if(at == nullptr) o << " A 0";
    else
    {
      o << " A " << at->get_num_values();
      for(Index i(0); i < at->get_num_values(); ++i) o << " " << Q((*at)(i, 0)).str();
    }
  }

  static void show_level(const NodeType& node, const std::vector<PartRef>& refs, std::ostream& o)
  {
    const MeshType& m = *node.get_mesh();
    o << "L";
    for(int d(0); d <= dim; ++d) o << " " << m.get_num_entities(d);
    o << " V";
    const auto& vs = m.get_vertex_set();
    for(Index i(0); i < vs.get_num_vertices(); ++i)
      for(int d(0); d < dim; ++d)
        o << " " << Q(vs[i][d]).str();
    o << " I";
    IdxIO<Shape_>::write(m.get_index_set_holder(), o);
    o << " N";
    const auto& nb = m.get_neighbors();
    for(Index i(0); i < nb.get_num_entities(); ++i)
      for(int j(0); j < nb.num_indices; ++j)
      {
        if(nb[i][j] == ~Index(0)) o << " -1"; else o << " " << nb[i][j];
      }
    o << " B";
    {
      BoundaryFactory<MeshType> bf(m);
      PartType bp(bf);
      TrgIO<dim>::write(bp, o, dim - 1);
    }
    o << " P " << refs.size();
    for(const auto& r : refs)
    {
      const PartType* p = r.halo ? node.get_halo(r.rank) : node.find_mesh_part(r.name);
      show_part(p, o);
      o << " C " << r.nchild;
      if(!r.halo && r.nchild > 0)
      {
        const auto* pnode = node.find_mesh_part_node(r.name);
        for(Index j(0); j < r.nchild; ++j)
        {
          show_part(pnode == nullptr ? nullptr : pnode->find_mesh_part("c" + stringify(j)), o);
          o << " C 0";
        }
      }
    }
  }

  static void refine(Cur& c, std::ostream& o, Index depth)
  {
    Index nums[dim + 1];
    for(int d(0); d <= dim; ++d) nums[d] = Index(c.idx());
    std::unique_ptr<MeshType> mesh(new MeshType(nums));
    auto& vs = mesh->get_vertex_set();
    for(Index i(0); i < nums[0]; ++i)
      for(int d(0); d < dim; ++d)
        vs[i][d] = Q::parse(c.str());
    IdxIO<Shape_>::read(mesh->get_index_set_holder(), c);
    std::unique_ptr<NodeType> node = NodeType::make_unique(std::move(mesh));
    Index np = Index(c.idx());
    std::vector<PartRef> refs;
    for(Index k(0); k < np; ++k)
    {
      std::string what;
      Index nchild = 0;
      std::unique_ptr<PartType> part = read_part(c, what, nchild);
      PartRef r; r.halo = (what == "h"); r.rank = int(k); r.name = "p" + stringify(k); r.nchild = nchild;
      if(r.halo)
      {
        if(nchild != 0) { o << "BAD-OP"; return; }
        node->add_halo(r.rank, std::move(part));
      }
      else
      {
        // mesh parts are attached to the mesh-node TREE; their child parts hang below the part's node
        auto* pnode = node->add_mesh_part(r.name, std::move(part));
        for(Index j(0); j < nchild; ++j)
        {
          std::string w2; Index n2 = 0;
          std::unique_ptr<PartType> child = read_part(c, w2, n2);
          if(n2 != 0) { o << "BAD-OP"; return; }
          pnode->add_mesh_part("c" + stringify(j), std::move(child));
        }
      }
      refs.push_back(r);
    }
    for(Index l(0); l < depth; ++l)
    {
      std::unique_ptr<NodeType> fine = node->refine_unique();
      if(l > 0) o << " ";
      show_level(*fine, refs, o);
      node = std::move(fine);
    }
  }
};

template<typename Shape_>
static void sampler(Cur& c, std::ostream& o)
{
  auto s = c.idxlist(); auto t = c.idxlist();
  std::vector<Index> src(s.begin(), s.end()), trg(t.begin(), t.end());
  int code = Geometry::Intern::CongruencySampler<Shape_>::compare(src, trg);
  o << "O " << code;
  if(code < 0) { o << " 0 0"; return; }
  o << " " << trg.size();
  for(std::size_t j(0); j < trg.size(); ++j) o << " " << Geometry::Intern::CongruencyMapping<Shape_, 0>::map(code, int(j));
  if(Shape_::dimension == 2)
  {
    const int ne = Shape::FaceTraits<Shape_, 1>::count;
    o << " " << ne;
    for(int j(0); j < ne; ++j) o << " " << Geometry::Intern::CongruencyMapping<Shape_, (Shape_::dimension == 2 ? 1 : 0)>::map(code, j);
  }
  else
    o << " 0";
}

static void handle(const verif::Tokens& t, std::ostream& o)
{
  Cur c(t);
  std::string op = c.str();
  if(op == "refine")
  {
    std::string kind = c.str();
    Index dim = Index(c.idx()), depth = Index(c.idx());
    if(kind == "s" && dim == 1) Run<Shape::Simplex<1>>::refine(c, o, depth);
    else if(kind == "s" && dim == 2) Run<Shape::Simplex<2>>::refine(c, o, depth);
    else if(kind == "s" && dim == 3) Run<Shape::Simplex<3>>::refine(c, o, depth);
    else if(kind == "h" && dim == 1) Run<Shape::Hypercube<1>>::refine(c, o, depth);
    else if(kind == "h" && dim == 2) Run<Shape::Hypercube<2>>::refine(c, o, depth);
    else if(kind == "h" && dim == 3) Run<Shape::Hypercube<3>>::refine(c, o, depth);
    else o << "BAD-OP";
  }
  else if(op == "sampler")
  {
    std::string kind = c.str();
    Index cd = Index(c.idx());
    if(kind == "s" && cd == 1) sampler<Shape::Simplex<1>>(c, o);
    else if(kind == "s" && cd == 2) sampler<Shape::Simplex<2>>(c, o);
    else if(kind == "h" && cd == 1) sampler<Shape::Hypercube<1>>(c, o);
    else if(kind == "h" && cd == 2) sampler<Shape::Hypercube<2>>(c, o);
    else o << "BAD-OP";
  }
  else
    o << "BAD-OP";
}

int main(int argc, char** argv)
{
  return verif::run_cases(argc, argv, handle);
}
