// C08 harness: runs the REAL stationary preconditioners of kernel/solver at the exact rational scalar Q,
// one case per line (protocol: see lean/FeatModel/Driver/C08.lean).
//
//   hist KIND P OMEGA n L(rowPtr) L(colInd) L(val) L(fidx) nsteps STEP*      (SparseMatrixCSR<Q, Index>, UnitFilter)
//         KIND in jac | sor | ssor | poly | ilu | mat;  STEP in S | N | D | A L(x) | U L(val)
//   iluf P n L(rowPtr) L(colInd) L(val) L(b)                                  (Intern::ILUCoreScalar members directly)
//   scale OMEGA L(fidx) L(x)       diag L(d) L(fidx) L(x)
//   histb BS KIND P OMEGA n L(rowPtr) L(colInd) L(val) L(fidx) nsteps STEP*   (SparseMatrixBCSR<Q, Index, BS, BS>,
//         UnitFilterBlocked; values / vectors in pod order; KIND in jac | sor | ssor | ilu | mat; no model counterpart)
//
// Output: one "R n y_1 .. y_n U<0|1>" per apply step (U1 = input vector and all matrix arrays are unchanged by the
// apply), "NONE" for a history without apply; XABORT / XASSERT / Q division by zero / exceptions come out of
// forkcase.hpp as ABORT:.. / EXC:..
#include <forkcase.hpp>
#include <exact_q.hpp>
// Math::isnan is only declared generically (UnitFilterBlocked asks for it); a rational is never NaN.
// exact_q.hpp defines VERIF_Q_HAS_ISNAN once it provides the specialisation itself.
#ifndef VERIF_Q_HAS_ISNAN
namespace FEAT { namespace Math { template<> inline bool isnan<Q>(Q) { return false; } } }
#endif
#include <kernel/lafem/dense_vector.hpp>
#include <kernel/lafem/dense_vector_blocked.hpp>
#include <kernel/lafem/sparse_matrix_csr.hpp>
#include <kernel/lafem/sparse_matrix_bcsr.hpp>
#include <kernel/lafem/unit_filter.hpp>
#include <kernel/lafem/unit_filter_blocked.hpp>
#include <kernel/lafem/none_filter.hpp>
#include <kernel/lafem/mean_filter.hpp>
#include <kernel/lafem/slip_filter.hpp>
#include <kernel/solver/base.hpp>
#include <kernel/solver/jacobi_precond.hpp>
#include <kernel/solver/sor_precond.hpp>
#include <kernel/solver/ssor_precond.hpp>
#include <kernel/solver/ilu_precond.hpp>
#include <kernel/solver/polynomial_precond.hpp>
#include <kernel/solver/scale_precond.hpp>
#include <kernel/solver/diagonal_precond.hpp>
#include <kernel/solver/matrix_precond.hpp>
#include <memory>
#include <map>

using namespace FEAT;
using namespace FEAT::LAFEM;
using verif::Cur;

typedef std::vector<Q> QV;
typedef std::vector<std::size_t> NV;

static const long long SENTINEL = 777;

static QV qlist(Cur& c)
{
  std::size_t n = c.idx();
  QV v(n);
  for(auto& x : v) x = Q::parse(c.str());
  return v;
}

static DenseVector<Index, Index> mk_ivec(const NV& v)
{
  DenseVector<Index, Index> r(Index(v.size()));
  for(Index i(0); i < Index(v.size()); ++i) r(i, Index(v[i]));
  return r;
}

static DenseVector<Q, Index> mk_vec(const QV& v)
{
  DenseVector<Q, Index> r(Index(v.size()));
  for(Index i(0); i < Index(v.size()); ++i) r(i, v[i]);
  return r;
}

static bool same(const Q* p, const QV& v)
{
  for(std::size_t i(0); i < v.size(); ++i) if(!(p[i] == v[i])) return false;
  return true;
}

static bool same(const Index* p, const NV& v)
{
  for(std::size_t i(0); i < v.size(); ++i) if(std::size_t(p[i]) != v[i]) return false;
  return true;
}

static void show(std::ostream& o, const Q* p, Index n, bool unchanged, bool& first)
{
  if(!first) o << " ";
  first = false;
  o << "R " << n;
  for(Index i(0); i < n; ++i) o << " " << p[i];
  o << (unchanged ? " U1" : " U0");
}

static void show_q(std::ostream& o, const QV& v) { o << v.size(); for(auto& x : v) o << " " << x; }
static void show_n(std::ostream& o, const std::vector<Index>& v) { o << v.size(); for(auto& x : v) o << " " << x; }

// ----------------------------------------------------------------------------------------------------------------
// scalar histories.  Filter descriptor (after the matrix): "k i_1 .. i_k" | "unit k i_1 .. i_k"  UnitFilter,
//   "none"  NoneFilter,  "mean L(prim) L(dual)"  MeanFilter(prim, dual)
// Steps: S init_symbolic | N init_numeric | E done_numeric | D done_numeric + done_symbolic | U L(val) new values |
//        A L(x) apply(y, x) | I L(x) apply(v, v) in place (U flag = the matrix arrays are unchanged)
// Kinds: jac sor ssor poly ilu mat scale diag (diag: DiagonalPrecond on the value array of the "matrix")
// ----------------------------------------------------------------------------------------------------------------
typedef SparseMatrixCSR<Q, Index> CSR;
typedef DenseVector<Q, Index> Vec;
typedef UnitFilter<Q, Index> UFilter;

template<typename Filter_>
static std::shared_ptr<Solver::SolverBase<Vec>> make_solver(const std::string& kind, long long p, Q omega, const CSR& a,
  const Vec& dvec, const Filter_& f)
{
  if(kind == "jac") return Solver::new_jacobi_precond(a, f, omega);
  if(kind == "sor") return Solver::new_sor_precond(PreferredBackend::generic, a, f, omega);
  if(kind == "ssor") return Solver::new_ssor_precond(PreferredBackend::generic, a, f, omega);
  if(kind == "poly") return Solver::new_polynomial_precond(a, f, Index(p), omega);
  if(kind == "ilu") return Solver::new_ilu_precond(PreferredBackend::generic, a, f, int(p));
  if(kind == "mat") return Solver::new_matrix_precond(a, f);
  if(kind == "scale") return std::make_shared<Solver::ScalePrecond<Vec, Filter_>>(f, omega);
  if(kind == "diag") return Solver::new_diagonal_precond(dvec, f);
  std::cerr << "\n>>> FATAL ERROR: harness: unknown kind\n"; std::abort();
}

struct HistHead
{
  std::string kind; long long p; Q omega; Index n; NV rp, ci; QV val;
  explicit HistHead(Cur& c)
  {
    kind = c.str(); p = c.i64(); omega = Q::parse(c.str()); n = c.idx();
    rp = c.idxlist(); ci = c.idxlist(); val = qlist(c);
  }
};

template<typename Filter_>
static void run_hist(Cur& c, std::ostream& o, HistHead& h, const Filter_& filter)
{
  auto vci = mk_ivec(h.ci); auto vrp = mk_ivec(h.rp); auto vv = mk_vec(h.val);
  CSR a(h.n, h.n, vci, vv, vrp);
  Vec dvec(mk_vec(h.val));   // the vector of the diagonal preconditioner (kind diag only)
  bool is_diag = (h.kind == "diag");
  auto solver = make_solver(h.kind, h.p, h.omega, a, dvec, filter);
  std::size_t nsteps = c.idx();
  bool first = true;
  QV& val = h.val;
  for(std::size_t s = 0; s < nsteps; ++s)
  {
    std::string st = c.str();
    if(st == "S") solver->init_symbolic();
    else if(st == "N") solver->init_numeric();
    else if(st == "E") solver->done_numeric();
    else if(st == "D") { solver->done_numeric(); solver->done_symbolic(); }
    else if(st == "U")
    {
      val = qlist(c);
      Q* pv = is_diag ? dvec.elements() : a.val();
      std::size_t lim = is_diag ? std::size_t(dvec.size()) : std::size_t(a.used_elements());
      for(std::size_t k = 0; k < val.size() && k < lim; ++k) pv[k] = val[k];
    }
    else if(st == "A" || st == "I")
    {
      QV x = qlist(c);
      Vec vx(mk_vec(x));
      Vec vy(Index(x.size()), Q(SENTINEL));
      Solver::Status status = (st == "A") ? solver->apply(vy, vx) : solver->apply(vx, vx);
      if(status != Solver::Status::success) { o << " STATUS-NOT-SUCCESS"; return; }
      bool unchanged = (st == "I" || same(vx.elements(), x)) && same(is_diag ? dvec.elements() : a.val(), val)
        && same(a.col_ind(), h.ci) && same(a.row_ptr(), h.rp);
      show(o, (st == "A") ? vy.elements() : vx.elements(), Index(x.size()), unchanged, first);
    }
    else { std::cerr << "\n>>> FATAL ERROR: harness: unknown step\n"; std::abort(); }
  }
  if(first) o << "NONE";
}

static bool is_number(const std::string& s) { return !s.empty() && s[0] >= '0' && s[0] <= '9'; }

static void do_hist(Cur& c, std::ostream& o)
{
  HistHead h(c);
  std::string ft = is_number(c.t[c.p]) ? std::string("unit") : c.str();
  if(ft == "unit")
  {
    NV fidx = c.idxlist();
    UFilter filter(h.n);
    for(auto i : fidx) filter.add(Index(i), Q(5));
    run_hist(c, o, h, filter);
  }
  else if(ft == "none")
  {
    NoneFilter<Q, Index> filter;
    run_hist(c, o, h, filter);
  }
  else if(ft == "mean")
  {
    QV prim = qlist(c), dual = qlist(c);
    MeanFilter<Q, Index> filter(mk_vec(prim), mk_vec(dual));
    run_hist(c, o, h, filter);
  }
  else { std::cerr << "\n>>> FATAL ERROR: harness: unknown filter\n"; std::abort(); }
}

// ----------------------------------------------------------------------------------------------------------------
// ILU core, member by member (protected data reached through a derived class)
// ----------------------------------------------------------------------------------------------------------------
struct OpenIlu : public Solver::Intern::ILUCoreScalar<Q, Index>
{
  const std::vector<Index>& rpl() const { return this->_row_ptr_l; }
  const std::vector<Index>& cil() const { return this->_col_idx_l; }
  const std::vector<Index>& rpu() const { return this->_row_ptr_u; }
  const std::vector<Index>& ciu() const { return this->_col_idx_u; }
  const QV& dl() const { return this->_data_l; }
  const QV& du() const { return this->_data_u; }
  const QV& dd() const { return this->_data_d; }
};

static void do_iluf(Cur& c, std::ostream& o)
{
  long long p = c.i64();
  Index n = c.idx();
  NV rp = c.idxlist(), ci = c.idxlist(); QV val = qlist(c);
  QV b = qlist(c);
  std::vector<Index> vrp(rp.begin(), rp.end()), vci(ci.begin(), ci.end());
  OpenIlu ilu;
  ilu.set_struct_csr(n, vrp.data(), vci.data());
  ilu.factorize_symbolic(int(p));
  ilu.alloc_data();
  ilu.copy_data_csr(vrp.data(), vci.data(), val.data());
  ilu.factorize_numeric_il_du();
  QV y(b.size(), Q(SENTINEL));
  ilu.solve_il(y.data(), b.data());
  QV z(y);
  ilu.solve_du(z.data(), z.data());
  o << "F "; show_n(o, ilu.rpl()); o << " "; show_n(o, ilu.cil()); o << " "; show_n(o, ilu.rpu()); o << " "; show_n(o, ilu.ciu());
  o << " "; show_q(o, ilu.dl()); o << " "; show_q(o, ilu.du()); o << " "; show_q(o, ilu.dd());
  o << " Y "; show_q(o, y); o << " Z "; show_q(o, z);
}

// per-entry levels of the real symbolic factorisation, observed through the nested patterns: the level of (i, c) is the
// smallest p' in 0..P for which factorize_symbolic(p') stores it.   ilulev P n L(rowPtr) L(colInd)
// Output: "V" then per row "L(cols) L(levels)" (diagonal omitted, columns ascending)
static void do_ilulev(Cur& c, std::ostream& o)
{
  long long P = c.i64();
  Index n = c.idx();
  NV rp = c.idxlist(), ci = c.idxlist();
  std::vector<Index> vrp(rp.begin(), rp.end()), vci(ci.begin(), ci.end());
  std::vector<std::map<Index, long long>> lev(n);
  for(long long p = 0; p <= P; ++p)
  {
    OpenIlu ilu;
    ilu.set_struct_csr(n, vrp.data(), vci.data());
    ilu.factorize_symbolic(int(p));
    for(Index i = 0; i < n; ++i)
    {
      for(Index k = ilu.rpl()[i]; k < ilu.rpl()[i+1]; ++k) lev[i].insert(std::make_pair(ilu.cil()[k], p));
      for(Index k = ilu.rpu()[i]; k < ilu.rpu()[i+1]; ++k) lev[i].insert(std::make_pair(ilu.ciu()[k], p));
    }
  }
  o << "V";
  for(Index i = 0; i < n; ++i)
  {
    o << " " << lev[i].size();
    for(auto& e : lev[i]) o << " " << e.first;
    o << " " << lev[i].size();
    for(auto& e : lev[i]) o << " " << e.second;
  }
}

// ----------------------------------------------------------------------------------------------------------------
// blocked histories (oracle only)
// ----------------------------------------------------------------------------------------------------------------
// Blocked histories: filter descriptor "k i_1 .. i_k" | "unit k i.." UnitFilterBlocked, "none" NoneFilterBlocked,
// "slip k (i nu_1 .. nu_bs)*k" SlipFilter<bs>; kinds jac sor ssor ilu mat scale diag; steps as in the scalar case
template<int bs_>
struct Blk
{
  typedef SparseMatrixBCSR<Q, Index, bs_, bs_> Mat;
  typedef DenseVectorBlocked<Q, Index, bs_> BVec;
  typedef UnitFilterBlocked<Q, Index, bs_> BFilter;

  static BVec mk_bvec(const QV& v)
  {
    BVec r(Index(v.size()) / Index(bs_));
    Q* p = r.template elements<Perspective::pod>();
    for(std::size_t i(0); i < v.size(); ++i) p[i] = v[i];
    return r;
  }

  template<typename Filter_>
  static std::shared_ptr<Solver::SolverBase<BVec>> make_solver(const std::string& kind, long long p, Q omega, const Mat& a,
    const BVec& dvec, const Filter_& f)
  {
    if(kind == "jac") return Solver::new_jacobi_precond(a, f, omega);
    if(kind == "sor") return Solver::new_sor_precond(PreferredBackend::generic, a, f, omega);
    if(kind == "ssor") return Solver::new_ssor_precond(PreferredBackend::generic, a, f, omega);
    if(kind == "ilu") return Solver::new_ilu_precond(PreferredBackend::generic, a, f, int(p));
    if(kind == "mat") return Solver::new_matrix_precond(a, f);
    if(kind == "scale") return std::make_shared<Solver::ScalePrecond<BVec, Filter_>>(f, omega);
    if(kind == "diag") return Solver::new_diagonal_precond(dvec, f);
    std::cerr << "\n>>> FATAL ERROR: harness: unknown kind\n"; std::abort();
  }

  template<typename Filter_>
  static void run_with(Cur& c, std::ostream& o, HistHead& h, QV& dval, const Filter_& filter)
  {
    auto vci = mk_ivec(h.ci); auto vrp = mk_ivec(h.rp);
    auto vv = mk_vec(h.val);
    Mat a(h.n, h.n, vci, vv, vrp);
    bool is_diag = (h.kind == "diag");
    // kind diag: the vector of the diagonal preconditioner is the first n*bs values
    BVec dvec(mk_bvec(QV(h.val.begin(), h.val.begin() + std::min(h.val.size(), std::size_t(h.n) * bs_))));
    dval = QV(h.val.begin(), h.val.begin() + std::min(h.val.size(), std::size_t(h.n) * bs_));
    auto solver = make_solver(h.kind, h.p, h.omega, a, dvec, filter);
    std::size_t nsteps = c.idx();
    bool first = true;
    QV& val = h.val;
    for(std::size_t s = 0; s < nsteps; ++s)
    {
      std::string st = c.str();
      if(st == "S") solver->init_symbolic();
      else if(st == "N") solver->init_numeric();
      else if(st == "E") solver->done_numeric();
      else if(st == "D") { solver->done_numeric(); solver->done_symbolic(); }
      else if(st == "U")
      {
        val = qlist(c);
        Q* pv = a.template val<Perspective::pod>();
        for(std::size_t k = 0; k < val.size(); ++k) pv[k] = val[k];
        Q* pd = dvec.template elements<Perspective::pod>();
        for(std::size_t k = 0; k < dval.size() && k < val.size(); ++k) { pd[k] = val[k]; dval[k] = val[k]; }
      }
      else if(st == "A" || st == "I")
      {
        QV x = qlist(c);
        BVec vx(mk_bvec(x));
        BVec vy(Index(x.size()) / Index(bs_), Q(SENTINEL));
        Solver::Status status = (st == "A") ? solver->apply(vy, vx) : solver->apply(vx, vx);
        if(status != Solver::Status::success) { o << " STATUS-NOT-SUCCESS"; return; }
        bool unchanged = (st == "I" || same(vx.template elements<Perspective::pod>(), x))
          && same(a.template val<Perspective::pod>(), val) && same(a.col_ind(), h.ci) && same(a.row_ptr(), h.rp)
          && (!is_diag || same(dvec.template elements<Perspective::pod>(), dval));
        show(o, (st == "A") ? vy.template elements<Perspective::pod>() : vx.template elements<Perspective::pod>(),
          Index(x.size()), unchanged, first);
      }
      else { std::cerr << "\n>>> FATAL ERROR: harness: unknown step\n"; std::abort(); }
    }
    if(first) o << "NONE";
  }

  // block sizes 4..7 (Tiny inverse: closed formulas up to 6x6, generic elimination from 7x7 on): unit filter only
  static void run_lite(Cur& c, std::ostream& o)
  {
    HistHead h(c);
    QV dval;
    std::string ft = is_number(c.t[c.p]) ? std::string("unit") : c.str();
    if(ft != "unit") { std::cerr << "\n>>> FATAL ERROR: harness: filter not instantiated for this block size\n"; std::abort(); }
    NV fidx = c.idxlist();
    BFilter filter(h.n);
    for(auto i : fidx) { Tiny::Vector<Q, bs_> t(Q(5)); filter.add(Index(i), t); }
    run_with(c, o, h, dval, filter);
  }

  static void run(Cur& c, std::ostream& o)
  {
    HistHead h(c);
    QV dval;
    std::string ft = is_number(c.t[c.p]) ? std::string("unit") : c.str();
    if(ft == "unit")
    {
      NV fidx = c.idxlist();
      BFilter filter(h.n);
      for(auto i : fidx) { Tiny::Vector<Q, bs_> t(Q(5)); filter.add(Index(i), t); }
      run_with(c, o, h, dval, filter);
    }
    else if(ft == "none")
    {
      NoneFilterBlocked<Q, Index, bs_> filter;
      run_with(c, o, h, dval, filter);
    }
    else if(ft == "slip")
    {
      std::size_t k = c.idx();
      SlipFilter<Q, Index, bs_> filter(h.n, h.n);
      for(std::size_t e = 0; e < k; ++e)
      {
        Index i = c.idx();
        Tiny::Vector<Q, bs_> nu;
        for(int d = 0; d < bs_; ++d) nu[d] = Q::parse(c.str());
        filter.add(i, nu);
      }
      run_with(c, o, h, dval, filter);
    }
    else { std::cerr << "\n>>> FATAL ERROR: harness: unknown filter\n"; std::abort(); }
  }
};

static void handle(const verif::Tokens& t, std::ostream& o)
{
  Cur c(t);
  std::string op = c.str();
  if(op == "hist") do_hist(c, o);
  else if(op == "iluf") do_iluf(c, o);
  else if(op == "ilulev") do_ilulev(c, o);
  else if(op == "histb")
  {
    Index bs = c.idx();
    if(bs == 2) Blk<2>::run(c, o);
    else if(bs == 3) Blk<3>::run(c, o);
    else if(bs == 4) Blk<4>::run_lite(c, o);
    else if(bs == 5) Blk<5>::run_lite(c, o);
    else if(bs == 6) Blk<6>::run_lite(c, o);
    else if(bs == 7) Blk<7>::run_lite(c, o);
    else o << "BAD-OP";
  }
  else if(op == "scale")
  {
    Q omega = Q::parse(c.str());
    NV fidx = c.idxlist(); QV x = qlist(c);
    UFilter filter(Index(x.size()));
    for(auto i : fidx) filter.add(Index(i), Q(5));
    auto solver = Solver::new_scale_precond(filter, omega);
    Vec vx(mk_vec(x)); Vec vy(Index(x.size()), Q(SENTINEL));
    solver->init();
    solver->apply(vy, vx);
    solver->done();
    bool first = true;
    show(o, vy.elements(), vy.size(), same(vx.elements(), x), first);
  }
  else if(op == "diag")
  {
    QV d = qlist(c);
    NV fidx = c.idxlist(); QV x = qlist(c);
    UFilter filter(Index(x.size()));
    for(auto i : fidx) filter.add(Index(i), Q(5));
    Vec vd(mk_vec(d));
    auto solver = Solver::new_diagonal_precond(vd, filter);
    Vec vx(mk_vec(x)); Vec vy(Index(x.size()), Q(SENTINEL));
    solver->init();
    solver->apply(vy, vx);
    solver->done();
    bool first = true;
    show(o, vy.elements(), vy.size(), same(vx.elements(), x) && same(vd.elements(), d), first);
  }
  else
    o << "BAD-OP";
}

int main(int argc, char** argv)
{
  return verif::run_cases(argc, argv, handle);
}
