// C06 harness: executes the real LAFEM filters of /repo at the exact rational scalar Q, one case per line
// (the same lines are read by FeatModel/Driver/C06.lean).
//
//   vec  MODE SIG <filter> <vector>                         MODE in {rhs, sol, def, cor}
//   gvec MODE SIG <filter> <vector>                         the same through Global::Filter<F, VectorMirror> / Global::Vector
//   gmean MODE comm n prim^n dual^n nf freq^nf D n x^n      Global::MeanFilter(prim, dual, freq, comm ? &world : nullptr)
//   mat  KIND SIG <filter> rows cols L(rowPtr) L(colInd) L(val) [L(valM)]      KIND in {mat, offdiag, weak}  (CSR)
//   matb KIND BS BW <filter> rows cols L(rowPtr) L(colInd) L(val) [L(valM)]    UnitFilterBlocked<BS> on BCSR<BS,BW>
//   matb offdiag 1 BW <filter U> rows cols ...                                 UnitFilter on BCSR<1,BW>
//
//   <filter> ::= U a n k (i v)*k            a = 0: UnitFilter(n) + add(i, v) in this order; a = 1: UnitFilter(n, values, indices)
//              | UB b a ign n k (i v^b)*k   UnitFilterBlocked<b>, ign = ignore_nans; a value token "nan" is the NaN marker
//              | S b n k (i nu^b)*k         SlipFilter<b>(n, n) + add
//              | M c n prim^n dual^n sol vol            c = 0: (prim, dual, sol) ctor, c = 1: (prim, dual, sol, vol) ctor, c = 2: MeanFilter()
//              | MB b c n prim^(nb) dual^(nb) sol^b vol^b
//              | N | NB b
//              | C m F1..Fm  (FilterChain) | Q m F1..Fm (FilterSequence) | T m F1..Fm (TupleFilter) | P m F1..Fm (PowerFilter)
//   <vector> ::= D n x^n | B b n x^(nb) | T m V1..Vm | P m V1..Vm
//   SIG = the C++ type of the filter (the harness offers a fixed menu of compositions), e.g. "C(U,M)", "T(U,UB2)", "P2(U)".
//
// Output:  vec:  "R <leaves> R2 <leaves>"   vector after the first / second application; every leaf as "n x1 .. xn" (pod order)
//          mat:  "A L(val) A2 L(val)"       value array after the first / second application
#include <forkcase.hpp>
#include <exact_q.hpp>

// ---- NaN marker for the exact scalar: Math::isnan<T_> has no generic definition, so the harness supplies the one for Q.
// One designated value plays the role of NaN (only ever used as a *filter value*), which makes the ignore_nans
// branches of UnitFilterBlocked executable at Q.
static inline const mpq_class& q_nan_value() { static mpq_class v(mpq_class(-987654321L, 1) / mpq_class(1234567L, 1)); return v; }
namespace FEAT { namespace Math {
  template<typename T_> bool isnan(T_ x);
  template<> inline bool isnan<Q>(Q x) { return x.v() == q_nan_value(); }
}}

#include <kernel/lafem/dense_vector.hpp>
#include <kernel/lafem/dense_vector_blocked.hpp>
#include <kernel/lafem/tuple_vector.hpp>
#include <kernel/lafem/power_vector.hpp>
#include <kernel/lafem/sparse_matrix_csr.hpp>
#include <kernel/lafem/sparse_matrix_bcsr.hpp>
#include <kernel/lafem/unit_filter.hpp>
#include <kernel/lafem/unit_filter_blocked.hpp>
#include <kernel/lafem/slip_filter.hpp>
#include <kernel/lafem/mean_filter.hpp>
#include <kernel/lafem/mean_filter_blocked.hpp>
#include <kernel/lafem/none_filter.hpp>
#include <kernel/lafem/filter_chain.hpp>
#include <kernel/lafem/filter_sequence.hpp>
#include <kernel/lafem/tuple_filter.hpp>
#include <kernel/lafem/power_filter.hpp>
#include <kernel/lafem/vector_mirror.hpp>
#include <kernel/util/dist.hpp>
// the exact scalar travels through the (serial, in-place) allreduce of Global::MeanFilter as its 64-bit handle
namespace FEAT { namespace Dist { template<> inline const Datatype& autotype<Q>() { return dt_unsigned_long_long; } } }
#include <kernel/global/vector.hpp>
#include <kernel/global/filter.hpp>
#include <kernel/global/mean_filter.hpp>
#include <map>

using namespace FEAT;
using namespace FEAT::LAFEM;
using verif::Cur;

typedef DenseVector<Q, Index> DV;
template<int b_> using DB = DenseVectorBlocked<Q, Index, b_>;
typedef UnitFilter<Q, Index> U;
typedef MeanFilter<Q, Index> M;
typedef NoneFilter<Q, Index> N;
template<int b_> using UB = UnitFilterBlocked<Q, Index, b_>;
template<int b_> using S = SlipFilter<Q, Index, b_>;
template<int b_> using MB = MeanFilterBlocked<Q, Index, b_>;
template<int b_> using NB = NoneFilterBlocked<Q, Index, b_>;

[[noreturn]] static void bad(const std::string& why)
{
  std::cerr << "\n>>> FATAL ERROR: harness: " << why << "\n";
  std::abort();
}
static void expect(Cur& c, const std::string& s) { std::string t = c.str(); if(t != s) bad("expected token " + s + " got " + t); }
static Q qtok(Cur& c) { const std::string& s = c.str(); if(s == "nan") return Q(q_nan_value()); return Q::parse(s); }
static std::string qshow(Q x) { if(x.v() == q_nan_value()) return "nan"; return x.str(); }

static DV mk_dv(Cur& c, Index n) { DV v(n); Q* p = v.elements(); for(Index i(0); i < n; ++i) p[i] = qtok(c); return v; }
template<int b_> static DB<b_> mk_db(Cur& c, Index n)
{
  DB<b_> v(n); Q* p = v.template elements<Perspective::pod>(); for(Index i(0); i < n * Index(b_); ++i) p[i] = qtok(c); return v;
}

// ------------------------------------------------------------------------------------------------------------------
// vectors: build from tokens, dump as leaves
// ------------------------------------------------------------------------------------------------------------------
static void build(Cur& c, DV& v) { expect(c, "D"); Index n = c.idx(); v = mk_dv(c, n); }
template<int b_> static void build(Cur& c, DB<b_>& v) { expect(c, "B"); expect(c, std::to_string(b_)); Index n = c.idx(); v = mk_db<b_>(c, n); }
template<typename First_, typename... Rest_> static void build_rest(Cur& c, TupleVector<First_, Rest_...>& v);
template<typename Sub_, int n_> static void build_rest(Cur& c, PowerVector<Sub_, n_>& v);
template<typename First_, typename... Rest_> static void build(Cur& c, TupleVector<First_, Rest_...>& v)
{
  expect(c, "T"); expect(c, std::to_string(1 + sizeof...(Rest_))); build_rest(c, v);
}
template<typename Sub_, int n_> static void build(Cur& c, PowerVector<Sub_, n_>& v)
{
  expect(c, "P"); expect(c, std::to_string(n_)); build_rest(c, v);
}
template<typename First_, typename... Rest_> static void build_rest(Cur& c, TupleVector<First_, Rest_...>& v)
{
  build(c, v.first());
  if constexpr (sizeof...(Rest_) > 0) build_rest(c, v.rest());
}
template<typename Sub_, int n_> static void build_rest(Cur& c, PowerVector<Sub_, n_>& v)
{
  build(c, v.first());
  if constexpr (n_ > 1) build_rest(c, v.rest());
}

static void dump(std::ostream& o, const DV& v) { o << " " << v.size(); const Q* p = v.elements(); for(Index i(0); i < v.size(); ++i) o << " " << qshow(p[i]); }
template<int b_> static void dump(std::ostream& o, const DB<b_>& v)
{
  const Index n = v.size() * Index(b_); o << " " << n; const Q* p = v.template elements<Perspective::pod>();
  for(Index i(0); i < n; ++i) o << " " << qshow(p[i]);
}
template<typename First_, typename... Rest_> static void dump(std::ostream& o, const TupleVector<First_, Rest_...>& v)
{
  dump(o, v.first());
  if constexpr (sizeof...(Rest_) > 0) dump(o, v.rest());
}
template<typename Sub_, int n_> static void dump(std::ostream& o, const PowerVector<Sub_, n_>& v)
{
  dump(o, v.first());
  if constexpr (n_ > 1) dump(o, v.rest());
}

// ------------------------------------------------------------------------------------------------------------------
// filters: build from tokens, type signature
// ------------------------------------------------------------------------------------------------------------------
static void build(Cur& c, U& f)
{
  expect(c, "U");
  Index a = c.idx(), n = c.idx(), k = c.idx();
  std::vector<Index> ix(k); std::vector<Q> vx(k);
  for(Index i(0); i < k; ++i) { ix[i] = c.idx(); vx[i] = qtok(c); }
  if(a == 0)
  {
    f = U(n);
    for(Index i(0); i < k; ++i) f.add(ix[i], vx[i]);
  }
  else
  {
    DenseVector<Q, Index> vals(k); DenseVector<Index, Index> idx(k);
    for(Index i(0); i < k; ++i) { vals(i, vx[i]); idx(i, ix[i]); }
    f = U(n, vals, idx);
  }
}
template<int b_> static void build(Cur& c, UB<b_>& f)
{
  expect(c, "UB"); expect(c, std::to_string(b_));
  Index a = c.idx(), ign = c.idx(), n = c.idx(), k = c.idx();
  std::vector<Index> ix(k); std::vector<Tiny::Vector<Q, b_>> vx(k);
  for(Index i(0); i < k; ++i) { ix[i] = c.idx(); for(int j(0); j < b_; ++j) vx[i][j] = qtok(c); }
  if(a == 0)
  {
    f = UB<b_>(n, ign != 0);
    for(Index i(0); i < k; ++i) f.add(ix[i], vx[i]);
  }
  else
  {
    DenseVectorBlocked<Q, Index, b_> vals(k); DenseVector<Index, Index> idx(k);
    for(Index i(0); i < k; ++i) { vals(i, vx[i]); idx(i, ix[i]); }
    f = UB<b_>(n, vals, idx);
    f.set_ignore_nans(ign != 0);
  }
}
template<int b_> static void build(Cur& c, S<b_>& f)
{
  expect(c, "S"); expect(c, std::to_string(b_));
  Index n = c.idx(), k = c.idx();
  f = S<b_>(n, n);
  for(Index i(0); i < k; ++i)
  {
    Index ix = c.idx(); Tiny::Vector<Q, b_> nu; for(int j(0); j < b_; ++j) nu[j] = qtok(c);
    f.add(ix, nu);
  }
}
static void build(Cur& c, M& f)
{
  expect(c, "M");
  Index ct = c.idx(), n = c.idx();
  DV prim = mk_dv(c, n), dual = mk_dv(c, n);
  Q sol = qtok(c), vol = qtok(c);
  if(ct == 0) f = M(std::move(prim), std::move(dual), sol);
  else if(ct == 1) f = M(std::move(prim), std::move(dual), sol, vol);
  else f = M();
}
template<int b_> static void build(Cur& c, MB<b_>& f)
{
  expect(c, "MB"); expect(c, std::to_string(b_));
  Index ct = c.idx(), n = c.idx();
  DB<b_> prim = mk_db<b_>(c, n), dual = mk_db<b_>(c, n);
  Tiny::Vector<Q, b_> sol, vol;
  for(int j(0); j < b_; ++j) sol[j] = qtok(c);
  for(int j(0); j < b_; ++j) vol[j] = qtok(c);
  if(ct == 0) f = MB<b_>(std::move(prim), std::move(dual), sol);
  else if(ct == 1) f = MB<b_>(std::move(prim), std::move(dual), sol, vol);
  else f = MB<b_>();
}
static void build(Cur& c, N&) { expect(c, "N"); }
template<int b_> static void build(Cur& c, NB<b_>&) { expect(c, "NB"); expect(c, std::to_string(b_)); }

template<typename First_, typename... Rest_> static void build(Cur& c, FilterChain<First_, Rest_...>& f);
template<typename F_> static void build(Cur& c, FilterSequence<F_>& f);
template<typename First_, typename... Rest_> static void build(Cur& c, TupleFilter<First_, Rest_...>& f);
template<typename F_, int n_> static void build(Cur& c, PowerFilter<F_, n_>& f);

template<typename First_, typename... Rest_> static void build_rest(Cur& c, FilterChain<First_, Rest_...>& f)
{
  build(c, f.first());
  if constexpr (sizeof...(Rest_) > 0) build_rest(c, f.rest());
}
template<typename First_, typename... Rest_> static void build_rest(Cur& c, TupleFilter<First_, Rest_...>& f)
{
  build(c, f.first());
  if constexpr (sizeof...(Rest_) > 0) build_rest(c, f.rest());
}
template<typename F_, int n_> static void build_rest(Cur& c, PowerFilter<F_, n_>& f)
{
  build(c, f.first());
  if constexpr (n_ > 1) build_rest(c, f.rest());
}
template<typename First_, typename... Rest_> static void build(Cur& c, FilterChain<First_, Rest_...>& f)
{
  expect(c, "C"); expect(c, std::to_string(1 + sizeof...(Rest_))); build_rest(c, f);
}
template<typename First_, typename... Rest_> static void build(Cur& c, TupleFilter<First_, Rest_...>& f)
{
  expect(c, "T"); expect(c, std::to_string(1 + sizeof...(Rest_))); build_rest(c, f);
}
template<typename F_, int n_> static void build(Cur& c, PowerFilter<F_, n_>& f)
{
  expect(c, "P"); expect(c, std::to_string(n_)); build_rest(c, f);
}
template<typename F_> static void build(Cur& c, FilterSequence<F_>& f)
{
  expect(c, "Q");
  Index m = c.idx();
  for(Index i(0); i < m; ++i)
  {
    F_& sub = f.find_or_add("f" + std::to_string(i));
    build(c, sub);
  }
}

template<typename F_> struct Sig;
template<> struct Sig<U> { static std::string s() { return "U"; } };
template<> struct Sig<M> { static std::string s() { return "M"; } };
template<> struct Sig<N> { static std::string s() { return "N"; } };
template<int b_> struct Sig<UB<b_>> { static std::string s() { return "UB" + std::to_string(b_); } };
template<int b_> struct Sig<S<b_>> { static std::string s() { return "S" + std::to_string(b_); } };
template<int b_> struct Sig<MB<b_>> { static std::string s() { return "MB" + std::to_string(b_); } };
template<int b_> struct Sig<NB<b_>> { static std::string s() { return "NB" + std::to_string(b_); } };
template<typename First_, typename... Rest_> struct SigList
{
  static std::string s() { if constexpr (sizeof...(Rest_) > 0) return Sig<First_>::s() + "," + SigList<Rest_...>::s(); else return Sig<First_>::s(); }
};
template<typename... F_> struct Sig<FilterChain<F_...>> { static std::string s() { return "C(" + SigList<F_...>::s() + ")"; } };
template<typename... F_> struct Sig<TupleFilter<F_...>> { static std::string s() { return "T(" + SigList<F_...>::s() + ")"; } };
template<typename F_> struct Sig<FilterSequence<F_>> { static std::string s() { return "Q(" + Sig<F_>::s() + ")"; } };
template<typename F_, int n_> struct Sig<PowerFilter<F_, n_>> { static std::string s() { return "P" + std::to_string(n_) + "(" + Sig<F_>::s() + ")"; } };

template<typename F_, typename V_> static void apply(const std::string& mode, const F_& f, V_& v)
{
  if(mode == "rhs") f.filter_rhs(v);
  else if(mode == "sol") f.filter_sol(v);
  else if(mode == "def") f.filter_def(v);
  else if(mode == "cor") f.filter_cor(v);
  else bad("unknown mode " + mode);
}

typedef std::function<void(Cur&, std::ostream&, const std::string&)> Run;
static std::map<std::string, Run>& vec_menu() { static std::map<std::string, Run> m; return m; }
static std::map<std::string, Run>& mat_menu() { static std::map<std::string, Run> m; return m; }

template<typename F_> static void run_vec(Cur& c, std::ostream& o, const std::string& mode)
{
  F_ f; build(c, f);
  typename F_::VectorType v; build(c, v);
  if(!c.done()) bad("trailing tokens");
  apply(mode, f, v);
  o << "R"; dump(o, v);
  apply(mode, f, v);
  o << " R2"; dump(o, v);
}
template<typename F_> static void reg_vec() { vec_menu()[Sig<F_>::s()] = run_vec<F_>; }

// Global::Filter<F, Mirror>: the local filter applied to the local vector of a Global::Vector (no gate needed)
static std::map<std::string, Run>& gvec_menu() { static std::map<std::string, Run> m; return m; }
template<typename F_> static void run_gvec(Cur& c, std::ostream& o, const std::string& mode)
{
  typedef VectorMirror<Q, Index> Mir;
  Global::Filter<F_, Mir> gf; build(c, gf.local());
  Global::Vector<typename F_::VectorType, Mir> gv; build(c, gv.local());
  if(!c.done()) bad("trailing tokens");
  apply(mode, gf, gv);
  o << "R"; dump(o, gv.local());
  apply(mode, gf, gv);
  o << " R2"; dump(o, gv.local());
}
template<typename F_> static void reg_gvec() { gvec_menu()[Sig<F_>::s()] = run_gvec<F_>; }

// Global::MeanFilter<Q, Index>(prim, dual, freq, comm):  gmean MODE comm n prim^n dual^n nf freq^nf D n x^n
static void run_gmean(Cur& c, std::ostream& o, const std::string& mode)
{
  Index use_comm = c.idx(), n = c.idx();
  DV prim = mk_dv(c, n), dual = mk_dv(c, n);
  Index nf = c.idx();
  DV freq = mk_dv(c, nf);
  DV v; build(c, v);
  if(!c.done()) bad("trailing tokens");
  Dist::Comm comm(Dist::Comm::world());
  Global::MeanFilter<Q, Index> f(std::move(prim), std::move(dual), std::move(freq), use_comm != 0 ? &comm : nullptr);
  apply(mode, f, v);
  o << "R"; dump(o, v);
  apply(mode, f, v);
  o << " R2"; dump(o, v);
}

// ------------------------------------------------------------------------------------------------------------------
// matrices
// ------------------------------------------------------------------------------------------------------------------
typedef std::vector<Q> QV;
typedef std::vector<Index> NV;
static QV qlist(Cur& c) { Index n = c.idx(); QV v(n); for(auto& x : v) x = qtok(c); return v; }
static NV nlist(Cur& c) { Index n = c.idx(); NV v(n); for(auto& x : v) x = c.idx(); return v; }
static DenseVector<Index, Index> mk_ivec(const NV& v) { DenseVector<Index, Index> r(Index(v.size())); for(Index i(0); i < Index(v.size()); ++i) r(i, v[i]); return r; }
static DenseVector<Q, Index> mk_qvec(const QV& v) { DenseVector<Q, Index> r(Index(v.size())); for(Index i(0); i < Index(v.size()); ++i) r(i, v[i]); return r; }
static void show_vals(std::ostream& o, const Q* p, Index n) { o << " " << n; for(Index i(0); i < n; ++i) o << " " << qshow(p[i]); }

template<typename Mat_> static Mat_ read_matrix(Cur& c, Index& nval)
{
  Index rows = c.idx(), cols = c.idx();
  NV rp = nlist(c), ci = nlist(c); QV val = qlist(c);
  nval = Index(val.size());
  if(val.empty())
  {
    // entry-free matrix: the array constructor asserts non-empty arrays and Mat(rows, cols) owns no row_ptr at all;
    // Mat(rows, cols, used_elements = 0) allocates row_ptr, which is filled here
    Mat_ a(rows, cols, Index(0));
    for(Index i(0); i < Index(rp.size()) && i <= rows; ++i) a.row_ptr()[i] = rp[i];
    return a;
  }
  auto vci = mk_ivec(ci); auto vrp = mk_ivec(rp); auto vv = mk_qvec(val);
  return Mat_(rows, cols, vci, vv, vrp);
}

template<typename F_> static void run_mat(Cur& c, std::ostream& o, const std::string& kind)
{
  typedef SparseMatrixCSR<Q, Index> Mat;
  F_ f; build(c, f);
  Index nval(0);
  Mat a = read_matrix<Mat>(c, nval);
  if constexpr (std::is_same<F_, U>::value)
  {
    if(kind == "weak")
    {
      QV vm = qlist(c);
      if(Index(vm.size()) != nval) bad("weak: value count");
      Mat m = a.clone(CloneMode::Layout);
      for(Index i(0); i < nval; ++i) m.val()[i] = vm[i];
      f.filter_weak_matrix_rows(a, m);
      o << "A"; show_vals(o, a.val(), nval);
      f.filter_weak_matrix_rows(a, m);
      o << " A2"; show_vals(o, a.val(), nval);
      return;
    }
    if(kind == "offdiag")
    {
      f.filter_offdiag_row_mat(a);
      o << "A"; show_vals(o, a.val(), nval);
      f.filter_offdiag_row_mat(a);
      o << " A2"; show_vals(o, a.val(), nval);
      return;
    }
  }
  if(kind != "mat") bad("unknown matrix operation " + kind);
  f.filter_mat(a);
  o << "A"; show_vals(o, a.val(), nval);
  f.filter_mat(a);
  o << " A2"; show_vals(o, a.val(), nval);
}
template<typename F_> static void reg_mat() { mat_menu()[Sig<F_>::s()] = run_mat<F_>; }

template<int bs_, int bw_> static void run_matb(Cur& c, std::ostream& o, const std::string& kind)
{
  typedef SparseMatrixBCSR<Q, Index, bs_, bw_> Mat;
  UB<bs_> f; build(c, f);
  Index nval(0);
  Mat a = read_matrix<Mat>(c, nval);
  auto pod = [&](Mat& x) { return x.template val<Perspective::pod>(); };
  if(kind == "weak")
  {
    QV vm = qlist(c);
    if(Index(vm.size()) != nval) bad("weak: value count");
    Mat m = a.clone(CloneMode::Layout);
    for(Index i(0); i < nval; ++i) pod(m)[i] = vm[i];
    f.filter_weak_matrix_rows(a, m);
    o << "A"; show_vals(o, pod(a), nval);
    f.filter_weak_matrix_rows(a, m);
    o << " A2"; show_vals(o, pod(a), nval);
  }
  else if(kind == "offdiag")
  {
    f.filter_offdiag_row_mat(a);
    o << "A"; show_vals(o, pod(a), nval);
    f.filter_offdiag_row_mat(a);
    o << " A2"; show_vals(o, pod(a), nval);
  }
  else if(kind == "mat")
  {
    f.filter_mat(a);
    o << "A"; show_vals(o, pod(a), nval);
    f.filter_mat(a);
    o << " A2"; show_vals(o, pod(a), nval);
  }
  else bad("unknown matrix operation " + kind);
}

// scalar UnitFilter on a BCSR matrix with block height 1
template<int bw_> static void run_matb1(Cur& c, std::ostream& o, const std::string& kind)
{
  typedef SparseMatrixBCSR<Q, Index, 1, bw_> Mat;
  if(kind != "offdiag") bad("only offdiag exists for block height 1");
  U f; build(c, f);
  Index nval(0);
  Mat a = read_matrix<Mat>(c, nval);
  f.filter_offdiag_row_mat(a);
  o << "A"; show_vals(o, a.template val<Perspective::pod>(), nval);
  f.filter_offdiag_row_mat(a);
  o << " A2"; show_vals(o, a.template val<Perspective::pod>(), nval);
}

// scalar UnitFilter on a BCSR matrix with block width 1 (documented no-op)
template<int bh_> static void run_matbh(Cur& c, std::ostream& o)
{
  typedef SparseMatrixBCSR<Q, Index, bh_, 1> Mat;
  U f; build(c, f);
  Index nval(0);
  Mat a = read_matrix<Mat>(c, nval);
  f.filter_offdiag_row_mat(a);
  o << "A"; show_vals(o, a.template val<Perspective::pod>(), nval);
  f.filter_offdiag_row_mat(a);
  o << " A2"; show_vals(o, a.template val<Perspective::pod>(), nval);
}

static void init_menus()
{
  // scalar family
  reg_vec<U>(); reg_vec<M>(); reg_vec<N>();
  reg_vec<FilterChain<U, U>>(); reg_vec<FilterChain<U, M>>(); reg_vec<FilterChain<M, U>>(); reg_vec<FilterChain<N, U>>();
  reg_vec<FilterChain<U, U, U, M>>();
  reg_vec<FilterSequence<U>>(); reg_vec<FilterSequence<FilterChain<U, M>>>(); reg_vec<FilterChain<FilterSequence<U>, M>>();
  // blocked family
  reg_vec<UB<2>>(); reg_vec<UB<3>>(); reg_vec<S<2>>(); reg_vec<S<3>>(); reg_vec<MB<2>>(); reg_vec<MB<3>>(); reg_vec<NB<2>>();
  reg_vec<FilterChain<S<2>, UB<2>>>(); reg_vec<FilterChain<UB<2>, S<2>>>(); reg_vec<FilterChain<UB<3>, MB<3>>>();
  reg_vec<FilterChain<UB<2>, MB<2>, S<2>>>();
  reg_vec<FilterSequence<UB<2>>>(); reg_vec<FilterSequence<S<3>>>();
  // tuple / power
  reg_vec<TupleFilter<U>>(); reg_vec<TupleFilter<U, UB<2>>>(); reg_vec<TupleFilter<M, S<2>, U>>();
  reg_vec<TupleFilter<FilterChain<U, M>, UB<3>>>(); reg_vec<TupleFilter<FilterSequence<U>, S<2>>>();
  reg_vec<PowerFilter<M, 1>>(); reg_vec<PowerFilter<U, 2>>(); reg_vec<PowerFilter<U, 3>>(); reg_vec<PowerFilter<UB<2>, 2>>();
  reg_vec<PowerFilter<FilterChain<U, M>, 2>>();
  reg_vec<TupleFilter<PowerFilter<U, 2>, M>>();
  // compositions whose members all have four different member functions (dispatch stream)
  typedef FilterChain<U, M> CUM;
  typedef FilterChain<UB<2>, MB<2>> CUMB;
  reg_vec<CUMB>();
  reg_vec<TupleFilter<CUM, CUM, CUM>>(); reg_vec<FilterChain<CUM, CUM, CUM>>(); reg_vec<PowerFilter<CUM, 3>>();
  reg_vec<TupleFilter<CUMB, CUM>>(); reg_vec<FilterSequence<CUMB>>();
  reg_vec<TupleFilter<CUM>>(); reg_vec<PowerFilter<CUM, 1>>();   // the one-element specialisations
  // Global::Filter wrappers
  reg_gvec<U>(); reg_gvec<M>(); reg_gvec<CUM>(); reg_gvec<UB<2>>(); reg_gvec<S<2>>(); reg_gvec<CUMB>();
  // matrices (CSR)
  reg_mat<U>(); reg_mat<M>(); reg_mat<N>();
  reg_mat<FilterChain<U, U>>(); reg_mat<FilterChain<U, M>>(); reg_mat<FilterChain<N, U>>(); reg_mat<FilterChain<U, U, U, M>>();
  reg_mat<FilterSequence<U>>();
}

static void handler(const verif::Tokens& tok, std::ostream& o)
{
  static bool init = false;
  if(!init) { init_menus(); init = true; }
  Cur c(tok);
  std::string op = c.str();
  if(op == "vec")
  {
    std::string mode = c.str(), sig = c.str();
    auto it = vec_menu().find(sig);
    if(it == vec_menu().end()) { o << "BAD-OP"; return; }
    it->second(c, o, mode);
  }
  else if(op == "gvec")
  {
    std::string mode = c.str(), sig = c.str();
    auto it = gvec_menu().find(sig);
    if(it == gvec_menu().end()) { o << "BAD-OP"; return; }
    it->second(c, o, mode);
  }
  else if(op == "gmean")
  {
    std::string mode = c.str();
    run_gmean(c, o, mode);
  }
  else if(op == "mat")
  {
    std::string kind = c.str(), sig = c.str();
    auto it = mat_menu().find(sig);
    if(it == mat_menu().end()) { o << "BAD-OP"; return; }
    it->second(c, o, kind);
  }
  else if(op == "matb")
  {
    std::string kind = c.str();
    Index bs = c.idx(), bw = c.idx();
    if(kind == "offdiagh")
    {
      // scalar UnitFilter, block height bs > 1, block width 1
      if(bw != 1) { o << "BAD-OP"; return; }
      if(bs == 2) run_matbh<2>(c, o); else if(bs == 3) run_matbh<3>(c, o); else o << "BAD-OP";
      return;
    }
    switch(bs * 10 + bw)
    {
    case 22: run_matb<2, 2>(c, o, kind); break;
    case 23: run_matb<2, 3>(c, o, kind); break;
    case 32: run_matb<3, 2>(c, o, kind); break;
    case 21: run_matb<2, 1>(c, o, kind); break;
    case 33: run_matb<3, 3>(c, o, kind); break;
    // (1,1) does not compile: UnitFilter::filter_offdiag_row_mat(BCSR<1,1>&) is an ambiguous overload
    case 12: run_matb1<2>(c, o, kind); break;
    case 13: run_matb1<3>(c, o, kind); break;
    default: o << "BAD-OP";
    }
  }
  else
    o << "BAD-OP";
}

int main(int argc, char** argv)
{
  return verif::run_cases(argc, argv, handler);
}
