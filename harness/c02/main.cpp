// C02 harness: executes chains of conversion / clone / transpose / permute / rebuild operations on the REAL LAFEM
// matrix containers at the exact rational scalar Q (one case per line; see FeatModel/Driver/C02.lean).
//
//   IT  <init>  nops  op_1 .. op_n
//   <init> :=  csr r c L(rowPtr) L(colInd) L(val)          (empty val: the entry-free matrix SparseMatrixCSR(r, c))
//           |  banded r c L(offsets) L(val)
//           |  bcsr bh bw r c L(rowPtr) L(colInd) L(podval)   (r, c count blocks; (bh,bw) in {22,23,32})
//           |  cscr r c L(rowPtr) L(colInd) L(val) L(rowNumbers)
//           |  dense r c L(val)
//   op     :=  tocsr | tobanded | tocscr | clone m (0 shallow,1 layout,2 weak,3 deep) | layout | graph
//           |  tr | tri | perm L(p) L(q) | it | dt
//
// Output: one segment for the initial matrix and one per operation, each
//   "| [K sv si w1 w2] <fmt> dims <raw arrays, length-prefixed> D <dense expansion through operator()(i,j)>"
// K (clone/layout only): sv/si = value / index arrays of result and source are the same memory,
// w1 = a write through the source's value array is visible in the result, w2 = vice versa.
#include <forkcase.hpp>
#include <exact_q.hpp>
#include <kernel/lafem/dense_vector.hpp>
#include <kernel/lafem/dense_vector_blocked.hpp>
#include <kernel/lafem/sparse_vector.hpp>
#include <kernel/lafem/sparse_matrix_csr.hpp>
#include <kernel/lafem/sparse_matrix_bcsr.hpp>
#include <kernel/lafem/sparse_matrix_cscr.hpp>
#include <kernel/lafem/sparse_matrix_banded.hpp>
#include <kernel/lafem/dense_matrix.hpp>
#include <kernel/adjacency/graph.hpp>
#include <kernel/adjacency/permutation.hpp>

using namespace FEAT;
using namespace FEAT::LAFEM;
using verif::Cur;

typedef std::vector<Q> QV;
typedef std::vector<std::size_t> NV;

static QV qlist(Cur& c)
{
  std::size_t n = c.idx();
  QV v(n);
  for(auto& x : v) x = Q::parse(c.str());
  return v;
}

template<typename IT_>
static DenseVector<IT_, IT_> mk_ivec(const NV& v)
{
  DenseVector<IT_, IT_> r(Index(v.size()));
  for(Index i(0); i < Index(v.size()); ++i) r(i, IT_(v[i]));
  return r;
}

template<typename IT_>
static DenseVector<Q, IT_> mk_vec(const QV& v)
{
  DenseVector<Q, IT_> r(Index(v.size()));
  for(Index i(0); i < Index(v.size()); ++i) r(i, v[i]);
  return r;
}

enum Fmt { F_CSR = 0, F_BANDED, F_CSCR, F_DENSE, F_B22, F_B23, F_B32 };

template<typename IT_>
struct St
{
  int fmt = F_CSR;
  SparseMatrixCSR<Q, IT_> csr;
  SparseMatrixBanded<Q, IT_> band;
  SparseMatrixCSCR<Q, IT_> cscr;
  DenseMatrix<Q, IT_> dense;
  SparseMatrixBCSR<Q, IT_, 2, 2> b22;
  SparseMatrixBCSR<Q, IT_, 2, 3> b23;
  SparseMatrixBCSR<Q, IT_, 3, 2> b32;
};

template<typename IT_, typename F_>
static void visit(St<IT_>& s, F_&& f)
{
  switch(s.fmt)
  {
  case F_CSR: f(s.csr); break;
  case F_BANDED: f(s.band); break;
  case F_CSCR: f(s.cscr); break;
  case F_DENSE: f(s.dense); break;
  case F_B22: f(s.b22); break;
  case F_B23: f(s.b23); break;
  case F_B32: f(s.b32); break;
  }
}

// ------------------------------------------------------------------------------------------------ dumps
template<typename T_>
static void out_arr(std::ostream& o, const T_* p, Index n)
{
  o << " " << n;
  for(Index i(0); i < n; ++i) o << " " << p[i];
}

template<typename M_>
static void out_raw(std::ostream& o, const M_& a, std::size_t ni, std::size_t ne)
{
  // ni index arrays, then ne value arrays, exactly as the container holds them (a missing / null array prints as empty)
  const auto& ix = a.get_indices(); const auto& ixs = a.get_indices_size();
  const auto& el = a.get_elements(); const auto& els = a.get_elements_size();
  for(std::size_t k(0); k < ni; ++k) { if(k < ix.size() && ix[k] != nullptr) out_arr(o, ix[k], ixs[k]); else o << " 0"; }
  for(std::size_t k(0); k < ne; ++k) { if(k < el.size() && el[k] != nullptr) out_arr(o, el[k], els[k]); else o << " 0"; }
  if(ix.size() > ni || el.size() > ne) o << " EXTRA-ARRAYS";
}

// ------------------------------------------------------------------------------------------------ structural validity
// computed from the raw arrays exactly as they are printed (missing / null arrays = empty); printed as V<0|1> in every dump
template<typename M_>
static std::vector<std::size_t> idx_arr(const M_& a, std::size_t k)
{
  const auto& ix = a.get_indices(); const auto& ixs = a.get_indices_size();
  std::vector<std::size_t> v;
  if(k < ix.size() && ix[k] != nullptr) for(Index i(0); i < ixs[k]; ++i) v.push_back(std::size_t(ix[k][i]));
  return v;
}
template<typename M_>
static std::size_t val_len(const M_& a)
{
  const auto& el = a.get_elements(); const auto& els = a.get_elements_size();
  return (!el.empty() && el[0] != nullptr) ? std::size_t(els[0]) : 0;
}
static bool rows_ok(const std::vector<std::size_t>& rp, const std::vector<std::size_t>& ci, std::size_t nrows, std::size_t ncols, std::size_t nnz)
{
  if(rp.size() != nrows + 1 || rp[0] != 0 || rp[nrows] != nnz || ci.size() != nnz) return false;
  for(std::size_t i(0); i < nrows; ++i) if(rp[i] > rp[i + 1]) return false;
  for(std::size_t k(0); k < ci.size(); ++k) if(ci[k] >= ncols) return false;
  for(std::size_t i(0); i < nrows; ++i) for(std::size_t k(rp[i]); k + 1 < rp[i + 1]; ++k) if(ci[k] >= ci[k + 1]) return false;
  return true;
}
template<typename IT_> static bool valid_flag(const SparseMatrixCSR<Q, IT_>& a)
{
  auto ci = idx_arr(a, 0), rp = idx_arr(a, 1); std::size_t n = val_len(a);
  if(ci.empty() && rp.empty() && n == 0) return true;
  return rows_ok(rp, ci, a.rows(), a.columns(), n);
}
template<typename IT_> static bool valid_flag(const SparseMatrixCSCR<Q, IT_>& a)
{
  auto ci = idx_arr(a, 0), rp = idx_arr(a, 1), rn = idx_arr(a, 2); std::size_t n = val_len(a);
  if(ci.empty() && rp.empty() && rn.empty() && n == 0) return true;
  if(!rows_ok(rp, ci, rn.size(), a.columns(), n)) return false;
  for(std::size_t k(0); k < rn.size(); ++k) if(rn[k] >= a.rows() || (k + 1 < rn.size() && rn[k] >= rn[k + 1])) return false;
  return true;
}
template<typename IT_> static bool valid_flag(const SparseMatrixBanded<Q, IT_>& a)
{
  auto off = idx_arr(a, 0);
  if(val_len(a) != std::size_t(a.rows()) * off.size()) return false;
  for(std::size_t k(0); k < off.size(); ++k) if(off[k] + 2 > a.rows() + a.columns() || (k + 1 < off.size() && off[k] >= off[k + 1])) return false;
  return true;
}
template<typename IT_> static bool valid_flag(const DenseMatrix<Q, IT_>& a) { return val_len(a) == std::size_t(a.rows() * a.columns()); }
template<typename IT_, int BH_, int BW_> static bool valid_flag(const SparseMatrixBCSR<Q, IT_, BH_, BW_>& a)
{
  auto ci = idx_arr(a, 0), rp = idx_arr(a, 1); std::size_t n = val_len(a);
  if(ci.empty() && rp.empty() && n == 0) return true;
  return n == ci.size() * std::size_t(BH_ * BW_) && rows_ok(rp, ci, a.rows(), a.columns(), ci.size());
}

template<typename IT_>
static void dump(std::ostream& o, const SparseMatrixCSR<Q, IT_>& a)
{
  o << "csr " << a.rows() << " " << a.columns() << " " << a.used_elements();
  out_raw(o, a, 2, 1);
  o << " V" << (valid_flag(a) ? 1 : 0) << " D";
  const bool ef = (a.row_ptr() == nullptr);
  for(Index i(0); i < a.rows(); ++i) for(Index j(0); j < a.columns(); ++j) o << " " << (ef ? Q(0) : a(i, j));
}

template<typename IT_>
static void dump(std::ostream& o, const SparseMatrixCSCR<Q, IT_>& a)
{
  o << "cscr " << a.rows() << " " << a.columns() << " " << a.used_elements() << " " << a.used_rows();
  out_raw(o, a, 3, 1);
  o << " V" << (valid_flag(a) ? 1 : 0) << " D";
  const bool ef = (a.get_indices().size() == 0);
  for(Index i(0); i < a.rows(); ++i) for(Index j(0); j < a.columns(); ++j) o << " " << (ef ? Q(0) : a(i, j));
}

template<typename IT_>
static void dump(std::ostream& o, const SparseMatrixBanded<Q, IT_>& a)
{
  o << "banded " << a.rows() << " " << a.columns() << " " << a.used_elements() << " " << a.num_of_offsets();
  out_raw(o, a, 1, 1);
  o << " V" << (valid_flag(a) ? 1 : 0) << " D";
  const bool ef = (a.get_indices().size() == 0);
  for(Index i(0); i < a.rows(); ++i) for(Index j(0); j < a.columns(); ++j) o << " " << (ef ? Q(0) : a(i, j));
}

template<typename IT_>
static void dump(std::ostream& o, const DenseMatrix<Q, IT_>& a)
{
  o << "dense " << a.rows() << " " << a.columns();
  out_raw(o, a, 0, 1);
  o << " V" << (valid_flag(a) ? 1 : 0) << " D";
  for(Index i(0); i < a.rows(); ++i) for(Index j(0); j < a.columns(); ++j) o << " " << a(i, j);
}

template<typename IT_, int BH_, int BW_>
static void dump(std::ostream& o, const SparseMatrixBCSR<Q, IT_, BH_, BW_>& a)
{
  o << "bcsr " << BH_ << " " << BW_ << " " << a.rows() << " " << a.columns() << " " << a.used_elements();
  out_raw(o, a, 2, 1);
  o << " V" << (valid_flag(a) ? 1 : 0) << " D";
  const bool ef = (a.row_ptr() == nullptr);
  for(Index i(0); i < a.rows(); ++i) for(int h(0); h < BH_; ++h) for(Index j(0); j < a.columns(); ++j) for(int w(0); w < BW_; ++w)
    o << " " << (ef ? Q(0) : a(i, j)(h, w));
}

template<typename IT_>
static void dump_state(std::ostream& o, St<IT_>& s)
{
  o << "| ";
  visit(s, [&](auto& m) { dump(o, m); });
  o << " ";
}

// ------------------------------------------------------------------------------------------------ aliasing observation
// b was made from a (clone / layout rebuild); fill = the value array of b is uninitialised and is filled from a first
template<typename M_>
static void observe(std::ostream& o, M_& a, M_& b, bool fill, bool fill_idx = false)
{
  auto& ea = a.get_elements(); auto& eb = b.get_elements();
  auto& ia = a.get_indices(); auto& ib = b.get_indices();
  const auto& es = a.get_elements_size();
  if(fill_idx)
  {
    const auto& is = a.get_indices_size();
    for(std::size_t k(0); k < ia.size() && k < ib.size(); ++k)
      if(ia[k] != ib[k]) for(Index i(0); i < is[k]; ++i) ib[k][i] = ia[k][i];
  }
  bool sv = !ea.empty() && ea.size() == eb.size(), si = !ia.empty() && ia.size() == ib.size();
  for(std::size_t k(0); k < ea.size() && k < eb.size(); ++k) sv = sv && ea[k] != nullptr && ea[k] == eb[k];
  for(std::size_t k(0); k < ia.size() && k < ib.size(); ++k) si = si && ia[k] != nullptr && ia[k] == ib[k];
  if(fill && !sv)
    for(std::size_t k(0); k < ea.size() && k < eb.size(); ++k)
      for(Index i(0); i < es[k]; ++i) eb[k][i] = ea[k][i];
  int w1 = 0, w2 = 0;
  if(!ea.empty() && !eb.empty() && es[0] > 0 && ea[0] != nullptr && eb[0] != nullptr)
  {
    const Q mark(mpq_class(987654321, 7));
    Q old = ea[0][0];
    Q oldb = eb[0][0];
    ea[0][0] = mark;
    w1 = (eb[0][0] == mark) ? 1 : 0;
    ea[0][0] = old;
    if(!w1) eb[0][0] = oldb;
    const Index last = es[0] - 1;
    old = eb[0][last];
    Q olda = ea[0][last];
    eb[0][last] = mark;
    w2 = (ea[0][last] == mark) ? 1 : 0;
    eb[0][last] = old;
    if(!w2) ea[0][last] = olda;
  }
  o << "K " << (sv ? 1 : 0) << " " << (si ? 1 : 0) << " " << w1 << " " << w2 << " ";
}


// ------------------------------------------------------------------------------------------------ aliased / pre-existing targets
// kinds of target a two-argument member is called on:
//   0 fresh (default constructed)   1 same shape: a deep clone of the source whose values are overwritten with 7
//   2 transposed shape              3 other shape: an unrelated small matrix / same element count in another shape
//   4 shallow clone of the source (shared arrays)
template<typename M_>
static void scramble(M_& t)
{
  auto& e = t.get_elements(); const auto& es = t.get_elements_size();
  for(std::size_t k(0); k < e.size(); ++k) for(Index i(0); i < es[k]; ++i) e[k][i] = Q(7);
}

template<typename IT_> static void make_small(SparseMatrixCSR<Q, IT_>& t)
{
  DenseVector<IT_, IT_> ci(1, IT_(0)), rp(2); rp(0, IT_(0)); rp(1, IT_(1)); DenseVector<Q, IT_> v(1, Q(5));
  t = SparseMatrixCSR<Q, IT_>(1, 1, ci, v, rp);
}
template<typename IT_> static void make_small(SparseMatrixCSCR<Q, IT_>& t)
{
  DenseVector<IT_, IT_> ci(1, IT_(0)), rp(2), rn(1, IT_(0)); rp(0, IT_(0)); rp(1, IT_(1)); DenseVector<Q, IT_> v(1, Q(5));
  t = SparseMatrixCSCR<Q, IT_>(1, 1, ci, v, rp, rn);
}
template<typename IT_> static void make_small(SparseMatrixBanded<Q, IT_>& t)
{
  DenseVector<IT_, IT_> off(1, IT_(0)); DenseVector<Q, IT_> v(1, Q(5));
  t = SparseMatrixBanded<Q, IT_>(1, 1, v, off);
}
template<typename IT_> static void make_small(DenseMatrix<Q, IT_>& t) { t = DenseMatrix<Q, IT_>(1, 1, Q(5)); }
template<typename IT_, int BH_, int BW_> static void make_small(SparseMatrixBCSR<Q, IT_, BH_, BW_>& t)
{
  DenseVector<IT_, IT_> ci(1, IT_(0)), rp(2); rp(0, IT_(0)); rp(1, IT_(1)); DenseVector<Q, IT_> v(Index(BH_ * BW_), Q(5));
  t = SparseMatrixBCSR<Q, IT_, BH_, BW_>(1, 1, ci, v, rp);
}

// same-format target of the given kind (kind 2 is shape specific and handled by the callers)
template<typename M_>
static bool prep_same(M_& t, const M_& a, Index kind)
{
  switch(kind)
  {
  case 0: return true;
  case 1: t = a.clone(CloneMode::Deep); scramble(t); return true;
  case 3: make_small(t); return true;
  case 4: t = a.clone(CloneMode::Shallow); return true;
  default: return false;
  }
}

template<typename IT_>
static bool prep_trt(DenseMatrix<Q, IT_>& t, const DenseMatrix<Q, IT_>& a, Index kind)
{
  const Index r = a.rows(), c = a.columns();
  switch(kind)
  {
  case 0: return true;
  case 1: t = DenseMatrix<Q, IT_>(r, c, Q(7)); return true;
  case 2: t = DenseMatrix<Q, IT_>(c, r, Q(7)); return true;
  case 3: if(r == 1) t = DenseMatrix<Q, IT_>(r * c, 1, Q(7)); else t = DenseMatrix<Q, IT_>(1, r * c, Q(7)); return true;
  case 4: t = a.clone(CloneMode::Shallow); return true;
  default: return false;
  }
}

template<typename IT_>
static bool prep_trt(SparseMatrixCSR<Q, IT_>& t, const SparseMatrixCSR<Q, IT_>& a, Index kind)
{
  switch(kind)
  {
  case 2: t = a.transpose(); scramble(t); return true;
  case 3:
  {
    const Index n = a.used_elements();
    if(n == 0) { t = SparseMatrixCSR<Q, IT_>(1, 1); return true; }
    DenseVector<IT_, IT_> ci(n), rp(2); rp(0, IT_(0)); rp(1, IT_(n)); DenseVector<Q, IT_> v(n, Q(7));
    for(Index i(0); i < n; ++i) ci(i, IT_(i));
    t = SparseMatrixCSR<Q, IT_>(1, n, ci, v, rp);
    return true;
  }
  default: return prep_same(t, a, kind);
  }
}

// one segment "S <source afterwards> <target>" ; the target becomes the current matrix
template<typename M_>
static void out_src(std::ostream& o, const M_& src) { o << "S "; dump(o, src); o << " "; }


// ------------------------------------------------------------------------------------------------ cross-type clones
// observations between two containers of possibly different data / index type:
//   sv = value array is the same memory, si = number of index arrays that are the same memory,
//   w_ab = a write through a's value array is visible through b's, w_ba = vice versa
struct XObs { int sv, si, wab, wba; };

template<typename A_, typename B_>
static XObs xobserve(A_& a, B_& b)
{
  auto& ea = a.get_elements(); auto& eb = b.get_elements();
  auto& ia = a.get_indices(); auto& ib = b.get_indices();
  const auto& es = a.get_elements_size();
  XObs r{0, 0, 0, 0};
  if(!ea.empty() && !eb.empty() && ea[0] != nullptr && (const void*)ea[0] == (const void*)eb[0]) r.sv = 1;
  for(std::size_t k(0); k < ia.size() && k < ib.size(); ++k)
    if(ia[k] != nullptr && (const void*)ia[k] == (const void*)ib[k]) ++r.si;
  if(!ea.empty() && !eb.empty() && es[0] > 0 && ea[0] != nullptr && eb[0] != nullptr)
  {
    typedef typename std::decay<decltype(ea[0][0])>::type TA;
    typedef typename std::decay<decltype(eb[0][0])>::type TB;
    const Index last = es[0] - 1;
    { TA olda = ea[0][0]; TB oldb = eb[0][0]; ea[0][0] = TA(123456789.0); r.wab = (eb[0][0] != oldb) ? 1 : 0; ea[0][0] = olda; if(!r.wab) eb[0][0] = oldb; }
    { TA olda = ea[0][last]; TB oldb = eb[0][last]; eb[0][last] = TB(123456789.0); r.wba = (ea[0][last] != olda) ? 1 : 0; eb[0][last] = oldb; if(!r.wba) ea[0][last] = olda; }
  }
  return r;
}

// Layout / Allocate leave new arrays uninitialised: carry the content over (with conversion) where not shared
template<typename A_, typename B_>
static void xfill(const A_& a, B_& b, bool fill_val, bool fill_idx)
{
  const auto& ea = a.get_elements(); auto& eb = b.get_elements();
  const auto& ia = a.get_indices(); auto& ib = b.get_indices();
  const auto& es = a.get_elements_size(); const auto& is = a.get_indices_size();
  typedef typename std::decay<decltype(eb[0][0])>::type TB;
  typedef typename std::decay<decltype(ib[0][0])>::type IB;
  if(fill_val)
    for(std::size_t k(0); k < ea.size() && k < eb.size(); ++k)
      if((const void*)ea[k] != (const void*)eb[k]) for(Index i(0); i < es[k]; ++i) eb[k][i] = TB(ea[k][i]);
  if(fill_idx)
    for(std::size_t k(0); k < ia.size() && k < ib.size(); ++k)
      if((const void*)ia[k] != (const void*)ib[k]) for(Index i(0); i < is[k]; ++i) ib[k][i] = IB(ia[k][i]);
}

// a : X<Q, IT>  --clone(mode)-->  b : X<DT2, IT2>  --clone(mode)-->  c : X<Q, IT>;  a := c
template<typename DT2_, typename IT2_, typename M_>
static void op_xclone(std::ostream& o, M_& a, CloneMode cm)
{
  typedef typename M_::template ContainerType<DT2_, IT2_> B;
  const bool fv = (cm == CloneMode::Layout || cm == CloneMode::Allocate), fi = (cm == CloneMode::Allocate);
  B b;
  b.clone(a, cm);
  xfill(a, b, fv, fi);
  M_ c;
  c.clone(b, cm);
  xfill(b, c, fv, fi);
  XObs ab = xobserve(a, b), bc = xobserve(b, c), ac = xobserve(a, c);
  // format the source: does the final clone change?
  int f = 0;
  {
    auto& ec = c.get_elements(); const auto& es = c.get_elements_size();
    QV before; if(!ec.empty() && ec[0] != nullptr) before.assign(ec[0], ec[0] + es[0]);
    if(!a.get_elements().empty() && a.get_elements()[0] != nullptr) a.format(Q(mpq_class(424242, 5)));
    for(std::size_t i(0); i < before.size(); ++i) if(ec[0][i] != before[i]) f = 1;
    if(f) for(std::size_t i(0); i < before.size(); ++i) ec[0][i] = before[i];
  }
  o << "X " << ab.sv << " " << ab.si << " " << ab.wab << " " << ab.wba << " " << bc.sv << " " << bc.si << " " << bc.wab << " " << bc.wba
    << " " << ac.sv << " " << ac.si << " " << ac.wab << " " << ac.wba << " " << f << " ";
  a = std::move(c);
}

// ------------------------------------------------------------------------------------------------ initial matrices
template<typename IT_, int BH_, int BW_>
static void init_bcsr(Cur& c, SparseMatrixBCSR<Q, IT_, BH_, BW_>& a)
{
  Index rows = c.idx(), cols = c.idx();
  NV rp = c.idxlist(), ci = c.idxlist(); QV val = qlist(c);
  typedef SparseMatrixBCSR<Q, IT_, BH_, BW_> Mat;
  if(val.empty()) { a = Mat(rows, cols); return; }
  auto vci = mk_ivec<IT_>(ci); auto vrp = mk_ivec<IT_>(rp); auto vv = mk_vec<IT_>(val);
  a = Mat(rows, cols, vci, vv, vrp);
}

template<typename IT_>
static bool init(Cur& c, St<IT_>& s)
{
  std::string fmt = c.str();
  if(fmt == "csr")
  {
    Index rows = c.idx(), cols = c.idx();
    NV rp = c.idxlist(), ci = c.idxlist(); QV val = qlist(c);
    s.fmt = F_CSR;
    if(val.empty()) s.csr = SparseMatrixCSR<Q, IT_>(rows, cols);
    else
    {
      auto vci = mk_ivec<IT_>(ci); auto vrp = mk_ivec<IT_>(rp); auto vv = mk_vec<IT_>(val);
      s.csr = SparseMatrixCSR<Q, IT_>(rows, cols, vci, vv, vrp);
    }
    return true;
  }
  if(fmt == "cscr")
  {
    Index rows = c.idx(), cols = c.idx();
    NV rp = c.idxlist(), ci = c.idxlist(); QV val = qlist(c); NV rn = c.idxlist();
    s.fmt = F_CSCR;
    if(val.empty()) s.cscr = SparseMatrixCSCR<Q, IT_>(rows, cols);
    else
    {
      auto vci = mk_ivec<IT_>(ci); auto vrp = mk_ivec<IT_>(rp); auto vv = mk_vec<IT_>(val); auto vrn = mk_ivec<IT_>(rn);
      s.cscr = SparseMatrixCSCR<Q, IT_>(rows, cols, vci, vv, vrp, vrn);
    }
    return true;
  }
  if(fmt == "banded")
  {
    Index rows = c.idx(), cols = c.idx();
    NV off = c.idxlist(); QV val = qlist(c);
    s.fmt = F_BANDED;
    auto voff = mk_ivec<IT_>(off); auto vv = mk_vec<IT_>(val);
    s.band = SparseMatrixBanded<Q, IT_>(rows, cols, vv, voff);
    return true;
  }
  if(fmt == "dense")
  {
    Index rows = c.idx(), cols = c.idx();
    QV val = qlist(c);
    s.fmt = F_DENSE;
    s.dense = DenseMatrix<Q, IT_>(rows, cols);
    for(Index i(0); i < rows; ++i) for(Index j(0); j < cols; ++j) s.dense(i, j, val[i * cols + j]);
    return true;
  }
  if(fmt == "bcsr")
  {
    Index bh = c.idx(), bw = c.idx();
    switch(bh * 10 + bw)
    {
    case 22: s.fmt = F_B22; init_bcsr(c, s.b22); return true;
    case 23: s.fmt = F_B23; init_bcsr(c, s.b23); return true;
    case 32: s.fmt = F_B32; init_bcsr(c, s.b32); return true;
    default: return false;
    }
  }
  return false;
}

// ------------------------------------------------------------------------------------------------ operations
template<typename IT_> struct OtherIT;
template<> struct OtherIT<std::uint32_t> { typedef std::uint64_t type; };
template<> struct OtherIT<std::uint64_t> { typedef std::uint32_t type; };

// X<Q, IT> -> X<Q, IT'> -> X<Q, IT>
template<typename IT_, typename M_>
static void op_it(M_& m)
{
  typedef typename OtherIT<IT_>::type IT2;
  typename M_::template ContainerType<Q, IT2> t;
  t.convert(m);
  M_ b;
  b.convert(t);
  m = std::move(b);
}

// X<Q, IT> -> X<double, IT> -> X<float, IT> -> X<Q, IT>
template<typename IT_, typename M_>
static void op_dt(M_& m)
{
  typename M_::template ContainerType<double, IT_> t;
  t.convert(m);
  typename M_::template ContainerType<float, IT_> u;
  u.convert(t);
  M_ b;
  b.convert(u);
  m = std::move(b);
}

template<typename IT_>
static bool step(Cur& c, St<IT_>& s, std::ostream& o)
{
  std::string op = c.str();
  if(op == "tocsr")
  {
    if(s.fmt == F_DENSE) return false; // no such conversion exists
    SparseMatrixCSR<Q, IT_> b;
    visit(s, [&](auto& m)
    {
      typedef typename std::decay<decltype(m)>::type M;
      if constexpr (!std::is_same<M, DenseMatrix<Q, IT_>>::value) b.convert(m);
    });
    s.csr = std::move(b); s.fmt = F_CSR;
    return true;
  }
  if(op == "tobanded")
  {
    if(s.fmt == F_CSR) { SparseMatrixBanded<Q, IT_> b; b.convert(s.csr); s.band = std::move(b); }
    else if(s.fmt == F_BANDED) { SparseMatrixBanded<Q, IT_> b; b.convert(s.band); s.band = std::move(b); }
    else return false;
    s.fmt = F_BANDED;
    return true;
  }
  if(op == "tocscr")
  {
    SparseMatrixCSCR<Q, IT_> b;
    if(s.fmt == F_CSR) b.convert(s.csr);
    else if(s.fmt == F_CSCR) b.convert(s.cscr);
    else return false;
    s.cscr = std::move(b); s.fmt = F_CSCR;
    return true;
  }
  if(op == "clone")
  {
    Index m = c.idx();
    if(m > 4) return false;
    const CloneMode cm = (m == 0 ? CloneMode::Shallow : m == 1 ? CloneMode::Layout : m == 2 ? CloneMode::Weak : m == 3 ? CloneMode::Deep : CloneMode::Allocate);
    visit(s, [&](auto& a)
    {
      auto b = a.clone(cm);
      // Layout / Allocate leave the new arrays uninitialised: the harness carries the content over before looking
      observe(o, a, b, cm == CloneMode::Layout || cm == CloneMode::Allocate, cm == CloneMode::Allocate);
      a = std::move(b);
    });
    return true;
  }
  if(op == "layout")
  {
    bool ok = true;
    visit(s, [&](auto& a)
    {
      typedef typename std::decay<decltype(a)>::type M;
      if constexpr (std::is_same<M, DenseMatrix<Q, IT_>>::value) ok = false;
      else
      {
        M b(a.layout());
        observe(o, a, b, true);
        a = std::move(b);
      }
    });
    return ok;
  }
  if(op == "xclone")
  {
    // cross-type clone chain: data type different (Q -> double -> Q) / same, index type different (IT -> IT' -> IT) / same
    Index d = c.idx(), i = c.idx(), m = c.idx();
    if(d > 1 || i > 1 || m > 4 || (d == 0 && i == 0)) return false;
    const CloneMode cm = (m == 0 ? CloneMode::Shallow : m == 1 ? CloneMode::Layout : m == 2 ? CloneMode::Weak : m == 3 ? CloneMode::Deep : CloneMode::Allocate);
    typedef typename OtherIT<IT_>::type IT2;
    visit(s, [&](auto& a)
    {
      if(d == 0) op_xclone<Q, IT2>(o, a, cm);
      else if(i == 0) op_xclone<double, IT_>(o, a, cm);
      else op_xclone<double, IT2>(o, a, cm);
    });
    return true;
  }
  if(op == "layoutz" || op == "layouta")
  {
    // rebuild from the layout object: constructor (layoutz) or assignment to a pre-existing target of kind k (layouta);
    // the fresh value array is then zeroed (format) -> same pattern, zero matrix.  AL<0|1>: the pool allocation of the
    // new value array is large enough for the number of values the container claims.
    const bool assign = (op == "layouta");
    Index kind = assign ? c.idx() : 0;
    bool ok = true;
    visit(s, [&](auto& a)
    {
      typedef typename std::decay<decltype(a)>::type M;
      if constexpr (std::is_same<M, DenseMatrix<Q, IT_>>::value) ok = false;
      else
      {
        M t;
        if(assign) { if(!prep_same(t, a, kind)) { ok = false; return; } t = a.layout(); }
        else { M b(a.layout()); t = std::move(b); }
        bool al = true;
        const auto& el = t.get_elements(); const auto& els = t.get_elements_size();
        for(std::size_t k(0); k < el.size(); ++k)
          if(el[k] != nullptr && MemoryPool::allocated_size(el[k]) < els[k] * sizeof(Q)) al = false;
        if(al) t.format();
        o << "AL" << (al ? 1 : 0) << " ";
        if(!al) { ok = true; a = M(); return; }
        observe(o, a, t, false);
        if(assign) out_src(o, a);
        a = std::move(t);
      }
    });
    return ok;
  }
  if(op == "graphz")
  {
    if(s.fmt != F_CSR) return false;
    Adjacency::Graph g(Adjacency::RenderType::as_is, s.csr);
    SparseMatrixCSR<Q, IT_> b(g);
    s.csr = std::move(b);
    return true;
  }
  if(op == "graph")
  {
    if(s.fmt != F_CSR) return false;
    Adjacency::Graph g(Adjacency::RenderType::as_is, s.csr);
    SparseMatrixCSR<Q, IT_> b(g);
    // the rebuilt matrix has the pattern and zero values; carry the values over position by position
    if(b.used_elements() != s.csr.used_elements()) { o << "GRAPH-NNZ-MISMATCH "; return true; }
    for(Index i(0); i < b.used_elements(); ++i) b.val()[i] = s.csr.val()[i];
    s.csr = std::move(b);
    return true;
  }
  if(op == "tr")
  {
    switch(s.fmt)
    {
    case F_CSR: { auto b = s.csr.transpose(); s.csr = std::move(b); return true; }
    case F_DENSE: { auto b = s.dense.transpose(); s.dense = std::move(b); return true; }
    case F_B22: { auto b = s.b22.transpose(); s.b22 = std::move(b); return true; }
    case F_B23: { auto b = s.b23.transpose(); s.b32 = std::move(b); s.b23 = SparseMatrixBCSR<Q, IT_, 2, 3>(); s.fmt = F_B32; return true; }
    case F_B32: { auto b = s.b32.transpose(); s.b23 = std::move(b); s.b32 = SparseMatrixBCSR<Q, IT_, 3, 2>(); s.fmt = F_B23; return true; }
    default: return false;
    }
  }
  if(op == "tri")
  {
    if(s.fmt == F_CSR) { s.csr.transpose(s.csr); return true; }
    if(s.fmt == F_DENSE) { s.dense.transpose_inplace(); return true; }
    return false;
  }
  if(op == "perm")
  {
    NV p = c.idxlist(), q = c.idxlist();
    if(s.fmt != F_CSR && s.fmt < F_B22) return false;
    std::vector<Index> pp(p.begin(), p.end()), qq(q.begin(), q.end());
    Adjacency::Permutation pr, pc;
    if(!pp.empty()) pr = Adjacency::Permutation(Index(pp.size()), Adjacency::Permutation::ConstrType::perm, pp.data());
    if(!qq.empty()) pc = Adjacency::Permutation(Index(qq.size()), Adjacency::Permutation::ConstrType::perm, qq.data());
    switch(s.fmt)
    {
    case F_CSR: s.csr.permute(pr, pc); break;
    case F_B22: s.b22.permute(pr, pc); break;   // permutations of the BLOCK rows / columns
    case F_B23: s.b23.permute(pr, pc); break;
    case F_B32: s.b32.permute(pr, pc); break;
    }
    return true;
  }
  if(op == "trs")
  {
    switch(s.fmt)
    {
    case F_CSR: s.csr.transpose(s.csr); return true;
    case F_DENSE: s.dense.transpose(s.dense); return true;
    case F_B22: s.b22.transpose(s.b22); return true;
    default: return false;
    }
  }
  if(op == "trt")
  {
    Index kind = c.idx();
    if(s.fmt == F_CSR)
    {
      SparseMatrixCSR<Q, IT_> t;
      if(!prep_trt(t, s.csr, kind)) return false;
      t.transpose(s.csr); out_src(o, s.csr); s.csr = std::move(t); return true;
    }
    if(s.fmt == F_DENSE)
    {
      DenseMatrix<Q, IT_> t;
      if(!prep_trt(t, s.dense, kind)) return false;
      t.transpose(s.dense); out_src(o, s.dense); s.dense = std::move(t); return true;
    }
    if(s.fmt == F_B22)
    {
      SparseMatrixBCSR<Q, IT_, 2, 2> t;
      if(kind == 2) { t = s.b22.transpose(); scramble(t); } else if(!prep_same(t, s.b22, kind)) return false;
      t.transpose(s.b22); out_src(o, s.b22); s.b22 = std::move(t); return true;
    }
    if(s.fmt == F_B23)
    {
      SparseMatrixBCSR<Q, IT_, 3, 2> t;
      if(kind == 2) { t = s.b23.transpose(); scramble(t); } else if(kind == 3) make_small(t); else if(kind != 0) return false;
      t.transpose(s.b23); out_src(o, s.b23); s.b32 = std::move(t); s.b23 = SparseMatrixBCSR<Q, IT_, 2, 3>(); s.fmt = F_B32; return true;
    }
    if(s.fmt == F_B32)
    {
      SparseMatrixBCSR<Q, IT_, 2, 3> t;
      if(kind == 2) { t = s.b32.transpose(); scramble(t); } else if(kind == 3) make_small(t); else if(kind != 0) return false;
      t.transpose(s.b32); out_src(o, s.b32); s.b23 = std::move(t); s.b32 = SparseMatrixBCSR<Q, IT_, 3, 2>(); s.fmt = F_B23; return true;
    }
    return false;
  }
  if(op == "convs")
  {
    visit(s, [&](auto& a) { a.convert(a); });
    return true;
  }
  if(op == "convt")
  {
    Index kind = c.idx(); std::string tf = c.str();
    bool ok = true;
    const int sf = s.fmt;
    const bool same = (tf == "csr" && sf == F_CSR) || (tf == "banded" && sf == F_BANDED) || (tf == "cscr" && sf == F_CSCR)
      || (tf == "dense" && sf == F_DENSE) || (tf == "bcsr" && sf >= F_B22);
    if(same)
    {
      visit(s, [&](auto& a)
      {
        typedef typename std::decay<decltype(a)>::type M;
        M t;
        if(!prep_same(t, a, kind)) { ok = false; return; }
        t.convert(a); out_src(o, a); a = std::move(t);
      });
      return ok;
    }
    if(kind != 0 && kind != 1 && kind != 3) return false;
    if(tf == "csr" && sf != F_DENSE)
    {
      SparseMatrixCSR<Q, IT_> t;
      visit(s, [&](auto& a)
      {
        typedef typename std::decay<decltype(a)>::type M;
        if constexpr (!std::is_same<M, DenseMatrix<Q, IT_>>::value && !std::is_same<M, SparseMatrixCSR<Q, IT_>>::value)
        {
          if(kind == 1) { M a2 = a.clone(CloneMode::Deep); t.convert(a2); scramble(t); }
          else if(kind == 3) make_small(t);
          t.convert(a); out_src(o, a);
        }
      });
      s.csr = std::move(t); s.fmt = F_CSR;
      return true;
    }
    if(tf == "banded" && sf == F_CSR)
    {
      SparseMatrixBanded<Q, IT_> t;
      if(kind == 1) { auto a2 = s.csr.clone(CloneMode::Deep); t.convert(a2); scramble(t); }
      else if(kind == 3) make_small(t);
      t.convert(s.csr); out_src(o, s.csr);
      s.band = std::move(t); s.fmt = F_BANDED;
      return true;
    }
    if(tf == "cscr" && sf == F_CSR)
    {
      SparseMatrixCSCR<Q, IT_> t;
      if(kind == 1) { auto a2 = s.csr.clone(CloneMode::Deep); t.convert(a2); scramble(t); }
      else if(kind == 3) make_small(t);
      t.convert(s.csr); out_src(o, s.csr);
      s.cscr = std::move(t); s.fmt = F_CSCR;
      return true;
    }
    return false;
  }
  if(op == "clones" || op == "clonet")
  {
    const bool self = (op == "clones");
    Index kind = self ? 0 : c.idx();
    Index m = c.idx();
    if(m > 3) return false;
    const CloneMode cm = (m == 0 ? CloneMode::Shallow : m == 1 ? CloneMode::Layout : m == 2 ? CloneMode::Weak : CloneMode::Deep);
    bool ok = true;
    visit(s, [&](auto& a)
    {
      typedef typename std::decay<decltype(a)>::type M;
      if(self) { a.clone(a, cm); return; }
      M t;
      if(!prep_same(t, a, kind)) { ok = false; return; }
      t.clone(a, cm);
      observe(o, a, t, cm == CloneMode::Layout);
      out_src(o, a);
      a = std::move(t);
    });
    return ok;
  }
  if(op == "copys")
  {
    visit(s, [&](auto& a) { a.copy(a); });
    return true;
  }
  if(op == "copyt")
  {
    Index kind = c.idx();
    if(kind != 1 && kind != 2 && kind != 4) return false; // copy() presupposes a target with the same layout
    bool ok = true;
    visit(s, [&](auto& a)
    {
      typedef typename std::decay<decltype(a)>::type M;
      M t;
      if(kind == 2) { t = a.clone(CloneMode::Layout); scramble(t); }
      else if(!prep_same(t, a, kind)) { ok = false; return; }
      t.copy(a); out_src(o, a); a = std::move(t);
    });
    return ok;
  }
  if(op == "it")
  {
    visit(s, [&](auto& a) { op_it<IT_>(a); });
    return true;
  }
  if(op == "dtw")
  {
    // Q -> float -> double -> float -> Q (narrow, widen, narrow)
    auto go = [&](auto& m)
    {
      typedef typename std::decay<decltype(m)>::type M;
      typename M::template ContainerType<float, IT_> f1; f1.convert(m);
      typename M::template ContainerType<double, IT_> d1; d1.convert(f1);
      typename M::template ContainerType<float, IT_> f2; f2.convert(d1);
      M b; b.convert(f2);
      m = std::move(b);
    };
    if(s.fmt == F_CSR) go(s.csr); else if(s.fmt == F_DENSE) go(s.dense); else if(s.fmt == F_BANDED) go(s.band); else return false;
    return true;
  }
  if(op == "dt")
  {
    if(s.fmt == F_CSR) op_dt<IT_>(s.csr);
    else if(s.fmt == F_DENSE) op_dt<IT_>(s.dense);
    else if(s.fmt == F_BANDED) op_dt<IT_>(s.band);
    else return false;
    return true;
  }
  return false;
}

template<typename IT_>
static void run(Cur& c, std::ostream& o)
{
  St<IT_> s;
  if(!init(c, s)) { o.clear(); o << "BAD-OP"; return; }
  std::ostringstream buf;
  dump_state(buf, s);
  Index nops = c.idx();
  for(Index k(0); k < nops; ++k)
  {
    std::ostringstream seg;
    if(!step(c, s, seg)) { o << "BAD-OP"; return; }
    buf << "| " << seg.str();
    visit(s, [&](auto& m) { dump(buf, m); });
    buf << " ";
  }
  o << buf.str();
}


// ------------------------------------------------------------------------------------------------ vectors: cross-type clone / convert
// "IT vecx <kind> ... nops (xclone d i m | xconv d i)*"   kind = dv L(vals) | dvb L(vals) (block size 2) | sv n L(idx) L(vals)
// chain a : V<Q,IT> -> b : V<DT2,IT2> -> c : V<Q,IT> through clone(other, mode) resp. convert(other) (= Container::assign)
template<typename V_>
static void dump_vec(std::ostream& o, const char* kind, const V_& a)
{
  o << kind << " " << a.size();
  const auto& ix = a.get_indices(); const auto& ixs = a.get_indices_size();
  const auto& el = a.get_elements(); const auto& els = a.get_elements_size();
  if(!ix.empty() && ix[0] != nullptr) out_arr(o, ix[0], ixs[0]); else o << " 0";
  if(!el.empty() && el[0] != nullptr) out_arr(o, el[0], els[0]); else o << " 0";
}

template<typename B_, typename A_>
static void vec_chain(std::ostream& o, A_& a, bool use_clone, CloneMode cm)
{
  const bool fv = use_clone && (cm == CloneMode::Layout || cm == CloneMode::Allocate), fi = use_clone && (cm == CloneMode::Allocate);
  B_ b; A_ c;
  if(use_clone) { b.clone(a, cm); xfill(a, b, fv, fi); c.clone(b, cm); xfill(b, c, fv, fi); }
  else { b.convert(a); c.convert(b); }
  XObs ab = xobserve(a, b), bc = xobserve(b, c), ac = xobserve(a, c);
  int f = 0;
  {
    auto& ec = c.get_elements(); const auto& es = c.get_elements_size();
    QV before; if(!ec.empty() && ec[0] != nullptr) before.assign(ec[0], ec[0] + es[0]);
    if(!a.get_elements().empty() && a.get_elements()[0] != nullptr) a.format(Q(mpq_class(424242, 5)));
    for(std::size_t i(0); i < before.size(); ++i) if(ec[0][i] != before[i]) f = 1;
    if(f) for(std::size_t i(0); i < before.size(); ++i) ec[0][i] = before[i];
  }
  o << "X " << ab.sv << " " << ab.si << " " << ab.wab << " " << ab.wba << " " << bc.sv << " " << bc.si << " " << bc.wab << " " << bc.wba
    << " " << ac.sv << " " << ac.si << " " << ac.wab << " " << ac.wba << " " << f << " ";
  a = std::move(c);
}

template<typename IT_, template<typename, typename> class V_>
static bool vec_ops(Cur& c, std::ostream& o, const char* kind, V_<Q, IT_>& a)
{
  typedef typename OtherIT<IT_>::type IT2;
  std::ostringstream buf;
  buf << "| "; dump_vec(buf, kind, a); buf << " ";
  Index nops = c.idx();
  for(Index k(0); k < nops; ++k)
  {
    std::string op = c.str();
    Index d = c.idx(), i = c.idx(), m = 0;
    bool use_clone = (op == "xclone");
    if(use_clone) m = c.idx(); else if(op != "xconv") return false;
    if(d > 1 || i > 1 || m > 4 || (d == 0 && i == 0)) return false;
    const CloneMode cm = (m == 0 ? CloneMode::Shallow : m == 1 ? CloneMode::Layout : m == 2 ? CloneMode::Weak : m == 3 ? CloneMode::Deep : CloneMode::Allocate);
    buf << "| ";
    if(d == 0) vec_chain<V_<Q, IT2>>(buf, a, use_clone, cm);
    else if(i == 0) vec_chain<V_<double, IT_>>(buf, a, use_clone, cm);
    else vec_chain<V_<double, IT2>>(buf, a, use_clone, cm);
    dump_vec(buf, kind, a); buf << " ";
  }
  o << buf.str();
  return true;
}

template<typename DT_, typename IT_> using DVB2 = DenseVectorBlocked<DT_, IT_, 2>;

template<typename IT_>
static void run_vecx(Cur& c, std::ostream& o)
{
  std::string kind = c.str();
  bool ok = false;
  if(kind == "dv")
  {
    QV v = qlist(c);
    DenseVector<Q, IT_> x; if(!v.empty()) x = mk_vec<IT_>(v);
    ok = vec_ops<IT_, DenseVector>(c, o, "dv", x);
  }
  else if(kind == "dvb")
  {
    QV v = qlist(c);
    DVB2<Q, IT_> x;
    if(!v.empty()) { x = DVB2<Q, IT_>(Index(v.size() / 2)); Q* p = x.template elements<Perspective::pod>(); for(std::size_t i(0); i < v.size(); ++i) p[i] = v[i]; }
    ok = vec_ops<IT_, DVB2>(c, o, "dvb", x);
  }
  else if(kind == "sv")
  {
    Index n = c.idx(); NV ix = c.idxlist(); QV v = qlist(c);
    SparseVector<Q, IT_> x(n);
    if(!v.empty()) { auto vi = mk_ivec<IT_>(ix); auto vv = mk_vec<IT_>(v); x = SparseVector<Q, IT_>(n, vv, vi, true); }
    ok = vec_ops<IT_, SparseVector>(c, o, "sv", x);
  }
  if(!ok) { o << "BAD-OP"; }
}

// "IT vec L(values) nops (vperm L(p))*":  DenseVector::permute
template<typename IT_>
static void run_vec(Cur& c, std::ostream& o)
{
  QV v = qlist(c);
  DenseVector<Q, IT_> x;
  if(!v.empty()) x = mk_vec<IT_>(v);
  std::ostringstream buf;
  auto show = [&]() { buf << "| vec"; if(x.size() > 0) out_arr(buf, x.elements(), x.size()); else buf << " 0"; buf << " "; };
  show();
  Index nops = c.idx();
  for(Index k(0); k < nops; ++k)
  {
    if(c.str() != "vperm") { o << "BAD-OP"; return; }
    NV p = c.idxlist();
    std::vector<Index> pp(p.begin(), p.end());
    Adjacency::Permutation pr;
    if(!pp.empty()) pr = Adjacency::Permutation(Index(pp.size()), Adjacency::Permutation::ConstrType::perm, pp.data());
    x.permute(pr);
    show();
  }
  o << buf.str();
}

static void handle(const verif::Tokens& tk, std::ostream& o)
{
  Cur c(tk);
  Index it = c.idx();
  if(tk.size() > 1 && tk[1] == "vecx")
  {
    c.str();
    if(it == 32) run_vecx<std::uint32_t>(c, o); else if(it == 64) run_vecx<std::uint64_t>(c, o); else o << "BAD-OP";
    return;
  }
  if(tk.size() > 1 && tk[1] == "vec")
  {
    c.str();
    if(it == 32) run_vec<std::uint32_t>(c, o); else if(it == 64) run_vec<std::uint64_t>(c, o); else o << "BAD-OP";
    return;
  }
  if(it == 32) run<std::uint32_t>(c, o);
  else if(it == 64) run<std::uint64_t>(c, o);
  else o << "BAD-OP";
}

int main(int argc, char** argv)
{
  return verif::run_cases(argc, argv, handle);
}
