// C09 harness: runs the REAL FEAT::Solver::MultiGrid / MultiGridHierarchy (kernel/solver/multigrid.hpp) with
// SparseMatrixCSR<Q>, UnitFilter<Q>, LAFEM::Transfer (kernel/lafem/transfer.hpp) at the exact rational type Q.
// The system matrices are logging subclasses of the real SparseMatrixCSR (defect computations are part of the log).
// Smoothers and coarse solvers are mock SolverBase objects that log (role, level) and apply a fixed exact matrix;
// the transfer is a thin logging wrapper around the real LAFEM::Transfer::rest/prol.
// Protocol: see lean/FeatModel/Driver/C09.lean (same line in, same line out).
//
//   mg|mgr NL n_0 .. n_{NL-1} { A[n*n]  nf idx*  [P[n*nc] R[nc*n] unless last]  4 x (flag [M[n*n]]) }^NL
//      napp { cycle cgc top crs  dlen d* }^napp        (slots: pre, post, peak, coarse; level 0 = finest)
//   mgx ...            like mg, plus the result `Y n y*` of the independent recursive reference (refmg.hpp)
//   mgh ...            double: FEAT on 2^k*d for k = 0,-10..-60,10..60, reference recursion at double and exact
//   mgd ...            the same at double (results printed as hex floats; conformance stream, no model counterpart)
//   rate2d NL cycle cgc  the same measurement on 2-D Poisson (5-point stencil)
//   rate NL cycle cgc  (double precision measurement, thorough tier only; no model counterpart)
#include <forkcase.hpp>
#include "refmg.hpp"
#include <exact_q.hpp>
#include <kernel/lafem/dense_vector.hpp>
#include <kernel/lafem/sparse_matrix_csr.hpp>
#include <kernel/lafem/unit_filter.hpp>
#include <kernel/lafem/transfer.hpp>
#include <kernel/solver/base.hpp>
#include <kernel/solver/multigrid.hpp>
#include <memory>
#include <deque>
#include <cstdio>
#include <cmath>
#include <algorithm>

using namespace FEAT;
using verif::Cur;

static std::vector<std::string> g_log;

template<typename DT_>
struct Types
{
  typedef LAFEM::SparseMatrixCSR<DT_, Index> Matrix;
  typedef LAFEM::DenseVector<DT_, Index> Vector;
  typedef LAFEM::UnitFilter<DT_, Index> Filter;
};

// logging wrapper: the work is done by the real LAFEM::Transfer
template<typename DT_>
class LogTransfer : public LAFEM::Transfer<typename Types<DT_>::Matrix>
{
public:
  typedef LAFEM::Transfer<typename Types<DT_>::Matrix> Base;
  typedef typename Types<DT_>::Matrix Matrix;
  typedef typename Types<DT_>::Vector Vector;
  Index level;
  LogTransfer(Index lvl, Matrix&& p, Matrix&& r) : Base(std::move(p), std::move(r)), level(lvl) {}
  bool is_ghost() const { return Base::is_ghost(); }
  bool rest(const Vector& f, Vector& c) const { g_log.push_back("R" + std::to_string(level)); return Base::rest(f, c); }
  bool prol(Vector& f, const Vector& c) const { g_log.push_back("P" + std::to_string(level)); return Base::prol(f, c); }
  bool rest_send(const Vector& f) const { return Base::rest_send(f); }
  bool prol_recv(Vector& f) const { return Base::prol_recv(f); }
};

// logging system matrix: the real SparseMatrixCSR does the work; the two apply() overloads MultiGrid uses are logged:
//   D<l> = apply(r, x, y, alpha)  (defect computation rhs - A*sol),   M<l> = apply(r, x)  (tmp = A*cor)
template<typename DT_>
class LogMatrix : public Types<DT_>::Matrix
{
public:
  typedef typename Types<DT_>::Matrix Base;
  typedef typename Types<DT_>::Vector Vector;
  Index level;
  LogMatrix(Index lvl, Base&& m) : Base(std::move(m)), level(lvl) {}
  LogMatrix(LogMatrix&& o) : Base(std::move(static_cast<Base&>(o))), level(o.level) {}
  void apply(Vector& r, const Vector& x) const { g_log.push_back("M" + std::to_string(level)); Base::apply(r, x); }
  void apply(Vector& r, const Vector& x, const Vector& y, const DT_ alpha = DT_(1)) const
  {
    g_log.push_back("D" + std::to_string(level));
    Base::apply(r, x, y, alpha);
  }
};

// mock smoother / coarse solver: cor := M * def, logged
template<typename DT_>
class MockSolver : public Solver::SolverBase<typename Types<DT_>::Vector>
{
public:
  typedef typename Types<DT_>::Vector Vector;
  std::string tag; Index n; std::vector<DT_> m;
  MockSolver(const std::string& t, Index nn, const std::vector<DT_>& mm) : tag(t), n(nn), m(mm) {}
  virtual String name() const override { return "Mock"; }
  virtual Solver::Status apply(Vector& cor, const Vector& def) override
  {
    g_log.push_back(tag);
    std::vector<DT_> x(n);
    for(Index i = 0; i < n; ++i) x[i] = def(i);
    for(Index i = 0; i < n; ++i)
    {
      DT_ s = DT_(0);
      for(Index j = 0; j < n; ++j) s += m[i*n + j] * x[j];
      cor(i, s);
    }
    return Solver::Status::success;
  }
};

template<typename DT_>
static typename Types<DT_>::Matrix make_csr(Index rows, Index cols, const std::vector<DT_>& d)
{
  LAFEM::DenseVector<Index, Index> cidx(rows*cols), rptr(rows + 1);
  LAFEM::DenseVector<DT_, Index> val(rows*cols);
  for(Index i = 0; i <= rows; ++i) rptr(i, i*cols);
  for(Index i = 0; i < rows; ++i) for(Index j = 0; j < cols; ++j) { cidx(i*cols + j, j); val(i*cols + j, d[i*cols + j]); }
  return typename Types<DT_>::Matrix(rows, cols, cidx, val, rptr);
}

template<typename DT_> struct Conv;
template<> struct Conv<Q>
{
  static Q parse(const std::string& s) { return Q::parse(s); }
  static Q from(Q x) { return x; }
  static std::string str(Q x) { return x.str(); }
};
template<> struct Conv<double>
{
  static double parse(const std::string& s) { return Q::parse(s).v().get_d(); }
  static double from(Q x) { return x.v().get_d(); }
  static std::string str(double x) { char b[64]; snprintf(b, sizeof(b), "%a", x); return b; }
};

template<typename DT_>
static std::vector<DT_> read_q(Cur& c, std::size_t k)
{
  std::vector<DT_> v(k);
  for(auto& x : v) x = Conv<DT_>::parse(c.str());
  return v;
}

static Solver::MultiGridCycle cyc(long long k)
{
  return k == 0 ? Solver::MultiGridCycle::V : k == 1 ? Solver::MultiGridCycle::F : Solver::MultiGridCycle::W;
}
static Solver::MultiGridAdaptCGC cgc(long long k)
{
  return k == 0 ? Solver::MultiGridAdaptCGC::Fixed : k == 1 ? Solver::MultiGridAdaptCGC::MinEnergy : Solver::MultiGridAdaptCGC::MinDefect;
}

// parses the hierarchy part of a case and builds the real FEAT objects (and, on request, the data of the independent
// recursive reference, exact and at double)
template<typename DT>
struct MGSetup
{
  typedef LogMatrix<DT> Matrix; typedef typename Types<DT>::Vector Vector; typedef typename Types<DT>::Filter Filter;
  typedef LogTransfer<DT> Transfer;
  typedef Solver::MultiGridHierarchy<Matrix, Filter, Transfer> Hier;
  typedef Solver::MultiGrid<Matrix, Filter, Transfer> MG;
  typedef Solver::SolverBase<Vector> SB;
  Index nl;
  std::vector<Index> n;
  std::deque<Matrix> mats; std::deque<Filter> filts; std::deque<Transfer> trans;
  std::vector<std::array<std::shared_ptr<SB>, 4>> sol;
  std::vector<refmg::Level> rlv;                       // exact reference data
  std::vector<refmg::T<double>::Level> rlvd;           // the same rounded to double
  std::shared_ptr<Hier> hier;

  static refmg::Mat rmat(const std::vector<Q>& d, std::size_t rows, std::size_t cols)
  {
    refmg::Mat m(rows, refmg::Vec(cols));
    for(std::size_t i = 0; i < rows; ++i) for(std::size_t j = 0; j < cols; ++j) m[i][j] = d[i*cols + j].v();
    return m;
  }
  static refmg::T<double>::Mat dmat(const std::vector<Q>& d, std::size_t rows, std::size_t cols)
  {
    refmg::T<double>::Mat m(rows, refmg::T<double>::Vec(cols));
    for(std::size_t i = 0; i < rows; ++i) for(std::size_t j = 0; j < cols; ++j) m[i][j] = d[i*cols + j].v().get_d();
    return m;
  }
  static std::vector<DT> conv(const std::vector<Q>& q)
  {
    std::vector<DT> v(q.size());
    for(std::size_t i = 0; i < q.size(); ++i) v[i] = Conv<DT>::from(q[i]);
    return v;
  }

  MGSetup(Cur& c, bool with_ref)
  {
    nl = c.idx();
    n.resize(nl); sol.resize(nl); rlv.resize(nl); rlvd.resize(nl);
    // the protocol lists all level sizes first (the transfer of level l needs n[l+1])
    for(Index l = 0; l < nl; ++l) n[l] = c.idx();
    for(Index l = 0; l < nl; ++l)
    {
      auto am = read_q<Q>(c, n[l]*n[l]);
      mats.emplace_back(l, make_csr<DT>(n[l], n[l], conv(am)));
      filts.emplace_back(n[l]);
      auto fi = c.idxlist();
      for(auto i : fi) filts.back().add(Index(i), DT(0));
      rlv[l].n = rlvd[l].n = n[l];
      if(with_ref)
      {
        rlv[l].A = rmat(am, n[l], n[l]); rlv[l].fidx.insert(fi.begin(), fi.end());
        rlvd[l].A = dmat(am, n[l], n[l]); rlvd[l].fidx.insert(fi.begin(), fi.end());
      }
      if(l + 1 < nl)
      {
        auto p = read_q<Q>(c, n[l]*n[l+1]);
        auto r = read_q<Q>(c, n[l+1]*n[l]);
        trans.emplace_back(l, make_csr<DT>(n[l], n[l+1], conv(p)), make_csr<DT>(n[l+1], n[l], conv(r)));
        if(with_ref)
        {
          rlv[l].P = rmat(p, n[l], n[l+1]); rlv[l].R = rmat(r, n[l+1], n[l]);
          rlvd[l].P = dmat(p, n[l], n[l+1]); rlvd[l].R = dmat(r, n[l+1], n[l]);
        }
      }
      static const char* roles[4] = {"a", "b", "k", "c"};
      for(int s = 0; s < 4; ++s)
      {
        rlv[l].has[s] = rlvd[l].has[s] = (c.idx() != 0);
        if(rlv[l].has[s])
        {
          auto sm = read_q<Q>(c, n[l]*n[l]);
          sol[l][s] = std::make_shared<MockSolver<DT>>(roles[s] + std::to_string(l), n[l], conv(sm));
          if(with_ref) { rlv[l].s[s] = rmat(sm, n[l], n[l]); rlvd[l].s[s] = dmat(sm, n[l], n[l]); }
        }
      }
    }
    hier = std::make_shared<Hier>(nl);
    for(Index l = 0; l < nl; ++l)
    {
      if(l + 1 < nl)
        hier->push_level(mats[l], filts[l], trans[l], sol[l][0], sol[l][1], sol[l][2], sol[l][3]);
      else
        hier->push_level(mats[l], filts[l], sol[l][3]);
    }
    hier->init();
  }
};

// with_ref: additionally run the independent recursive reference (refmg.hpp) and print its result as `Y n y*`
template<typename DT>
static void handle_mg(Cur& c, std::ostream& o, bool with_ref = false)
{
  typedef MGSetup<DT> SU;
  typedef typename SU::Vector Vector; typedef typename SU::MG MG;
  SU su(c, with_ref);
  auto& hier = su.hier;
  auto& rlv = su.rlv;

  Index napp = c.idx();
  std::shared_ptr<MG> mg;
  for(Index a = 0; a < napp; ++a)
  {
    long long cy = c.i64(), cg = c.i64(), top = c.i64(), crs = c.i64();
    Index dl = c.idx();
    auto d = read_q<DT>(c, dl);
    if(a == 0)
    {
      mg = std::make_shared<MG>(hier, cyc(cy), int(top), int(crs));
      mg->init();
    }
    else
    {
      mg->set_cycle(cyc(cy));
      mg->set_levels(int(top), int(crs));
    }
    mg->set_adapt_cgc(cgc(cg));
    Vector vd(dl), vc(dl);
    for(Index i = 0; i < dl; ++i) { vd(i, d[i]); vc(i, DT(12345)); }
    g_log.clear();
    Solver::Status st = mg->apply(vc, vd);
    if(a > 0) o << " ";
    o << "E " << g_log.size();
    for(auto& e : g_log) o << " " << e;
    o << " X " << dl;
    for(Index i = 0; i < dl; ++i) o << " " << Conv<DT>::str(vc(i));
    o << " S " << (st == Solver::Status::success ? 1 : 0);
    if(with_ref)
    {
      // the level range as MultiGrid resolved it; everything else is independent of FEAT
      refmg::Ref ref(rlv, int(cg), std::size_t(mg->get_crs_level()));
      refmg::Vec rb(dl);
      for(Index i = 0; i < dl; ++i) rb[i] = Q(d[i]).v();
      refmg::Vec y = ref.cycle(int(cy) == 0 ? 0 : int(cy) == 1 ? 1 : 2, std::size_t(mg->get_top_level()), rb);
      o << " Y " << y.size();
      for(auto& q : y) { q.canonicalize(); o << " " << q.get_num() << "/" << q.get_den(); }
    }
  }
  mg->done();
  hier->done();
}

// ---------------------------------------------------------------------------------------------------------------
// mgh: the real MultiGrid at double on d and on 2^k d, k = -60..60 (scaling by a power of two commutes exactly with
// every IEEE operation, so the results must scale bit for bit - also the adaptive step lengths, which are ratios),
// next to the independent recursive reference at double (with its step lengths) and exactly.
// output per application:  APP Q n q*  { K k n x*  R n r*  W m w* }^11      (hex doubles)
// ---------------------------------------------------------------------------------------------------------------
static void handle_mgh(Cur& c, std::ostream& o)
{
  typedef MGSetup<double> SU;
  typedef SU::Vector Vector; typedef SU::MG MG;
  SU su(c, true);
  Index napp = c.idx();
  std::shared_ptr<MG> mg;
  static const int scales[11] = {0, -10, -20, -30, -40, -60, 10, 20, 30, 40, 60};
  for(Index a = 0; a < napp; ++a)
  {
    long long cy = c.i64(), cg = c.i64(), top = c.i64(), crs = c.i64();
    Index dl = c.idx();
    auto d = read_q<Q>(c, dl);
    if(a == 0) { mg = std::make_shared<MG>(su.hier, cyc(cy), int(top), int(crs)); mg->init(); }
    else { mg->set_cycle(cyc(cy)); mg->set_levels(int(top), int(crs)); }
    mg->set_adapt_cgc(cgc(cg));
    const int kind = int(cy) == 0 ? 0 : int(cy) == 1 ? 1 : 2;
    if(a > 0) o << " ";
    o << "APP";
    // exact rationals grow with every adaptive step length: the exact reference is computed only for short cycles
    const Index ell = mg->get_crs_level() - mg->get_top_level();
    const Index ell_max = (kind == 0) ? 5 : (kind == 1) ? 3 : 2;
    if(cg != 0 && ell > ell_max)
      o << " Q 0";
    else
    {
      refmg::Ref ref(su.rlv, int(cg), std::size_t(mg->get_crs_level()));
      refmg::Vec rb(dl);
      for(Index i = 0; i < dl; ++i) rb[i] = d[i].v();
      refmg::Vec y = ref.cycle(kind, std::size_t(mg->get_top_level()), rb);
      o << " Q " << y.size();
      for(auto& q : y) o << " " << Conv<double>::str(q.get_d());
    }
    for(int k : scales)
    {
      Vector vd(dl), vc(dl);
      refmg::T<double>::Vec rb(dl);
      for(Index i = 0; i < dl; ++i) { double x = std::ldexp(d[i].v().get_d(), k); vd(i, x); vc(i, 12345.0); rb[i] = x; }
      mg->apply(vc, vd);
      o << " K " << k << " " << dl;
      for(Index i = 0; i < dl; ++i) o << " " << Conv<double>::str(vc(i));
      refmg::T<double>::Ref ref(su.rlvd, int(cg), std::size_t(mg->get_crs_level()));
      auto y = ref.cycle(kind, std::size_t(mg->get_top_level()), rb);
      o << " R " << y.size();
      for(double q : y) o << " " << Conv<double>::str(q);
      o << " W " << ref.omegas.size();
      for(double w : ref.omegas) o << " " << Conv<double>::str(w);
    }
  }
  mg->done();
  su.hier->done();
}

// ---------------------------------------------------------------------------------------------------------------
// measured only: contraction numbers of the real MultiGrid at double on nested 1D P1 Poisson problems
// (n_l = 2^(k)-1 interior nodes, linear interpolation, restriction = transpose, damped Jacobi smoothing).
// ---------------------------------------------------------------------------------------------------------------
static void handle_rate(Cur& c, std::ostream& o)
{
  typedef double DT;
  typedef LogMatrix<DT> Matrix; typedef Types<DT>::Vector Vector; typedef Types<DT>::Filter Filter;
  typedef LogTransfer<DT> Transfer;
  typedef Solver::MultiGridHierarchy<Matrix, Filter, Transfer> Hier;
  typedef Solver::MultiGrid<Matrix, Filter, Transfer> MG;
  typedef Solver::SolverBase<Vector> SB;
  Index nl = c.idx();
  long long cy = c.i64();
  long long cg = c.i64();
  // level l (0 finest) has 2^(nl-l+1)-1 interior nodes; coarsest has 3
  std::vector<Index> n(nl);
  for(Index l = 0; l < nl; ++l) n[l] = (Index(1) << (nl - l + 1)) - 1;
  std::deque<Matrix> mats; std::deque<Filter> filts; std::deque<Transfer> trans;
  std::vector<std::array<std::shared_ptr<SB>, 4>> sol(nl);
  for(Index l = 0; l < nl; ++l)
  {
    Index m = n[l];
    double h = 1.0 / double(m + 1);
    std::vector<DT> a(m*m, 0.0), jac(m*m, 0.0), inv(m*m, 0.0);
    for(Index i = 0; i < m; ++i)
    {
      a[i*m + i] = 2.0 / h;
      if(i > 0) a[i*m + i - 1] = -1.0 / h;
      if(i + 1 < m) a[i*m + i + 1] = -1.0 / h;
      jac[i*m + i] = 0.7 * h / 2.0;
    }
    mats.emplace_back(l, make_csr<DT>(m, m, a));
    filts.emplace_back(m);
    if(l + 1 < nl)
    {
      Index mc = n[l+1];
      std::vector<DT> p(m*mc, 0.0), r(mc*m, 0.0);
      for(Index j = 0; j < mc; ++j)
      {
        Index f = 2*j + 1;
        p[f*mc + j] = 1.0; p[(f-1)*mc + j] = 0.5; p[(f+1)*mc + j] = 0.5;
      }
      for(Index i = 0; i < m; ++i) for(Index j = 0; j < mc; ++j) r[j*m + i] = p[i*mc + j];
      trans.emplace_back(l, make_csr<DT>(m, mc, p), make_csr<DT>(mc, m, r));
      // two damped Jacobi steps as one linear operator: S = J (2I - A J)
      std::vector<DT> s2(m*m, 0.0);
      for(Index i = 0; i < m; ++i) for(Index j = 0; j < m; ++j)
      {
        double t = (i == j ? 2.0 : 0.0) - a[i*m + j] * jac[j*m + j];
        s2[i*m + j] = jac[i*m + i] * t;
      }
      sol[l][0] = std::make_shared<MockSolver<DT>>("a" + std::to_string(l), m, s2);
      sol[l][1] = std::make_shared<MockSolver<DT>>("b" + std::to_string(l), m, s2);
    }
    else
    {
      // exact inverse of the tridiagonal coarse matrix
      // A = (1/h) tridiag(-1,2,-1) => A^-1 = h * T^-1, T^-1_ij = min(i+1,j+1)(m-max(i,j))/(m+1)
      for(Index i = 0; i < m; ++i) for(Index j = 0; j < m; ++j)
        inv[i*m + j] = h * double(std::min(i, j) + 1) * double(m - std::max(i, j)) / double(m + 1);
      sol[l][3] = std::make_shared<MockSolver<DT>>("c" + std::to_string(l), m, inv);
    }
  }
  auto hier = std::make_shared<Hier>(nl);
  for(Index l = 0; l < nl; ++l)
  {
    if(l + 1 < nl) hier->push_level(mats[l], filts[l], trans[l], sol[l][0], sol[l][1], sol[l][2], sol[l][3]);
    else hier->push_level(mats[l], filts[l], sol[l][3]);
  }
  hier->init();
  MG mg(hier, cyc(cy), 0, -1);
  mg.set_adapt_cgc(cgc(cg));
  mg.init();
  // Richardson iteration x += MG(b - A x), b = A * x_exact with a rough x_exact; contraction in the defect 2-norm
  Index m = n[0];
  Vector x(m, 0.0), b(m), d(m), cor(m);
  Vector xe(m);
  unsigned s = 12345u;
  for(Index i = 0; i < m; ++i) { s = s * 1103515245u + 12345u; xe(i, double((s >> 16) & 1023) / 512.0 - 1.0); }
  mats[0].apply(b, xe);
  double prev = b.norm2(), first = prev, last_rate = 0.0, worst = 0.0;
  int its = 0;
  for(int k = 0; k < 8; ++k)
  {
    mats[0].apply(d, x, b, -1.0);
    mg.apply(cor, d);
    x.axpy(cor);
    mats[0].apply(d, x, b, -1.0);
    double nd = d.norm2();
    if(prev < 1e-13 * first) break;
    last_rate = nd / prev;
    if(last_rate > worst) worst = last_rate;
    prev = nd; ++its;
  }
  char buf[128];
  snprintf(buf, sizeof(buf), "RATE %u %d %.6f %.6f", unsigned(nl), its, worst, last_rate);
  o << buf;
  mg.done();
  hier->done();
}

// ---------------------------------------------------------------------------------------------------------------
// measured only: 2-D Poisson (5-point stencil = P1 stiffness matrix on a regular triangulation of the unit square,
// (2^j - 1)^2 interior nodes, bilinear interpolation, restriction = transpose, two damped Jacobi steps pre/post,
// one unknown on the coarsest level), real MultiGrid at double with all three coarse grid correction modes.
// ---------------------------------------------------------------------------------------------------------------
template<typename DT_>
static typename Types<DT_>::Matrix make_csr_rows(Index rows, Index cols, const std::vector<std::vector<std::pair<Index, DT_>>>& r)
{
  Index nnz = 0;
  for(auto& x : r) nnz += Index(x.size());
  LAFEM::DenseVector<Index, Index> cidx(nnz), rptr(rows + 1);
  LAFEM::DenseVector<DT_, Index> val(nnz);
  Index p = 0;
  for(Index i = 0; i < rows; ++i)
  {
    rptr(i, p);
    for(auto& e : r[i]) { cidx(p, e.first); val(p, e.second); ++p; }
  }
  rptr(rows, p);
  return typename Types<DT_>::Matrix(rows, cols, cidx, val, rptr);
}

// two damped Jacobi steps (diag = 4) as one linear operator, applied with the sparse matrix
class Jacobi2 : public Solver::SolverBase<Types<double>::Vector>
{
public:
  typedef Types<double>::Vector Vector;
  const Types<double>::Matrix& mat; double om; std::string tag;
  Jacobi2(const Types<double>::Matrix& m, double w, const std::string& t) : mat(m), om(w), tag(t) {}
  virtual String name() const override { return "Jacobi2"; }
  virtual Solver::Status apply(Vector& cor, const Vector& def) override
  {
    g_log.push_back(tag);
    Vector t(def.size()), r(def.size());
    for(Index i = 0; i < def.size(); ++i) t(i, om / 4.0 * def(i));
    mat.apply(r, t, def, -1.0);
    for(Index i = 0; i < def.size(); ++i) cor(i, t(i) + om / 4.0 * r(i));
    return Solver::Status::success;
  }
};

static void handle_rate2d(Cur& c, std::ostream& o)
{
  typedef double DT;
  typedef LogMatrix<DT> Matrix; typedef Types<DT>::Vector Vector; typedef Types<DT>::Filter Filter;
  typedef LogTransfer<DT> Transfer;
  typedef Solver::MultiGridHierarchy<Matrix, Filter, Transfer> Hier;
  typedef Solver::MultiGrid<Matrix, Filter, Transfer> MG;
  typedef Solver::SolverBase<Vector> SB;
  Index nl = c.idx();
  long long cy = c.i64(), cg = c.i64();
  std::vector<Index> m(nl);
  for(Index l = 0; l < nl; ++l) m[l] = (Index(1) << (nl - l)) - 1;   // nodes per direction, coarsest: 1
  std::deque<Matrix> mats; std::deque<Filter> filts; std::deque<Transfer> trans;
  std::vector<std::array<std::shared_ptr<SB>, 4>> sol(nl);
  for(Index l = 0; l < nl; ++l)
  {
    Index k = m[l], n = k*k;
    std::vector<std::vector<std::pair<Index, DT>>> rows(n);
    for(Index j = 0; j < k; ++j) for(Index i = 0; i < k; ++i)
    {
      auto& r = rows[j*k + i];
      if(j > 0) r.push_back({(j-1)*k + i, -1.0});
      if(i > 0) r.push_back({j*k + i - 1, -1.0});
      r.push_back({j*k + i, 4.0});
      if(i + 1 < k) r.push_back({j*k + i + 1, -1.0});
      if(j + 1 < k) r.push_back({(j+1)*k + i, -1.0});
    }
    mats.emplace_back(l, make_csr_rows<DT>(n, n, rows));
    filts.emplace_back(n);
  }
  for(Index l = 0; l + 1 < nl; ++l)
  {
    Index k = m[l], kc = m[l+1], n = k*k, nc = kc*kc;
    std::vector<std::vector<std::pair<Index, DT>>> pr(n), rr(nc);
    const double w1[3] = {0.5, 1.0, 0.5};
    for(Index jc = 0; jc < kc; ++jc) for(Index ic = 0; ic < kc; ++ic)
      for(int dj = -1; dj <= 1; ++dj) for(int di = -1; di <= 1; ++di)
      {
        Index jf = Index(int(2*jc + 1) + dj), i_f = Index(int(2*ic + 1) + di);
        double w = w1[dj + 1] * w1[di + 1];
        pr[jf*k + i_f].push_back({jc*kc + ic, w});
        rr[jc*kc + ic].push_back({jf*k + i_f, w});
      }
    for(auto& r : pr) std::sort(r.begin(), r.end());
    for(auto& r : rr) std::sort(r.begin(), r.end());
    trans.emplace_back(l, make_csr_rows<DT>(n, nc, pr), make_csr_rows<DT>(nc, n, rr));
    sol[l][0] = std::make_shared<Jacobi2>(mats[l], 0.8, "a" + std::to_string(l));
    sol[l][1] = std::make_shared<Jacobi2>(mats[l], 0.8, "b" + std::to_string(l));
  }
  sol[nl-1][3] = std::make_shared<MockSolver<DT>>("c" + std::to_string(nl-1), 1, std::vector<DT>(1, 0.25));
  auto hier = std::make_shared<Hier>(nl);
  for(Index l = 0; l < nl; ++l)
  {
    if(l + 1 < nl) hier->push_level(mats[l], filts[l], trans[l], sol[l][0], sol[l][1], sol[l][2], sol[l][3]);
    else hier->push_level(mats[l], filts[l], sol[l][3]);
  }
  hier->init();
  MG mg(hier, cyc(cy), 0, -1);
  mg.set_adapt_cgc(cgc(cg));
  mg.init();
  Index n = m[0]*m[0];
  Vector x(n, 0.0), b(n), d(n), cor(n), xe(n);
  unsigned s = 2024u;
  for(Index i = 0; i < n; ++i) { s = s * 1103515245u + 12345u; xe(i, double((s >> 16) & 1023) / 512.0 - 1.0); }
  mats[0].apply(b, xe);
  double prev = b.norm2(), first = prev, last_rate = 0.0, worst = 0.0;
  int its = 0;
  for(int k = 0; k < 8; ++k)
  {
    mats[0].apply(d, x, b, -1.0);
    mg.apply(cor, d);
    x.axpy(cor);
    mats[0].apply(d, x, b, -1.0);
    double nd = d.norm2();
    if(prev < 1e-13 * first) break;
    last_rate = nd / prev;
    if(last_rate > worst) worst = last_rate;
    prev = nd; ++its;
  }
  char buf[128];
  snprintf(buf, sizeof(buf), "RATE %u %d %.6f %.6f", unsigned(nl), its, worst, last_rate);
  o << buf;
  mg.done();
  hier->done();
}

static void handle(const verif::Tokens& t, std::ostream& o)
{
  Cur c(t);
  std::string op = c.str();
  if(op == "mg" || op == "mgr") handle_mg<Q>(c, o);
  else if(op == "mgx" || op == "mgxr") handle_mg<Q>(c, o, true);
  else if(op == "mgd") handle_mg<double>(c, o);
  else if(op == "mgh") handle_mgh(c, o);
  else if(op == "rate") handle_rate(c, o);
  else if(op == "rate2d") handle_rate2d(c, o);
  else o << "BAD-OP";
}

int main(int argc, char** argv)
{
  return verif::run_cases(argc, argv, handle);
}
