// Independent recursive reference multigrid at exact rationals (no FEAT code, no shared state between applications):
// x = cycle(kind, level, b) from the zero initial guess.  Conventions as documented for FEAT's cycles:
// pre-/post-smoother corrections are added as they are, peak-smoother corrections are filtered; a missing peak
// smoother means pre- then post-smoother; a missing coarse solver means the filtered identity; inner re-visits use
// the peak smoother only.  Adaptive step lengths: MinEnergy <d,c>/<F(Ac),c>, MinDefect <d,F(Ac)>/<F(Ac),F(Ac)>,
// a vanishing denominator keeps 1.  The defect is always recomputed (never updated by a shortcut).
#pragma once
#include <gmpxx.h>
#include <vector>
#include <set>

namespace refmg
{
  // S_ = mpq_class (exact) or double
  template<typename S_>
  struct T
  {
  typedef S_ S;
  typedef std::vector<S> Vec;
  typedef std::vector<Vec> Mat; // rows

  struct Level
  {
    std::size_t n;
    Mat A, P, R;
    std::set<std::size_t> fidx;
    bool has[4];
    Mat s[4]; // pre, post, peak, coarse
  };

  static Vec mv(const Mat& m, const Vec& x)
  {
    Vec r(m.size());
    for(std::size_t i = 0; i < m.size(); ++i) { S a(0); for(std::size_t j = 0; j < x.size(); ++j) a += m[i][j] * x[j]; r[i] = a; }
    return r;
  }
  static S ip(const Vec& a, const Vec& b) { S r(0); for(std::size_t i = 0; i < a.size(); ++i) r += a[i] * b[i]; return r; }

  struct Ref
  {
    const std::vector<Level>& lv; int cgc; std::size_t crs;
    mutable std::vector<S> omegas; // adaptive step lengths in order of occurrence (diagnostics)
    Ref(const std::vector<Level>& l, int c, std::size_t cr) : lv(l), cgc(c), crs(cr) {}
    Vec F(std::size_t l, Vec v) const { for(auto i : lv[l].fidx) if(i < v.size()) v[i] = S(0); return v; }
    Vec res(std::size_t l, const Vec& b, const Vec& x) const
    {
      Vec ax = mv(lv[l].A, x), r(b.size());
      for(std::size_t i = 0; i < b.size(); ++i) r[i] = b[i] - ax[i];
      return F(l, r);
    }
    Vec smooth(std::size_t l, int slot, const Vec& b, Vec x) const
    {
      if(!lv[l].has[slot]) return x;
      Vec c = F(l, mv(lv[l].s[slot], res(l, b, x)));
      for(std::size_t i = 0; i < x.size(); ++i) x[i] += c[i];
      return x;
    }
    // kinds: 0 = V, 1 = F (top), 2 = W, 3 = inner F
    Vec correct(int kind, std::size_t l, const Vec& b, Vec x) const
    {
      Vec d = res(l, b, x);
      Vec xc = cycle(kind, l + 1, F(l + 1, mv(lv[l].R, d)));
      Vec c = F(l, mv(lv[l].P, xc));
      S om(1);
      if(cgc != 0)
      {
        Vec t = F(l, mv(lv[l].A, c));
        S den = (cgc == 1) ? ip(t, c) : ip(t, t);
        if(den != 0) om = ((cgc == 1) ? ip(d, c) : ip(d, t)) / den;
        omegas.push_back(om);
      }
      for(std::size_t i = 0; i < x.size(); ++i) x[i] += om * c[i];
      return x;
    }
    Vec cycle(int kind, std::size_t l, const Vec& b) const
    {
      const Level& L = lv[l];
      if(l == crs) return L.has[3] ? mv(L.s[3], b) : F(l, b);
      Vec x(L.n, S(0));
      if(L.has[0]) x = mv(L.s[0], b);
      int first = (kind == 0) ? 0 : (kind == 2) ? 2 : 3;
      x = correct(first, l, b, x);
      if(kind == 2 || kind == 3)
      {
        if(L.has[2]) x = smooth(l, 2, b, x);
        else { x = smooth(l, 0, b, x); x = smooth(l, 1, b, x); }
        x = correct(kind == 2 ? 2 : 0, l, b, x);
      }
      if(L.has[1])
      {
        Vec c = mv(L.s[1], res(l, b, x));
        for(std::size_t i = 0; i < x.size(); ++i) x[i] += c[i];
      }
      return x;
    }
  };
  }; // struct T

  // the exact instance used by the `mgx` ops
  typedef T<mpq_class>::S S;
  typedef T<mpq_class>::Vec Vec;
  typedef T<mpq_class>::Mat Mat;
  typedef T<mpq_class>::Level Level;
  typedef T<mpq_class>::Ref Ref;
}
