// C05 harness: executes the real LAFEM container serialisation / text IO / checkpoint code on one case per
// line (see FeatModel/Driver/C05.lean for the line protocol).  Binary modes run at the real storage types
// float/double x u32/u64 (values are opaque bit patterns there); values are exchanged as exact rationals.
#include <forkcase.hpp>
#include <exact_q.hpp>
#include <kernel/lafem/container.hpp>
#include <kernel/lafem/dense_vector.hpp>
#include <kernel/lafem/dense_vector_blocked.hpp>
#include <kernel/lafem/sparse_vector.hpp>
#include <kernel/lafem/dense_matrix.hpp>
#include <kernel/lafem/sparse_matrix_csr.hpp>
#include <kernel/lafem/sparse_matrix_bcsr.hpp>
#include <kernel/lafem/sparse_matrix_banded.hpp>
#include <kernel/lafem/sparse_matrix_cscr.hpp>
#include <kernel/util/binary_stream.hpp>
#include <kernel/util/dist.hpp>
#include <kernel/util/dist_file_io.hpp>
#include <control/checkpoint_control.hpp>
#include <cstdint>
#include <sstream>
#include <memory>
#include <functional>

using namespace FEAT;
using namespace FEAT::LAFEM;
using verif::Cur;

typedef std::vector<std::string> SVec;

static SVec strlist(Cur& c) { std::size_t n = c.idx(); SVec v(n); for(auto& x : v) x = c.str(); return v; }
static double to_d(const std::string& s) { return Q::parse(s).v().get_d(); }

template<typename T_> static std::string show_val(T_ v)
{
  mpq_class q((double)v); std::ostringstream o; o << q.get_num() << "/" << q.get_den(); return o.str();
}

static void show_hex(std::ostream& o, const char* p, std::size_t n)
{
  static const char* hx = "0123456789abcdef";
  std::string s; s.reserve(2 * n + 1);
  for(std::size_t i = 0; i < n; ++i) { unsigned char b = (unsigned char)p[i]; s.push_back(hx[b >> 4]); s.push_back(hx[b & 15]); }
  if(n == 0) s = "-";
  o << s;
}

static void show_text(std::ostream& o, const std::string& t)
{
  std::string s;
  for(char ch : t) s.push_back(ch == ' ' ? '_' : (ch == '\n' ? '|' : ch));
  if(s.empty()) s = "-";
  o << s;
}

// raw dump of any container through the public getters
template<typename DT_, typename IT_>
static void dump(std::ostream& o, const Container<DT_, IT_>& c)
{
  o << "D " << c.get_scalar_index().size();
  for(auto x : c.get_scalar_index()) o << " " << x;
  o << " " << c.get_scalar_dt().size();
  for(auto x : c.get_scalar_dt()) o << " " << show_val(x);
  o << " " << c.get_elements().size();
  for(std::size_t i = 0; i < c.get_elements().size(); ++i)
  {
    Index n = c.get_elements_size().at(i);
    o << " " << n;
    for(Index j = 0; j < n; ++j) o << " " << show_val(c.get_elements().at(i)[j]);
  }
  o << " " << c.get_indices().size();
  for(std::size_t i = 0; i < c.get_indices().size(); ++i)
  {
    Index n = c.get_indices_size().at(i);
    o << " " << n;
    for(Index j = 0; j < n; ++j) o << " " << (unsigned long long)c.get_indices().at(i)[j];
  }
}

// ------------------------------------------------------------------------------------------------
// raw container: arbitrary array counts through a derived class (protected members of Container)
// ------------------------------------------------------------------------------------------------
template<typename DT_, typename IT_>
struct RawContainer : public Container<DT_, IT_>
{
  RawContainer() : Container<DT_, IT_>(0) { this->_scalar_index.clear(); }
  void fill(Cur& c)
  {
    for(auto x : c.idxlist()) this->_scalar_index.push_back(Index(x));
    for(auto& s : strlist(c)) this->_scalar_dt.push_back(DT_(to_d(s)));
    std::size_t ne = c.idx();
    for(std::size_t i = 0; i < ne; ++i)
    {
      SVec v = strlist(c);
      DT_* p = MemoryPool::template allocate_memory<DT_>(Index(v.size()));
      for(std::size_t j = 0; j < v.size(); ++j) p[j] = DT_(to_d(v[j]));
      this->_elements.push_back(p); this->_elements_size.push_back(Index(v.size()));
    }
    std::size_t ni = c.idx();
    for(std::size_t i = 0; i < ni; ++i)
    {
      auto v = c.idxlist();
      IT_* p = MemoryPool::template allocate_memory<IT_>(Index(v.size()));
      for(std::size_t j = 0; j < v.size(); ++j) p[j] = IT_(v[j]);
      this->_indices.push_back(p); this->_indices_size.push_back(Index(v.size()));
    }
  }
  template<typename DT2_, typename IT2_> std::uint64_t ssize() const { return this->template _serialized_size<DT2_, IT2_>(); }
  template<typename DT2_, typename IT2_> std::vector<char> ser(FileMode m) const { return this->template _serialize<DT2_, IT2_>(m); }
  template<typename DT2_, typename IT2_> void deser(FileMode m, std::vector<char>& b) { this->template _deserialize<DT2_, IT2_>(m, b); }
};

template<typename DT_, typename IT_, typename DT2_, typename IT2_>
static void do_raw(Cur& c, std::ostream& o, Index wmode, Index rmode)
{
  RawContainer<DT_, IT_> a; a.fill(c);
  std::uint64_t gs = a.template ssize<DT2_, IT2_>();
  std::vector<char> b = a.template ser<DT2_, IT2_>(FileMode(wmode));
  o << "S " << gs << " B "; show_hex(o, b.data(), b.size());
  RawContainer<DT_, IT_> r;
  r.template deser<DT2_, IT2_>(FileMode(rmode), b);
  o << " "; dump(o, r);
}

#define DISPATCH4(FN, dt, it, dt2, it2, ...) \
  do { int key_ = int((dt == 8) * 8 + (it == 8) * 4 + (dt2 == 8) * 2 + (it2 == 8)); switch(key_) { \
  case 0: FN<float, std::uint32_t, float, std::uint32_t>(__VA_ARGS__); break; \
  case 1: FN<float, std::uint32_t, float, std::uint64_t>(__VA_ARGS__); break; \
  case 2: FN<float, std::uint32_t, double, std::uint32_t>(__VA_ARGS__); break; \
  case 3: FN<float, std::uint32_t, double, std::uint64_t>(__VA_ARGS__); break; \
  case 4: FN<float, std::uint64_t, float, std::uint32_t>(__VA_ARGS__); break; \
  case 5: FN<float, std::uint64_t, float, std::uint64_t>(__VA_ARGS__); break; \
  case 6: FN<float, std::uint64_t, double, std::uint32_t>(__VA_ARGS__); break; \
  case 7: FN<float, std::uint64_t, double, std::uint64_t>(__VA_ARGS__); break; \
  case 8: FN<double, std::uint32_t, float, std::uint32_t>(__VA_ARGS__); break; \
  case 9: FN<double, std::uint32_t, float, std::uint64_t>(__VA_ARGS__); break; \
  case 10: FN<double, std::uint32_t, double, std::uint32_t>(__VA_ARGS__); break; \
  case 11: FN<double, std::uint32_t, double, std::uint64_t>(__VA_ARGS__); break; \
  case 12: FN<double, std::uint64_t, float, std::uint32_t>(__VA_ARGS__); break; \
  case 13: FN<double, std::uint64_t, float, std::uint64_t>(__VA_ARGS__); break; \
  case 14: FN<double, std::uint64_t, double, std::uint32_t>(__VA_ARGS__); break; \
  default: FN<double, std::uint64_t, double, std::uint64_t>(__VA_ARGS__); break; } } while(0)

// ------------------------------------------------------------------------------------------------
// real container kinds, built through their public constructors
// ------------------------------------------------------------------------------------------------
template<typename DT_, typename IT_> static DenseVector<DT_, IT_> mk_dv(const SVec& v)
{
  DenseVector<DT_, IT_> x(Index(v.size()));
  for(std::size_t i = 0; i < v.size(); ++i) x(Index(i), DT_(to_d(v[i])));
  return x;
}
template<typename IT_> static DenseVector<IT_, IT_> mk_iv(const std::vector<std::size_t>& v)
{
  DenseVector<IT_, IT_> x(Index(v.size()));
  for(std::size_t i = 0; i < v.size(); ++i) x(Index(i), IT_(v[i]));
  return x;
}

template<typename DT_, typename IT_> struct Kinds
{
  typedef DenseVector<DT_, IT_> DV;
  typedef DenseVectorBlocked<DT_, IT_, 2> DVB;
  typedef SparseVector<DT_, IT_> SV;
  typedef DenseMatrix<DT_, IT_> DM;
  typedef SparseMatrixCSR<DT_, IT_> CSR;
  typedef SparseMatrixBCSR<DT_, IT_, 2, 3> BCSR;
  typedef SparseMatrixBanded<DT_, IT_> BM;
  typedef SparseMatrixCSCR<DT_, IT_> CSCR;

  static DV dv(Cur& c) { return mk_dv<DT_, IT_>(strlist(c)); }
  static DVB dvb(Cur& c)
  {
    SVec v = strlist(c);
    DVB x(Index(v.size() / 2));
    DT_* p = x.template elements<Perspective::pod>();
    for(std::size_t i = 0; i < v.size(); ++i) p[i] = DT_(to_d(v[i]));
    return x;
  }
  static SV sv(Cur& c)
  {
    Index n = c.idx(); Index sorted = c.idx(); auto idx = c.idxlist(); SVec v = strlist(c);
    if(idx.empty()) return SV(n);
    auto e = mk_dv<DT_, IT_>(v); auto i = mk_iv<IT_>(idx);
    return SV(n, e, i, sorted != 0);
  }
  static DM dm(Cur& c)
  {
    Index r = c.idx(), cc = c.idx(); SVec v = strlist(c);
    if(r == 0 || cc == 0) { DM x; return x; }
    DM x(r, cc);
    for(std::size_t i = 0; i < v.size(); ++i) x.elements()[i] = DT_(to_d(v[i]));
    return x;
  }
  static CSR csr(Cur& c)
  {
    Index r = c.idx(), cc = c.idx(); Index variant = c.idx();
    auto rp = c.idxlist(); auto ci = c.idxlist(); SVec v = strlist(c);
    if(ci.empty())
    {
      if(variant == 0 || r == 0 || cc == 0) return CSR(r, cc);
      CSR x(r, cc, 0);
      for(Index i = 0; i <= r; ++i) x.row_ptr()[i] = IT_(0);
      return x;
    }
    auto a = mk_iv<IT_>(ci); auto b = mk_dv<DT_, IT_>(v); auto d = mk_iv<IT_>(rp);
    return CSR(r, cc, a, b, d);
  }
  static BCSR bcsr(Cur& c)
  {
    Index r = c.idx(), cc = c.idx();
    auto rp = c.idxlist(); auto ci = c.idxlist(); SVec v = strlist(c);
    if(ci.empty()) return BCSR(r, cc);
    auto a = mk_iv<IT_>(ci); auto b = mk_dv<DT_, IT_>(v); auto d = mk_iv<IT_>(rp);
    return BCSR(r, cc, a, b, d);
  }
  static BM bm(Cur& c)
  {
    Index r = c.idx(), cc = c.idx();
    auto off = c.idxlist(); SVec v = strlist(c);
    auto b = mk_dv<DT_, IT_>(v); auto d = mk_iv<IT_>(off);
    return BM(r, cc, b, d);
  }
  static CSCR cscr(Cur& c)
  {
    Index r = c.idx(), cc = c.idx();
    auto rp = c.idxlist(); auto ci = c.idxlist(); SVec v = strlist(c); auto rn = c.idxlist();
    if(ci.empty()) return CSCR(r, cc);
    auto a = mk_iv<IT_>(ci); auto b = mk_dv<DT_, IT_>(v); auto d = mk_iv<IT_>(rp); auto e = mk_iv<IT_>(rn);
    return CSCR(r, cc, a, b, d, e);
  }
};

// binary round trip of one real container: via = 0 serialize<DT2,IT2>()/deserialize<DT2,IT2>(),
// via = 1 write_out(fm_binary, stream)/read_from(fm_binary, stream) (always double/u64 on disk)
template<typename DT2_, typename IT2_, typename CT_>
static void bin_rt(std::ostream& o, CT_& a, Index via)
{
  o << "L "; dump(o, a); o << " B ";
  CT_ r;
  if(via == 0)
  {
    std::vector<char> b = a.template serialize<DT2_, IT2_>();
    show_hex(o, b.data(), b.size());
    r.template deserialize<DT2_, IT2_>(b);
  }
  else
  {
    std::stringstream ss(std::ios::in | std::ios::out | std::ios::binary);
    a.write_out(FileMode::fm_binary, ss);
    std::string s = ss.str();
    show_hex(o, s.data(), s.size());
    std::stringstream is(s, std::ios::in | std::ios::binary);
    r.read_from(FileMode::fm_binary, is);
  }
  o << " "; dump(o, r);
  o << " EQ " << (a == r ? 1 : 0);
}

template<typename DT_, typename IT_, typename DT2_, typename IT2_>
static void do_kind(Cur& c, std::ostream& o, const std::string& kind, Index via)
{
  typedef Kinds<DT_, IT_> K;
  if(kind == "dv") { auto a = K::dv(c); bin_rt<DT2_, IT2_>(o, a, via); }
  else if(kind == "dvb") { auto a = K::dvb(c); bin_rt<DT2_, IT2_>(o, a, via); }
  else if(kind == "sv") { auto a = K::sv(c); bin_rt<DT2_, IT2_>(o, a, via); }
  else if(kind == "dm") { auto a = K::dm(c); bin_rt<DT2_, IT2_>(o, a, via); }
  else if(kind == "csr") { auto a = K::csr(c); bin_rt<DT2_, IT2_>(o, a, via); }
  else if(kind == "bcsr") { auto a = K::bcsr(c); bin_rt<DT2_, IT2_>(o, a, via); }
  else if(kind == "bm") { auto a = K::bm(c); bin_rt<DT2_, IT2_>(o, a, via); }
  else if(kind == "cscr") { auto a = K::cscr(c); bin_rt<DT2_, IT2_>(o, a, via); }
  else o << "BAD-OP";
}

// text round trip: write_out(mode, stream) -> text -> read_from(mode, stream) into a fresh object
template<typename CT_, typename... A_>
static void txt_rt(std::ostream& o, CT_& a, FileMode m, A_... extra)
{
  std::stringstream ss;
  a.write_out(m, ss, extra...);
  std::string s = ss.str();
  o << "L "; dump(o, a);
  o << " T "; show_text(o, s);
  std::stringstream is(s);
  CT_ r;
  r.read_from(m, is);
  o << " "; dump(o, r);
  o << " EQ " << (a == r ? 1 : 0);
}

template<typename DT_, typename IT_>
static void do_txt(Cur& c, std::ostream& o, const std::string& kind, const std::string& mode)
{
  typedef Kinds<DT_, IT_> K;
  FileMode m = (mode == "exp") ? FileMode::fm_exp : FileMode::fm_mtx;
  if(kind == "dv") { auto a = K::dv(c); txt_rt(o, a, m); }
  else if(kind == "dvb") { auto a = K::dvb(c); txt_rt(o, a, m); }
  else if(kind == "sv") { auto a = K::sv(c); txt_rt(o, a, m); }
  else if(kind == "dm") { auto a = K::dm(c); txt_rt(o, a, m); }
  else if(kind == "csr") { auto a = K::csr(c); txt_rt(o, a, m, mode == "mtxsym"); }
  else if(kind == "bcsr")
  {
    // BCSR has a MatrixMarket writer only: the file is read back as the scalar CSR matrix
    auto a = K::bcsr(c);
    std::stringstream ss;
    a.write_out(FileMode::fm_mtx, ss);
    std::string s = ss.str();
    o << "L "; dump(o, a);
    o << " T "; show_text(o, s);
    std::stringstream is(s);
    typename K::CSR r;
    r.read_from(FileMode::fm_mtx, is);
    o << " "; dump(o, r);
  }
  else o << "BAD-OP";
}

// checkpoint: n objects (dv | csr at double/u64), registered in the given order, saved to a BinaryStream,
// loaded by a fresh CheckpointControl and restored in the given restore order into fresh objects.
// hexnames: identifiers are given as hex strings (any bytes: blanks, punctuation, long names);
// indiv: every restore uses its own freshly loaded CheckpointControl (restore of one object alone)
static std::string unhex(const std::string& h)
{
  std::string r;
  if(h == "-") return r;
  for(std::size_t i = 0; i + 1 < h.size(); i += 2) r.push_back(char(std::stoi(h.substr(i, 2), nullptr, 16)));
  return r;
}

static void do_cp(Cur& c, std::ostream& o, bool hexnames, bool indiv)
{
  typedef Kinds<double, std::uint64_t> K;
  Index n = c.idx();
  std::vector<String> names; std::vector<std::string> kinds;
  std::vector<std::unique_ptr<K::DV>> dvs(n);
  std::vector<std::unique_ptr<K::CSR>> csrs(n);
  Dist::Comm comm = Dist::Comm::world();
  Control::CheckpointControl cp(comm);
  for(Index i = 0; i < n; ++i)
  {
    std::string nm = c.str();
    names.push_back(String(hexnames ? unhex(nm) : nm)); kinds.push_back(c.str());
    if(kinds.back() == "dv") { dvs[i].reset(new K::DV(K::dv(c))); cp.add_object(names.back(), *dvs[i]); }
    else { csrs[i].reset(new K::CSR(K::csr(c))); cp.add_object(names.back(), *csrs[i]); }
  }
  auto order = c.idxlist();
  BinaryStream bs;
  cp.save(bs);
  o << "B "; show_hex(o, bs.data(), std::size_t(bs.size()));
  std::unique_ptr<Control::CheckpointControl> cq(new Control::CheckpointControl(comm));
  bs.seekg(0);
  cq->load(bs);
  for(auto k : order)
  {
    if(indiv) { cq.reset(new Control::CheckpointControl(comm)); bs.seekg(0); cq->load(bs); }
    o << " ";
    if(kinds[k] == "dv") { K::DV r; cq->restore_object(names[k], r, false); dump(o, r); o << " EQ " << (r == *dvs[k] ? 1 : 0); }
    else { K::CSR r; cq->restore_object(names[k], r, false); dump(o, r); o << " EQ " << (r == *csrs[k] ? 1 : 0); }
  }
}

// DistFileIO::write_combined / read_combined (one process) through a temporary file
static void do_dfio(Cur& c, std::ostream& o)
{
  std::string sh = unhex(c.str()), bf = unhex(c.str());
  std::vector<char> shared(sh.begin(), sh.end()), buffer(bf.begin(), bf.end());
  Dist::Comm comm = Dist::Comm::world();
  String fn = String("/tmp/verif_c05_dfio_") + stringify(getpid()) + ".bin";
  DistFileIO::write_combined(shared, buffer, fn, comm);
  std::ifstream f(fn.c_str(), std::ios::binary);
  std::string file((std::istreambuf_iterator<char>(f)), std::istreambuf_iterator<char>());
  f.close();
  std::vector<char> s2, b2;
  DistFileIO::read_combined(s2, b2, fn, comm);
  ::remove(fn.c_str());
  o << "F "; show_hex(o, file.data(), file.size());
  o << " S "; show_hex(o, s2.data(), s2.size());
  o << " B "; show_hex(o, b2.data(), b2.size());
}

// restore an identifier that was never registered
static void do_cpmiss(Cur& c, std::ostream& o)
{
  typedef Kinds<double, std::uint64_t> K;
  String missing(unhex(c.str()));
  Index n = c.idx();
  std::vector<std::unique_ptr<K::DV>> dvs(n);
  std::vector<std::unique_ptr<K::CSR>> csrs(n);
  Dist::Comm comm = Dist::Comm::world();
  Control::CheckpointControl cp(comm);
  for(Index i = 0; i < n; ++i)
  {
    String nm(unhex(c.str())); std::string kind = c.str();
    if(kind == "dv") { dvs[i].reset(new K::DV(K::dv(c))); cp.add_object(nm, *dvs[i]); }
    else { csrs[i].reset(new K::CSR(K::csr(c))); cp.add_object(nm, *csrs[i]); }
  }
  BinaryStream bs;
  cp.save(bs);
  Control::CheckpointControl cq(comm);
  bs.seekg(0);
  cq.load(bs);
  K::DV r;
  cq.restore_object(missing, r, false);
  o << "RESTORED "; dump(o, r);
}

// several containers written back to back into ONE stream / file with write_out(fm_binary, stream) and read back
// in order with read_from(fm_binary, stream); njunk leading bytes give a non-zero start offset
typedef std::function<void(std::istream&, std::ostream&)> MultiReader;

template<typename CT_>
static void multi_add(CT_&& obj, std::ostream& stream, std::vector<MultiReader>& readers)
{
  std::shared_ptr<CT_> a = std::make_shared<CT_>(std::move(obj));
  a->write_out(FileMode::fm_binary, stream);
  readers.push_back([a](std::istream& is, std::ostream& o)
  {
    CT_ r;
    r.read_from(FileMode::fm_binary, is);
    o << " P " << (long long)is.tellg() << " ";
    dump(o, r);
    o << " EQ " << (*a == r ? 1 : 0);
  });
}

template<typename DT_, typename IT_>
static void multi_one(Cur& c, const std::string& kind, std::ostream& stream, std::vector<MultiReader>& readers)
{
  typedef Kinds<DT_, IT_> K;
  if(kind == "dv") multi_add(K::dv(c), stream, readers);
  else if(kind == "dvb") multi_add(K::dvb(c), stream, readers);
  else if(kind == "sv") multi_add(K::sv(c), stream, readers);
  else if(kind == "dm") multi_add(K::dm(c), stream, readers);
  else if(kind == "csr") multi_add(K::csr(c), stream, readers);
  else if(kind == "bcsr") multi_add(K::bcsr(c), stream, readers);
  else if(kind == "bm") multi_add(K::bm(c), stream, readers);
  else if(kind == "cscr") multi_add(K::cscr(c), stream, readers);
  else { std::cerr << "\n>>> FATAL ERROR: harness: unknown kind\n"; std::abort(); }
}

static void do_multi(Cur& c, std::ostream& o)
{
  Index use_file = c.idx(), njunk = c.idx(), k = c.idx();
  std::vector<MultiReader> readers;
  std::stringstream ss(std::ios::in | std::ios::out | std::ios::binary);
  String fn = String("/tmp/verif_c05_multi_") + stringify(getpid()) + ".bin";
  std::ofstream ofs;
  if(use_file != 0) ofs.open(fn.c_str(), std::ios::binary | std::ios::trunc);
  std::ostream& os = (use_file != 0) ? static_cast<std::ostream&>(ofs) : static_cast<std::ostream&>(ss);
  for(Index i = 0; i < njunk; ++i) os.put(char((i * 37 + 11) & 0xFF));
  for(Index i = 0; i < k; ++i)
  {
    std::string kind = c.str(); Index dt = c.idx();
    if(dt == 8) multi_one<double, std::uint64_t>(c, kind, os, readers);
    else multi_one<float, std::uint32_t>(c, kind, os, readers);
  }
  std::string content;
  if(use_file != 0)
  {
    ofs.close();
    std::ifstream f(fn.c_str(), std::ios::binary);
    content.assign((std::istreambuf_iterator<char>(f)), std::istreambuf_iterator<char>());
  }
  else content = ss.str();
  o << "B "; show_hex(o, content.data(), content.size());
  std::ifstream ifs;
  std::stringstream is(content, std::ios::in | std::ios::binary);
  if(use_file != 0) ifs.open(fn.c_str(), std::ios::binary);
  std::istream& in = (use_file != 0) ? static_cast<std::istream&>(ifs) : static_cast<std::istream&>(is);
  in.seekg(std::streamoff(njunk), std::ios::beg);
  for(auto& rd : readers) rd(in, o);
  if(use_file != 0) { ifs.close(); ::remove(fn.c_str()); }
}

static void handle(const verif::Tokens& t, std::ostream& o)
{
  // runs in the forked child: FEAT prints some warnings to std::cout, which must not reach the result stream
  static std::ostringstream sink;
  std::cout.rdbuf(sink.rdbuf());
  Cur c(t);
  std::string op = c.str();
  if(op == "raw")
  {
    Index wmode = c.idx(), rmode = c.idx();
    Index dt = c.idx(), it = c.idx(), dt2 = c.idx(), it2 = c.idx();
    DISPATCH4(do_raw, dt, it, dt2, it2, c, o, wmode, rmode);
  }
  else if(op == "kind")
  {
    std::string kind = c.str(); Index via = c.idx();
    Index dt = c.idx(), it = c.idx(), dt2 = c.idx(), it2 = c.idx();
    DISPATCH4(do_kind, dt, it, dt2, it2, c, o, kind, via);
  }
  else if(op == "txt" || op == "txtr")
  {
    std::string kind = c.str(); std::string mode = c.str();
    Index dt = c.idx(), it = c.idx();
    if(dt == 8 && it == 8) do_txt<double, std::uint64_t>(c, o, kind, mode);
    else if(dt == 8) do_txt<double, std::uint32_t>(c, o, kind, mode);
    else if(it == 8) do_txt<float, std::uint64_t>(c, o, kind, mode);
    else do_txt<float, std::uint32_t>(c, o, kind, mode);
  }
  else if(op == "cp")
  {
    do_cp(c, o, false, false);
  }
  else if(op == "dfio")
  {
    do_dfio(c, o);
  }
  else if(op == "multi")
  {
    do_multi(c, o);
  }
  else if(op == "cpmiss")
  {
    do_cpmiss(c, o);
  }
  else if(op == "cpx")
  {
    Index indiv = c.idx();
    do_cp(c, o, true, indiv != 0);
  }
  else o << "BAD-OP";
}

int main(int argc, char** argv)
{
  return verif::run_cases(argc, argv, handle);
}
