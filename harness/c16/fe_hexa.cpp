// C16 harness: finite-element runs on Shape::Hypercube<3> (see fe.hpp)
#include "fe.hpp"
namespace c16 { void fe_hexa(Cur& c, std::ostream& o, int mode) { run_fe<FEAT::Shape::Hypercube<3>>(c, o, mode); } }
