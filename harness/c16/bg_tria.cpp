// C16 harness: Burgers assembly routes on Shape::Simplex<2> (see burgers.hpp)
#include "burgers.hpp"
namespace c16 { void bg_tria(Cur& c, std::ostream& o, bool full) { run_bg<FEAT::Shape::Simplex<2>>(c, o, full); } }
