// C16 harness, Burgers part: the REAL classic Assembly::BurgersAssembler (cell loop) and the REAL domain-assembler
// jobs BurgersBlockedMatrixAssemblyJob / BurgersScalarMatrixAssemblyJob at the exact scalar Q (sqrt = deterministic
// q_sqrt on every route), blocked BCSR<dim,dim> and scalar CSR matrices, all terms switchable, structured
// convection fields.  Routes printed:
//   A  classic BurgersAssembler::assemble_matrix / assemble_scalar_matrix
//   B  job through a single-threaded DomainAssembler on all elements
//   S  sum over the cells of the job run on a one-element DomainAssembler (fresh task per cell: no carried state)
//   O  one job task driven over the cells in a permuted order (order independence)
//   C  per cell (one task, natural order): barycentre velocity, the task's local_delta, and the streamline-diffusion
//      part of the local matrix (local matrix with SD minus local matrix with sd_delta = 0)
// One translation unit per shape (bg_<shape>.cpp).
#pragma once
#include "fe.hpp"
#include <kernel/lafem/sparse_matrix_bcsr.hpp>
#include <kernel/lafem/dense_vector_blocked.hpp>
#include <kernel/assembly/burgers_assembler.hpp>
#include <kernel/assembly/burgers_assembly_job.hpp>

namespace c16
{
  struct BgConfig
  {
    Index level; std::vector<Index> mv_idx; std::vector<std::vector<Q>> mv_delta;
    std::string space, mtype, rule; int deform; Q nu, theta, beta, frechet, sd_delta, sd_nu; int vnorm_mode; Q vnorm;
    int fkind; std::vector<std::vector<Q>> fcoef; Index fcell; std::vector<Q> fmat; std::vector<Index> zero_cells;
    std::vector<Index> order;
  };

  template<int dim_>
  BgConfig read_bg_config(Cur& c)
  {
    BgConfig g;
    g.level = c.idx();
    Index nm = c.idx();
    for(Index k = 0; k < nm; ++k)
    {
      g.mv_idx.push_back(c.idx());
      std::vector<Q> d; for(int i = 0; i < dim_; ++i) d.push_back(rdq(c));
      g.mv_delta.push_back(d);
    }
    g.space = c.str(); g.mtype = c.str(); g.rule = c.str(); g.deform = int(c.idx());
    g.nu = rdq(c); g.theta = rdq(c); g.beta = rdq(c); g.frechet = rdq(c); g.sd_delta = rdq(c); g.sd_nu = rdq(c);
    g.vnorm_mode = int(c.idx()); g.vnorm = rdq(c);
    g.fkind = int(c.idx()); g.fcell = 0;
    if(g.fkind == 3)
    {
      g.fcell = c.idx();
      for(int i = 0; i < dim_ * dim_; ++i) g.fmat.push_back(rdq(c));
    }
    else
    {
      for(int i = 0; i < dim_; ++i) g.fcoef.push_back(rdqlist(c));
    }
    { auto l = c.idxlist(); g.zero_cells.assign(l.begin(), l.end()); }
    { auto l = c.idxlist(); g.order.assign(l.begin(), l.end()); }
    return g;
  }

  template<typename Shape_>
  struct Bg
  {
    static constexpr int dim = Shape_::dimension;
    typedef Geometry::ConformalMesh<Shape_, dim, Q> MeshType;
    typedef Trafo::Standard::Mapping<MeshType> TrafoType;
    typedef Space::Lagrange1::Element<TrafoType> SpaceL1;
    typedef Space::Lagrange2::Element<TrafoType> SpaceL2;
    typedef LAFEM::SparseMatrixBCSR<Q, Index, dim, dim> BMatrix;
    typedef LAFEM::DenseVectorBlocked<Q, Index, dim> BVector;

    const BgConfig& g; bool full; std::ostream& o;
    MeshType mesh; TrafoType trafo;

    static MeshType make_mesh(const BgConfig& g)
    {
      Config fc; fc.level = g.level; fc.mv_idx = g.mv_idx; fc.mv_delta = g.mv_delta;
      return Fe<Shape_>::make_mesh(fc);
    }

    Bg(const BgConfig& gg, bool ff, std::ostream& oo) : g(gg), full(ff), o(oo), mesh(make_mesh(gg)), trafo(mesh) {}

    std::vector<Q> cell_centre(Index cell) const
    {
      const auto& vtx = mesh.get_vertex_set();
      const auto& idx = mesh.template get_index_set<dim, 0>();
      std::vector<Q> c(std::size_t(dim), Q(0));
      for(int j = 0; j < idx.num_indices; ++j)
        for(int d = 0; d < dim; ++d) c[std::size_t(d)] = c[std::size_t(d)] + vtx[idx[cell][j]][d];
      for(int d = 0; d < dim; ++d) c[std::size_t(d)] = c[std::size_t(d)] / Q(int(idx.num_indices));
      return c;
    }

    // the convection field: polynomial components interpolated by the real interpolator, then zeroed on whole cells
    template<typename Space_>
    BVector make_field(const Space_& space) const
    {
      std::vector<std::vector<Q>> coef;
      if(g.fkind == 3)
      {
        // v = M (x - c_k): stagnation point / vortex centre at the barycentre of cell k
        const Index nc = mesh.get_num_entities(dim);
        auto ck = cell_centre(g.fcell % nc);
        for(int a = 0; a < dim; ++a)
        {
          std::vector<Q> ca(std::size_t(1 + dim), Q(0));
          for(int b = 0; b < dim; ++b)
          {
            ca[std::size_t(1 + b)] = g.fmat[std::size_t(a * dim + b)];
            ca[0] = ca[0] - g.fmat[std::size_t(a * dim + b)] * ck[std::size_t(b)];
          }
          coef.push_back(ca);
        }
      }
      else
        coef = g.fcoef;
      BVector v(space.get_num_dofs());
      v.format();
      for(int a = 0; a < dim; ++a)
      {
        PolyFunction<dim> f(coef[std::size_t(a)]);
        VectorQ comp;
        Assembly::Interpolator::project(comp, f, space);
        for(Index i = 0; i < v.size(); ++i) { auto t = v(i); t[a] = comp(i); v(i, t); }
      }
      typename Space_::DofMappingType dm(space);
      const Index nc = mesh.get_num_entities(dim);
      for(Index zc : g.zero_cells)
      {
        dm.prepare(zc % nc);
        for(int j = 0; j < dm.get_num_local_dofs(); ++j) { auto t = v(dm.get_index(j)); t.format(); v(dm.get_index(j), t); }
        dm.finish();
      }
      return v;
    }

    template<typename Obj_>
    void set_params(Obj_& a, const BVector& conv, bool with_sd) const
    {
      a.deformation = (g.deform != 0);
      a.nu = g.nu; a.theta = g.theta; a.beta = g.beta; a.frechet_beta = g.frechet;
      a.sd_delta = with_sd ? g.sd_delta : Q(0); a.sd_nu = g.sd_nu;
      if(g.vnorm_mode == 1) a.set_sd_v_norm(conv);
      else if(g.vnorm_mode == 2) a.sd_v_norm = g.vnorm;
      else a.sd_v_norm = Q(0);
    }

    static void show_vals(std::ostream& o, const BMatrix& m)
    {
      const Index n = m.used_elements();
      o << n * Index(dim * dim);
      for(Index k = 0; k < n; ++k)
        for(int a = 0; a < dim; ++a)
          for(int b = 0; b < dim; ++b) o << " " << m.val()[k][a][b];
    }
    static void show_vals(std::ostream& o, const MatrixQ& m) { show_q(o, m.val(), m.used_elements()); }

    static Q entry(const Tiny::Matrix<Q, dim, dim>& b, int a, int c) { return b[a][c]; }
    static Q entry(const Q& b, int, int) { return b; }

    // a job task whose per-cell state is readable
    template<typename Job_>
    struct Probe : public Job_::Task
    {
      explicit Probe(const Job_& job) : Job_::Task(job) {}
      Q delta() const { return this->local_delta; }
      Q mean(int d) const { return this->mean_v[d]; }
      int nloc() const { return this->num_local_dofs; }
      template<int bs_> Q loc(int i, int j, int a, int b) const { return entry(this->local_matrix[i][j], a, b); }
      Q tol() const { return this->tol_eps; }
      Q vnorm() const { return this->sd_v_norm; }
      bool need_sd() const { return this->need_streamdiff; }
      // the quantities the per-cell parameter is computed from, by the real trafo evaluator (call site of the harness)
      Q norm_v() const { return this->mean_v.norm_euclid(); }
      Q width() { return this->trafo_eval.width_directed(this->mean_v) * this->mean_v.norm_euclid(); }
    };

    template<typename Matrix_, typename Job_, typename Space_, int bs_>
    void run(const Space_& space)
    {
      BVector conv = make_field(space);
      Cubature::DynamicFactory cub(g.rule);
      const Index nc = mesh.get_num_entities(dim);

      // ---- per-cell probe (one task, natural cell order), with and without SD
      Matrix_ mp, mp0;
      Assembly::SymbolicAssembler::assemble_matrix_std1(mp, space); mp.format();
      Assembly::SymbolicAssembler::assemble_matrix_std1(mp0, space); mp0.format();
      Job_ jobp(mp, conv, space, g.rule); set_params(jobp, conv, true);
      Job_ jobp0(mp0, conv, space, g.rule); set_params(jobp0, conv, false);
      Probe<Job_> tp(jobp), tp0(jobp0);
      if(!full)
      {
        // bgsd: only the sequence of local_delta values of one task over the cells in natural order
        o << "D " << nc;
        for(Index cell = 0; cell < nc; ++cell)
        {
          tp.prepare(cell);
          o << " " << tp.delta();
          tp.assemble(); tp.scatter(); tp.finish();
        }
        return;
      }

      Fe<Shape_>::show_mesh_of(o, mesh);
      o << " T "; show_dofmap(o, space);
      o << " K " << bs_ << " " << tp.tol() << " " << g.sd_delta << " " << g.sd_nu << " " << tp.vnorm() << " " << (tp.need_sd() ? 1 : 0);

      // ---- route A: classic assembler
      Matrix_ ma;
      Assembly::SymbolicAssembler::assemble_matrix_std1(ma, space); ma.format();
      {
        Assembly::BurgersAssembler<Q, Index, dim> basm; set_params(basm, conv, true);
        assemble_classic(basm, ma, conv, space, cub);
      }
      o << " P "; show_arr(o, ma.row_ptr(), ma.rows() + 1); o << " "; show_arr(o, ma.col_ind(), ma.used_elements());
      o << " A "; show_vals(o, ma);

      // ---- route B: job on all elements
      Matrix_ mb;
      Assembly::SymbolicAssembler::assemble_matrix_std1(mb, space); mb.format();
      {
        Assembly::DomainAssembler<TrafoType> dom_asm(trafo);
        dom_asm.compile_all_elements();
        Job_ job(mb, conv, space, g.rule); set_params(job, conv, true);
        dom_asm.assemble(job);
      }
      o << " B "; show_vals(o, mb);

      // ---- route S: one-element domain assemblers, summed
      Matrix_ ms;
      Assembly::SymbolicAssembler::assemble_matrix_std1(ms, space); ms.format();
      for(Index cell = 0; cell < nc; ++cell)
      {
        Assembly::DomainAssembler<TrafoType> dom_asm(trafo);
        dom_asm.add_element(cell);
        dom_asm.compile();
        Job_ job(ms, conv, space, g.rule); set_params(job, conv, true);
        dom_asm.assemble(job);
      }
      o << " S "; show_vals(o, ms);

      // ---- route O: one task, permuted cell order
      Matrix_ mo;
      Assembly::SymbolicAssembler::assemble_matrix_std1(mo, space); mo.format();
      {
        Job_ job(mo, conv, space, g.rule); set_params(job, conv, true);
        typename Job_::Task task(job);
        for(Index k : g.order)
        {
          task.prepare(k % nc); task.assemble(); task.scatter(); task.finish();
        }
      }
      o << " O "; show_vals(o, mo);

      // ---- per cell: barycentre velocity, |v|, directed width, local_delta, SD part of the local matrix
      o << " C " << nc;
      for(Index cell = 0; cell < nc; ++cell)
      {
        tp.prepare(cell); tp0.prepare(cell);
        // (with SD switched off the task does not evaluate the barycentre velocity: its members are not even initialised)
        const bool sd = tp.need_sd();
        for(int d = 0; d < dim; ++d) o << " " << (sd ? tp.mean(d) : Q(0));
        Q nv = sd ? tp.norm_v() : Q(0);
        o << " " << nv << " " << ((sd && nv > tp.tol()) ? tp.width() : Q(0)) << " " << tp.delta();
        tp.assemble(); tp0.assemble();
        const int n = tp.nloc();
        o << " " << n * n * bs_ * bs_;
        for(int i = 0; i < n; ++i) for(int j = 0; j < n; ++j)
          for(int a = 0; a < bs_; ++a) for(int b = 0; b < bs_; ++b)
            o << " " << (tp.template loc<bs_>(i, j, a, b) - tp0.template loc<bs_>(i, j, a, b));
        tp.scatter(); tp0.scatter(); tp.finish(); tp0.finish();
      }
    }

    template<typename Space_, typename Cub_>
    static void assemble_classic(const Assembly::BurgersAssembler<Q, Index, dim>& basm, BMatrix& m, const BVector& conv,
      const Space_& space, const Cub_& cub) { basm.assemble_matrix(m, conv, space, cub); }
    template<typename Space_, typename Cub_>
    static void assemble_classic(const Assembly::BurgersAssembler<Q, Index, dim>& basm, MatrixQ& m, const BVector& conv,
      const Space_& space, const Cub_& cub) { basm.assemble_scalar_matrix(m, conv, space, cub); }

    template<typename Space_>
    void run_space()
    {
      Space_ space(trafo);
      if(g.mtype == "B")
        run<BMatrix, Assembly::BurgersBlockedMatrixAssemblyJob<BMatrix, Space_, BVector>, Space_, dim>(space);
      else
        run<MatrixQ, Assembly::BurgersScalarMatrixAssemblyJob<MatrixQ, Space_, BVector>, Space_, 1>(space);
    }

    void run_all()
    {
      if(g.space == "L1") run_space<SpaceL1>();
      else if(g.space == "L2") run_space<SpaceL2>();
      else o << "BAD-OP";
    }
  };

  template<typename Shape_>
  void run_bg(Cur& c, std::ostream& o, bool full)
  {
    BgConfig g = read_bg_config<Shape_::dimension>(c);
    {
      // warm-up request of the same template instantiations (discarded): other rule, other coefficients
      BgConfig w = g;
      w.rule = warm_rule(g.rule);
      w.nu = g.nu + Q(1); w.theta = g.theta + Q(1); w.beta = g.beta + Q(2); w.sd_delta = g.sd_delta + Q(1);
      if(w.mtype == "B") w.frechet = g.frechet + Q(1);
      std::ostringstream sink;
      Bg<Shape_> bgw(w, full, sink);
      bgw.run_all();
    }
    Bg<Shape_> bg(g, full, o);
    bg.run_all();
  }

  void bg_quad(Cur& c, std::ostream& o, bool full);
  void bg_tria(Cur& c, std::ostream& o, bool full);
  void bg_hexa(Cur& c, std::ostream& o, bool full);
}
