// C16 harness: sweep over all common operators / functionals on Shape::Simplex<2> (see ops.hpp)
#include "ops.hpp"
namespace c16 { void ops_tria(Cur& c, std::ostream& o) { run_ops<FEAT::Shape::Simplex<2>>(c, o); } }
