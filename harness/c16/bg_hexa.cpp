// C16 harness: Burgers assembly routes on Shape::Hypercube<3> (see burgers.hpp)
#include "burgers.hpp"
namespace c16 { void bg_hexa(Cur& c, std::ostream& o, bool full) { run_bg<FEAT::Shape::Hypercube<3>>(c, o, full); } }
