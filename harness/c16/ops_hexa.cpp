// C16 harness: sweep over all common operators / functionals on Shape::Hypercube<3> (see ops.hpp)
#include "ops.hpp"
namespace c16 { void ops_hexa(Cur& c, std::ostream& o) { run_ops<FEAT::Shape::Hypercube<3>>(c, o); } }
