// C16 harness: Assembly::TraceAssembler in 3-D (hexahedra and tetrahedra, Lagrange-1) on meshes whose facets are stored
// in an independently permuted vertex order (every admissible symmetry of the quadrilateral / triangle), incl. moved
// vertices (non-parallelogram faces).
//   trace3 <hexa|tetra> <level> <nmoves {v dx dy dz}> <rule> <perm list> <facet list> <u coefs> <v coefs>
//     facet i gets the symmetry number perms[i % len]; the assembler is compiled on the listed facets (mod #facets)
//   output: MESH-part (stored facet rows + coordinates + #adjacent cells of the selected facets), the facet mass matrix,
//           the facet force vector (f = v), interpolants of u and v, the non-zero entries of the jump operator matrix on
//           ALL inner facets (continuous space: must be none)
//   trpt <hexa|tetra> <local face> <symmetry> <s0> <s1> : the orientation code CongruencySampler::compare(stored row,
//           local face) and the image of the facet point under FaceRefTrafo o CongruencyTrafo (what the assembler evaluates)
#include "fe.hpp"
#include "ops.hpp"
#include <kernel/assembly/trace_assembler.hpp>

namespace c16
{
  static const int QUAD_SYMS[8][4] = {{0,1,2,3},{1,3,0,2},{2,0,3,1},{3,2,1,0},{0,2,1,3},{1,0,3,2},{2,3,0,1},{3,1,2,0}};
  static const int TRI_SYMS[6][3] = {{0,1,2},{1,2,0},{2,0,1},{0,2,1},{1,0,2},{2,1,0}};

  template<typename Shape_>
  static void trace3_run(Cur& c, std::ostream& o)
  {
    typedef Geometry::ConformalMesh<Shape_, 3, Q> MeshType;
    typedef Trafo::Standard::Mapping<MeshType> TrafoType;
    typedef Space::Lagrange1::Element<TrafoType> SpaceType;
    typedef typename Shape::FaceTraits<Shape_, 2>::ShapeType FacetType;
    static constexpr int nvf = Shape::FaceTraits<FacetType, 0>::count;
    Index level = c.idx();
    Geometry::RefinedUnitCubeFactory<MeshType> fac(level);
    MeshType mesh(fac);
    auto& vtx = mesh.get_vertex_set();
    const Index nv = vtx.get_num_vertices();
    Index nm = c.idx();
    for(Index k = 0; k < nm; ++k)
    {
      Index v = c.idx() % nv;
      for(int d = 0; d < 3; ++d) vtx[v][d] = vtx[v][d] + rdq(c);
    }
    std::string rule = c.str();
    auto perms = c.idxlist(); auto sel = c.idxlist();
    auto cu = rdqlist(c); auto cv = rdqlist(c);
    // permute the stored vertex order of every facet
    auto& vaf = mesh.template get_index_set<2, 0>();
    const Index nf = mesh.get_num_entities(2);
    for(Index f = 0; f < nf && !perms.empty(); ++f)
    {
      Index p = Index(perms[f % perms.size()]) % Index(nvf == 4 ? 8 : 6);
      Index old[4];
      for(int m = 0; m < nvf; ++m) old[m] = vaf[f][m];
      for(int m = 0; m < nvf; ++m) vaf[f][m] = old[nvf == 4 ? QUAD_SYMS[p][m] : TRI_SYMS[p][m]];
    }
    TrafoType trafo(mesh);
    SpaceType space(trafo);
    Cubature::DynamicFactory cub(rule);
    PolyScalar<3> fu(cu), fv(cv);
    Adjacency::Graph cells_at_facet(Adjacency::RenderType::injectify_transpose, mesh.template get_index_set<3, 2>());

    Assembly::TraceAssembler<TrafoType> ta(trafo);
    std::vector<Index> facets;
    for(auto f : sel) { facets.push_back(Index(f) % nf); ta.add_facet(Index(f) % nf); }
    ta.compile();
    MatrixQ m;
    Assembly::SymbolicAssembler::assemble_matrix_std1(m, space); m.format();
    Assembly::Common::IdentityOperator op;
    ta.assemble_operator_matrix1(m, op, space, cub);
    VectorQ b(space.get_num_dofs(), Q(0));
    Assembly::Common::ForceFunctional<PolyScalar<3>> ff(fv);
    ta.assemble_functional_vector(b, ff, space, cub);
    VectorQ u, v;
    Assembly::Interpolator::project(u, fu, space);
    Assembly::Interpolator::project(v, fv, space);

    o << "T3 " << facets.size();
    for(Index f : facets)
    {
      o << " " << nvf;
      for(int mm = 0; mm < nvf; ++mm) for(int d = 0; d < 3; ++d) o << " " << vtx[vaf[f][mm]][d];
      o << " " << cells_at_facet.degree(f);
    }
    o << " M "; show_csr_pattern(o, m); o << " "; show_q(o, m.val(), m.used_elements());
    o << " F "; show_q(o, b.elements(), b.size());
    o << " U "; show_q(o, u.elements(), u.size());
    o << " V "; show_q(o, v.elements(), v.size());

    // jump operator of the continuous space on all inner facets
    Assembly::TraceAssembler<TrafoType> tj(trafo);
    tj.compile_all_facets(true, false);
    MatrixQ j;
    Assembly::SymbolicAssembler::assemble_matrix_ext_facet1(j, space); j.format();
    tj.assemble_jump_operator_matrix(j, space, cub);
    std::vector<Q> nz;
    for(Index k = 0; k < j.used_elements(); ++k) if(!(j.val()[k] == Q(0))) nz.push_back(j.val()[k]);
    o << " J " << j.used_elements() << " "; show_qv(o, nz);
  }

  template<typename Shape_>
  static void trpt_run(Cur& c, std::ostream& o)
  {
    typedef typename Shape::FaceTraits<Shape_, 2>::ShapeType FacetType;
    static constexpr int nvf = Shape::FaceTraits<FacetType, 0>::count;
    typedef Geometry::Intern::FaceIndexMapping<Shape_, 2, 0> FimType;
    Index lf = c.idx(), p = c.idx();
    Q s0 = rdq(c), s1 = rdq(c);
    // canonical local face (cell-local vertex numbers) and the stored row: the symmetry applied to it
    Index canon[4], stored[4];
    for(int m = 0; m < nvf; ++m) canon[m] = Index(FimType::map(int(lf), m));
    for(int m = 0; m < nvf; ++m) stored[m] = canon[nvf == 4 ? QUAD_SYMS[p % 8][m] : TRI_SYMS[p % 6][m]];
    int code = Geometry::Intern::CongruencySampler<FacetType>::compare(stored, canon);
    Tiny::Matrix<Q, 3, 2> face_mat; Tiny::Matrix<Q, 2, 2> ori_mat; Tiny::Vector<Q, 3> face_vec; Tiny::Vector<Q, 2> ori_vec;
    face_mat.format(); ori_mat.format(); face_vec.format(); ori_vec.format();
    Geometry::Intern::FaceRefTrafo<Shape_, 2>::compute(face_mat, face_vec, int(lf));
    Geometry::Intern::CongruencyTrafo<FacetType>::compute(ori_mat, ori_vec, code);
    Tiny::Vector<Q, 2> s; s[0] = s0; s[1] = s1;
    auto x = (face_mat * ((ori_mat * s) + ori_vec)) + face_vec;
    o << "TP " << code << " " << x[0] << " " << x[1] << " " << x[2];
  }

  void trace3(Cur& c, std::ostream& o, bool point)
  {
    std::string shape = c.str();
    if(point)
    {
      if(shape == "hexa") trpt_run<Shape::Hypercube<3>>(c, o);
      else if(shape == "tetra") trpt_run<Shape::Simplex<3>>(c, o);
      else o << "BAD-OP";
      return;
    }
    if(shape == "hexa") trace3_run<Shape::Hypercube<3>>(c, o);
    else if(shape == "tetra") trace3_run<Shape::Simplex<3>>(c, o);
    else o << "BAD-OP";
  }
}
