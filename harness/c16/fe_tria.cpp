// C16 harness: finite-element runs on Shape::Simplex<2> (see fe.hpp)
#include "fe.hpp"
namespace c16 { void fe_tria(Cur& c, std::ostream& o, int mode) { run_fe<FEAT::Shape::Simplex<2>>(c, o, mode); } }
