// C16 harness, finite-element part: runs the REAL FEAT assemblers (classic cell loop, domain-assembler jobs,
// symbolic assembler, interpolator) at the exact scalar Q on small unit-cube meshes with moved interior vertices.
// One translation unit per shape (fe_<shape>.cpp) so that the harness compiles in parallel.
#pragma once
#include <forkcase.hpp>
#include <exact_q.hpp>
#include <kernel/geometry/conformal_mesh.hpp>
#include <kernel/geometry/common_factories.hpp>
#include <kernel/trafo/standard/mapping.hpp>
#include <kernel/space/lagrange1/element.hpp>
#include <kernel/space/lagrange2/element.hpp>
#include <kernel/space/discontinuous/element.hpp>
#include <kernel/space/cro_rav_ran_tur/element.hpp>
#include <kernel/cubature/dynamic_factory.hpp>
#include <kernel/analytic/function.hpp>
#include <kernel/assembly/symbolic_assembler.hpp>
#include <kernel/assembly/bilinear_operator_assembler.hpp>
#include <kernel/assembly/linear_functional_assembler.hpp>
#include <kernel/assembly/common_operators.hpp>
#include <kernel/assembly/common_functionals.hpp>
#include <kernel/assembly/domain_assembler.hpp>
#include <kernel/assembly/domain_assembler_helpers.hpp>
#include <kernel/assembly/interpolator.hpp>
#include <kernel/lafem/sparse_matrix_csr.hpp>
#include <kernel/lafem/dense_vector.hpp>

namespace c16
{
  using namespace FEAT;
  using verif::Cur;

  typedef LAFEM::SparseMatrixCSR<Q, Index> MatrixQ;
  typedef LAFEM::DenseVector<Q, Index> VectorQ;

  inline Q rdq(Cur& c) { return Q::parse(c.str()); }
  inline std::vector<Q> rdqlist(Cur& c) { std::size_t n = c.idx(); std::vector<Q> v(n); for(auto& x : v) x = rdq(c); return v; }

  // polynomial of total degree <= 2 with run-time coefficients (input preparation, not code under test)
  // monomial order: 1, x_0..x_{n-1}, then x_i*x_j for i <= j (i outer)
  template<int dim_>
  class PolyFunction : public Analytic::Function
  {
  public:
    static constexpr int domain_dim = dim_;
    typedef Analytic::Image::Scalar ImageType;
    static constexpr bool can_value = true;
    static constexpr bool can_grad = false;
    static constexpr bool can_hess = false;
    std::vector<Q> coef;
    explicit PolyFunction(const std::vector<Q>& c) : coef(c)
    {
      coef.resize(std::size_t(1 + dim_ + dim_ * (dim_ + 1) / 2), Q(0));
    }

    template<typename EvalTraits_>
    class Evaluator : public Analytic::Function::Evaluator<EvalTraits_>
    {
    public:
      typedef typename EvalTraits_::DataType DataType;
      typedef typename EvalTraits_::PointType PointType;
      typedef typename EvalTraits_::ValueType ValueType;
      const PolyFunction& f;
      explicit Evaluator(const PolyFunction& ff) : f(ff) {}
      ValueType value(const PointType& p)
      {
        std::size_t k = 0;
        Q r = f.coef[k++];
        for(int i = 0; i < dim_; ++i) r += f.coef[k++] * Q(p[i]);
        for(int i = 0; i < dim_; ++i)
          for(int j = i; j < dim_; ++j)
            r += f.coef[k++] * Q(p[i]) * Q(p[j]);
        return r;
      }
    };
  };

  // a matrix/vector stand-in whose Scatter-Axpy records what the assembler hands over
  struct RecCall { Q alpha; std::vector<Index> rows, cols; std::vector<Q> vals; };

  struct RecMatrix
  {
    typedef Q DataType; typedef Q ValueType; typedef Index IndexType;
    Index nr, nc; std::vector<RecCall> calls;
    RecMatrix(Index r, Index c) : nr(r), nc(c) {}
    Index rows() const { return nr; }
    Index columns() const { return nc; }
    class ScatterAxpy
    {
      RecMatrix& m;
    public:
      explicit ScatterAxpy(RecMatrix& mm) : m(mm) {}
      template<typename LM_, typename RM_, typename CM_>
      void operator()(const LM_& loc, const RM_& rm, const CM_& cm, Q alpha = Q(1))
      {
        RecCall rc; rc.alpha = alpha;
        for(int i = 0; i < rm.get_num_local_dofs(); ++i) rc.rows.push_back(rm.get_index(i));
        for(int j = 0; j < cm.get_num_local_dofs(); ++j) rc.cols.push_back(cm.get_index(j));
        for(int i = 0; i < rm.get_num_local_dofs(); ++i)
          for(int j = 0; j < cm.get_num_local_dofs(); ++j)
            rc.vals.push_back(loc[i][j]);
        m.calls.push_back(rc);
      }
    };
  };

  struct RecVector
  {
    typedef Q DataType; typedef Q ValueType; typedef Index IndexType;
    Index n; std::vector<RecCall> calls;
    explicit RecVector(Index nn) : n(nn) {}
    Index size() const { return n; }
    class ScatterAxpy
    {
      RecVector& m;
    public:
      explicit ScatterAxpy(RecVector& mm) : m(mm) {}
      template<typename LV_, typename M_>
      void operator()(const LV_& loc, const M_& mp, Q alpha = Q(1))
      {
        RecCall rc; rc.alpha = alpha;
        for(int i = 0; i < mp.get_num_local_dofs(); ++i) { rc.rows.push_back(mp.get_index(i)); rc.vals.push_back(loc[i]); }
        m.calls.push_back(rc);
      }
    };
  };

  inline void show_idx(std::ostream& o, const std::vector<Index>& v) { o << v.size(); for(auto x : v) o << " " << x; }
  inline void show_q(std::ostream& o, const Q* p, Index n) { o << n; for(Index i = 0; i < n; ++i) o << " " << p[i]; }
  inline void show_qv(std::ostream& o, const std::vector<Q>& v) { o << v.size(); for(auto x : v) o << " " << x; }
  template<typename IT_> inline void show_arr(std::ostream& o, const IT_* p, Index n) { o << n; for(Index i = 0; i < n; ++i) o << " " << p[i]; }

  inline void show_rec(std::ostream& o, const std::vector<RecCall>& calls)
  {
    o << calls.size();
    for(const auto& rc : calls)
    {
      o << " " << rc.alpha << " "; show_idx(o, rc.rows); o << " "; show_idx(o, rc.cols); o << " "; show_qv(o, rc.vals);
    }
  }

  // only the local matrices / vectors (without the scaling factor), one list per cell
  inline void show_locals(std::ostream& o, const std::vector<RecCall>& calls)
  {
    o << "L " << calls.size();
    for(const auto& rc : calls) { o << " "; show_qv(o, rc.vals); }
  }

  template<typename Space_>
  void show_dofmap(std::ostream& o, const Space_& space)
  {
    typename Space_::DofMappingType dm(space);
    const Index nc = space.get_mesh().get_num_entities(Space_::shape_dim);
    o << space.get_num_dofs() << " " << nc;
    for(Index c = 0; c < nc; ++c)
    {
      dm.prepare(c);
      o << " " << dm.get_num_local_dofs();
      for(int j = 0; j < dm.get_num_local_dofs(); ++j) o << " " << dm.get_index(j);
      dm.finish();
    }
  }

  inline void show_csr_pattern(std::ostream& o, const MatrixQ& m)
  {
    o << m.rows() << " " << m.columns() << " ";
    if(m.used_elements() == 0)
    {
      // an entry-free matrix owns no arrays (row_ptr() == nullptr): its row pointer array is all zero
      o << m.rows() + 1; for(Index i = 0; i <= m.rows(); ++i) o << " 0";
      o << " 0";
      return;
    }
    show_arr(o, m.row_ptr(), m.rows() + 1); o << " ";
    show_arr(o, m.col_ind(), m.used_elements());
  }

  struct Config
  {
    Index level; std::vector<Index> mv_idx; std::vector<std::vector<Q>> mv_delta;
    std::string kind, tsp, ssp, rule; int deriv; Q alpha; std::vector<Q> cu, cv;
  };

  template<int dim_>
  Config read_config(Cur& c)
  {
    Config g;
    g.level = c.idx();
    Index nm = c.idx();
    for(Index k = 0; k < nm; ++k)
    {
      g.mv_idx.push_back(c.idx());
      std::vector<Q> d; for(int i = 0; i < dim_; ++i) d.push_back(rdq(c));
      g.mv_delta.push_back(d);
    }
    g.kind = c.str(); g.tsp = c.str(); g.ssp = c.str(); g.deriv = int(c.idx()); g.rule = c.str(); g.alpha = rdq(c);
    g.cu = rdqlist(c); g.cv = rdqlist(c);
    return g;
  }

  template<typename Shape_>
  struct Fe
  {
    static constexpr int dim = Shape_::dimension;
    typedef Geometry::ConformalMesh<Shape_, dim, Q> MeshType;
    typedef Trafo::Standard::Mapping<MeshType> TrafoType;
    typedef Space::Lagrange1::Element<TrafoType> SpaceL1;
    typedef Space::Lagrange2::Element<TrafoType> SpaceL2;
    typedef Space::Discontinuous::Element<TrafoType, Space::Discontinuous::Variant::StdPolyP<0>> SpaceD0;
    typedef Space::CroRavRanTur::Element<TrafoType> SpaceCR;

    // mode: 1 = everything (oracle stream), 0 = classic route, result only, 4 = job route, result only,
    //       2 = only what the cell loop hands to the scatter object (recording, no other call before it)
    //       6 = only the local matrices / vectors of that recording
    const Config& g; int mode; bool full; std::ostream& o;
    MeshType mesh; TrafoType trafo;

    static MeshType make_mesh(const Config& g)
    {
      Geometry::RefinedUnitCubeFactory<MeshType> fac(g.level);
      MeshType m(fac);
      // move interior vertices (only those strictly inside the unit cube, so the domain stays the unit cube)
      auto& vtx = m.get_vertex_set();
      const Index nv = vtx.get_num_vertices();
      std::vector<Index> inner;
      for(Index v = 0; v < nv; ++v)
      {
        bool interior = true;
        for(int d = 0; d < dim; ++d) interior = interior && (Q(0) < vtx[v][d]) && (vtx[v][d] < Q(1));
        if(interior) inner.push_back(v);
      }
      for(std::size_t k = 0; k < g.mv_idx.size() && !inner.empty(); ++k)
      {
        Index v = inner[g.mv_idx[k] % inner.size()];
        for(int d = 0; d < dim; ++d) vtx[v][d] = vtx[v][d] + g.mv_delta[k][std::size_t(d)];
      }
      return m;
    }

    Fe(const Config& gg, int mm, std::ostream& oo) : g(gg), mode(mm), full(mm == 1), o(oo), mesh(make_mesh(gg)), trafo(mesh) {}

    static void show_mesh_of(std::ostream& o, const MeshType& mesh)
    {
      const auto& vtx = mesh.get_vertex_set();
      const Index nv = vtx.get_num_vertices();
      o << "FE " << dim << " " << nv;
      for(Index v = 0; v < nv; ++v) for(int d = 0; d < dim; ++d) o << " " << vtx[v][d];
      const auto& idx = mesh.template get_index_set<dim, 0>();
      const Index nc = mesh.get_num_entities(dim);
      o << " " << nc << " " << idx.num_indices;
      for(Index c = 0; c < nc; ++c) for(int j = 0; j < idx.num_indices; ++j) o << " " << idx[c][j];
    }

    void show_mesh() { show_mesh_of(o, mesh); }

    template<typename Op_, typename TestSpace_, typename TrialSpace_>
    void run_matrix2(Op_& op)
    {
      TestSpace_ test(trafo); TrialSpace_ trial(trafo);
      Cubature::DynamicFactory cub(g.rule);
      if(mode == 2 || mode == 6)
      {
        RecMatrix rec(test.get_num_dofs(), trial.get_num_dofs());
        Assembly::BilinearOperatorAssembler::assemble_matrix2(rec, op, test, trial, cub, g.alpha);
        if(mode == 6) { show_locals(o, rec.calls); return; }
        o << "T " << test.get_num_dofs() << " S " << trial.get_num_dofs() << " R "; show_rec(o, rec.calls);
        return;
      }
      if(mode == 4)
      {
        MatrixQ b;
        Assembly::SymbolicAssembler::assemble_matrix_std2(b, test, trial);
        b.format();
        Assembly::DomainAssembler<TrafoType> dom_asm(trafo);
        dom_asm.compile_all_elements();
        Assembly::assemble_bilinear_operator_matrix_2(dom_asm, b, op, test, trial, g.rule, g.alpha);
        o << "M "; show_csr_pattern(o, b); o << " "; show_q(o, b.val(), b.used_elements());
        return;
      }
      MatrixQ a;
      Assembly::SymbolicAssembler::assemble_matrix_std2(a, test, trial);
      a.format();
      Assembly::BilinearOperatorAssembler::assemble_matrix2(a, op, test, trial, cub, g.alpha);
      if(!full)
      {
        o << "M "; show_csr_pattern(o, a); o << " "; show_q(o, a.val(), a.used_elements());
        return;
      }
      show_mesh();
      o << " T "; show_dofmap(o, test);
      o << " S "; show_dofmap(o, trial);
      o << " P "; show_csr_pattern(o, a);
      o << " A "; show_q(o, a.val(), a.used_elements());
      // route 2: domain assembler job
      MatrixQ b;
      Assembly::SymbolicAssembler::assemble_matrix_std2(b, test, trial);
      b.format();
      Assembly::DomainAssembler<TrafoType> dom_asm(trafo);
      dom_asm.compile_all_elements();
      Assembly::assemble_bilinear_operator_matrix_2(dom_asm, b, op, test, trial, g.rule, g.alpha);
      o << " B "; show_csr_pattern(o, b); o << " "; show_q(o, b.val(), b.used_elements());
      // interpolated polynomials (real interpolator)
      PolyFunction<dim> fu(g.cu), fv(g.cv);
      VectorQ u, v;
      Assembly::Interpolator::project(u, fu, test);
      Assembly::Interpolator::project(v, fv, trial);
      o << " U "; show_q(o, u.elements(), u.size());
      o << " V "; show_q(o, v.elements(), v.size());
      // what the cell loop hands to the scatter object
      RecMatrix rec(test.get_num_dofs(), trial.get_num_dofs());
      Assembly::BilinearOperatorAssembler::assemble_matrix2(rec, op, test, trial, cub, g.alpha);
      o << " R "; show_rec(o, rec.calls);
    }

    template<typename Op_, typename Space_>
    void run_matrix1(Op_& op)
    {
      Space_ space(trafo);
      Cubature::DynamicFactory cub(g.rule);
      if(mode == 2 || mode == 6)
      {
        RecMatrix rec(space.get_num_dofs(), space.get_num_dofs());
        Assembly::BilinearOperatorAssembler::assemble_matrix1(rec, op, space, cub, g.alpha);
        if(mode == 6) { show_locals(o, rec.calls); return; }
        o << "T " << space.get_num_dofs() << " S " << space.get_num_dofs() << " R "; show_rec(o, rec.calls);
        return;
      }
      if(mode == 4)
      {
        MatrixQ b;
        Assembly::SymbolicAssembler::assemble_matrix_std1(b, space);
        b.format();
        Assembly::DomainAssembler<TrafoType> dom_asm(trafo);
        dom_asm.compile_all_elements();
        Assembly::assemble_bilinear_operator_matrix_1(dom_asm, b, op, space, g.rule, g.alpha);
        o << "M "; show_csr_pattern(o, b); o << " "; show_q(o, b.val(), b.used_elements());
        return;
      }
      MatrixQ a;
      Assembly::SymbolicAssembler::assemble_matrix_std1(a, space);
      a.format();
      Assembly::BilinearOperatorAssembler::assemble_matrix1(a, op, space, cub, g.alpha);
      if(!full)
      {
        o << "M "; show_csr_pattern(o, a); o << " "; show_q(o, a.val(), a.used_elements());
        return;
      }
      show_mesh();
      o << " T "; show_dofmap(o, space);
      o << " S "; show_dofmap(o, space);
      o << " P "; show_csr_pattern(o, a);
      o << " A "; show_q(o, a.val(), a.used_elements());
      // route 2: domain assembler job on the pattern of the two-space symbolic assembly
      MatrixQ b;
      Assembly::SymbolicAssembler::assemble_matrix_std2(b, space, space);
      b.format();
      Assembly::DomainAssembler<TrafoType> dom_asm(trafo);
      dom_asm.compile_all_elements();
      Assembly::assemble_bilinear_operator_matrix_1(dom_asm, b, op, space, g.rule, g.alpha);
      o << " B "; show_csr_pattern(o, b); o << " "; show_q(o, b.val(), b.used_elements());
      PolyFunction<dim> fu(g.cu), fv(g.cv);
      VectorQ u, v;
      Assembly::Interpolator::project(u, fu, space);
      Assembly::Interpolator::project(v, fv, space);
      o << " U "; show_q(o, u.elements(), u.size());
      o << " V "; show_q(o, v.elements(), v.size());
      RecMatrix rec(space.get_num_dofs(), space.get_num_dofs());
      Assembly::BilinearOperatorAssembler::assemble_matrix1(rec, op, space, cub, g.alpha);
      o << " R "; show_rec(o, rec.calls);
    }

    template<typename Space_>
    void run_force()
    {
      Space_ space(trafo);
      Cubature::DynamicFactory cub(g.rule);
      PolyFunction<dim> ff(g.cv), fu(g.cu);
      Assembly::Common::ForceFunctional<PolyFunction<dim>> func(ff);
      if(mode == 2 || mode == 6)
      {
        RecVector rec(space.get_num_dofs());
        Assembly::LinearFunctionalAssembler::assemble_vector(rec, func, space, cub, g.alpha);
        if(mode == 6) { show_locals(o, rec.calls); return; }
        o << "T " << space.get_num_dofs() << " S 0 R "; show_rec(o, rec.calls);
        return;
      }
      if(mode == 4)
      {
        Assembly::DomainAssembler<TrafoType> dom_asm(trafo);
        dom_asm.compile_all_elements();
        VectorQ b(space.get_num_dofs(), Q(0));
        Assembly::assemble_linear_functional_vector(dom_asm, b, func, space, g.rule, g.alpha);
        o << "W "; show_q(o, b.elements(), b.size());
        return;
      }
      VectorQ a(space.get_num_dofs(), Q(0));
      Assembly::LinearFunctionalAssembler::assemble_vector(a, func, space, cub, g.alpha);
      if(!full)
      {
        o << "W "; show_q(o, a.elements(), a.size());
        return;
      }
      show_mesh();
      o << " T "; show_dofmap(o, space);
      o << " A "; show_q(o, a.elements(), a.size());
      Assembly::DomainAssembler<TrafoType> dom_asm(trafo);
      dom_asm.compile_all_elements();
      VectorQ b(space.get_num_dofs(), Q(0)), b2(space.get_num_dofs(), Q(0));
      Assembly::assemble_linear_functional_vector(dom_asm, b, func, space, g.rule, g.alpha);
      Assembly::assemble_force_function_vector(dom_asm, b2, ff, space, g.rule, g.alpha);
      o << " B "; show_q(o, b.elements(), b.size());
      o << " C "; show_q(o, b2.elements(), b2.size());
      VectorQ u;
      Assembly::Interpolator::project(u, fu, space);
      o << " U "; show_q(o, u.elements(), u.size());
      RecVector rec(space.get_num_dofs());
      Assembly::LinearFunctionalAssembler::assemble_vector(rec, func, space, cub, g.alpha);
      o << " R "; show_rec(o, rec.calls);
    }

    template<typename Op_>
    bool dispatch1(Op_& op)
    {
      if(g.tsp == "L1") run_matrix1<Op_, SpaceL1>(op);
      else if(g.tsp == "L2") run_matrix1<Op_, SpaceL2>(op);
      else if(g.tsp == "D0") run_matrix1<Op_, SpaceD0>(op);
      else if(g.tsp == "CR") { if constexpr(dim >= 2) run_matrix1<Op_, SpaceCR>(op); else return false; }
      else return false;
      return true;
    }

    template<typename Op_>
    bool dispatch2(Op_& op)
    {
      if(g.tsp == "L2" && g.ssp == "D0") run_matrix2<Op_, SpaceL2, SpaceD0>(op);
      else if(g.tsp == "L1" && g.ssp == "L2") run_matrix2<Op_, SpaceL1, SpaceL2>(op);
      else if(g.tsp == "CR" && g.ssp == "D0") { if constexpr(dim >= 2) run_matrix2<Op_, SpaceCR, SpaceD0>(op); else return false; }
      else if(g.tsp == "L2" && g.ssp == "L1") run_matrix2<Op_, SpaceL2, SpaceL1>(op);
      else if(g.tsp == "D0" && g.ssp == "L2") run_matrix2<Op_, SpaceD0, SpaceL2>(op);
      else return false;
      return true;
    }

    void run()
    {
      bool ok = false;
      if(g.kind == "mass") { Assembly::Common::IdentityOperator op; ok = dispatch1(op); }
      else if(g.kind == "lapl") { Assembly::Common::LaplaceOperator op; ok = dispatch1(op); }
      else if(g.kind == "mass2") { Assembly::Common::IdentityOperator op; ok = dispatch2(op); }
      else if(g.kind == "deriv") { Assembly::Common::TrialDerivativeOperator op(g.deriv); ok = dispatch2(op); }
      else if(g.kind.rfind("dudv", 0) == 0) { int ab = std::stoi(g.kind.substr(4)); Assembly::Common::DuDvOperator op(ab / dim, ab % dim); ok = dispatch1(op); }
      else if(g.kind == "derivt1") { Assembly::Common::TestDerivativeOperator op(g.deriv); ok = dispatch1(op); }
      else if(g.kind == "derivt") { Assembly::Common::TestDerivativeOperator op(g.deriv); ok = dispatch2(op); }
      else if(g.kind == "force")
      {
        ok = true;
        if(g.tsp == "L1") run_force<SpaceL1>();
        else if(g.tsp == "L2") run_force<SpaceL2>();
        else if(g.tsp == "D0") run_force<SpaceD0>();
        else if(g.tsp == "CR") { if constexpr(dim >= 2) run_force<SpaceCR>(); else ok = false; }
        else ok = false;
      }
      if(!ok) { o.clear(); o << "BAD-OP"; }
    }
  };

  // a request of the same template instantiations with a different low-degree rule and different coefficient data
  inline Config warm_config(const Config& g, const std::string& rule, Q alpha)
  {
    Config w = g; w.rule = rule; w.alpha = alpha;
    for(auto& x : w.cu) x = x + Q(1);
    for(auto& x : w.cv) x = x * Q(2) - Q(1);
    return w;
  }
  inline std::string warm_rule(const std::string& rule) { return (rule == "barycentre") ? "trapezoidal" : "barycentre"; }

  // mode 1/0: a warm-up request (discarded) runs before the real one in the same process: the result of a call must
  //           not depend on earlier calls of the same template instantiation
  // mode 2  : recording, first call of the process
  // mode 3/5: history: requests [w1, real, w2, real, real] in one process (3 = classic route, 5 = job route),
  //           every result is printed
  template<typename Shape_>
  void run_fe(Cur& c, std::ostream& o, int mode)
  {
    Config g = read_config<Shape_::dimension>(c);
    if(mode == 3 || mode == 5)
    {
      c.str(); // "W"
      std::string r1 = c.str(); Q a1 = rdq(c); std::string r2 = c.str(); Q a2 = rdq(c);
      std::vector<Config> seq;
      seq.push_back(warm_config(g, r1, a1)); seq.push_back(g); seq.push_back(warm_config(g, r2, a2)); seq.push_back(g); seq.push_back(g);
      o << "H " << seq.size();
      for(const auto& q : seq)
      {
        o << " ";
        Fe<Shape_> fe(q, mode == 3 ? 0 : 4, o);
        fe.run();
      }
      return;
    }
    if(mode == 0 || mode == 1)
    {
      Config w = warm_config(g, warm_rule(g.rule), g.alpha + Q(1));
      std::ostringstream sink;
      Fe<Shape_> few(w, mode, sink);
      few.run();
    }
    Fe<Shape_> fe(g, mode, o);
    fe.run();
  }

  // one definition per translation unit fe_<shape>.cpp
  void fe_line(Cur& c, std::ostream& o, int mode);
  void fe_quad(Cur& c, std::ostream& o, int mode);
  void fe_tria(Cur& c, std::ostream& o, int mode);
  void fe_hexa(Cur& c, std::ostream& o, int mode);
  void fe_tetra(Cur& c, std::ostream& o, int mode);
}
