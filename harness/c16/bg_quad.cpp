// C16 harness: Burgers assembly routes on Shape::Hypercube<2> (see burgers.hpp)
#include "burgers.hpp"
namespace c16 { void bg_quad(Cur& c, std::ostream& o, bool full) { run_bg<FEAT::Shape::Hypercube<2>>(c, o, full); } }
