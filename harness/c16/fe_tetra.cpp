// C16 harness: finite-element runs on Shape::Simplex<3> (see fe.hpp)
#include "fe.hpp"
namespace c16 { void fe_tetra(Cur& c, std::ostream& o, int mode) { run_fe<FEAT::Shape::Simplex<3>>(c, o, mode); } }
