// C16 harness: executes the real FEAT assembly code on one case per line (see FeatModel/Driver/C16.lean).
//  scatter/gather/vscatter/vgather/banded/bgather : the real Scatter-/Gather-Axpy classes of LAFEM containers on arbitrary
//                                           patterns, index maps and local matrices (one scatter object, many calls)
//  asmb    : the same with SparseMatrixBCSR<Q,Index,h,w> and block-valued local matrices
//  asm     : the real SymbolicAssembler (through a stand-in space with arbitrary DOF tables) + real CSR scatter
//  fe      : real assemblers on real meshes/spaces (all routes, everything the oracle needs)  -> fe.hpp
//  ops     : every operator / functional class of common_operators.hpp / common_functionals.hpp -> ops.hpp
//  hk/hkasm: user-defined operators / functionals with working prepare()/finish() hooks on every route -> hooks.cpp
//  trace3  : TraceAssembler in 3-D on meshes with permuted facet vertex orders; trpt: one facet point -> trace3d.cpp
//  trace   : TraceAssembler facet selection (add_facet / compile / clear) -> trace_quad.cpp
//  bg/bgsd : Burgers operator, classic assembler and domain-assembler jobs (blocked and scalar) -> burgers.hpp
//  ferec   : only what the real cell loop hands to the scatter object (first call of the process)
//  flocal  : the local matrices / vectors of that recording (compared with the model's cubature sums over C15's basis)
//  hist(j) : five requests [warm-up, real, warm-up, real, real] in ONE process, classic (hist) or job route (histj)
//  feasm   : the classic assembler once more, printing only the matrix (compared with the model's fold)
#include "burgers.hpp"
#include "ops.hpp"
#include <kernel/lafem/sparse_matrix_banded.hpp>

namespace c16 { void trace_quad(verif::Cur& c, std::ostream& o); void trace3(verif::Cur& c, std::ostream& o, bool point); void hooks(verif::Cur& c, std::ostream& o, bool only_route); }
using namespace FEAT;
using namespace c16;
using verif::Cur;

namespace
{
  struct ListMap
  {
    const std::vector<Index>& v;
    explicit ListMap(const std::vector<Index>& vv) : v(vv) {}
    int get_num_local_dofs() const { return int(v.size()); }
    Index get_index(int i) const { return v[std::size_t(i)]; }
  };

  struct LocRow
  {
    Q* p;
    Q& operator[](int j) { return p[j]; }
    const Q& operator[](int j) const { return p[j]; }
  };

  struct LocMat
  {
    std::vector<Q> v; int nc;
    LocMat(const std::vector<Q>& vv, int ncols) : v(vv), nc(ncols) {}
    LocRow operator[](int i) { return LocRow{v.data() + std::size_t(i) * std::size_t(nc)}; }
    const LocRow operator[](int i) const { return LocRow{const_cast<Q*>(v.data()) + std::size_t(i) * std::size_t(nc)}; }
  };

  struct Call { Q alpha; std::vector<Index> rows, cols; std::vector<Q> vals; };

  std::vector<Index> rdidx(Cur& c) { auto l = c.idxlist(); return std::vector<Index>(l.begin(), l.end()); }

  Call read_call(Cur& c)
  {
    Call k; k.alpha = rdq(c); k.rows = rdidx(c); k.cols = rdidx(c); k.vals = rdqlist(c);
    return k;
  }

  std::vector<Call> read_calls(Cur& c)
  {
    Index n = c.idx(); std::vector<Call> v;
    for(Index i = 0; i < n; ++i) v.push_back(read_call(c));
    return v;
  }

  template<typename T_>
  LAFEM::DenseVector<T_, Index> to_dv(const std::vector<T_>& v)
  {
    LAFEM::DenseVector<T_, Index> d(Index(v.size()));
    for(Index i = 0; i < Index(v.size()); ++i) d(i, v[i]);
    return d;
  }

  MatrixQ read_csr(Cur& c)
  {
    Index r = c.idx(), cc = c.idx();
    auto rp = rdidx(c); auto ci = rdidx(c); auto vals = rdqlist(c);
    auto drp = to_dv(rp); auto dci = to_dv(ci); auto dv = to_dv(vals);
    return MatrixQ(r, cc, dci, dv, drp);
  }

  // a stand-in "space": arbitrary DOF table per cell; everything else of the symbolic assembly is real FEAT code
  struct TableMesh
  {
    Index ncells;
    Index get_num_entities(int) const { return ncells; }
  };

  struct TableSpace
  {
    static constexpr int shape_dim = 2;
    TableMesh mesh; Index ndofs; std::vector<std::vector<Index>> table;
    const TableMesh& get_mesh() const { return mesh; }
    Index get_num_dofs() const { return ndofs; }
    class DofMappingType
    {
      const TableSpace& s; Index cell;
    public:
      explicit DofMappingType(const TableSpace& ss) : s(ss), cell(0) {}
      void prepare(Index c) { cell = c; }
      void finish() {}
      int get_num_local_dofs() const { return int(s.table[cell].size()); }
      Index get_index(int j) const { return s.table[cell][std::size_t(j)]; }
    };
  };

  // blocked local matrix: loc[i][j] is an h x w Tiny matrix
  template<int h_, int w_>
  struct LocMatB
  {
    std::vector<Tiny::Matrix<Q, h_, w_>> v; int nc;
    LocMatB(const std::vector<Q>& vals, int nrows, int ncols) : v(std::size_t(nrows * ncols)), nc(ncols)
    {
      for(std::size_t k = 0; k < v.size(); ++k)
        for(int a = 0; a < h_; ++a) for(int b = 0; b < w_; ++b) v[k][a][b] = vals[(k * std::size_t(h_) + std::size_t(a)) * std::size_t(w_) + std::size_t(b)];
    }
    const Tiny::Matrix<Q, h_, w_>* operator[](int i) const { return v.data() + std::size_t(i) * std::size_t(nc); }
  };

  template<int h_, int w_>
  void run_asmb(Index kind, const TableSpace& ts, const TableSpace& ss, const std::vector<Index>& order,
    const std::vector<Q>& alphas, const std::vector<std::vector<Q>>& locs, std::ostream& o)
  {
    typedef LAFEM::SparseMatrixBCSR<Q, Index, h_, w_> BM;
    BM m;
    if(kind == 1)
      Assembly::SymbolicAssembler::assemble_matrix_std1(m, ts);
    else
      Assembly::SymbolicAssembler::assemble_matrix_std2(m, ts, ss);
    m.format();
    const TableSpace& cs = (kind == 1) ? ts : ss;
    {
      typename BM::ScatterAxpy sc(m);
      for(Index cell : order)
      {
        LocMatB<h_, w_> lm(locs[cell], int(ts.table[cell].size()), int(cs.table[cell].size()));
        sc(lm, ListMap(ts.table[cell]), ListMap(cs.table[cell]), alphas[cell]);
      }
    }
    o << "MB " << m.rows() << " " << m.columns() << " ";
    show_arr(o, m.row_ptr(), m.rows() + 1); o << " ";
    show_arr(o, m.col_ind(), m.used_elements());
    o << " " << h_ << " " << w_ << " " << m.used_elements() * Index(h_ * w_);
    for(Index k = 0; k < m.used_elements(); ++k)
      for(int a = 0; a < h_; ++a) for(int b = 0; b < w_; ++b) o << " " << m.val()[k][a][b];
  }

  void show_matrix(std::ostream& o, const MatrixQ& m)
  {
    o << "M "; show_csr_pattern(o, m); o << " ";
    if(m.used_elements() == 0) o << "0"; else show_q(o, m.val(), m.used_elements());
  }
}

static void handle(const verif::Tokens& t, std::ostream& o)
{
  Cur c(t);
  std::string op = c.str();
  if(op == "scatter")
  {
    MatrixQ m = read_csr(c);
    auto calls = read_calls(c);
    {
      MatrixQ::ScatterAxpy sc(m);
      for(const auto& k : calls)
      {
        LocMat lm(k.vals, int(k.cols.size()));
        sc(lm, ListMap(k.rows), ListMap(k.cols), k.alpha);
      }
    }
    o << "V "; show_q(o, m.val(), m.used_elements());
  }
  else if(op == "gather")
  {
    MatrixQ m = read_csr(c);
    auto calls = read_calls(c);
    MatrixQ::GatherAxpy ga(m);
    o << "L " << calls.size();
    for(const auto& k : calls)
    {
      LocMat lm(k.vals, int(k.cols.size()));
      ga(lm, ListMap(k.rows), ListMap(k.cols), k.alpha);
      o << " "; show_qv(o, lm.v);
    }
  }
  else if(op == "vscatter")
  {
    auto vals = rdqlist(c);
    auto calls = read_calls(c);
    VectorQ v = to_dv(vals);
    {
      VectorQ::ScatterAxpy sc(v);
      for(const auto& k : calls) sc(k.vals, ListMap(k.rows), k.alpha);
    }
    o << "W "; show_q(o, v.elements(), v.size());
  }
  else if(op == "vgather")
  {
    auto vals = rdqlist(c);
    auto calls = read_calls(c);
    VectorQ v = to_dv(vals);
    VectorQ::GatherAxpy ga(v);
    o << "L " << calls.size();
    for(const auto& k : calls)
    {
      std::vector<Q> lv(k.vals);
      ga(lv, ListMap(k.rows), k.alpha);
      o << " "; show_qv(o, lv);
    }
  }
  else if(op == "banded")
  {
    Index r = c.idx(), cc = c.idx();
    auto offs = rdidx(c); auto vals = rdqlist(c);
    auto calls = read_calls(c);
    auto doffs = to_dv(offs); auto dv = to_dv(vals);
    LAFEM::SparseMatrixBanded<Q, Index> m(r, cc, dv, doffs);
    {
      LAFEM::SparseMatrixBanded<Q, Index>::ScatterAxpy sc(m);
      for(const auto& k : calls)
      {
        LocMat lm(k.vals, int(k.cols.size()));
        sc(lm, ListMap(k.rows), ListMap(k.cols), k.alpha);
      }
    }
    o << "V "; show_q(o, m.val(), Index(vals.size()));
  }
  else if(op == "bgather")
  {
    Index r = c.idx(), cc = c.idx();
    auto offs = rdidx(c); auto vals = rdqlist(c);
    auto calls = read_calls(c);
    auto doffs = to_dv(offs); auto dv = to_dv(vals);
    LAFEM::SparseMatrixBanded<Q, Index> m(r, cc, dv, doffs);
    LAFEM::SparseMatrixBanded<Q, Index>::GatherAxpy ga(m);
    o << "L " << calls.size();
    for(const auto& k : calls)
    {
      LocMat lm(k.vals, int(k.cols.size()));
      ga(lm, ListMap(k.rows), ListMap(k.cols), k.alpha);
      o << " "; show_qv(o, lm.v);
    }
  }
  else if(op == "asm")
  {
    Index kind = c.idx(), nT = c.idx(), nS = c.idx(), nc = c.idx();
    TableSpace ts{TableMesh{nc}, nT, {}}, ss{TableMesh{nc}, nS, {}};
    for(Index i = 0; i < nc; ++i) ts.table.push_back(rdidx(c));
    for(Index i = 0; i < nc; ++i) ss.table.push_back(rdidx(c));
    auto order = rdidx(c);
    std::vector<Q> alphas; std::vector<std::vector<Q>> locs;
    for(Index i = 0; i < nc; ++i) { alphas.push_back(rdq(c)); locs.push_back(rdqlist(c)); }
    MatrixQ m;
    if(kind == 1)
      Assembly::SymbolicAssembler::assemble_matrix_std1(m, ts);
    else
      Assembly::SymbolicAssembler::assemble_matrix_std2(m, ts, ss);
    m.format();
    const TableSpace& cs = (kind == 1) ? ts : ss;
    {
      MatrixQ::ScatterAxpy sc(m);
      for(Index cell : order)
      {
        LocMat lm(locs[cell], int(cs.table[cell].size()));
        sc(lm, ListMap(ts.table[cell]), ListMap(cs.table[cell]), alphas[cell]);
      }
    }
    show_matrix(o, m);
  }
  else if(op == "fe" || op == "feasm" || op == "ferec" || op == "flocal" || op == "hist" || op == "histj")
  {
    std::string shape = c.str();
    int full = (op == "fe") ? 1 : (op == "feasm") ? 0 : (op == "ferec") ? 2 : (op == "flocal") ? 6 : (op == "hist") ? 3 : 5;
    if(shape == "line") fe_line(c, o, full);
    else if(shape == "quad") fe_quad(c, o, full);
    else if(shape == "tria") fe_tria(c, o, full);
    else if(shape == "hexa") fe_hexa(c, o, full);
    else if(shape == "tetra") fe_tetra(c, o, full);
    else o << "BAD-OP";
  }
  else if(op == "asmb")
  {
    Index kind = c.idx(), nT = c.idx(), nS = c.idx(), bh = c.idx(), bw = c.idx(), nc = c.idx();
    TableSpace ts{TableMesh{nc}, nT, {}}, ss{TableMesh{nc}, nS, {}};
    for(Index i = 0; i < nc; ++i) ts.table.push_back(rdidx(c));
    for(Index i = 0; i < nc; ++i) ss.table.push_back(rdidx(c));
    auto order = rdidx(c);
    std::vector<Q> alphas; std::vector<std::vector<Q>> locs;
    for(Index i = 0; i < nc; ++i) { alphas.push_back(rdq(c)); locs.push_back(rdqlist(c)); }
    if(bh == 2 && bw == 2) run_asmb<2, 2>(kind, ts, ss, order, alphas, locs, o);
    else if(bh == 2 && bw == 3) run_asmb<2, 3>(kind, ts, ss, order, alphas, locs, o);
    else if(bh == 3 && bw == 2) run_asmb<3, 2>(kind, ts, ss, order, alphas, locs, o);
    else if(bh == 3 && bw == 3) run_asmb<3, 3>(kind, ts, ss, order, alphas, locs, o);
    else if(bh == 2 && bw == 1) run_asmb<2, 1>(kind, ts, ss, order, alphas, locs, o);
    else if(bh == 1 && bw == 3) run_asmb<1, 3>(kind, ts, ss, order, alphas, locs, o);
    else o << "BAD-OP";
  }
  else if(op == "trace")
    trace_quad(c, o);
  else if(op == "hk" || op == "hkasm")
    hooks(c, o, op == "hkasm");
  else if(op == "trace3" || op == "trpt")
    trace3(c, o, op == "trpt");
  else if(op == "ops")
  {
    std::string shape = c.str();
    if(shape == "quad") ops_quad(c, o);
    else if(shape == "tria") ops_tria(c, o);
    else if(shape == "hexa") ops_hexa(c, o);
    else o << "BAD-OP";
  }
  else if(op == "bg" || op == "bgsd")
  {
    std::string shape = c.str();
    bool full = (op == "bg");
    if(shape == "quad") bg_quad(c, o, full);
    else if(shape == "tria") bg_tria(c, o, full);
    else if(shape == "hexa") bg_hexa(c, o, full);
    else o << "BAD-OP";
  }
  else
    o << "BAD-OP";
}

int main(int argc, char** argv)
{
  return verif::run_cases(argc, argv, handle);
}
