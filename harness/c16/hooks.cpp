// C16 harness: USER-DEFINED operators / functionals (not from common_operators.hpp) whose Evaluator hooks do real work:
//   prepare(trafo_eval) reads the cell index and the first vertex of the cell into a per-cell coefficient
//   c_T = 1 + T + x_0(T);  finish() resets it to a poison value;  every hook call is logged.
// They are run through every route: BilinearOperatorAssembler::assemble_matrix1 / assemble_matrix2 (Q2 x P0),
// BilinearOperatorMatrixAssemblyJob1 / Job2, LinearFunctionalAssembler, LinearFunctionalAssemblyJob, TraceAssembler.
//   hk <level> <nmoves {i dx dy}> <rule>           -> mesh, all routes, hook logs
//   hkasm <route c1|j1|c2|j2> <level> <nmoves ..> <rule> ...  -> only that route's matrix (compared with the model)
#include "fe.hpp"
#include <kernel/assembly/trace_assembler.hpp>

namespace c16
{
  struct HookLog
  {
    // one entry per prepare(): cell index seen, number of eval calls until finish, finished?; anomalies get seen = -2
    std::vector<long long> seen; std::vector<Index> nevals; std::vector<int> fin;
    void clear() { seen.clear(); nevals.clear(); fin.clear(); }
    void on_prepare(long long c) { seen.push_back(c); nevals.push_back(0); fin.push_back(0); }
    void on_eval() { if(seen.empty() || fin.back()) { seen.push_back(-2); nevals.push_back(0); fin.push_back(0); } ++nevals.back(); }
    void on_finish() { if(seen.empty() || fin.back()) { seen.push_back(-2); nevals.push_back(0); fin.push_back(0); } fin.back() = 1; }
    void show(std::ostream& o) const
    {
      o << seen.size();
      for(std::size_t k = 0; k < seen.size(); ++k) o << " " << seen[k] << " " << nevals[k] << " " << fin[k];
    }
  };

  template<typename TrafoEval_>
  static Q cell_coef(const TrafoEval_& te, HookLog* log)
  {
    const auto& mesh = te.get_trafo().get_mesh();
    const Index nc = mesh.get_num_entities(2);
    const Index cell = te.get_cell_index();
    if(!(cell < nc)) { log->on_prepare(-1); return Q(-1000); } // unprepared evaluator
    log->on_prepare((long long)cell);
    const auto& idx = mesh.template get_index_set<2, 0>();
    return Q(1) + Q((unsigned long)cell) + mesh.get_vertex_set()[idx[cell][0]][0];
  }

  class HookMassOperator : public Assembly::BilinearOperator
  {
  public:
    static constexpr TrafoTags trafo_config = TrafoTags::none;
    static constexpr SpaceTags test_config = SpaceTags::value;
    static constexpr SpaceTags trial_config = SpaceTags::value;
    HookLog* log;
    explicit HookMassOperator(HookLog* l) : log(l) {}
    template<typename AsmTraits_>
    class Evaluator : public Assembly::BilinearOperator::Evaluator<AsmTraits_>
    {
    public:
      typedef typename AsmTraits_::DataType DataType;
      typedef typename AsmTraits_::TrafoEvaluator TrafoEvaluator;
      typedef typename AsmTraits_::TestBasisData TestBasisData;
      typedef typename AsmTraits_::TrialBasisData TrialBasisData;
      typedef DataType ValueType;
      HookLog* log; Q coef;
      explicit Evaluator(const HookMassOperator& op) : log(op.log), coef(Q(-1000)) {}
      void prepare(const TrafoEvaluator& te) { coef = cell_coef(te, log); }
      void finish() { log->on_finish(); coef = Q(-1000); }
      ValueType eval(const TrialBasisData& phi, const TestBasisData& psi) { log->on_eval(); return coef * phi.value * psi.value; }
    };
  };

  class HookFunctional : public Assembly::LinearFunctional
  {
  public:
    static constexpr TrafoTags trafo_config = TrafoTags::none;
    static constexpr SpaceTags test_config = SpaceTags::value;
    HookLog* log;
    explicit HookFunctional(HookLog* l) : log(l) {}
    template<typename AsmTraits_>
    class Evaluator : public Assembly::LinearFunctional::Evaluator<AsmTraits_>
    {
    public:
      typedef typename AsmTraits_::DataType DataType;
      typedef typename AsmTraits_::TrafoEvaluator TrafoEvaluator;
      typedef typename AsmTraits_::TestBasisData TestBasisData;
      typedef DataType ValueType;
      HookLog* log; Q coef;
      explicit Evaluator(const HookFunctional& f) : log(f.log), coef(Q(-1000)) {}
      void prepare(const TrafoEvaluator& te) { coef = cell_coef(te, log); }
      void finish() { log->on_finish(); coef = Q(-1000); }
      ValueType eval(const TestBasisData& psi) const { log->on_eval(); return coef * psi.value; }
    };
  };

  void hooks(Cur& c, std::ostream& o, bool only_route)
  {
    typedef Shape::Hypercube<2> ShapeType;
    typedef Geometry::ConformalMesh<ShapeType, 2, Q> MeshType;
    typedef Trafo::Standard::Mapping<MeshType> TrafoType;
    typedef Space::Lagrange1::Element<TrafoType> SpaceL1;
    typedef Space::Lagrange2::Element<TrafoType> SpaceL2;
    typedef Space::Discontinuous::Element<TrafoType, Space::Discontinuous::Variant::StdPolyP<0>> SpaceD0;
    std::string route = only_route ? c.str() : std::string();
    Config g; g.level = c.idx();
    Index nm = c.idx();
    for(Index k = 0; k < nm; ++k) { g.mv_idx.push_back(c.idx()); std::vector<Q> d; d.push_back(rdq(c)); d.push_back(rdq(c)); g.mv_delta.push_back(d); }
    std::string rule = c.str();
    MeshType mesh(Fe<ShapeType>::make_mesh(g));
    TrafoType trafo(mesh);
    SpaceL1 l1(trafo); SpaceL2 l2(trafo); SpaceD0 d0(trafo);
    Cubature::DynamicFactory cub(rule);
    HookLog log;
    HookMassOperator op(&log);
    HookFunctional fn(&log);
    Assembly::DomainAssembler<TrafoType> dom_asm(trafo);
    dom_asm.compile_all_elements();

    auto mat1 = [&](bool job, MatrixQ& m)
    {
      Assembly::SymbolicAssembler::assemble_matrix_std1(m, l1); m.format(); log.clear();
      if(job) Assembly::assemble_bilinear_operator_matrix_1(dom_asm, m, op, l1, rule);
      else Assembly::BilinearOperatorAssembler::assemble_matrix1(m, op, l1, cub);
    };
    auto mat2 = [&](bool job, MatrixQ& m)
    {
      Assembly::SymbolicAssembler::assemble_matrix_std2(m, l2, d0); m.format(); log.clear();
      if(job) Assembly::assemble_bilinear_operator_matrix_2(dom_asm, m, op, l2, d0, rule);
      else Assembly::BilinearOperatorAssembler::assemble_matrix2(m, op, l2, d0, cub);
    };
    if(only_route)
    {
      MatrixQ m;
      if(route == "c1") mat1(false, m); else if(route == "j1") mat1(true, m);
      else if(route == "c2") mat2(false, m); else mat2(true, m);
      o << "M "; show_csr_pattern(o, m); o << " "; show_q(o, m.val(), m.used_elements());
      return;
    }
    Fe<ShapeType>::show_mesh_of(o, mesh);
    const char* tags[4] = {"C1", "J1", "C2", "J2"};
    for(int r = 0; r < 4; ++r)
    {
      MatrixQ m;
      if(r < 2) mat1(r == 1, m); else mat2(r == 3, m);
      o << " " << tags[r] << " "; show_q(o, m.val(), m.used_elements());
      o << " LOG "; log.show(o);
    }
    {
      VectorQ a(l1.get_num_dofs(), Q(0)), b(l1.get_num_dofs(), Q(0));
      log.clear();
      Assembly::LinearFunctionalAssembler::assemble_vector(a, fn, l1, cub);
      o << " CF "; show_q(o, a.elements(), a.size()); o << " LOG "; log.show(o);
      log.clear();
      Assembly::assemble_linear_functional_vector(dom_asm, b, fn, l1, rule);
      o << " JF "; show_q(o, b.elements(), b.size()); o << " LOG "; log.show(o);
    }
    {
      // trace assembler on all boundary facets: the hook sees the adjacent cell
      Assembly::TraceAssembler<TrafoType> ta(trafo);
      ta.compile_all_facets(false, true);
      MatrixQ m;
      Assembly::SymbolicAssembler::assemble_matrix_std1(m, l1); m.format(); log.clear();
      Cubature::DynamicFactory cubf(rule);
      ta.assemble_operator_matrix1(m, op, l1, cubf);
      o << " TR "; show_q(o, m.val(), m.used_elements()); o << " LOG "; log.show(o);
    }
  }
}
