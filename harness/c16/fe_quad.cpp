// C16 harness: finite-element runs on Shape::Hypercube<2> (see fe.hpp)
#include "fe.hpp"
namespace c16 { void fe_quad(Cur& c, std::ostream& o, int mode) { run_fe<FEAT::Shape::Hypercube<2>>(c, o, mode); } }
