// C16 harness: finite-element runs on Shape::Hypercube<1> (see fe.hpp)
#include "fe.hpp"
namespace c16 { void fe_line(Cur& c, std::ostream& o, int mode) { run_fe<FEAT::Shape::Hypercube<1>>(c, o, mode); } }
