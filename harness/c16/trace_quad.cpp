// C16 harness: Assembly::TraceAssembler on the unit square (quad mesh), identity operator on selected facets.
//   trace <level> <space L1|L2> <rule> <list A of facets> <list B of facets>
// prints the sums of the entries of:  T1 = assembler with facets A;  T2 = the same assembler after clear() + facets B;
// F2 = a fresh assembler with facets B;  FA = a fresh assembler with facets A and B
#include "fe.hpp"
#include <kernel/assembly/trace_assembler.hpp>

namespace c16
{
  template<typename Space_, typename Trafo_>
  static Q trace_mass_sum(const Assembly::TraceAssembler<Trafo_>& ta, const Space_& space, const std::string& rule)
  {
    MatrixQ m;
    Assembly::SymbolicAssembler::assemble_matrix_std1(m, space); m.format();
    Cubature::DynamicFactory cub(rule);
    Assembly::Common::IdentityOperator op;
    ta.assemble_operator_matrix1(m, op, space, cub);
    Q s(0);
    for(Index k = 0; k < m.used_elements(); ++k) s += m.val()[k];
    return s;
  }

  template<typename Space_>
  static void trace_run(Cur& c, std::ostream& o, Index level, const std::string& rule)
  {
    typedef Geometry::ConformalMesh<Shape::Hypercube<2>, 2, Q> MeshType;
    typedef Trafo::Standard::Mapping<MeshType> TrafoType;
    Geometry::RefinedUnitCubeFactory<MeshType> fac(level);
    MeshType mesh(fac);
    TrafoType trafo(mesh);
    Space_ space(trafo);
    auto la = c.idxlist(); auto lb = c.idxlist();
    const Index nf = mesh.get_num_entities(1);
    Assembly::TraceAssembler<TrafoType> ta(trafo);
    for(auto f : la) ta.add_facet(Index(f) % nf);
    ta.compile();
    Q t1 = trace_mass_sum(ta, space, rule);
    ta.clear();
    for(auto f : lb) ta.add_facet(Index(f) % nf);
    ta.compile();
    Q t2 = trace_mass_sum(ta, space, rule);
    Assembly::TraceAssembler<TrafoType> tb(trafo);
    for(auto f : lb) tb.add_facet(Index(f) % nf);
    tb.compile();
    Q f2 = trace_mass_sum(tb, space, rule);
    Assembly::TraceAssembler<TrafoType> tc(trafo);
    for(auto f : la) tc.add_facet(Index(f) % nf);
    for(auto f : lb) tc.add_facet(Index(f) % nf);
    tc.compile();
    Q fa = trace_mass_sum(tc, space, rule);
    // edge lengths (squared) and number of adjacent cells per facet, for the oracle
    const auto& vtx = mesh.get_vertex_set();
    const auto& vae = mesh.template get_index_set<1, 0>();
    Adjacency::Graph cells_at_facet(Adjacency::RenderType::injectify_transpose, mesh.template get_index_set<2, 1>());
    o << "TR " << t1 << " " << t2 << " " << f2 << " " << fa << " " << nf;
    for(Index f = 0; f < nf; ++f)
    {
      Q dx = vtx[vae[f][1]][0] - vtx[vae[f][0]][0], dy = vtx[vae[f][1]][1] - vtx[vae[f][0]][1];
      o << " " << (dx * dx + dy * dy) << " " << cells_at_facet.degree(f);
    }
  }

  void trace_quad(Cur& c, std::ostream& o)
  {
    typedef Geometry::ConformalMesh<Shape::Hypercube<2>, 2, Q> MeshType;
    typedef Trafo::Standard::Mapping<MeshType> TrafoType;
    Index level = c.idx(); std::string sp = c.str(); std::string rule = c.str();
    {
      // warm-up request of the same template instantiations (discarded): other rule
      Cur cw = c; std::ostringstream sink;
      if(sp == "L1") trace_run<Space::Lagrange1::Element<TrafoType>>(cw, sink, level, "newton-cotes-closed:2");
      else if(sp == "L2") trace_run<Space::Lagrange2::Element<TrafoType>>(cw, sink, level, "newton-cotes-closed:2");
    }
    if(sp == "L1") trace_run<Space::Lagrange1::Element<TrafoType>>(c, o, level, rule);
    else if(sp == "L2") trace_run<Space::Lagrange2::Element<TrafoType>>(c, o, level, rule);
    else o << "BAD-OP";
  }
}
