// C16 harness, operator sweep: EVERY bilinear operator class of kernel/assembly/common_operators.hpp and every linear
// functional class of kernel/assembly/common_functionals.hpp is assembled by the real assemblers at the exact scalar Q
// on one mesh/space per case (natural boundary, nothing is filtered):
//   scalar operators into SparseMatrixCSR  : Laplace, LaplaceBeltrami, Identity, TrialDerivative(d), TestDerivative(d),
//                                            DivDiv(ir,ic), DuDv(ir,ic) for ALL (ir,ic)
//   blocked operators into SparseMatrixBCSR: LaplaceOperatorBlocked, IdentityOperatorBlocked, DuDvOperatorBlocked (dim x dim),
//                                            GradientTrial/TestOperatorBlocked (dim x 1), StressDivergenceOperator (dim x nsc),
//                                            StrainRateTensorOperator (nsc x dim)
//   functionals                            : Force/LaplaceFunctional with scalar and vector-valued functions
// classic cell loop (BilinearOperatorAssembler / LinearFunctionalAssembler) and, prefixed J, the domain-assembler jobs.
// Output: one section  NAME n v_1 .. v_n  per class instance (blocks flattened row-major per stored entry).
#pragma once
#include "fe.hpp"
#include <kernel/lafem/sparse_matrix_bcsr.hpp>
#include <kernel/lafem/dense_vector_blocked.hpp>

namespace c16
{
  // polynomial of total degree <= 2 with value, gradient and hessian (input preparation)
  template<int dim_>
  struct PolyData
  {
    std::vector<Q> coef;
    PolyData() {}
    explicit PolyData(const std::vector<Q>& c) : coef(c) { coef.resize(std::size_t(1 + dim_ + dim_ * (dim_ + 1) / 2), Q(0)); }
    template<typename P_> Q value(const P_& p) const
    {
      std::size_t k = 0; Q r = coef[k++];
      for(int i = 0; i < dim_; ++i) r += coef[k++] * Q(p[i]);
      for(int i = 0; i < dim_; ++i) for(int j = i; j < dim_; ++j) r += coef[k++] * Q(p[i]) * Q(p[j]);
      return r;
    }
    template<typename P_> Q grad(const P_& p, int d) const
    {
      Q r = coef[std::size_t(1 + d)];
      std::size_t k = std::size_t(1 + dim_);
      for(int i = 0; i < dim_; ++i) for(int j = i; j < dim_; ++j, ++k)
      {
        if(i == d) r += coef[k] * Q(p[j]);
        if(j == d) r += coef[k] * Q(p[i]);
      }
      return r;
    }
    Q hess(int a, int b) const
    {
      std::size_t k = std::size_t(1 + dim_);
      for(int i = 0; i < dim_; ++i) for(int j = i; j < dim_; ++j, ++k)
        if((i == a && j == b) || (i == b && j == a)) return (a == b) ? Q(2) * coef[k] : coef[k];
      return Q(0);
    }
  };

  template<int dim_>
  class PolyScalar : public Analytic::Function
  {
  public:
    static constexpr int domain_dim = dim_;
    typedef Analytic::Image::Scalar ImageType;
    static constexpr bool can_value = true, can_grad = true, can_hess = true;
    PolyData<dim_> pd;
    explicit PolyScalar(const std::vector<Q>& c) : pd(c) {}
    template<typename EvalTraits_>
    class Evaluator : public Analytic::Function::Evaluator<EvalTraits_>
    {
    public:
      typedef typename EvalTraits_::PointType PointType;
      typedef typename EvalTraits_::ValueType ValueType;
      typedef typename EvalTraits_::GradientType GradientType;
      typedef typename EvalTraits_::HessianType HessianType;
      const PolyScalar& f;
      explicit Evaluator(const PolyScalar& ff) : f(ff) {}
      ValueType value(const PointType& p) { return f.pd.value(p); }
      GradientType gradient(const PointType& p) { GradientType g; for(int d = 0; d < dim_; ++d) g[d] = f.pd.grad(p, d); return g; }
      HessianType hessian(const PointType&) { HessianType h; for(int a = 0; a < dim_; ++a) for(int b = 0; b < dim_; ++b) h[a][b] = f.pd.hess(a, b); return h; }
    };
  };

  template<int dim_>
  class PolyVector : public Analytic::Function
  {
  public:
    static constexpr int domain_dim = dim_;
    typedef Analytic::Image::Vector<dim_> ImageType;
    static constexpr bool can_value = true, can_grad = true, can_hess = true;
    PolyData<dim_> pd[dim_];
    template<typename EvalTraits_>
    class Evaluator : public Analytic::Function::Evaluator<EvalTraits_>
    {
    public:
      typedef typename EvalTraits_::PointType PointType;
      typedef typename EvalTraits_::ValueType ValueType;
      typedef typename EvalTraits_::GradientType GradientType;
      typedef typename EvalTraits_::HessianType HessianType;
      const PolyVector& f;
      explicit Evaluator(const PolyVector& ff) : f(ff) {}
      ValueType value(const PointType& p) { ValueType v; for(int c = 0; c < dim_; ++c) v[c] = f.pd[c].value(p); return v; }
      GradientType gradient(const PointType& p) { GradientType g; for(int c = 0; c < dim_; ++c) for(int d = 0; d < dim_; ++d) g[c][d] = f.pd[c].grad(p, d); return g; }
      HessianType hessian(const PointType&)
      {
        HessianType h;
        for(int c = 0; c < dim_; ++c) for(int a = 0; a < dim_; ++a) for(int b = 0; b < dim_; ++b) h[c][a][b] = f.pd[c].hess(a, b);
        return h;
      }
    };
  };

  struct OpsConfig
  {
    Index level; std::vector<Index> mv_idx; std::vector<std::vector<Q>> mv_delta;
    std::string space, rule, part; Q alpha; std::vector<Q> cu, cv;
  };

  template<int dim_>
  OpsConfig read_ops_config(Cur& c)
  {
    OpsConfig g;
    g.level = c.idx();
    Index nm = c.idx();
    for(Index k = 0; k < nm; ++k)
    {
      g.mv_idx.push_back(c.idx());
      std::vector<Q> d; for(int i = 0; i < dim_; ++i) d.push_back(rdq(c));
      g.mv_delta.push_back(d);
    }
    g.space = c.str(); g.rule = c.str(); g.part = c.str(); g.alpha = rdq(c);
    g.cu = rdqlist(c); g.cv = rdqlist(c);
    return g;
  }

  template<typename Shape_>
  struct Ops
  {
    static constexpr int dim = Shape_::dimension;
    static constexpr int nsc_sym = dim * (dim + 1) / 2;
    static constexpr int nsc_full = dim * dim;
    typedef Geometry::ConformalMesh<Shape_, dim, Q> MeshType;
    typedef Trafo::Standard::Mapping<MeshType> TrafoType;
    typedef Space::Lagrange1::Element<TrafoType> SpaceL1;
    typedef Space::Lagrange2::Element<TrafoType> SpaceL2;

    const OpsConfig& g; std::ostream& o;
    MeshType mesh; TrafoType trafo;

    static MeshType make_mesh(const OpsConfig& g)
    {
      Config fc; fc.level = g.level; fc.mv_idx = g.mv_idx; fc.mv_delta = g.mv_delta;
      return Fe<Shape_>::make_mesh(fc);
    }
    Ops(const OpsConfig& gg, std::ostream& oo) : g(gg), o(oo), mesh(make_mesh(gg)), trafo(mesh) {}

    template<int h_, int w_>
    static void show_bvals(std::ostream& o, const LAFEM::SparseMatrixBCSR<Q, Index, h_, w_>& m)
    {
      const Index n = m.used_elements();
      o << n * Index(h_ * w_);
      for(Index k = 0; k < n; ++k) for(int a = 0; a < h_; ++a) for(int b = 0; b < w_; ++b) o << " " << m.val()[k][a][b];
    }

    template<typename Op_, typename Space_>
    void scalar_op(const std::string& name, Op_& op, const Space_& space, bool job)
    {
      Cubature::DynamicFactory cub(g.rule);
      MatrixQ a;
      Assembly::SymbolicAssembler::assemble_matrix_std1(a, space); a.format();
      Assembly::BilinearOperatorAssembler::assemble_matrix1(a, op, space, cub, g.alpha);
      o << " " << name << " "; show_q(o, a.val(), a.used_elements());
      if(job)
      {
        MatrixQ b;
        Assembly::SymbolicAssembler::assemble_matrix_std1(b, space); b.format();
        Assembly::DomainAssembler<TrafoType> dom_asm(trafo);
        dom_asm.compile_all_elements();
        Assembly::assemble_bilinear_operator_matrix_1(dom_asm, b, op, space, g.rule, g.alpha);
        o << " J" << name << " "; show_q(o, b.val(), b.used_elements());
      }
    }

    template<int h_, int w_, typename Op_, typename Space_>
    void blocked_op(const std::string& name, Op_& op, const Space_& space, bool job)
    {
      typedef LAFEM::SparseMatrixBCSR<Q, Index, h_, w_> BM;
      Cubature::DynamicFactory cub(g.rule);
      BM a;
      Assembly::SymbolicAssembler::assemble_matrix_std1(a, space); a.format();
      Assembly::BilinearOperatorAssembler::assemble_matrix1(a, op, space, cub, g.alpha);
      o << " " << name << " "; show_bvals<h_, w_>(o, a);
      if(job)
      {
        BM b;
        Assembly::SymbolicAssembler::assemble_matrix_std1(b, space); b.format();
        Assembly::DomainAssembler<TrafoType> dom_asm(trafo);
        dom_asm.compile_all_elements();
        Assembly::assemble_bilinear_operator_matrix_1(dom_asm, b, op, space, g.rule, g.alpha);
        o << " J" << name << " "; show_bvals<h_, w_>(o, b);
      }
    }

    template<typename Space_>
    void run_space()
    {
      Space_ space(trafo);
      Cubature::DynamicFactory cub(g.rule);
      Fe<Shape_>::show_mesh_of(o, mesh);
      o << " T "; show_dofmap(o, space);
      {
        MatrixQ a; Assembly::SymbolicAssembler::assemble_matrix_std1(a, space);
        o << " P "; show_arr(o, a.row_ptr(), a.rows() + 1); o << " "; show_arr(o, a.col_ind(), a.used_elements());
      }
      PolyScalar<dim> fu(g.cu), fv(g.cv);
      {
        VectorQ u, v;
        Assembly::Interpolator::project(u, fu, space);
        Assembly::Interpolator::project(v, fv, space);
        o << " U "; show_q(o, u.elements(), u.size());
        o << " V "; show_q(o, v.elements(), v.size());
      }
      if(g.part == "s9")
      {
        // the unsymmetric 3D strain-rate tensor alone (known finding F4: one block entry is never written)
        for(int d = 0; d < dim; ++d) { Assembly::Common::TrialDerivativeOperator op(d); scalar_op("TRD" + std::to_string(d), op, space, false); }
        Assembly::Common::StrainRateTensorOperator<dim, nsc_full> op;
        blocked_op<nsc_full, dim>("STRAIN" + std::to_string(nsc_full), op, space, false);
        return;
      }
      // ---- scalar operators
      { Assembly::Common::LaplaceOperator op; scalar_op("LAPL", op, space, true); }
      { Assembly::Common::LaplaceBeltramiOperator op; scalar_op("BELT", op, space, true); }
      { Assembly::Common::IdentityOperator op; scalar_op("ID", op, space, true); }
      for(int d = 0; d < dim; ++d)
      {
        { Assembly::Common::TrialDerivativeOperator op(d); scalar_op("TRD" + std::to_string(d), op, space, true); }
        { Assembly::Common::TestDerivativeOperator op(d); scalar_op("TED" + std::to_string(d), op, space, true); }
      }
      for(int ir = 0; ir < dim; ++ir) for(int ic = 0; ic < dim; ++ic)
      {
        { Assembly::Common::DivDivOperator op(ir, ic); scalar_op("DIV" + std::to_string(ir) + std::to_string(ic), op, space, true); }
        { Assembly::Common::DuDvOperator op(ir, ic); scalar_op("DUDV" + std::to_string(ir) + std::to_string(ic), op, space, true); }
      }
      // ---- blocked operators
      { Assembly::Common::LaplaceOperatorBlocked<dim> op; blocked_op<dim, dim>("LAPLB", op, space, true); }
      { Assembly::Common::IdentityOperatorBlocked<dim> op; blocked_op<dim, dim>("IDB", op, space, true); }
      { Assembly::Common::DuDvOperatorBlocked<dim> op; blocked_op<dim, dim>("DUDVB", op, space, true); }
      { Assembly::Common::GradientTrialOperatorBlocked<dim> op; blocked_op<dim, 1>("GTRIAL", op, space, true); }
      { Assembly::Common::GradientTestOperatorBlocked<dim> op; blocked_op<dim, 1>("GTEST", op, space, true); }
      { Assembly::Common::StressDivergenceOperator<dim, nsc_sym> op; blocked_op<dim, nsc_sym>("STRESS" + std::to_string(nsc_sym), op, space, true); }
      { Assembly::Common::StressDivergenceOperator<dim, nsc_full> op; blocked_op<dim, nsc_full>("STRESS" + std::to_string(nsc_full), op, space, true); }
      { Assembly::Common::StrainRateTensorOperator<dim, nsc_sym> op; blocked_op<nsc_sym, dim>("STRAIN" + std::to_string(nsc_sym), op, space, true); }
      { Assembly::Common::StrainRateTensorOperator<dim, nsc_full> op; blocked_op<nsc_full, dim>("STRAIN" + std::to_string(nsc_full), op, space, true); }
      // ---- functionals: scalar f = v-polynomial, vector f = (u, v, u+v)
      {
        Assembly::Common::ForceFunctional<PolyScalar<dim>> ff(fv);
        Assembly::Common::LaplaceFunctional<PolyScalar<dim>> lf(fv);
        VectorQ a(space.get_num_dofs(), Q(0)), b(space.get_num_dofs(), Q(0)), ja(space.get_num_dofs(), Q(0)), jb(space.get_num_dofs(), Q(0));
        Assembly::LinearFunctionalAssembler::assemble_vector(a, ff, space, cub, g.alpha);
        Assembly::LinearFunctionalAssembler::assemble_vector(b, lf, space, cub, g.alpha);
        Assembly::DomainAssembler<TrafoType> dom_asm(trafo);
        dom_asm.compile_all_elements();
        Assembly::assemble_linear_functional_vector(dom_asm, ja, ff, space, g.rule, g.alpha);
        Assembly::assemble_linear_functional_vector(dom_asm, jb, lf, space, g.rule, g.alpha);
        o << " FORCE "; show_q(o, a.elements(), a.size());
        o << " LAPF "; show_q(o, b.elements(), b.size());
        o << " JFORCE "; show_q(o, ja.elements(), ja.size());
        o << " JLAPF "; show_q(o, jb.elements(), jb.size());
      }
      {
        typedef LAFEM::DenseVectorBlocked<Q, Index, dim> BV;
        PolyVector<dim> pv;
        pv.pd[0] = PolyData<dim>(g.cu); pv.pd[1] = PolyData<dim>(g.cv);
        if(dim > 2) { std::vector<Q> s(g.cu); s.resize(std::max(g.cu.size(), g.cv.size()), Q(0)); for(std::size_t k = 0; k < g.cv.size(); ++k) s[k] = s[k] + g.cv[k]; pv.pd[dim - 1] = PolyData<dim>(s); }
        Assembly::Common::ForceFunctional<PolyVector<dim>> ff(pv);
        Assembly::Common::LaplaceFunctional<PolyVector<dim>> lf(pv);
        BV a(space.get_num_dofs()), b(space.get_num_dofs()), ja(space.get_num_dofs()), jb(space.get_num_dofs());
        a.format(); b.format(); ja.format(); jb.format();
        Assembly::LinearFunctionalAssembler::assemble_vector(a, ff, space, cub, g.alpha);
        Assembly::LinearFunctionalAssembler::assemble_vector(b, lf, space, cub, g.alpha);
        Assembly::DomainAssembler<TrafoType> dom_asm(trafo);
        dom_asm.compile_all_elements();
        Assembly::assemble_linear_functional_vector(dom_asm, ja, ff, space, g.rule, g.alpha);
        Assembly::assemble_linear_functional_vector(dom_asm, jb, lf, space, g.rule, g.alpha);
        auto showbv = [&](const char* nm, const BV& x)
        {
          o << " " << nm << " " << x.size() * Index(dim);
          for(Index i = 0; i < x.size(); ++i) { auto t = x(i); for(int c = 0; c < dim; ++c) o << " " << t[c]; }
        };
        showbv("FORCEB", a); showbv("LAPFB", b); showbv("JFORCEB", ja); showbv("JLAPFB", jb);
      }
    }

    void run_all()
    {
      if(g.space == "L1") run_space<SpaceL1>();
      else if(g.space == "L2") run_space<SpaceL2>();
      else o << "BAD-OP";
    }
  };

  template<typename Shape_>
  void run_ops(Cur& c, std::ostream& o)
  {
    OpsConfig g = read_ops_config<Shape_::dimension>(c);
    {
      // warm-up request of the same template instantiations (discarded): other rule, other coefficients
      OpsConfig w = g;
      w.rule = warm_rule(g.rule); w.alpha = g.alpha + Q(1);
      for(auto& x : w.cu) x = x + Q(1);
      for(auto& x : w.cv) x = x * Q(2) - Q(1);
      std::ostringstream sink;
      Ops<Shape_> opsw(w, sink);
      opsw.run_all();
    }
    Ops<Shape_> ops(g, o);
    ops.run_all();
  }

  void ops_quad(Cur& c, std::ostream& o);
  void ops_tria(Cur& c, std::ostream& o);
  void ops_hexa(Cur& c, std::ostream& o);
}
