// C16 harness: sweep over all common operators / functionals on Shape::Hypercube<2> (see ops.hpp)
#include "ops.hpp"
namespace c16 { void ops_quad(Cur& c, std::ostream& o) { run_ops<FEAT::Shape::Hypercube<2>>(c, o); } }
