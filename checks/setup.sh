#!/bin/sh
# MANIFEST.setup_cmd: build every Lean model, theorem file and driver from files on disk (offline).
set -e
cd "$(dirname "$0")/../lean"
targets=""
for f in FeatModel/Props/C*.lean; do
  m=$(basename "$f" .lean)
  targets="$targets FeatModel.Props.$m"
done
for f in FeatModel/Driver/C*.lean; do
  m=$(basename "$f" .lean | tr 'A-Z' 'a-z')
  targets="$targets drv_$m"
done
lake build $targets
