#!/usr/bin/env python3
"""Entry point named in MANIFEST.json:  check.py Cxx [--tier quick|thorough] [--seed N] [--replay file]"""
import importlib
import os
import sys

sys.path.insert(0, os.path.dirname(os.path.abspath(__file__)))


def main():
    if len(sys.argv) < 2:
        print("usage: check.py Cxx [--tier quick|thorough] [--seed N] [--replay file]")
        return 2
    prop = sys.argv[1].upper()
    if "--no-lean" in sys.argv and "VERIF_EVIDENCE_DIR" not in os.environ:
        # a development run without the proof obligations must never overwrite the committed evidence record
        os.environ["VERIF_EVIDENCE_DIR"] = os.path.join(os.path.dirname(os.path.dirname(os.path.abspath(__file__))),
                                                        "build", "evidence-nolean")
        os.makedirs(os.environ["VERIF_EVIDENCE_DIR"], exist_ok=True)
    mod = importlib.import_module("props.%s" % prop.lower())
    return mod.main(sys.argv[2:])


if __name__ == "__main__":
    sys.exit(main())
