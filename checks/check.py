#!/usr/bin/env python3
"""Entry point named in MANIFEST.json:  check.py Cxx [--tier quick|thorough] [--seed N] [--replay file]"""
import importlib
import os
import sys

sys.path.insert(0, os.path.dirname(os.path.abspath(__file__)))


def main():
    if len(sys.argv) < 2:
        print("usage: check.py Cxx [--tier quick|thorough] [--seed N] [--replay file]")
        return 2
    prop = sys.argv[1].upper()
    mod = importlib.import_module("props.%s" % prop.lower())
    return mod.main(sys.argv[2:])


if __name__ == "__main__":
    sys.exit(main())
