"""C06 - filters impose their constraints exactly and idempotently on vectors/matrices.

Streams "filters" and "boundary-sizes" (sizes / entry counts / row lengths / sequence lengths below, at and above
127/128, 255/256, 1000 - the SparseVector allocation step -, 2000 and, thorough, 32768 / 65536, with the interesting
content at the high end): every case is run by the implementation and the Lean model (equality) and judged by the
independent oracle.

Case kinds: `vec` (LAFEM filters and their compositions), `gvec` (the same through Global::Filter / Global::Vector),
`gmean` (Global::MeanFilter with / without communicator and frequency vector), `mat` / `matb` (CSR / BCSR members).
The first cases of every run are the deterministic *dispatch* cases (gen_dispatch_cases): compositions whose members
have four pairwise different member functions, built so that calling any other member function on any single member
changes the result (so a combinator that forwards filter_def to a member's filter_cor etc. cannot pass).
Slip normals are never normalised (entries of different magnitude, key `S-normals-of-different-magnitude`).

Fixed finding c06-edge:F1 (repo commit 45e34adcb): MeanFilterBlocked's constructors / convert used to test
`volume.norm_euclid_sqr() > eps`; they now test `abs(volume[i]) > eps` for every component.  Weights with a vanishing
volume component are an ordinary 'constructor must abort' class (`outside-domain:volume not positive`): the model
aborts there and the oracle requires the abort.

Not runtime violations, documented here only:
* F2 (compile time): UnitFilter::filter_offdiag_row_mat(SparseMatrixBCSR<DT, IT, 1, 1>&) is an ambiguous overload
  (unit_filter.hpp: the <1, block_width_> and the <block_height_, 1> templates match equally well), so the harness
  offers the block shapes (1,2), (1,3), (2,1), (3,1) only.
* F3: UnitFilter(Blocked)::filter_weak_matrix_rows initialises col_idx from matrix_m.col_ind() and then asserts
  `col_idx == matrix_m.col_ind()`; the intended comparison with matrix_a.col_ind() is not made.
* Entry-free CSR/BCSR matrices: the array constructor asserts non-empty arrays and Mat(rows, cols) owns no row_ptr
  (a filter with entries would dereference the null row_ptr there, cf. the C05 finding about CSR(r,c) without
  arrays); the harness builds them with Mat(rows, cols, used_elements = 0) and fills row_ptr.
"""
import json
import os
import random
import re
import time
from fractions import Fraction

import vlib

PROP = "C06"
NAN = "nan"          # the NaN marker of harness/c06/main.cpp (only ever a *filter value*)
EPS = Fraction(1, 2 ** 52)

# the fixed menu of C++ filter types offered by the harness (same strings as Sig<F>::s() there)
VEC_SIGS = [
    "U", "M", "N", "C(U,U)", "C(U,M)", "C(M,U)", "C(N,U)", "C(U,U,U,M)", "Q(U)", "Q(C(U,M))", "C(Q(U),M)",
    "UB2", "UB3", "S2", "S3", "MB2", "MB3", "NB2", "C(S2,UB2)", "C(UB2,S2)", "C(UB3,MB3)", "C(UB2,MB2,S2)",
    "Q(UB2)", "Q(S3)",
    "T(U)", "T(U,UB2)", "T(M,S2,U)", "T(C(U,M),UB3)", "T(Q(U),S2)",
    "P1(M)", "P2(U)", "P3(U)", "P2(UB2)", "P2(C(U,M))", "T(P2(U),M)",
    "C(UB2,MB2)", "T(C(U,M),C(U,M),C(U,M))", "C(C(U,M),C(U,M),C(U,M))", "P3(C(U,M))", "T(C(UB2,MB2),C(U,M))",
    "Q(C(UB2,MB2))", "T(C(U,M))", "P1(C(U,M))"]
# compositions whose top-level members all have four pairwise different member functions (a unit filter followed by a
# mean filter with non-parallel weights and a non-zero solution mean): the deterministic dispatch stream
DISPATCH_SIGS = ["T(C(U,M),C(U,M),C(U,M))", "C(C(U,M),C(U,M),C(U,M))", "Q(C(U,M))", "P2(C(U,M))", "P3(C(U,M))",
                 "T(C(UB2,MB2),C(U,M))", "Q(C(UB2,MB2))", "T(C(U,M))", "P1(C(U,M))", "C(U,M)", "C(M,U)"]
GVEC_SIGS = ["U", "M", "C(U,M)", "UB2", "S2", "C(UB2,MB2)"]
MAT_SIGS = ["U", "M", "N", "C(U,U)", "C(U,M)", "C(N,U)", "C(U,U,U,M)", "Q(U)"]
MATB_SHAPES = [(2, 2), (2, 3), (3, 2), (2, 1), (3, 3)]


# ---------------------------------------------------------------------------------------------
# type signatures -> type trees
# ---------------------------------------------------------------------------------------------

def parse_sig(s):
    """'C(U,M)' -> ('C', [..]);  'P2(U)' -> ('P', 2, t);  'Q(U)' -> ('Q', t);  leaves: ('U',), ('UB', 2), ..."""
    pos = [0]

    def rec():
        m = re.match(r"[A-Z]+", s[pos[0]:])
        name = m.group(0)
        pos[0] += len(name)
        m = re.match(r"\d+", s[pos[0]:])
        num = None
        if m:
            num = int(m.group(0))
            pos[0] += len(m.group(0))
        if pos[0] < len(s) and s[pos[0]] == "(":
            pos[0] += 1
            subs = [rec()]
            while s[pos[0]] == ",":
                pos[0] += 1
                subs.append(rec())
            assert s[pos[0]] == ")"
            pos[0] += 1
            if name == "P":
                return ("P", num, subs[0])
            if name == "Q":
                return ("Q", subs[0])
            return (name, subs)
        return (name,) if num is None else (name, num)

    t = rec()
    assert pos[0] == len(s), s
    return t


# ---------------------------------------------------------------------------------------------
# generators
# ---------------------------------------------------------------------------------------------

def rq(rng, nz=False):
    k = rng.random()
    while True:
        if k < 0.7:
            v = Fraction(rng.randint(-6, 6))
        elif k < 0.95:
            v = Fraction(rng.randint(-9, 9), rng.randint(1, 5))
        else:
            v = Fraction(rng.randint(-10 ** 6, 10 ** 6), rng.randint(1, 10 ** 4))
        if not nz or v != 0:
            return v
        k = rng.random()


def gen_idx(rng, n, allow_dups):
    """index list for n dofs; returns (list, style)"""
    if n == 0:
        return [], "empty"
    style = rng.choice(["empty", "all", "random", "random", "random", "firstlast", "single", "dups"])
    if style == "dups" and not allow_dups:
        style = "random"
    if style == "empty":
        l = []
    elif style == "all":
        l = list(range(n))
    elif style == "random":
        l = [i for i in range(n) if rng.random() < 0.4]
    elif style == "firstlast":
        l = sorted({0, n - 1})
    elif style == "single":
        l = [rng.randrange(n)]
    else:
        l = [rng.randrange(n) for _ in range(rng.randint(2, n + 3))]
    return l, style


def gen_leaf(rng, t, n, opts):
    """filter of leaf type t for a vector of n dofs / blocks"""
    kind = t[0]
    bad_size = rng.random() < opts["p_bad"]
    fn = n if not bad_size else rng.choice([x for x in (n + 1, n - 1, 0, n + 3) if x >= 0 and x != n] or [n + 1])
    if kind == "U":
        a = 0 if rng.random() < 0.7 else 1
        idx, style = gen_idx(rng, fn, True)
        if a == 0 and style != "dups":
            rng.shuffle(idx)
        if a == 1 and style != "dups" and rng.random() < 0.3:
            rng.shuffle(idx)
        return ("U", a, fn, [(i, rq(rng)) for i in idx])
    if kind == "UB":
        b = t[1]
        a = 0 if rng.random() < 0.7 else 1
        ign = 1 if rng.random() < 0.4 else 0
        idx, style = gen_idx(rng, fn, a == 0)     # array constructor: duplicates excluded (NaN components + duplicates)
        if style != "dups" and (a == 0 or rng.random() < 0.3):
            rng.shuffle(idx)
        pn = opts["p_nan"] if (ign or opts["nan_written_ok"]) else 0
        es = [(i, [NAN if rng.random() < pn else rq(rng) for _ in range(b)]) for i in idx]
        return ("UB", b, a, ign, fn, es)
    if kind == "S":
        b = t[1]
        idx, style = gen_idx(rng, fn, True)
        if style != "dups":
            rng.shuffle(idx)
        es = []
        for i in idx:
            nu = [rq(rng) for _ in range(b)]
            if all(x == 0 for x in nu) and rng.random() >= opts["p_zero_normal"]:
                nu[rng.randrange(b)] = rq(rng, nz=True)
            if rng.random() < opts["p_zero_normal"]:
                nu = [Fraction(0)] * b
            es.append((i, nu))
        return ("S", b, fn, es)
    if kind == "M":
        c = rng.choice([0, 0, 0, 1, 1, 2]) if not bad_size else rng.choice([0, 1])
        if c == 2:
            return ("M", 2, 0, [], [], Fraction(0), Fraction(0))
        style = rng.choice(["pos", "pos", "pos", "any"])
        if style == "pos":
            prim = [Fraction(rng.randint(1, 5), rng.randint(1, 3)) for _ in range(fn)]
            dual = [Fraction(rng.randint(1, 5), rng.randint(1, 3)) for _ in range(fn)]
        else:
            prim = [rq(rng) for _ in range(fn)]
            dual = [rq(rng) for _ in range(fn)]
        sol = rq(rng)
        dot = sum((p * d for p, d in zip(prim, dual)), Fraction(0))
        vol = dot
        if c == 1 and rng.random() < opts["p_incons"]:
            vol = Fraction(rng.randint(1, 9), rng.randint(1, 4))
        return ("M", c, fn, prim, dual, sol, vol)
    if kind == "MB":
        b = t[1]
        c = rng.choice([0, 0, 0, 1, 1, 2]) if not bad_size else rng.choice([0, 1])
        if c == 2:
            return ("MB", b, 2, 0, [], [], [Fraction(0)] * b, [Fraction(0)] * b)
        style = rng.choice(["pos", "pos", "pos", "any"])
        if style == "pos":
            prim = [Fraction(rng.randint(1, 5), rng.randint(1, 3)) for _ in range(fn * b)]
            dual = [Fraction(rng.randint(1, 5), rng.randint(1, 3)) for _ in range(fn * b)]
        else:
            prim = [rq(rng) for _ in range(fn * b)]
            dual = [rq(rng) for _ in range(fn * b)]
        if fn > 0 and rng.random() < opts["p_zero_vol"]:
            j = rng.randrange(b)
            for i in range(fn):
                prim[i * b + j] = Fraction(0)
        sol = [rq(rng) for _ in range(b)]
        vol = [sum((prim[i * b + j] * dual[i * b + j] for i in range(fn)), Fraction(0)) for j in range(b)]
        if c == 1 and rng.random() < opts["p_incons"]:
            vol = [Fraction(rng.randint(1, 9), rng.randint(1, 4)) for _ in range(b)]
        return ("MB", b, c, fn, prim, dual, sol, vol)
    if kind == "N":
        return ("N",)
    if kind == "NB":
        return ("NB", t[1])
    raise ValueError(t)


def leaf_vshape(t, n):
    if t[0] in ("U", "M", "N"):
        return ("D", n)
    return ("B", t[1], n)


def gen_filter(rng, t, n, opts):
    """returns (filter tree, vector shape); n = dofs of the vector a non-tuple filter acts on (None: choose)"""
    kind = t[0]
    if kind in ("T", "P"):
        members = t[1] if kind == "T" else [t[2]] * t[1]
        subs = [gen_filter(rng, m, None, opts) for m in members]
        return (kind, [s[0] for s in subs]), (kind, [s[1] for s in subs])
    if n is None:
        n = rng.choice(opts["sizes"])
    if kind == "C":
        subs = [gen_filter(rng, m, n, opts) for m in t[1]]
        return ("C", [s[0] for s in subs]), subs[0][1]
    if kind == "Q":
        m = rng.choice([0, 1, 2, 2, 3, 4])
        subs = [gen_filter(rng, t[1], n, opts) for _ in range(m)]
        vs = subs[0][1] if subs else first_leaf_shape(t[1], n)
        return ("Q", [s[0] for s in subs]), vs
    return gen_leaf(rng, t, n, opts), leaf_vshape(t, n)


def first_leaf_shape(t, n):
    while t[0] in ("C", "Q"):
        t = t[1][0] if t[0] == "C" else t[1]
    return leaf_vshape(t, n)


def gen_vector(rng, vs):
    if vs[0] == "D":
        return ("D", [rq(rng) for _ in range(vs[1])])
    if vs[0] == "B":
        return ("B", vs[1], [rq(rng) for _ in range(vs[1] * vs[2])])
    return (vs[0], [gen_vector(rng, s) for s in vs[1]])


def fq(x):
    return NAN if x == NAN else vlib.frac_str(x)


def fmt_filter(f):
    k = f[0]
    if k == "U":
        return "U %d %d %d %s" % (f[1], f[2], len(f[3]), " ".join("%d %s" % (i, fq(v)) for i, v in f[3]))
    if k == "UB":
        return "UB %d %d %d %d %d %s" % (f[1], f[2], f[3], f[4], len(f[5]),
                                         " ".join("%d %s" % (i, " ".join(map(fq, v))) for i, v in f[5]))
    if k == "S":
        return "S %d %d %d %s" % (f[1], f[2], len(f[3]), " ".join("%d %s" % (i, " ".join(map(fq, v))) for i, v in f[3]))
    if k == "M":
        return "M %d %d %s %s %s %s" % (f[1], f[2], " ".join(map(fq, f[3])), " ".join(map(fq, f[4])), fq(f[5]), fq(f[6]))
    if k == "MB":
        return "MB %d %d %d %s %s %s %s" % (f[1], f[2], f[3], " ".join(map(fq, f[4])), " ".join(map(fq, f[5])),
                                            " ".join(map(fq, f[6])), " ".join(map(fq, f[7])))
    if k == "N":
        return "N"
    if k == "NB":
        return "NB %d" % f[1]
    return "%s %d %s" % (k, len(f[1]), " ".join(map(fmt_filter, f[1])))


def fmt_vector(v):
    if v[0] == "D":
        return "D %d %s" % (len(v[1]), " ".join(map(fq, v[1])))
    if v[0] == "B":
        return "B %d %d %s" % (v[1], len(v[2]) // v[1], " ".join(map(fq, v[2])))
    return "%s %d %s" % (v[0], len(v[1]), " ".join(map(fmt_vector, v[1])))


def squeeze(s):
    return " ".join(s.split())


def gen_csr(rng, rows, cols, bs=1, bw=1):
    rp, ci = [0], []
    all_empty = rng.random() < 0.04
    for i in range(rows):
        style = "empty" if all_empty else rng.choice(["diag", "diag", "diag", "nodiag", "empty", "full"])
        cand = list(range(cols))
        if style == "empty":
            row = []
        elif style == "full":
            row = cand
        else:
            row = [j for j in cand if rng.random() < 0.4 and j != i]
            if style == "diag" and i < cols:
                row.append(i)
            row.sort()
        if rng.random() < 0.15:
            rng.shuffle(row)
        ci += row
        rp.append(len(ci))
    if not ci and rng.random() < 0.5:
        # half of the entry-free matrices are kept entry-free (harness: Mat(rows, cols, 0) + zero row_ptr)
        ci = [rng.randrange(cols)]
        rp = [0] + [1] * rows
    val = [rq(rng) for _ in range(len(ci) * bs * bw)]
    return rp, ci, val


def fmt_csr(rows, cols, rp, ci, val):
    return "%d %d %d %s %d %s %d %s" % (rows, cols, len(rp), " ".join(map(str, rp)), len(ci), " ".join(map(str, ci)),
                                        len(val), " ".join(map(fq, val)))


def gen_cases(rng, count, big=False):
    opts = {"nan_written_ok": True, "p_bad": 0.04, "p_nan": 0.15, "p_zero_normal": 0.03, "p_incons": 0.15, "p_zero_vol": 0.04,
            "sizes": [0, 1, 1, 2, 3, 4, 5, 6, 8] + ([13, 21, 40] if big else [])}
    cases = []
    for _ in range(count):
        k = rng.random()
        if k < 0.05:
            # Global::Filter wrapper / Global::MeanFilter
            if rng.random() < 0.5:
                sig = rng.choice(GVEC_SIGS)
                o1 = dict(opts)
                o1["nan_written_ok"] = not ("S" in sig or "M" in sig)
                f, vs = gen_filter(rng, parse_sig(sig), None, o1)
                v = gen_vector(rng, vs)
                cases.append(squeeze("gvec %s %s %s %s" % (rng.choice(MODES), sig, fmt_filter(f), fmt_vector(v))))
            else:
                n = rng.choice(opts["sizes"])
                comm = rng.choice([0, 1, 1])
                prim = [Fraction(rng.randint(1, 5), rng.randint(1, 3)) for _ in range(n)]
                dual = [Fraction(rng.randint(1, 5), rng.randint(1, 3)) for _ in range(n)]
                if rng.random() < 0.15:
                    prim = [rq(rng) for _ in range(n)]
                nf = n if rng.random() < 0.75 else rng.choice([0, 0, n + 1])
                freq = [Fraction(1, rng.choice([1, 1, 2, 3, 4])) for _ in range(nf)]
                nx = n if rng.random() < 0.95 else n + 1
                x = [rq(rng) for _ in range(nx)]
                cases.append(squeeze("gmean %s %d %d %s %s %d %s D %d %s" % (
                    rng.choice(MODES), comm, n, " ".join(map(fq, prim)), " ".join(map(fq, dual)), nf,
                    " ".join(map(fq, freq)), nx, " ".join(map(fq, x)))))
            continue
        if k < 0.68:
            sig = rng.choice(VEC_SIGS)
            o1 = dict(opts)
            o1["nan_written_ok"] = not ("S" in sig or "M" in sig)      # no arithmetic on the NaN marker
            f, vs = gen_filter(rng, parse_sig(sig), None, o1)
            v = gen_vector(rng, vs)
            mode = rng.choice(["rhs", "sol", "def", "cor"])
            cases.append(squeeze("vec %s %s %s %s" % (mode, sig, fmt_filter(f), fmt_vector(v))))
        elif k < 0.86:
            sig = rng.choice(MAT_SIGS + ["U", "U", "U"])
            kind = rng.choice(["mat", "mat", "mat", "offdiag", "weak"]) if sig == "U" else "mat"
            rows = rng.choice([1, 2, 3, 4, 5, 7] + ([12, 20] if big else []))
            cols = rows if rng.random() < 0.7 else rng.choice([1, 2, 3, 5, 8])
            o2 = dict(opts)
            o2["sizes"] = [rows]
            f, _ = gen_filter(rng, parse_sig(sig), rows, o2)
            rp, ci, val = gen_csr(rng, rows, cols)
            line = "mat %s %s %s %s" % (kind, sig, fmt_filter(f), fmt_csr(rows, cols, rp, ci, val))
            if kind == "weak":
                vm = [rq(rng) for _ in val]
                line += " %d %s" % (len(vm), " ".join(map(fq, vm)))
            cases.append(squeeze(line))
        else:
            r = rng.random()
            rows = rng.choice([1, 2, 3, 4, 6] + ([10] if big else []))
            cols = rows if rng.random() < 0.7 else rng.choice([1, 2, 3, 5])
            o2 = dict(opts)
            if r < 0.12:
                bs, bw = 1, rng.choice([2, 3])
                kind = "offdiag"
                f = gen_leaf(rng, ("U",), rows, o2)
            elif r < 0.2:
                bs, bw = rng.choice([2, 3]), 1
                kind = "offdiagh"
                f = gen_leaf(rng, ("U",), rows, o2)
            else:
                bs, bw = rng.choice(MATB_SHAPES)
                kind = rng.choice(["mat", "mat", "mat", "offdiag", "weak"])
                if kind == "weak":
                    o2["p_nan"] = 0
                f = gen_leaf(rng, ("UB", bs), rows, o2)
            rp, ci, val = gen_csr(rng, rows, cols, bs, bw)
            line = "matb %s %d %d %s %s" % (kind, bs, bw, fmt_filter(f), fmt_csr(rows, cols, rp, ci, val))
            if kind == "weak":
                vm = [rq(rng) for _ in val]
                line += " %d %s" % (len(vm), " ".join(map(fq, vm)))
            cases.append(squeeze(line))
    return cases


def gen_dispatch_filter(rng, t, n):
    """like gen_filter, but every leaf is inside the domain and as 'mode-sensitive' as its type allows"""
    kind = t[0]
    if kind in ("T", "P"):
        members = t[1] if kind == "T" else [t[2]] * t[1]
        subs = [gen_dispatch_filter(rng, m, rng.choice([2, 3, 4, 5])) for m in members]
        return (kind, [s[0] for s in subs]), (kind, [s[1] for s in subs])
    if kind == "C":
        subs = [gen_dispatch_filter(rng, m, n) for m in t[1]]
        return ("C", [s[0] for s in subs]), subs[0][1]
    if kind == "Q":
        subs = [gen_dispatch_filter(rng, t[1], n) for _ in range(3)]
        return ("Q", [s[0] for s in subs]), subs[0][1]
    if kind in ("U", "UB"):
        b = 1 if kind == "U" else t[1]
        idx = [i for i in range(n) if rng.random() < 0.5] or [rng.randrange(n)]
        if len(idx) == n and n > 1:
            idx.pop()
        rng.shuffle(idx)
        if kind == "U":
            return ("U", rng.choice([0, 1]), n, [(i, rq(rng, nz=True)) for i in idx]), ("D", n)
        return ("UB", b, 0, 0, n, [(i, [rq(rng, nz=True) for _ in range(b)]) for i in idx]), ("B", b, n)
    if kind in ("M", "MB"):
        b = 1 if kind == "M" else t[1]
        while True:
            prim = [Fraction(rng.randint(1, 6), rng.randint(1, 3)) for _ in range(n * b)]
            dual = [Fraction(rng.randint(1, 6), rng.randint(1, 3)) for _ in range(n * b)]
            # non-parallel in every component
            if all(prim[j] * dual[b + j] != prim[b + j] * dual[j] for j in range(b)):
                break
        sol = [rq(rng, nz=True) for _ in range(b)]
        vol = [dot(prim[j::b], dual[j::b]) for j in range(b)]
        if kind == "M":
            return ("M", 0, n, prim, dual, sol[0], vol[0]), ("D", n)
        return ("MB", b, 0, n, prim, dual, sol, vol), ("B", b, n)
    raise ValueError(t)


def spec_swapped(mode, f, v, pos, m2):
    """the result if top-level member `pos` were called with member function m2 instead of `mode`"""
    k = f[0]
    if k in ("C", "Q"):
        for i, s in enumerate(f[1]):
            v = spec(m2 if i == pos else mode, s, v)
        return v
    return (v[0], [spec(m2 if i == pos else mode, s, c) for i, (s, c) in enumerate(zip(f[1], v[1]))])


MODES = ["rhs", "sol", "def", "cor"]


def same_member_function(f, a, b):
    """the member functions a and b of filter f are the same function by definition (filter_sol calls filter_rhs ...)"""
    k = f[0]
    if k in ("U", "UB"):
        return {a, b} <= {"rhs", "sol"} or {a, b} <= {"def", "cor"}
    if k in ("S", "N", "NB"):
        return True
    if k in ("M", "MB"):
        return {a, b} == {"rhs", "def"}
    return all(same_member_function(s, a, b) for s in f[1])


def gen_dispatch_cases(rng, reps):
    """deterministic part of the combinator tie: for every composition of DISPATCH_SIGS and every member function,
    `reps` cases in which calling ANY other member function on ANY single top-level member changes the result"""
    cases = []
    for sig in DISPATCH_SIGS:
        t = parse_sig(sig)
        for mode in MODES:
            made = 0
            while made < reps:
                f, vs = gen_dispatch_filter(rng, t, rng.choice([2, 3, 4, 5]))
                v = gen_vector(rng, vs)
                try:
                    want = spec(mode, f, v)
                    ok = all(spec_swapped(mode, f, v, pos, m2) != want
                             for pos in range(len(f[1])) for m2 in MODES
                             if m2 != mode and not same_member_function(f[1][pos], mode, m2))
                except OutOfDomain:
                    ok = False
                if ok:
                    cases.append(squeeze("vec %s %s %s %s" % (mode, sig, fmt_filter(f), fmt_vector(v))))
                    made += 1
    return cases


# blocked mean filters whose component volumes differ, (1, 4) and (1/2, 3), in all four modes and through both
# constructors: a filter that scales every component with the volume of component 0 fails on each of them
VOLUME_CORPUS = [
    "vec %s MB2 MB 2 %d 2 %s %s B 2 2 5/1 6/1 -1/1 2/1" % (mode, ct, weights, solvol)
    for mode in ("rhs", "sol", "def", "cor") for ct in (0, 1)
    for weights, solvol in (("1/1 2/1 0/1 0/1 1/1 2/1 3/1 5/1", "2/1 -1/1 1/1 4/1"),
                            ("1/2 1/1 0/1 1/1 1/1 1/1 1/1 2/1", "3/1 1/2 1/2 3/1"))]

# ---------------------------------------------------------------------------------------------
# boundary sizes: the Lean model has unbounded Nat / exact rationals, so narrowing, allocation steps and fixed buffers
# of the C++ are visible only to the correspondence - and only if the sizes cross the boundaries.
# Boundaries found in the sources (see also the header of Props/C06.lean):
#   * SparseVector(Blocked) storage of UnitFilter / UnitFilterBlocked / SlipFilter: allocation increment
#     min(size, 1000) (sparse_vector.hpp:119,142,817; reallocation branch :393-414; sparse_vector_blocked.hpp:185,208,
#     443-466,781): every 1000 add() calls (or every `size` calls for size < 1000, reachable with repeated indices) the
#     arrays are reallocated and copied; unsorted insertion order, then _insertion_sort + duplicate marking with
#     numeric_limits<IT_>::max() (:52-69, :436-452).
#   * filter_mat / offdiag / weak: `IndexType j` row loops (unit_filter.hpp:218-333), `int k, l` block loops
#     (unit_filter_blocked.hpp): no size threshold, rows with many entries exercised anyway.
#   * FilterSequence: std::deque + linear find_or_add (filter_sequence.hpp:144-154): no fixed array.
#   * Arch kernels (unit/slip filter, dot, axpy generic): plain loops, no unrolling / remainder handling.
#   * IT_ = 32-bit index types are not instantiated by this harness (Index = 64 bit everywhere).
# ---------------------------------------------------------------------------------------------
BOUNDARY_SIZES = [127, 128, 129, 255, 256, 257, 999, 1000, 1001, 2000, 2001]
BOUNDARY_SIZES_BIG = [32767, 32768, 65535, 65536, 65537]


def gen_boundary_cases(rng, thorough):
    """sizes just below / at / above the boundaries; the interesting content (repeated indices, unsorted insertion,
    non-zero values, NaN markers, the constrained rows) sits at the HIGH end of the index range"""
    cases = []
    one = Fraction(1)

    def top_entries(n, k, width=1, nan=False):
        """k entries on the highest indices, unsorted, with repeated indices (the later add wins)"""
        idx = [n - 1 - (i % max(1, min(n, k - 3))) for i in range(k)]
        rng.shuffle(idx)
        idx += [n - 1, n - 2 if n > 1 else n - 1, n - 1]
        es = []
        for i in idx:
            v = [rq(rng, nz=True) for _ in range(width)]
            if nan and rng.random() < 0.2:
                v[rng.randrange(width)] = NAN
            es.append((i, v))
        return es

    sizes = BOUNDARY_SIZES + (BOUNDARY_SIZES_BIG if thorough else [])
    for n in sizes:
        dense = n <= 2001
        mode = rng.choice(MODES)
        # unit filter: every dof constrained in DESCENDING insertion order (worst case of the insertion sort, crosses
        # every allocation step), then repeated indices at the top; big sizes: entries only at the top
        if dense:
            es = [(i, [rq(rng, nz=True)]) for i in range(n - 1, -1, -1)] + top_entries(n, 5)
        else:
            es = top_entries(n, 24)
        x = [one] * (n - 3) + [rq(rng, nz=True) for _ in range(3)]
        f = ("U", 0, n, [(i, v[0]) for i, v in es])
        cases.append(squeeze("vec %s U %s %s" % (mode, fmt_filter(f), fmt_vector(("D", x)))))
        # array constructor with n entries (sorted), values at the top non-trivial
        if dense:
            f = ("U", 1, n, [(i, one if i < n - 4 else rq(rng, nz=True)) for i in range(n)])
            cases.append(squeeze("vec %s U %s %s" % (rng.choice(MODES), fmt_filter(f), fmt_vector(("D", x)))))
        # blocked unit filter with NaN markers at the top, slip filter with n normals of different magnitude
        if dense:
            esb = [(i, [one, one]) for i in range(n - 1, -1, -1)] + top_entries(n, 6, 2, nan=True)
            ess = [(i, [one, Fraction(0)]) for i in range(n - 1, -1, -1)] + top_entries(n, 6, 2)
        else:
            esb = top_entries(n, 24, 2, nan=True)
            ess = top_entries(n, 24, 2)
        if n <= 2001 or thorough and n <= 32768:
            xb = [one] * (2 * n - 6) + [rq(rng, nz=True) for _ in range(6)]
            fb = ("UB", 2, 0, 1, n, esb)
            cases.append(squeeze("vec %s UB2 %s %s" % (rng.choice(MODES), fmt_filter(fb), fmt_vector(("B", 2, xb)))))
            fs = ("S", 2, n, ess)
            cases.append(squeeze("vec %s S2 %s %s" % (rng.choice(MODES), fmt_filter(fs), fmt_vector(("B", 2, xb)))))
        # mean filters: weights one except at the top
        if n <= 2001 or thorough and n <= 32768:
            prim = [one] * (n - 2) + [Fraction(3), Fraction(1, 2)]
            dual = [one] * (n - 2) + [Fraction(2), Fraction(5)]
            fm = ("M", 0, n, prim, dual, Fraction(2), dot(prim, dual))
            cases.append(squeeze("vec %s M %s %s" % (rng.choice(MODES), fmt_filter(fm), fmt_vector(("D", x)))))
            fc = ("C", [("U", 0, n, [(n - 1, Fraction(7)), (n - 2, Fraction(-3))]), fm])
            cases.append(squeeze("vec %s C(U,M) %s %s" % (rng.choice(MODES), fmt_filter(fc), fmt_vector(("D", x)))))
        if n <= 2001:
            primb = [one] * (2 * n - 2) + [Fraction(3), Fraction(1, 2)]
            dualb = [one] * (2 * n - 2) + [Fraction(2), Fraction(5)]
            vol = [dot(primb[j::2], dualb[j::2]) for j in range(2)]
            fmb = ("MB", 2, 0, n, primb, dualb, [Fraction(1), Fraction(-2)], vol)
            cases.append(squeeze("vec %s MB2 %s %s" % (rng.choice(MODES), fmt_filter(fmb), fmt_vector(("B", 2, xb)))))
        # sequences with n members (one entry each, overlapping at the end: the last one wins)
        if n <= 1001:
            m = 6
            members = [("U", 0, m, [(i % m, rq(rng, nz=True))]) for i in range(n)]
            cases.append(squeeze("vec %s Q(U) %s %s" % (rng.choice(MODES), fmt_filter(("Q", members)),
                                                        fmt_vector(("D", [rq(rng) for _ in range(m)])))))
        # CSR: n x n, only the last two rows store entries: row n-2 is full (n entries), row n-1 = {0, n-1};
        # both constrained (plus a repeated add)
        if dense:
            rp = [0] * (n - 1) + [n, n + 2]
            ci = list(range(n)) + [0, n - 1]
            val = [rq(rng, nz=True) for _ in ci]
            f = ("U", 0, n, [(n - 1, one), (n - 2, Fraction(2)), (n - 1, Fraction(3))])
            for kind in ("mat", "offdiag", "weak"):
                line = "mat %s U %s %s" % (kind, fmt_filter(f), fmt_csr(n, n, rp, ci, val))
                if kind == "weak":
                    vm = [rq(rng, nz=True) for _ in val]
                    line += " %d %s" % (len(vm), " ".join(map(fq, vm)))
                cases.append(squeeze(line))
        # BCSR 2x2: the last block row holds n blocks
        if n <= 257:
            rows = 3
            rp = [0, 0, 1, 1 + n]
            ci = [0] + list(range(n))
            val = [rq(rng, nz=True) for _ in range(len(ci) * 4)]
            fb = ("UB", 2, 0, 1, rows, [(2, [one, NAN]), (1, [one, one]), (2, [Fraction(2), Fraction(3)])])
            cases.append(squeeze("matb mat 2 2 %s %s" % (fmt_filter(fb), fmt_csr(rows, max(n, 3), rp, ci, val))))
    return cases


def boundary_describe(case):
    t = case.split()
    keys = ["op:%s-%s" % (t[0], t[1]), "kind:%s" % (t[2] if t[0] == "vec" else t[1])]
    try:
        if t[0] == "vec":
            mode, sig, f, v = parse_vec_case(case)
            keys.append("vector-size:%d" % max(len(l) for l in vec_leaves(v)))
            ne = max((len(m[3] if m[0] != "UB" else m[5]) for m in filter_leaves(f) if m[0] in ("U", "UB", "S")), default=0)
            keys.append("filter-entries:%d" % ne)
            if f[0] == "Q":
                keys.append("sequence-members:%d" % len(f[1]))
        else:
            c = Tk(case)
            c.tok(), c.tok()
            if t[0] == "mat":
                c.tok()
            else:
                c.nat(), c.nat()
            read_filter(c)
            rows, cols = c.nat(), c.nat()
            rp = c.nlist()
            keys.append("matrix-rows:%d" % rows)
            keys.append("longest-row:%d" % max(rp[i + 1] - rp[i] for i in range(rows)))
    except Exception:
        keys.append("undescribed")
    return keys


# scalar mean filters with a non-unit volume AND a non-zero solution mean (a misplaced parenthesis in filter_sol,
# `(sol_mean - dot) / volume` instead of `sol_mean - dot / volume`, is wrong exactly there), both constructors
SOLMEAN_CORPUS = [
    "vec sol M M %d 3 1/1 2/1 1/2 2/1 1/1 4/1 %s %s D 3 4/1 -5/1 6/1" % (ct, sol, "6/1")
    for ct in (0, 1) for sol in ("3/1", "-1/2")] + [
    "vec sol C(U,M) C 2 U 0 2 1 0 9/1 M 0 2 1/3 2/1 3/1 1/1 5/2 3/1 D 2 1/1 1/1",
    "vec sol MB2 MB 2 0 1 2/1 3/1 2/1 3/1 1/2 -3/1 4/1 9/1 B 2 1 5/1 7/1"]

CORPUS = VOLUME_CORPUS + SOLMEAN_CORPUS + [
    # the excluded point of filter_mat: constrained rows without a stored diagonal entry become zero rows
    "mat mat U U 0 3 2 0 5/1 2 6/1 3 3 4 0 2 3 4 4 0 2 0 2 4 1/1 2/1 3/1 4/1",
    # rectangular matrix, constrained row index beyond the number of columns
    "mat mat U U 0 3 1 2 1/1 3 2 4 0 1 2 3 3 0 1 0 3 1/1 2/1 3/1",
    # duplicate add(): the later value wins
    "vec rhs U U 0 4 3 1 5/1 1 7/1 0 2/1 D 4 1/1 1/1 1/1 1/1",
    # array constructor keeps the arrays as they are (unsorted, duplicate index: last one in array order wins)
    "vec rhs U U 1 4 3 2 5/1 0 7/1 2 9/1 D 4 1/1 1/1 1/1 1/1",
    # filter without entries does not check the vector size; slip filter does
    "vec rhs U U 0 4 0 D 5 1/1 1/1 1/1 1/1 1/1",
    "vec rhs S2 S 2 4 0 B 2 3 1/1 2/1 3/1 4/1 5/1 6/1",
    # NaN marker: ignored (entry untouched) vs. written
    "vec rhs UB2 UB 2 0 1 3 2 1 nan 5/1 0 7/1 8/1 B 2 3 1/1 2/1 3/1 4/1 5/1 6/1",
    "vec def UB2 UB 2 0 1 3 2 1 nan 5/1 0 7/1 8/1 B 2 3 1/1 2/1 3/1 4/1 5/1 6/1",
    "vec rhs UB2 UB 2 0 0 3 2 1 nan 5/1 0 7/1 8/1 B 2 3 1/1 2/1 3/1 4/1 5/1 6/1",
    "matb mat 2 2 UB 2 0 1 2 1 0 nan 1/1 2 2 3 0 1 2 2 0 1 8 1/1 2/1 3/1 4/1 5/1 6/1 7/1 8/1",
    # zero normal: division by zero in the slip kernel (outside the property's domain)
    "vec rhs S2 S 2 3 1 1 0/1 0/1 B 2 3 1/1 2/1 3/1 4/1 5/1 6/1",
    # former finding F1 (fixed): a volume with a vanishing component must be rejected by the constructor
    "vec rhs MB2 MB 2 0 2 1/1 0/1 1/1 0/1 1/1 1/1 1/1 1/1 0/1 0/1 0/1 0/1 B 2 2 1/1 2/1 3/1 4/1",
    # chain with overlapping members: the last one wins / mean after unit disturbs the unit constraint
    "vec rhs C(U,U) C 2 U 0 3 1 0 9/1 U 0 3 1 0 8/1 D 3 4/1 5/1 6/1",
    "vec rhs C(U,M) C 2 U 0 3 1 0 9/1 M 0 3 1/1 1/1 1/1 1/1 2/1 3/1 0/1 0/1 D 3 4/1 5/1 6/1",
]


# ---------------------------------------------------------------------------------------------
# parsing of case lines (independent of the generator, so that --replay and the corpus work)
# ---------------------------------------------------------------------------------------------

class Tk:
    def __init__(self, s):
        self.t = s.split()
        self.p = 0

    def tok(self):
        self.p += 1
        return self.t[self.p - 1]

    def nat(self):
        return int(self.tok())

    def q(self):
        t = self.tok()
        return NAN if t == NAN else vlib.parse_frac(t)

    def qs(self, n):
        return [self.q() for _ in range(n)]

    def nlist(self):
        return [self.nat() for _ in range(self.nat())]

    def qlist(self):
        return self.qs(self.nat())

    def done(self):
        return self.p >= len(self.t)


def read_filter(c):
    k = c.tok()
    if k == "U":
        a, n, m = c.nat(), c.nat(), c.nat()
        return ("U", a, n, [(c.nat(), c.q()) for _ in range(m)])
    if k == "UB":
        b, a, ign, n, m = c.nat(), c.nat(), c.nat(), c.nat(), c.nat()
        return ("UB", b, a, ign, n, [(c.nat(), c.qs(b)) for _ in range(m)])
    if k == "S":
        b, n, m = c.nat(), c.nat(), c.nat()
        return ("S", b, n, [(c.nat(), c.qs(b)) for _ in range(m)])
    if k == "M":
        ct, n = c.nat(), c.nat()
        prim, dual, sol, vol = c.qs(n), c.qs(n), c.q(), c.q()
        if ct == 0 and NAN not in prim + dual:
            vol = dot(prim, dual)          # the 3-argument constructor computes the volume itself
        return ("M", ct, n, prim, dual, sol, vol)
    if k == "MB":
        b, ct, n = c.nat(), c.nat(), c.nat()
        prim, dual, sol, vol = c.qs(n * b), c.qs(n * b), c.qs(b), c.qs(b)
        if ct == 0 and NAN not in prim + dual:
            vol = [dot(prim[j::b], dual[j::b]) for j in range(b)]
        return ("MB", b, ct, n, prim, dual, sol, vol)
    if k == "N":
        return ("N",)
    if k == "NB":
        return ("NB", c.nat())
    m = c.nat()
    return (k, [read_filter(c) for _ in range(m)])


def read_vector(c):
    k = c.tok()
    if k == "D":
        return ("D", c.qs(c.nat()))
    if k == "B":
        b = c.nat()
        return ("B", b, c.qs(c.nat() * b))
    m = c.nat()
    return (k, [read_vector(c) for _ in range(m)])


def vec_leaves(v):
    if v[0] == "D":
        return [v[1]]
    if v[0] == "B":
        return [v[2]]
    return [l for s in v[1] for l in vec_leaves(s)]


def filter_leaves(f):
    if f[0] in ("C", "Q", "T", "P"):
        return [l for s in f[1] for l in filter_leaves(s)]
    return [f]


# ---------------------------------------------------------------------------------------------
# the property, in Python: what each filter has to do (Fractions, dictionaries, no loops of the C++)
# ---------------------------------------------------------------------------------------------

# classes of inputs the constructors have to reject with an assertion
MUST_ABORT = ("volume not positive", "array constructor with size 0")


class OutOfDomain(Exception):
    """the input is outside the domain of the property (the real code aborts or is undefined there)"""


def constraints(entries, keep_all):
    """index -> value map of a unit/slip filter: add() keeps the last value of an index; the array constructor keeps
    the arrays (all writes happen in array order, so again the last one is what remains)"""
    return dict(entries)


def dot(x, y):
    return sum((a * b for a, b in zip(x, y)), Fraction(0))


def check_filter_domain(f):
    k = f[0]
    if k == "U" and f[1] == 1 and f[2] == 0:
        raise OutOfDomain("array constructor with size 0")
    if k == "UB" and f[2] == 1 and f[4] == 0:
        raise OutOfDomain("array constructor with size 0")
    if k in ("U", "UB", "S"):
        n = f[2] if k != "UB" else f[4]
        es = f[3] if k != "UB" else f[5]
        if any(i >= n for i, _ in es):
            raise OutOfDomain("index out of range")
    if k == "S" and any(NAN in nu for _, nu in f[3]):
        raise OutOfDomain("NaN normal")
    if k == "M" and f[1] != 2:
        if NAN in f[3] + f[4] + [f[5], f[6]]:
            raise OutOfDomain("NaN weight")
        if f[2] > 0 and not (f[6] > EPS):
            raise OutOfDomain("volume not positive")
        if f[1] == 0 and f[6] != dot(f[3], f[4]):
            raise OutOfDomain("inconsistent case line")
    if k == "MB" and f[2] != 2:
        b = f[1]
        if NAN in f[4] + f[5] + f[6] + f[7]:
            raise OutOfDomain("NaN weight")
        if f[3] > 0 and not all(abs(x) > EPS for x in f[7]):
            raise OutOfDomain("volume not positive")      # every component is a divisor: |vol_j| > eps required
    if k in ("C", "Q", "T", "P"):
        for s in f[1]:
            check_filter_domain(s)


def spec_leaf(mode, f, x):
    """the filtered pod vector a leaf filter must produce from x (list of Fractions)"""
    k = f[0]
    x = list(x)
    if k in ("N", "NB"):
        return x
    if k in ("S", "M", "MB") and NAN in x:
        raise OutOfDomain("arithmetic on NaN")
    if k == "U":
        es = f[3]
        if not es:
            return x
        if f[2] != len(x):
            raise OutOfDomain("size mismatch")
        for i, v in constraints(es, f[1] == 1).items():
            x[i] = v if mode in ("rhs", "sol") else Fraction(0)
        return x
    if k == "UB":
        b, ign, n, es = f[1], f[3], f[4], f[5]
        if not es:
            return x
        if n * b != len(x):
            raise OutOfDomain("size mismatch")
        for i, v in constraints(es, f[2] == 1).items():
            for j in range(b):
                if ign and v[j] == NAN:
                    continue
                x[i * b + j] = v[j] if mode in ("rhs", "sol") else Fraction(0)
        return x
    if k == "S":
        b, n, es = f[1], f[2], f[3]
        if n == 0:
            return x
        if n * b != len(x):
            raise OutOfDomain("size mismatch")
        for i, nu in constraints(es, False).items():
            nn = dot(nu, nu)
            if nn == 0:
                raise OutOfDomain("zero normal")
            blk = x[i * b:(i + 1) * b]
            t = dot(blk, nu) / nn
            x[i * b:(i + 1) * b] = [v - t * m for v, m in zip(blk, nu)]
        return x
    if k == "M":
        if f[1] == 2 or f[2] == 0:
            return x
        prim, dual, sol, vol = f[3], f[4], f[5], f[6]
        if len(prim) != len(x):
            raise OutOfDomain("size mismatch")
        if mode in ("rhs", "def"):
            t = -dot(x, prim) / vol
            return [a + t * w for a, w in zip(x, dual)]
        t = (sol if mode == "sol" else 0) - dot(x, dual) / vol
        return [a + t * w for a, w in zip(x, prim)]
    if k == "MB":
        b = f[1]
        if f[2] == 2 or f[3] == 0:
            return x
        prim, dual, sol, vol = f[4], f[5], f[6], f[7]
        if len(prim) != len(x):
            raise OutOfDomain("size mismatch")
        out = list(x)
        for j in range(b):
            xs, ps, ds = x[j::b], prim[j::b], dual[j::b]
            if mode in ("rhs", "def"):
                t = -dot(xs, ps) / vol[j]
                out[j::b] = [a + t * w for a, w in zip(xs, ds)]
            else:
                t = (sol[j] if mode == "sol" else 0) - dot(xs, ds) / vol[j]
                out[j::b] = [a + t * w for a, w in zip(xs, ps)]
        return out
    raise ValueError(k)


def spec(mode, f, v):
    """composition: chain/sequence members act one after the other on the same vector, tuple/power member k on
    component k"""
    k = f[0]
    if k in ("C", "Q"):
        for s in f[1]:
            v = spec(mode, s, v)
        return v
    if k in ("T", "P"):
        if v[0] not in ("T", "P") or len(v[1]) != len(f[1]):
            raise OutOfDomain("shape")
        return (v[0], [spec(mode, s, c) for s, c in zip(f[1], v[1])])
    if v[0] == "D":
        return ("D", spec_leaf(mode, f, v[1]))
    return ("B", v[1], spec_leaf(mode, f, v[2]))


def parse_leaves(o, tag_end=None):
    out = []
    while not o.done() and o.t[o.p] != tag_end:
        out.append(o.qs(o.nat()))
    return out


def is_abnormal(out):
    return out.split(":")[0] in ("ABORT", "EXC", "TIMEOUT", "SIGNAL", "SANITIZER", "EXIT") or out in ("HANG", "BAD-OP")


def consistent_mean(f):
    if f[0] == "M":
        return f[1] == 2 or f[2] == 0 or f[6] == dot(f[3], f[4])
    b = f[1]
    return f[2] == 2 or f[3] == 0 or all(f[7][j] == dot(f[4][j::b], f[5][j::b]) for j in range(b))


def is_multiple(d, dirn):
    """d = t * dirn for some t (linear time: compare with the first non-zero entry of dirn)"""
    q0 = next((q for q, a in enumerate(dirn) if a != 0), None)
    if q0 is None:
        return all(a == 0 for a in d)
    return all(d[p] * dirn[q0] == d[q0] * dirn[p] for p in range(len(d)))


def leaf_predicates(mode, f, x, y):
    """the clauses of the property for ONE leaf filter: x = vector before, y = after (both inside the domain)"""
    k = f[0]
    if len(x) != len(y):
        return "vector length changed"
    if k in ("N", "NB"):
        return None if x == y else "none filter changed the vector"
    if k in ("U", "UB"):
        b = 1 if k == "U" else f[1]
        es = f[3] if k == "U" else [(i, v) for i, v in f[5]]
        ign = 0 if k == "U" else f[3]
        if not es:
            return None if x == y else "filter without entries changed the vector"
        cons = dict(es)
        for i in range(len(x) // b):
            for j in range(b):
                p = i * b + j
                if i in cons:
                    v = cons[i] if k == "U" else cons[i][j]
                    if ign and v == NAN:
                        if y[p] != x[p]:
                            return "entry %d (ignored NaN component) was changed" % p
                        continue
                    want = v if mode in ("rhs", "sol") else Fraction(0)
                    if y[p] != want:
                        return "constrained entry %d is %s, prescribed %s" % (p, fq(y[p]), fq(want))
                elif y[p] != x[p]:
                    return "unconstrained entry %d changed from %s to %s" % (p, fq(x[p]), fq(y[p]))
        return None
    if k == "S":
        b = f[1]
        if f[2] == 0:
            return None if x == y else "empty slip filter changed the vector"
        cons = dict(f[3])
        for i in range(len(x) // b):
            xb, yb = x[i * b:(i + 1) * b], y[i * b:(i + 1) * b]
            if i in cons:
                nu = cons[i]
                if dot(yb, nu) != 0:
                    return "block %d: normal component %s after the slip filter" % (i, fq(dot(yb, nu)))
                d = [a - c for a, c in zip(xb, yb)]
                # only the normal component may be removed: x - y is a multiple of nu
                for p in range(b):
                    for q in range(p + 1, b):
                        if d[p] * nu[q] != d[q] * nu[p]:
                            return "block %d: tangential part changed" % i
            elif xb != yb:
                return "unconstrained block %d changed" % i
        return None
    if k in ("M", "MB"):
        b = 1 if k == "M" else f[1]
        empty = (f[1] == 2 or f[2] == 0) if k == "M" else (f[2] == 2 or f[3] == 0)
        if empty:
            return None if x == y else "empty mean filter changed the vector"
        prim, dual, sol, vol = (f[3], f[4], [f[5]], [f[6]]) if k == "M" else (f[4], f[5], f[6], f[7])
        for j in range(b):
            xs, ys, ps, ds = x[j::b], y[j::b], prim[j::b], dual[j::b]
            w, dirn = (ps, ds) if mode in ("rhs", "def") else (ds, ps)
            d = [a - c for a, c in zip(ys, xs)]
            if not is_multiple(d, dirn):
                return "component %d: the change is not a multiple of the %s vector" % (
                    j, "dual" if mode in ("rhs", "def") else "primal")
            if vol[j] == dot(ps, ds):
                want = sol[j] * vol[j] if mode == "sol" else Fraction(0)
                if dot(ys, w) != want:
                    return "component %d: weighted mean is %s, required %s" % (j, fq(dot(ys, w)), fq(want))
        return None
    return None


def walk_predicates(mode, f, v, w):
    """apply leaf_predicates wherever a leaf filter acts alone on a component (tuple / power members, chains of
    length one); returns the first failure"""
    k = f[0]
    if k in ("T", "P"):
        for s, a, c in zip(f[1], v[1], w[1]):
            e = walk_predicates(mode, s, a, c)
            if e:
                return e
        return None
    if k in ("C", "Q"):
        if len(f[1]) == 1:
            return walk_predicates(mode, f[1][0], v, w)
        if len(f[1]) == 0:
            return None if v == w else "empty sequence changed the vector"
        return chain_predicates(mode, f, v, w)
    x, y = (v[1], w[1]) if v[0] == "D" else (v[2], w[2])
    return leaf_predicates(mode, f, x, y)


def chain_predicates(mode, f, v, w):
    """chains / sequences: the member applied last holds exactly; for members that are all unit/none filters the
    union of the constraints holds with 'last one wins', everything else is unchanged"""
    members = [m for m in filter_leaves(f)]
    if v[0] not in ("D", "B"):
        return None
    x, y = (v[1], w[1]) if v[0] == "D" else (v[2], w[2])
    if all(m[0] in ("U", "UB", "N", "NB") for m in members):
        b = 1 if v[0] == "D" else v[1]
        want = list(x)
        for m in members:
            if m[0] in ("N", "NB"):
                continue
            es = m[3] if m[0] == "U" else m[5]
            ign = 0 if m[0] == "U" else m[3]
            for i, val in dict(es).items():
                for j in range(b):
                    vj = val if m[0] == "U" else val[j]
                    if ign and vj == NAN:
                        continue
                    want[i * b + j] = vj if mode in ("rhs", "sol") else Fraction(0)
        if want != y:
            return "chain of unit filters: union of constraints (last wins) / untouched complement violated"
        return None
    # the last non-trivial member's own constraint must hold on the final vector (its input is unknown here, so only
    # the clauses that do not refer to the input are checked)
    last = None
    for m in members:
        if m[0] not in ("N", "NB"):
            last = m
    if last is None:
        return None if x == y else "chain of none filters changed the vector"
    if last[0] in ("U", "UB"):
        b = 1 if last[0] == "U" else last[1]
        es = last[3] if last[0] == "U" else last[5]
        ign = 0 if last[0] == "U" else last[3]
        for i, val in dict(es).items():
            for j in range(b):
                vj = val if last[0] == "U" else val[j]
                if ign and vj == NAN:
                    continue
                wv = vj if mode in ("rhs", "sol") else Fraction(0)
                if y[i * b + j] != wv:
                    return "last chain member: constrained entry %d is %s, prescribed %s" % (i * b + j, fq(y[i * b + j]), fq(wv))
    elif last[0] == "S" and last[2] > 0:
        b = last[1]
        for i, nu in dict(last[3]).items():
            if dot(y[i * b:(i + 1) * b], nu) != 0:
                return "last chain member: normal component of block %d not removed" % i
    elif last[0] in ("M", "MB") and consistent_mean(last):
        b = 1 if last[0] == "M" else last[1]
        empty = (last[1] == 2 or last[2] == 0) if last[0] == "M" else (last[2] == 2 or last[3] == 0)
        if not empty:
            prim, dual, sol, vol = (last[3], last[4], [last[5]], [last[6]]) if last[0] == "M" else (last[4], last[5], last[6], last[7])
            for j in range(b):
                wgt = prim[j::b] if mode in ("rhs", "def") else dual[j::b]
                want = sol[j] * vol[j] if mode == "sol" else Fraction(0)
                if dot(y[j::b], wgt) != want:
                    return "last chain member: weighted mean of component %d is %s, required %s" % (j, fq(dot(y[j::b], wgt)), fq(want))
    return None


def idempotent_expected(f):
    """compositions for which the property promises that a second application changes nothing"""
    k = f[0]
    if k in ("T", "P"):
        return all(idempotent_expected(s) for s in f[1])
    if k in ("C", "Q"):
        members = filter_leaves(f)
        active = [m for m in members if m[0] not in ("N", "NB")]
        if len(f[1]) <= 1 or len(active) <= 1:
            return all(idempotent_expected(s) for s in f[1])
        if all(m[0] in ("U", "UB") for m in active):
            return True
        if all(m[0] in ("U", "UB", "S") for m in active):
            # disjoint blocks
            seen = set()
            for m in active:
                es = m[5] if m[0] == "UB" else m[3]
                s = set(i for i, _ in es)
                if s & seen:
                    return False
                seen |= s
            return True
        return False
    if k in ("M", "MB"):
        return consistent_mean(f)
    return True


def parse_vec_case(case):
    c = Tk(case)
    assert c.tok() in ("vec", "gvec")
    mode, sig = c.tok(), c.tok()
    f = read_filter(c)
    v = read_vector(c)
    return mode, sig, f, v


def rebuild(v, leaves):
    """vector of the shape of v with the given leaves"""
    it = iter(leaves)

    def rec(u):
        if u[0] == "D":
            return ("D", next(it))
        if u[0] == "B":
            return ("B", u[1], next(it))
        return (u[0], [rec(s) for s in u[1]])
    return rec(v)


def oracle_vec(case, out):
    mode, sig, f, v = parse_vec_case(case)
    try:
        check_filter_domain(f)
        want1 = spec(mode, f, v)
        want2 = spec(mode, f, want1)
    except OutOfDomain as e:
        if out.split(":")[0] in ("SIGNAL", "TIMEOUT", "SANITIZER"):
            return "filter outside its domain ended with " + out
        if str(e) in MUST_ABORT and out != "ABORT":
            # "ABORT:div0" here = the constructor let the input through and a later division failed (the former
            # finding c06-edge:F1 would show up exactly like this)
            return "constructor accepted an input it has to reject (%s): %s" % (e, out[:80])
        return None
    if is_abnormal(out):
        return "filter on a valid input ended with " + out
    o = Tk(out)
    if o.tok() != "R":
        return "unparsable output"
    l1 = parse_leaves(o, "R2")
    if o.tok() != "R2":
        return "unparsable output"
    l2 = parse_leaves(o)
    shape = [len(l) for l in vec_leaves(v)]
    if [len(l) for l in l1] != shape or [len(l) for l in l2] != shape:
        return "shape of the vector changed"
    w1, w2 = rebuild(v, l1), rebuild(v, l2)
    # 1. the clauses of the property on the implementation's result
    e = walk_predicates(mode, f, v, w1)
    if e:
        return e
    # 2. idempotence (on the implementation itself)
    if idempotent_expected(f) and l2 != l1:
        return "second application changed the vector"
    # 3. compositions: members act in order on the same vector / component-wise
    if vec_leaves(want1) != l1:
        return "result differs from the composition of the member filters"
    if vec_leaves(want2) != l2:
        return "second application differs from the composition of the member filters"
    return None


def unit_rows(f):
    """row -> value of all unit filters of a (chain of) filter(s); later members win"""
    rows = {}
    for m in filter_leaves(f):
        if m[0] == "U":
            rows.update(dict(m[3]))
        elif m[0] == "UB":
            rows.update(dict(m[5]))
    return rows


def mat_domain(f, rows):
    for m in filter_leaves(f):
        if m[0] == "U" and m[3] and m[2] != rows:
            raise OutOfDomain("size mismatch")
        if m[0] == "UB" and m[5] and m[4] != rows:
            raise OutOfDomain("size mismatch")


def oracle_mat(case, out):
    c = Tk(case)
    op = c.tok()
    kind = c.tok()
    if op == "mat":
        c.tok()
        bs, bw = 1, 1
    else:
        bs, bw = c.nat(), c.nat()
    f = read_filter(c)
    rows, cols = c.nat(), c.nat()
    rp, ci, val = c.nlist(), c.nlist(), c.qlist()
    vm = c.qlist() if kind == "weak" else None
    try:
        check_filter_domain(f)
        if kind != "offdiagh":
            mat_domain(f, rows)
        if kind == "weak" and any(NAN in v for m in filter_leaves(f) if m[0] == "UB" for _, v in m[5]):
            raise OutOfDomain("arithmetic on NaN")
    except OutOfDomain:
        if out.split(":")[0] in ("SIGNAL", "TIMEOUT", "SANITIZER"):
            return "filter outside its domain ended with " + out
        return None
    if is_abnormal(out):
        return "matrix filter on a valid input ended with " + out
    o = Tk(out)
    if o.tok() != "A":
        return "unparsable output"
    a1 = o.qlist()
    if o.tok() != "A2":
        return "unparsable output"
    a2 = o.qlist()
    if len(a1) != len(val) or len(a2) != len(val):
        return "value array length changed"
    cons = unit_rows(f) if kind != "offdiagh" else {}
    leaf = filter_leaves(f)
    ign = any(m[0] == "UB" and m[3] for m in leaf)
    scalar_filter = all(m[0] != "UB" for m in leaf)
    for i in range(rows):
        for j in range(rp[i], rp[i + 1]):
            for k in range(bs):
                for l in range(bw):
                    p = (j * bs + k) * bw + l
                    if i not in cons:
                        want = val[p]
                    else:
                        v = cons[i] if scalar_filter else cons[i][k]
                        if kind == "weak":
                            want = v * vm[p]
                        elif ign and v == NAN:
                            want = val[p]
                        elif kind == "offdiag":
                            want = Fraction(0)
                        else:
                            want = Fraction(1) if (ci[j] == i and k == l) else Fraction(0)
                    if a1[p] != want:
                        return "row %d, stored entry %d (block row %d, column %d): %s, required %s" % (
                            i, j, k, l, fq(a1[p]), fq(want))
    if a2 != a1 and kind != "weak":
        return "second application changed the matrix"
    if kind == "weak":
        # A := diag(v) M on the constrained rows is trivially stable because M does not change
        if a2 != a1:
            return "second application changed the matrix"
    return None


def parse_gmean(case):
    c = Tk(case)
    assert c.tok() == "gmean"
    mode, comm, n = c.tok(), c.nat(), c.nat()
    prim, dual = c.qs(n), c.qs(n)
    freq = c.qlist()
    assert c.tok() == "D"
    x = c.qlist()
    return mode, comm, prim, dual, freq, x


def gmean_spec(mode, comm, prim, dual, freq, x):
    """Global::MeanFilter: the (frequency-weighted = global) dual resp. primal mean is removed"""
    n = len(prim)
    use = bool(comm) and len(freq) > 0
    if use and len(freq) != n:
        raise OutOfDomain("size mismatch")
    w = freq if use else [Fraction(1)] * n
    vol = sum((a * b * c for a, b, c in zip(w, prim, dual)), Fraction(0))
    if n == 0:
        return list(x), w, vol
    if len(x) != n:
        raise OutOfDomain("size mismatch")
    if vol == 0:
        raise OutOfDomain("volume zero")
    wgt, dirn = (prim, dual) if mode in ("rhs", "def") else (dual, prim)
    t = -sum((a * b * c for a, b, c in zip(w, x, wgt)), Fraction(0)) / vol
    return [a + t * d for a, d in zip(x, dirn)], w, vol


def oracle_gmean(case, out):
    mode, comm, prim, dual, freq, x = parse_gmean(case)
    try:
        want, w, vol = gmean_spec(mode, comm, prim, dual, freq, x)
    except OutOfDomain:
        if out.split(":")[0] in ("SIGNAL", "TIMEOUT", "SANITIZER"):
            return "filter outside its domain ended with " + out
        return None
    if is_abnormal(out):
        return "global mean filter on a valid input ended with " + out
    o = Tk(out)
    if o.tok() != "R":
        return "unparsable output"
    y = o.qlist()
    if o.tok() != "R2":
        return "unparsable output"
    y2 = o.qlist()
    if len(y) != len(x):
        return "vector length changed"
    if prim:
        wgt, dirn = (prim, dual) if mode in ("rhs", "def") else (dual, prim)
        if sum((a * b * c for a, b, c in zip(w, y, wgt)), Fraction(0)) != 0:
            return "global weighted mean not zero after the filter"
        d = [a - b for a, b in zip(y, x)]
        if not is_multiple(d, dirn):
            return "the change is not a multiple of the weighting vector"
    elif y != x:
        return "empty global mean filter changed the vector"
    if y2 != y:
        return "second application changed the vector"
    return None


def oracle(case, out):
    try:
        if case.startswith("vec ") or case.startswith("gvec "):
            # Global::Filter<F, Mirror> has to do exactly what F does on the local vector
            return oracle_vec(case, out)
        if case.startswith("gmean "):
            return oracle_gmean(case, out)
        return oracle_mat(case, out)
    except (IndexError, ValueError, AssertionError, StopIteration, TypeError) as e:
        return "unparsable implementation output (%s): %s" % (e, out[:200])


def canon(out):
    """two abort classes, printed by the harness and by the model alike: a division by zero of the exact scalar
    ("ABORT:div0"; floating point would go on with inf/NaN) and everything else (an XASSERT: "ABORT")"""
    if out.startswith("ABORT:Q:_division_by_zero") or out == "ABORT:div0":
        return "ABORT:div0"
    if out.startswith("ABORT"):
        return "ABORT"
    return out


# ---------------------------------------------------------------------------------------------
# statistics
# ---------------------------------------------------------------------------------------------

def leaf_class(m):
    k = m[0]
    if k in ("U", "UB", "S"):
        n = m[2] if k != "UB" else m[4]
        es = m[3] if k != "UB" else m[5]
        s = set(i for i, _ in es)
        cls = "empty" if not s else ("all" if len(s) == n else "partial")
        keys = ["%s-idx:%s" % (k, cls)]
        if len(s) != len(es):
            keys.append("%s-duplicate-index" % k)
        if k == "S" and len({dot(nu, nu) for _, nu in es if NAN not in nu}) >= 2:
            keys.append("S-normals-of-different-magnitude")
        if k == "UB" and any(NAN in v for _, v in es):
            keys.append("UB-nan:ign%d" % m[3])
        if k in ("U", "UB"):
            keys.append("%s-ctor:%s" % (k, "add" if m[1 if k == "U" else 2] == 0 else "arrays"))
        return keys
    if k in ("M", "MB"):
        ct = m[1] if k == "M" else m[2]
        keys = ["%s-ctor:%d" % (k, ct)] + ([] if consistent_mean(m) else ["%s-volume-inconsistent" % k])
        if k == "M" and ct != 2 and m[2] > 0 and NAN not in (m[5], m[6]) and m[5] != 0 and m[6] != 1:
            keys.append("M-solmean-nonzero-volume-nonunit")
        if k == "MB" and ct != 2 and m[3] > 0 and NAN not in m[7] and all(abs(x) > EPS for x in m[7]) \
                and len(set(m[7])) > 1:
            keys.append("MB-component-volumes-differ")
        return keys
    return []


def describe(case):
    t = case.split()
    keys = ["op:%s-%s" % (t[0], t[1])]
    try:
        if t[0] == "gmean":
            mode, comm, prim, dual, freq, x = parse_gmean(case)
            keys.append("gmean:%s" % ("freq+comm" if (comm and freq) else ("no-comm" if not comm else "no-freq")))
            try:
                gmean_spec(mode, comm, prim, dual, freq, x)
            except OutOfDomain as e:
                keys.append("outside-domain:" + str(e))
        elif t[0] in ("vec", "gvec"):
            mode, sig, f, v = parse_vec_case(case)
            keys.append("sig:" + sig)
            for m in filter_leaves(f):
                keys += leaf_class(m)
            try:
                check_filter_domain(f)
                spec(mode, f, v)
            except OutOfDomain as e:
                keys.append("outside-domain:" + str(e))
        else:
            c = Tk(case)
            c.tok()
            kind = c.tok()
            if t[0] == "mat":
                keys.append("sig:" + c.tok())
                bs, bw = 1, 1
            else:
                bs, bw = c.nat(), c.nat()
                keys.append("block:%dx%d" % (bs, bw))
            f = read_filter(c)
            rows, cols = c.nat(), c.nat()
            rp, ci = c.nlist(), c.nlist()
            for m in filter_leaves(f):
                keys += leaf_class(m)
            keys.append("matrix:" + ("square" if rows == cols else "rectangular"))
            if not ci:
                keys.append("matrix:no-stored-entry")
            cons = unit_rows(f)
            if any(i < rows and i not in ci[rp[i]:rp[i + 1]] for i in cons):
                keys.append("constrained-row-without-stored-diagonal")
            if any(i < rows and rp[i] == rp[i + 1] for i in cons):
                keys.append("constrained-empty-row")
            try:
                check_filter_domain(f)
                mat_domain(f, rows)
            except OutOfDomain as e:
                keys.append("outside-domain:" + str(e))
    except Exception:
        keys.append("undescribed")
    return keys


def nontrivial(case):
    """some unit/slip member constrains a proper non-empty subset (0 < |idx| < n), or a mean filter acts on >= 2 dofs,
    and the input is inside the domain of the property"""
    try:
        if case.startswith("gmean "):
            mode, comm, prim, dual, freq, x = parse_gmean(case)
            gmean_spec(mode, comm, prim, dual, freq, x)
            return len(x) >= 2
        if case.startswith("vec ") or case.startswith("gvec "):
            mode, sig, f, v = parse_vec_case(case)
            check_filter_domain(f)
            spec(mode, f, v)
        else:
            c = Tk(case)
            c.tok(), c.tok()
            if case.startswith("mat "):
                c.tok()
            else:
                c.nat(), c.nat()
            f = read_filter(c)
            check_filter_domain(f)
            mat_domain(f, c.nat())
    except Exception:
        return False
    for m in filter_leaves(f):
        k = m[0]
        if k in ("U", "UB", "S"):
            n = m[2] if k != "UB" else m[4]
            es = m[3] if k != "UB" else m[5]
            if 0 < len(set(i for i, _ in es)) < n:
                return True
        if k == "M" and m[1] != 2 and m[2] >= 2:
            return True
        if k == "MB" and m[2] != 2 and m[3] >= 2:
            return True
    return False


def signature(case, out, why):
    t = case.split()
    return "%s-%s:%s" % (t[0], t[1], (why or "")[:40])


def main(argv):
    args = vlib.std_args(argv)
    t0 = time.time()
    rng = random.Random(args.seed * 1000003 + 6)
    lean = None if args.no_lean else vlib.lean_check(PROP, leanchecker=(args.tier == "thorough"))
    binary, err = vlib.build_harness("c06", os.path.join(vlib.VERIF, "harness", "c06", "main.cpp"))
    if binary is None:
        v = [{"property": PROP, "kind": "harness-build-failure", "detail": err, "failing_input": None,
              "broken": "harness c06 does not compile against the current tree"}]
        return vlib.finish(PROP, args.tier, args.seed, t0, lean, [], [], v, [])
    if args.replay:
        cases = [json.load(open(args.replay))["input"]]
    else:
        corpus = list(CORPUS)
        cdir = os.path.join(vlib.CORPUS, "c06")
        if os.path.isdir(cdir):
            for fn in sorted(os.listdir(cdir)):
                corpus += [l.strip() for l in open(os.path.join(cdir, fn)) if l.strip() and not l.startswith("#")]
        cases = corpus + gen_dispatch_cases(rng, 12 if args.tier == "quick" else 60) + \
            (gen_cases(rng, 20000) if args.tier == "quick" else gen_cases(rng, 150000, big=True))
    st = vlib.Stream("filters", cases, [binary], vlib.driver_cmd(PROP), oracle=oracle, nontrivial=nontrivial,
                     describe=describe, signature=signature, canon=canon)
    brng = random.Random(args.seed * 7919 + 606)
    bcases = [] if args.replay else gen_boundary_cases(brng, args.tier == "thorough")
    if args.tier == "thorough" and not args.replay:
        bcases += gen_boundary_cases(brng, False) + gen_boundary_cases(brng, False)
    st_b = vlib.Stream("boundary-sizes", bcases, [binary], vlib.driver_cmd(PROP), oracle=oracle, nontrivial=nontrivial,
                       describe=boundary_describe, signature=signature, canon=canon)
    stats_rule = ("random unit / unit-blocked / slip / mean / mean-blocked / none filters and %d chain, sequence, tuple and "
                  "power compositions of them (depth <= 4, overlapping index sets included) on vectors of 0..8 (thorough: "
                  "..40) dofs, index sets empty / all / random / first+last / single / with duplicates, both constructors, "
                  "all four filter modes; filter_mat / filter_offdiag_row_mat / filter_weak_matrix_rows on square and "
                  "rectangular CSR and BCSR matrices incl. rows without stored diagonal and empty rows; every case is "
                  "applied twice; non-trivial = inside the domain and some member constrains 0 < |idx| < n entries "
                  "(mean filter: >= 2 dofs)" % len(VEC_SIGS))
    rc = vlib.run_pipeline(PROP, args.tier, args.seed, lean, [st, st_b], t0, assumptions=[
        "Index modelled as unbounded Nat; indices of filter entries are < size (ASSERT only in debug builds)",
        "NaN is modelled by one marker value of the exact scalar (only as a filter value); Math::isnan<Q> is supplied by the harness",
        "aborts of the exact scalar on division by zero stand for the NaN/Inf results of floating point (zero normal, "
        "vanishing volume component): outside the domain of the property",
        "'up to rounding' clauses are exact equalities at the rational scalar"],
        extra_cov={"rule": stats_rule})
    return rc
