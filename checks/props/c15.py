"""C15 - finite-element bases are unisolvent, derivative-consistent and conforming.

T1: translate/basis_probe.py samples the real reference evaluators at Q and regenerates lean/FeatModel/Gen/Basis*.lean.
T2: this file: seeded meshes with random orientation of every entity, real evaluators / DOF mappings / Interpolator
    at Q (harness/c15) vs. the Lean model (drv_c15), plus an independent exact oracle (fractions).
"""
import json
import os
import random
import sys
import time
from fractions import Fraction as Fr
from itertools import product

import vlib

sys.path.insert(0, os.path.dirname(os.path.abspath(__file__)))
sys.path.insert(0, os.path.join(vlib.VERIF, "translate"))
import c15_mesh as M  # noqa: E402
import basis_probe  # noqa: E402

PROP = "C15"
if hasattr(sys, "set_int_max_str_digits"):
    # the exact Newton model of the inverse mapping prints rationals with thousands of digits on multilinear cells
    sys.set_int_max_str_digits(1000000)

# family -> shapes on which the harness instantiates it
SUPPORT = {
    ("S", 2): ["L1", "L2", "L3", "D0", "D1", "CR", "PB"],
    ("S", 3): ["L1", "L2", "D0", "D1", "CR"],
    ("H", 1): ["L1", "L2", "L3", "D0", "B2", "HE", "HE", "BF"],
    ("H", 2): ["L1", "L2", "L3", "D0", "B2", "CR", "D1"],
    ("H", 3): ["L1", "L2", "L3", "D0", "B2", "CR", "CR", "D1"],
}
# families whose node functionals are exact in Q (point evaluations)
INTERP_FAMS = {"L1", "L2", "L3", "D0", "D1", "CR", "PB", "HE"}
# derivative-DOF elements that the harness instantiates but the Lean model does not cover in 2-D (oracle only):
# Hermite-3 on quadrilaterals / triangles, Bogner-Fox-Schmit on quadrilaterals
SUPPORT_2D_DERIV = {("H", 2): ["HE", "BF"], ("S", 2): ["HE"]}
DERIV_FAMS = {"HE", "BF"}
C1_FAMS = {"HE"}
# polynomial degree that the interpolant reproduces on every cell (affine or multilinear)
REPRO_DEG = {"L1": 1, "L2": 2, "L3": 3, "D0": 0, "D1": 1, "CR": 1, "PB": 2, "HE": 3}
H1_CONFORMING = {"L1", "L2", "L3", "PB", "HE"}
LAGRANGE_DEG = {"L1": 1, "L2": 2, "L3": 3}


# what every evaluator implements (SpaceTags bits: value 1, grad 2, hess 4, ref_value 8, ref_grad 16, ref_hess 32)
CAPS = {"L1": 27, "L2": 63, "L3": 63, "PB": 63, "B2": 63, "CR": 27, "D1": 27, "D0": 1, "HE": 63, "BF": 63}
# the config masks the harness instantiates (all subsets of {value,grad,hess}, all of {ref_*}, some mixed, everything)
EVCFG_MASKS = [1, 2, 3, 4, 5, 6, 7, 8, 16, 24, 32, 40, 48, 56, 17, 12, 34, 63]


# non-parametric evaluators (hypercubes): Rannacher-Turek (facet integral means with a 2-point Gauss rule: irrational
# points / facet areas -> at Q exact only up to the rational square root, tolerance 1e-9) and discontinuous P1
NONPARAM_H = {"CR", "D1"}
APPROX = {("CR", "H")}


def caps_of(fam, kind):
    return 3 if (kind == "H" and fam in NONPARAM_H) else CAPS[fam]


def masks_of(fam, kind="S"):
    return [mk for mk in EVCFG_MASKS if mk & caps_of(fam, kind) == mk]


def close(a, b, fam, kind):
    """equality, or |a - b| <= 1e-9 (1 + |b|) for the evaluators that contain a rational square root at Q"""
    if (fam, kind) in APPROX:
        return abs(a - b) <= Fr(1, 10 ** 9) * (1 + abs(b))
    return a == b


def mask_width(mask, dim):
    return ((1 if mask & 1 else 0) + (dim if mask & 2 else 0) + (dim * dim if mask & 4 else 0)
            + (1 if mask & 8 else 0) + (dim if mask & 16 else 0) + (dim * dim if mask & 32 else 0))


def mask_slices(mask, dim):
    """bit -> (offset, length) inside one basis function's block"""
    out, off = {}, 0
    for bit, ln in ((1, 1), (2, dim), (4, dim * dim), (8, 1), (16, dim), (32, dim * dim)):
        if mask & bit:
            out[bit] = (off, ln)
            off += ln
    return out


def nonaffine_mesh(rng, kind, dim, max_cells):
    """hypercubes: a mesh whose cell 0 is genuinely bilinear / trilinear; simplices are always affine"""
    for _ in range(40):
        m = M.random_mesh(rng, kind, dim, mode="general", max_cells=max_cells)
        if kind == "S" or dim == 1 or not M.hess_zero(kind, dim, m.cell_verts(dim, 0)):
            return m
    return m


def dofs_per_dim(fam, kind, dim):
    """number of node functionals attached to an entity of dimension d (mathematical definition of the element)"""
    if fam == "L1":
        t = [1, 0, 0, 0]
    elif fam == "L2":
        t = [1, 1, 0, 0] if kind == "S" else [1, 1, 1, 1]
    elif fam == "L3":
        t = [1, 2, 1, 0] if kind == "S" else [1, 2, 4, 8]
    elif fam == "B2":
        t = [1, 1, 1, 1]
    elif fam == "PB":
        t = [1, 1, 1, 0]
    elif fam == "D0":
        t = [1 if d == dim else 0 for d in range(4)]
    elif fam == "D1":
        t = [dim + 1 if d == dim else 0 for d in range(4)]
    elif fam == "CR":
        t = [1 if d == dim - 1 else 0 for d in range(4)]
    elif fam == "HE":
        # value + all first derivatives at every vertex; the remaining cubic functions are attached to the cell
        ncell = {1: 0, 2: (4 if kind == "H" else 1)}.get(dim, 0)
        t = [dim + 1 if d == 0 else (ncell if d == dim else 0) for d in range(4)]
    elif fam == "BF":
        t = [2 ** dim if d == 0 else 0 for d in range(4)]
    return t[:dim + 1]


def fs(x):
    return vlib.frac_str(x)


def fmt_pt(p):
    return " ".join(fs(x) for x in p)


# ---------------------------------------------------------------------------------------------
# exact polynomials (dict exponent tuple -> Fraction)
# ---------------------------------------------------------------------------------------------

def p_eval(p, x):
    s = Fr(0)
    for e, c in p.items():
        t = c
        for k, ek in enumerate(e):
            if ek:
                t *= x[k] ** ek
        s += t
    return s


def p_deriv(p, k):
    out = {}
    for e, c in p.items():
        if e[k] > 0:
            e2 = e[:k] + (e[k] - 1,) + e[k + 1:]
            out[e2] = out.get(e2, Fr(0)) + c * e[k]
    return out


def rand_poly(rng, dim, deg, nterms=None):
    exps = [e for e in product(range(deg + 1), repeat=dim) if sum(e) <= deg]
    if nterms is not None and len(exps) > nterms:
        exps = rng.sample(exps, nterms)
    p = {}
    for e in exps:
        c = Fr(rng.randint(-5, 5), rng.choice([1, 1, 2, 3]))
        if c != 0:
            p[e] = c
    if not p:
        p[tuple([0] * dim)] = Fr(1)
    return p


def fmt_poly(p):
    return "%d %s" % (len(p), " ".join("%s %s" % (fs(c), " ".join(str(k) for k in e)) for e, c in sorted(p.items())))


# ---------------------------------------------------------------------------------------------
# generator
# ---------------------------------------------------------------------------------------------

def rand_ref_point(rng, kind, dim, inside=True):
    if kind == "S":
        while True:
            den = rng.choice([2, 3, 4, 5, 7, 8])
            x = [Fr(rng.randint(0, den), den) for _ in range(dim)]
            if not inside or sum(x) <= 1:
                return tuple(x)
    den = rng.choice([2, 3, 4, 5, 7])
    return tuple(Fr(rng.randint(-den, den), den) for _ in range(dim))


def rand_interior_point(rng, kind, dim):
    """strictly inside the reference cell (so that exactly one cell contains the image point)"""
    if kind == "S":
        w = [rng.randint(1, 6) for _ in range(dim + 1)]
        return tuple(Fr(w[k + 1], sum(w)) for k in range(dim))
    return tuple(Fr(rng.randint(-7, 7), 8) for _ in range(dim))


def vertex_points(kind, dim):
    return " ".join(fmt_pt(v) for v in M.ref_vertices(kind, dim))


def nfdual_ok(fam, kind):
    """nfdual needs the basis function at arbitrary real points: non-parametric evaluators, or affine (simplex) cells"""
    if fam in ("HE", "BF", "B2"):
        return False
    return kind == "S" or fam in NONPARAM_H or fam == "D0"


def displaced_cube_meshes():
    """(c) regression meshes: the unit cube with vertex 7 moved (three trapezoid / twisted faces), and a 2x2x2 refined
    cube whose 27 vertices are displaced individually"""
    vs = [(Fr(i & 1), Fr((i >> 1) & 1), Fr((i >> 2) & 1)) for i in range(8)]
    vs[7] = (Fr(3, 2), Fr(5, 4), Fr(4, 3))
    m1 = M.Mesh("H", 3, vs, [tuple(range(8))])
    m1.deduce(None)
    rng = random.Random(777)
    for _ in range(50):
        coords, cells = M.grid_mesh(rng, "H", 3, (2, 2, 2), "general")
        if all(M.cell_ok("H", 3, [coords[v] for v in cl]) for cl in cells):
            break
    cells = [tuple(cl[k] for k in rng.choice(M.sym("H", 3))) for cl in cells]
    m2 = M.Mesh("H", 3, coords, cells)
    m2.deduce(rng)
    return m1, m2


def gen_deriv_case(rng):
    """Hermite-3 / Bogner-Fox-Schmit: 1-D meshes with intervals of both orientations and non-uniform sizes (the
    generator lists the two vertices of every interval in random order), arbitrary cells in 2-D"""
    r = rng.random()
    if r < 0.7:
        kind, dim = "H", 1
        fam = rng.choice(["HE", "HE", "BF"])
        m = M.random_mesh(rng, kind, dim)
    else:
        kind, dim = rng.choice([("H", 2), ("S", 2)])
        fam = rng.choice(SUPPORT_2D_DERIV[(kind, dim)])
        m = M.random_mesh(rng, kind, dim, max_cells=4)
    nc = m.num(dim)
    c = rng.randrange(nc)
    r = rng.random()
    if r < 0.35:
        # all basis functions at the vertices of the cell: the oracle applies the derivative node functionals
        return "evpts %s %s %d %d %s" % (fam, m.fmt(), c, len(M.ref_vertices(kind, dim)), vertex_points(kind, dim))
    if r < 0.5:
        return "evcfg %s %s %d %s %d %d" % (fam, m.fmt(), c, fmt_pt(rand_interior_point(rng, kind, dim)),
                                           rng.choice(masks_of(fam, kind)), rng.choice([255, 0]))
    if fam == "HE" and dim == 2 and r < 0.8:
        # 2-D Hermite-3: the vertex coefficients of the interpolant are (f, df/dx, df/dy) at the vertex (oracle only)
        return "interp %s %s %s 0" % (fam, m.fmt(), fmt_poly(rand_poly(rng, 2, 3, nterms=6)))
    if r < 0.6 or fam != "HE" or dim != 1:
        if dim == 1 and rng.random() < 0.5:
            return "ev %s %s %d %s" % (fam, m.fmt(), c, fmt_pt(rand_ref_point(rng, kind, dim)))
        return "dofs %s %s" % (fam, m.fmt())
    # Hermite-3 in 1-D: interpolation of a cubic (reproduced incl. derivatives) or of a quintic (C1-continuity only),
    # evaluated inside cells and from both sides of every interior vertex
    deg = 3 if rng.random() < 0.6 else 5
    p = rand_poly(rng, 1, deg, nterms=6)
    queries = [(rng.randrange(nc), rand_ref_point(rng, kind, dim)) for _ in range(3)]
    for (v, cl) in M.interior_facets(m):
        for (cc, _l) in cl[:2]:
            queries.append((cc, M.facet_point_in_cell(m, v, cc, ())))
    return "interp %s %s %s %d %s" % (fam, m.fmt(), fmt_poly(p), len(queries),
                                      " ".join("%d %s" % (cc, fmt_pt(x)) for cc, x in queries))


def gen_case(rng, tier):
    if rng.random() < 0.12:
        return gen_deriv_case(rng)
    kd = rng.choice([("S", 2), ("S", 2), ("H", 2), ("H", 2), ("H", 1), ("S", 3), ("H", 3)])
    kind, dim = kd
    fam = rng.choice(SUPPORT[kd])
    big = (dim == 3 and fam in ("L3", "L2", "B2"))
    m = M.random_mesh(rng, kind, dim, max_cells=(2 if big else (6 if dim == 3 else None)))
    r = rng.random()
    nc = m.num(dim)
    if r < 0.03:
        return "vol - %s" % m.fmt()
    if r < 0.06:
        return "volq - %s" % m.fmt()
    if r < 0.075:
        mm = M.random_mesh(rng, kind, dim, mode=rng.choice(["affine", "general"]), max_cells=4)
        return "newton - %s %d %s" % (mm.fmt(), rng.randrange(mm.num(dim)), fmt_pt(rand_interior_point(rng, kind, dim)))
    if r < 0.09:
        return "unmap - %s %d %s" % (m.fmt(), rng.randrange(nc), fmt_pt(rand_interior_point(rng, kind, dim)))
    if r < 0.30:
        # evaluation with a config mask (poison 0xFF / 0x00); cell 0 of a non-affine mesh half of the time
        if kind == "H" and dim > 1 and rng.random() < 0.6:
            m = nonaffine_mesh(rng, kind, dim, 2)
            c = 0
        else:
            c = rng.randrange(nc)
        return "evcfg %s %s %d %s %d %d" % (fam, m.fmt(), c, fmt_pt(rand_interior_point(rng, kind, dim)),
                                           rng.choice(masks_of(fam, kind)), rng.choice([255, 0]))
    if r < 0.38:
        if kind == "H" and dim > 1 and rng.random() < 0.6:
            m = nonaffine_mesh(rng, kind, dim, 2)
            c = 0
        else:
            c = rng.randrange(nc)
        return "trcfg - %s %d %s %d %d" % (m.fmt(), c, fmt_pt(rand_interior_point(rng, kind, dim)),
                                          2 * rng.randint(1, 63), rng.choice([255, 0]))
    if r < 0.385:
        return "vol - %s" % m.fmt()
    if r < 0.43 and nfdual_ok(fam, kind):
        # the real node functionals applied to the real basis functions; 3-D hypercubes: individually displaced
        # vertices (trapezoid and twisted faces)
        if kind == "H" and dim >= 2:
            m = nonaffine_mesh(rng, kind, dim, 3 if dim == 3 else 4)
        return "nfdual %s %s %d" % (fam, m.fmt(), rng.randrange(m.num(dim)))
    if r < 0.46:
        return "dofs %s %s" % (fam, m.fmt())
    if r < 0.62:
        c = rng.randrange(nc)
        return "ev %s %s %d %s" % (fam, m.fmt(), c, fmt_pt(rand_ref_point(rng, kind, dim)))
    if r < 0.68 and caps_of(fam, kind) & 8:
        c = rng.randrange(nc)
        pts = [rand_ref_point(rng, kind, dim, inside=False) for _ in range(2)]
        return "ref %s %s %d %d %s" % (fam, m.fmt(), c, len(pts), " ".join(fmt_pt(p) for p in pts))
    if fam not in INTERP_FAMS:
        c = rng.randrange(nc)
        return "ev %s %s %d %s" % (fam, m.fmt(), c, fmt_pt(rand_ref_point(rng, kind, dim)))
    # interpolation: half of the cases with a polynomial of the local space (reproduced), half with a richer one
    kdeg = REPRO_DEG[fam]
    deg = kdeg if rng.random() < 0.55 else kdeg + rng.choice([1, 2])
    p = rand_poly(rng, dim, deg, nterms=6)
    queries = []
    for _ in range(2 if big else 3):
        c = rng.randrange(nc)
        queries.append((c, rand_ref_point(rng, kind, dim)))
    # the same physical point seen from both sides of interior facets (continuity), incl. the facet barycentre
    facets = M.interior_facets(m)
    rng.shuffle(facets)
    for (fc, cl) in facets[:(1 if big else 3)]:
        if dim == 1:
            ss = [()]
        else:
            bary = tuple([Fr(1, dim)] * (dim - 1)) if kind == "S" else tuple([Fr(0)] * (dim - 1))
            ss = [bary, rand_ref_point(rng, kind, dim - 1)]
        for s in ss:
            for (c, _l) in cl[:2]:
                queries.append((c, M.facet_point_in_cell(m, fc, c, s)))
    return "interp %s %s %s %d %s" % (fam, m.fmt(), fmt_poly(p), len(queries),
                                      " ".join("%d %s" % (c, fmt_pt(x)) for c, x in queries))


def gen_cases(rng, count, tier):
    return [gen_case(rng, tier) for _ in range(count)]


def fixed_cases():
    """deterministic coverage: every family x shape on a mesh where every orientation code occurs (built from a
    fixed seed), so that no family / orientation is missed by an unlucky random draw"""
    rng = random.Random(20260928)
    out = []
    for kd, fams in sorted(SUPPORT.items()):
        kind, dim = kd
        fams = list(dict.fromkeys(fams))
        for fam in fams:
            for rep in range(2):
                m = M.random_mesh(rng, kind, dim, mode=("general" if rep else "affine"), max_cells=(2 if dim == 3 else 4))
                out.append("dofs %s %s" % (fam, m.fmt()))
                c = rng.randrange(m.num(dim))
                out.append("ev %s %s %d %s" % (fam, m.fmt(), c, fmt_pt(rand_ref_point(rng, kind, dim))))
                if fam in INTERP_FAMS:
                    p = rand_poly(rng, dim, REPRO_DEG[fam], nterms=8)
                    qs = [(cc, rand_ref_point(rng, kind, dim)) for cc in range(min(m.num(dim), 3))]
                    for (fc, cl) in M.interior_facets(m)[:2]:
                        s = rand_ref_point(rng, kind, dim - 1) if dim > 1 else ()
                        for (cc, _l) in cl[:2]:
                            qs.append((cc, M.facet_point_in_cell(m, fc, cc, s)))
                    out.append("interp %s %s %s %d %s" % (fam, m.fmt(), fmt_poly(p), len(qs),
                                                          " ".join("%d %s" % (cc, fmt_pt(x)) for cc, x in qs)))
        # every config mask of every family on a genuinely non-affine (hypercube) cell, both poison patterns
        for fam in fams:
            m = nonaffine_mesh(rng, kind, dim, 2)
            out.append("caps %s %s" % (fam, m.fmt()))
            x = rand_interior_point(rng, kind, dim)
            for k, mk in enumerate(masks_of(fam, kind)):
                if fam == "L3" and dim == 3 and mk not in (2, 4, 6, 16, 32, 63):
                    continue
                out.append("evcfg %s %s 0 %s %d %d" % (fam, m.fmt(), fmt_pt(x), mk, 255 if k % 2 == 0 else 0))
        for fam in fams:
            if nfdual_ok(fam, kind):
                m = nonaffine_mesh(rng, kind, dim, 2)
                out.append("nfdual %s %s %d" % (fam, m.fmt(), rng.randrange(m.num(dim))))
        m = nonaffine_mesh(rng, kind, dim, 2)
        x = rand_interior_point(rng, kind, dim)
        for k, mk in enumerate([2, 4, 8, 16, 32, 64, 24, 48, 96, 80, 126]):
            out.append("trcfg - %s 0 %s %d %d" % (m.fmt(), fmt_pt(x), mk, 255 if k % 2 == 0 else 0))
        m = M.random_mesh(rng, kind, dim, mode="general", max_cells=4)
        out.append("vol - %s" % m.fmt())
        out.append("volq - %s" % m.fmt())
        for mode in ("affine", "general"):
            mm = M.random_mesh(rng, kind, dim, mode=mode, max_cells=4)
            out.append("newton - %s %d %s" % (mm.fmt(), rng.randrange(mm.num(dim)), fmt_pt(rand_interior_point(rng, kind, dim))))
        out.append("unmap - %s %d %s" % (m.fmt(), rng.randrange(m.num(dim)), fmt_pt(rand_interior_point(rng, kind, dim))))
    return out


def _hermite_corpus():
    """hand-built 1-D meshes (no FEAT factory lists an interval right-to-left): vertices 0, 1, 3, 7/2; the cells list
    their vertices as (0,1) [left-to-right], (2,1) [right-to-left], (3,2) [right-to-left]: both orientations, three
    different lengths, and the interior vertices 1 and 3 are seen with every combination of orientations.
    Regression for seeded/c15-hermite3-1d-jacdet-sign (derivative basis functions scaled with |J| instead of J)."""
    xs = [Fr(0), Fr(1), Fr(3), Fr(7, 2)]
    out = []
    for cells in ([(0, 1), (2, 1), (3, 2)], [(1, 0), (1, 2), (2, 3)], [(1, 0), (2, 1), (3, 2)]):
        m = M.Mesh("H", 1, [(x,) for x in xs], cells)
        m.deduce(None)
        p = {(0,): Fr(1), (1,): Fr(-2), (2,): Fr(1, 2), (3,): Fr(1)}
        qs = []
        for c in range(3):
            qs += [(c, (Fr(-1),)), (c, (Fr(1, 3),)), (c, (Fr(1),))]
        for fam in ("HE", "BF"):
            for c in range(3):
                out.append("evpts %s %s %d 2 -1/1 1/1" % (fam, m.fmt(), c))
            out.append("dofs %s %s" % (fam, m.fmt()))
            out.append("ev %s %s 1 1/2" % (fam, m.fmt()))
        out.append("interp HE %s %s %d %s" % (m.fmt(), fmt_poly(p), len(qs), " ".join("%d %s" % (c, fmt_pt(x)) for c, x in qs)))
        p5 = {(0,): Fr(1, 3), (2,): Fr(-1), (5,): Fr(1, 7)}
        out.append("interp HE %s %s %d %s" % (m.fmt(), fmt_poly(p5), len(qs), " ".join("%d %s" % (c, fmt_pt(x)) for c, x in qs)))
    rng = random.Random(1509)
    for kd, fams in sorted(SUPPORT_2D_DERIV.items()):
        for fam in fams:
            m = M.random_mesh(rng, kd[0], kd[1], mode="general", max_cells=4)
            for c in range(min(2, m.num(kd[1]))):
                out.append("evpts %s %s %d %d %s" % (fam, m.fmt(), c, len(M.ref_vertices(*kd)), vertex_points(*kd)))
            out.append("dofs %s %s" % (fam, m.fmt()))
            if fam == "HE":
                out.append("interp HE %s %s 0" % (m.fmt(), fmt_poly(rand_poly(rng, 2, 3, nterms=6))))
    return out


HERMITE_CORPUS = _hermite_corpus()


def _facet_mean_corpus():
    """facet-mean / moment elements on hexahedra with non-parallelogram faces: duality with the real node functionals and
    reproduction of all linear polynomials"""
    out = []
    m1, m2 = displaced_cube_meshes()
    lin = [{(0, 0, 0): Fr(1)}, {(1, 0, 0): Fr(1)}, {(0, 1, 0): Fr(1)}, {(0, 0, 1): Fr(1)},
           {(0, 0, 0): Fr(1, 3), (1, 0, 0): Fr(2), (0, 1, 0): Fr(-1), (0, 0, 1): Fr(1, 2)}]
    for m, cells in ((m1, [0]), (m2, [0, 5])):
        for fam in ("CR", "D1", "D0"):
            for c in cells:
                out.append("nfdual %s %s %d" % (fam, m.fmt(), c))
            for p in (lin if fam != "D0" else lin[:1]):
                qs = [(c, x) for c in cells for x in ((Fr(1, 5), Fr(-1, 3), Fr(1, 2)), (Fr(0), Fr(0), Fr(0)))]
                out.append("interp %s %s %s %d %s" % (fam, m.fmt(), fmt_poly(p), len(qs),
                                                      " ".join("%d %s" % (c, fmt_pt(x)) for c, x in qs)))
    return out


FACET_MEAN_CORPUS = _facet_mean_corpus()

CORPUS = [
    # replayed first on every run.  No input has failed on the unchanged tree so far; these are the inputs tied to
    # FINDINGS_C15.md (discontinuous P1 on simplices: capabilities not advertised, values/gradients must be right)
    "ev D1 S 2 3 0/1 0/1 1/1 0/1 0/1 1/1 3 0 1 1 2 2 0 1 0 1 2 1 2 0 0 1/3 1/3",
    "interp D1 S 2 3 0/1 0/1 1/1 0/1 0/1 1/1 3 0 1 1 2 2 0 1 0 1 2 1 2 0 2 1/2 0 0 3/1 1 0 1 0 1/3 1/3",
    # reference triangle with all three edges stored against the cell's local direction (Lagrange-3 edge DOFs)
    "interp L3 S 2 3 0/1 0/1 1/1 0/1 0/1 1/1 3 1 0 2 1 0 2 1 0 1 2 1 2 0 3 1/1 3 0 -2/1 1 2 1/3 0 3 2 0 1/4 1/2 0 1/5 1/5",
] + HERMITE_CORPUS + FACET_MEAN_CORPUS


# ---------------------------------------------------------------------------------------------
# independent oracle
# ---------------------------------------------------------------------------------------------

class Case:
    def __init__(self, line):
        t = line.split()
        self.op, self.fam = t[0], t[1]
        self.mesh, p = M.parse_mesh(t, 2)
        self.rest = t[p:]
        self.kind, self.dim = self.mesh.kind, self.mesh.dim


_CASE_CACHE = {}


def parse_case(line):
    c = _CASE_CACHE.get(line)
    if c is None:
        if len(_CASE_CACHE) > 4:
            _CASE_CACHE.clear()
        c = Case(line)
        _CASE_CACHE[line] = c
    return c


def is_abnormal(out):
    return out.split(":")[0] in ("ABORT", "EXC", "TIMEOUT", "SIGNAL", "SANITIZER", "EXIT") or out in ("HANG", "BAD-OP", "UNSUPPORTED")


def hess_map(kind, d, verts, x):
    """Hessians of the components of the standard transformation"""
    H = [[[Fr(0)] * d for _ in range(d)] for _ in range(d)]
    if kind == "S":
        return H
    for i in range(1 << d):
        for p in range(d):
            for q in range(d):
                if p == q:
                    continue
                g = (Fr(1, 2) if (i >> p) & 1 else Fr(-1, 2)) * (Fr(1, 2) if (i >> q) & 1 else Fr(-1, 2))
                for l in range(d):
                    if l != p and l != q:
                        g *= (1 + x[l]) / 2 if (i >> l) & 1 else (1 - x[l]) / 2
                for a in range(d):
                    H[a][p][q] += verts[i][a] * g
    return H


def mat_inv(Mx):
    n = len(Mx)
    a = [list(r) + [Fr(1 if i == k else 0) for k in range(n)] for i, r in enumerate(Mx)]
    for c in range(n):
        p = next((r for r in range(c, n) if a[r][c] != 0), None)
        if p is None:
            return None
        a[c], a[p] = a[p], a[c]
        pv = a[c][c]
        a[c] = [x / pv for x in a[c]]
        for r in range(n):
            if r != c and a[r][c] != 0:
                f = a[r][c]
                a[r] = [x - f * y for x, y in zip(a[r], a[c])]
    return [r[n:] for r in a]


_DUAL = {}


def lagrange_dual_basis(kind, dim, k):
    """the nodal basis of P_k (simplex) / Q_k (hypercube) w.r.t. the principal lattice of the reference cell, built
    from the definition (unisolvence: solve the Vandermonde system); order = lattice order, NOT FEAT's DOF order"""
    key = (kind, dim, k)
    if key in _DUAL:
        return _DUAL[key]
    if kind == "S":
        exps = [e for e in product(range(k + 1), repeat=dim) if sum(e) <= k]
        nodes = [tuple(Fr(i, k) for i in e) for e in exps]
    else:
        exps = list(product(range(k + 1), repeat=dim))
        nodes = [tuple(Fr(-1) + Fr(2 * i, k) for i in e) for e in exps]
    n = len(exps)
    V = [[p_eval({e: Fr(1)}, x) for e in exps] for x in nodes]   # V[node][mono]
    Vi = mat_inv(V)
    # basis j = sum_m Vi[m][j] * mono_m   (so that basis_j(node_i) = delta_ij)
    basis = [{exps[mi]: Vi[mi][j] for mi in range(n) if Vi[mi][j] != 0} for j in range(n)]
    _DUAL[key] = (nodes, basis)
    return _DUAL[key]


def phys_derivs(kind, dim, verts, x, rg, rh):
    """transform reference gradient rg / Hessian rh of a function to real coordinates (independent chain rule:
    H = J^-T (Ĥ - sum_m g_m Hess(T_m)) J^-1 with the real gradient g = J^-T ĝ)"""
    J = M.jac(kind, dim, verts, x)
    Ji = mat_inv(J)
    if Ji is None:
        return None, None
    g = [sum((Ji[k][a] * rg[k] for k in range(dim)), Fr(0)) for a in range(dim)]
    if rh is None:
        return g, None
    HT = hess_map(kind, dim, verts, x)
    B = [[rh[p][q] - sum((g[mm] * HT[mm][p][q] for mm in range(dim)), Fr(0)) for q in range(dim)] for p in range(dim)]
    H = [[sum((Ji[p][a] * B[p][q] * Ji[q][b] for p in range(dim) for q in range(dim)), Fr(0)) for b in range(dim)]
         for a in range(dim)]
    return g, H


def p_mul(a, b):
    out = {}
    for ea, ca in a.items():
        for eb, cb in b.items():
            e = tuple(x + y for x, y in zip(ea, eb))
            out[e] = out.get(e, Fr(0)) + ca * cb
    return out


def p_add(a, b, sb=1):
    out = dict(a)
    for e, c in b.items():
        out[e] = out.get(e, Fr(0)) + sb * c
    return out


def jac_det_poly(dim, verts):
    """det J of the multilinear transformation of a hypercube as a polynomial in the reference coordinates"""
    zero = tuple([0] * dim)
    J = [[{} for _ in range(dim)] for _ in range(dim)]
    for i in range(1 << dim):
        for k in range(dim):
            g = {zero: Fr(1, 2) if (i >> k) & 1 else Fr(-1, 2)}
            for l in range(dim):
                if l != k:
                    el = tuple(1 if t == l else 0 for t in range(dim))
                    g = p_mul(g, {zero: Fr(1, 2), el: Fr(1, 2) if (i >> l) & 1 else Fr(-1, 2)})
            for a in range(dim):
                J[a][k] = p_add(J[a][k], {e: c * verts[i][a] for e, c in g.items()})
    if dim == 1:
        return J[0][0]
    if dim == 2:
        return p_add(p_mul(J[0][0], J[1][1]), p_mul(J[0][1], J[1][0]), -1)

    def m2(a, b, c, d):
        return p_add(p_mul(a, d), p_mul(b, c), -1)
    return p_add(p_add(p_mul(J[0][0], m2(J[1][1], J[1][2], J[2][1], J[2][2])),
                       p_mul(J[0][1], m2(J[1][0], J[1][2], J[2][0], J[2][2])), -1),
                 p_mul(J[0][2], m2(J[1][0], J[1][1], J[2][0], J[2][1])))


def exact_volume(kind, dim, verts):
    """exact cell volume without any quadrature: simplices |det|/d!, hypercubes: term-wise integration of the
    polynomial det J over [-1,1]^dim (int x^e = 2/(e+1) for even e, 0 for odd e)"""
    if kind == "S":
        f = 1
        for i in range(2, dim + 1):
            f *= i
        return abs(M.det(M.jac(kind, dim, verts, [Fr(0)] * dim))) / f
    s = Fr(0)
    for e, c in jac_det_poly(dim, verts).items():
        t = c
        for ek in e:
            t *= Fr(2, ek + 1) if ek % 2 == 0 else 0
        s += t
    return abs(s)


def shoelace(verts):
    """area of the quadrilateral v0 v1 v3 v2 (FEAT's vertex numbering), independent of the transformation"""
    order = [0, 1, 3, 2]
    s = Fr(0)
    for a, b in zip(order, order[1:] + order[:1]):
        s += verts[a][0] * verts[b][1] - verts[b][0] * verts[a][1]
    return abs(s) / 2


def oracle(case, out):
    try:
        return oracle_(case, out)
    except (IndexError, ValueError, AssertionError, ZeroDivisionError) as e:
        return "unparsable implementation output (%r): %s" % (e, out[:200])


def oracle_(case, out):
    c = parse_case(case)
    m, kind, dim, fam = c.mesh, c.kind, c.dim, c.fam
    if is_abnormal(out):
        return "%s on a valid mesh ended with %s" % (c.op, out[:80])
    o = out.split()
    if c.op == "vol":
        assert o[0] == "V" and int(o[1]) == m.num(dim)
        for ci in range(m.num(dim)):
            v = M.pfr(o[2 + ci])
            ex = exact_volume(kind, dim, m.cell_verts(dim, ci))
            if (kind, dim) == ("H", 3):
                # FEAT integrates with a 2x2x2 Gauss rule whose node is a rounded double: exact up to rounding
                if abs(v - ex) > ex * Fr(1, 10 ** 12):
                    return "volume of cell %d is %s, exact %s" % (ci, float(v), float(ex))
            elif v != ex:
                return "volume of cell %d is %s, exact %s" % (ci, v, ex)
        return None
    if c.op == "volq":
        assert o[0] == "W" and int(o[1]) == m.num(dim)
        for ci in range(m.num(dim)):
            v = M.pfr(o[2 + ci])
            verts = m.cell_verts(dim, ci)
            ex = exact_volume(kind, dim, verts)
            if (kind, dim) == ("H", 2) and ex != shoelace(verts):
                return "internal: polynomial integration and shoelace formula disagree"
            if v != ex:
                return "the Jacobian determinant of cell %d integrates to %s, the cell volume is %s" % (ci, v, ex)
        return None
    if c.op == "newton":
        x = [M.pfr(t) for t in c.rest[1:1 + dim]]
        assert o[0] == "N"
        if o[1] != "1":
            return "Newton iteration of the inverse mapping did not converge for an interior point of a valid cell"
        got = [float(t) for t in o[2:2 + dim]]
        err = max(abs(got[a] - float(x[a])) for a in range(dim))
        if err > 1e-8:
            return "unmap(map(x)) = %s differs from x = %s by %g" % (got, [float(z) for z in x], err)
        return None
    if c.op == "trcfg":
        cell = int(c.rest[0])
        x = [M.pfr(t) for t in c.rest[1:1 + dim]]
        mask = int(c.rest[1 + dim])
        verts = m.cell_verts(dim, cell)
        assert o[0] == "G" and int(o[1]) == mask
        got = [M.pfr(t) for t in o[2:]]
        J = M.jac(kind, dim, verts, x)
        Ji = mat_inv(J)
        HT = hess_map(kind, dim, verts, x)
        exp = []
        names = []
        if mask & 2:
            exp += list(M.map_point(kind, dim, verts, x)); names += ["img_point"] * dim
        if mask & 4:
            exp += [J[a][k] for a in range(dim) for k in range(dim)]; names += ["jac_mat"] * (dim * dim)
        if mask & 8:
            exp += [Ji[a][k] for a in range(dim) for k in range(dim)]; names += ["jac_inv"] * (dim * dim)
        if mask & 16:
            exp.append(abs(M.det(J))); names.append("jac_det")
        if mask & 32:
            exp += [HT[a][p][q] for a in range(dim) for p in range(dim) for q in range(dim)]; names += ["hess_ten"] * dim ** 3
        if mask & 64:
            # second derivatives of the inverse mapping: d2 xhat_k / dx_a dx_b
            for k in range(dim):
                for a in range(dim):
                    for b in range(dim):
                        exp.append(-sum((Ji[k][mm] * HT[mm][p][q] * Ji[p][a] * Ji[q][b]
                                         for mm in range(dim) for p in range(dim) for q in range(dim)), Fr(0)))
            names += ["hess_inv"] * dim ** 3
        if len(got) != len(exp):
            return "trafo evaluation with mask %d returned %d numbers, expected %d" % (mask, len(got), len(exp))
        for k, (g, e) in enumerate(zip(got, exp)):
            if g != e:
                return "trafo evaluation with config mask %d: %s entry differs from the exact value (%s vs %s)" % (
                    mask, names[k], g, e)
        return None
    if c.op == "caps":
        assert o[0] == "K"
        adv, dl = int(o[1]), int(o[2])
        if dl != caps_of(fam, kind):
            return "evaluator of %s implements the tags %d, expected %d" % (fam, dl, caps_of(fam, kind))
        if adv & dl != dl:
            return "advertised eval_caps %d do not include what the evaluator delivers (%d)" % (adv, dl)
        return None
    if c.op == "nfdual":
        assert o[0] == "M"
        nl = int(o[1])
        vals = [M.pfr(t) for t in o[2:]]
        if len(vals) != nl * nl:
            return "malformed nfdual output"
        for j in range(nl):
            for i in range(nl):
                exp = Fr(1) if i == j else Fr(0)
                if not close(vals[j * nl + i], exp, fam, kind):
                    return ("node functional %d applied to local basis function %d of cell %s gives %s, expected %s: the "
                            "node functionals are not dual to the basis" % (i, j, c.rest[0], float(vals[j * nl + i]), exp))
        return None
    if c.op == "evpts":
        cell = int(c.rest[0])
        npt = int(c.rest[1])
        pts = [tuple(M.pfr(t) for t in c.rest[2 + q * dim:2 + (q + 1) * dim]) for q in range(npt)]
        assert o[0] == "P"
        nl, hg, hh = int(o[1]), int(o[2]), int(o[3])
        ncomp = 1 + (dim if hg else 0) + (dim * dim if hh else 0)
        vals = [M.pfr(t) for t in o[4:]]
        if len(vals) != npt * nl * ncomp:
            return "malformed evpts output"
        if fam in DERIV_FAMS and pts == [tuple(v) for v in M.ref_vertices(kind, dim)]:
            # duality of the vertex functionals with the local basis, from the definition of the element:
            # Hermite-3: value, d/dx_1 .. d/dx_dim ; Bogner-Fox-Schmit: value, d/dx, (d/dy, d2/dxdy)
            if not (hg and (hh or fam == "HE" or dim == 1)):
                return "evaluator does not deliver the derivatives its node functionals need"
            kv = dofs_per_dim(fam, kind, dim)[0]
            for l in range(npt):
                for j in range(nl):
                    base = (l * nl + j) * ncomp
                    funcs = [vals[base]] + [vals[base + 1 + a] for a in range(dim)]
                    # Bogner-Fox-Schmit in 2-D: FEAT defines no node functionals for it and leaves the 4th vertex function
                    # (q x q) untransformed, so only value, d/dx, d/dy are judged (stride 4 in the local numbering)
                    for t in range(min(kv, dim + 1)):
                        exp = Fr(1) if j == l * kv + t else Fr(0)
                        if funcs[t] != exp:
                            names = ["value", "d/dx", "d/dy", "d2/dxdy"]
                            if dim == 1:
                                vs = m.cell_verts(1, cell)
                                where = " (interval listed %s)" % ("left-to-right" if vs[0][0] < vs[1][0] else "right-to-left")
                            else:
                                where = ""
                            return ("node functional '%s at local vertex %d' applied to local basis function %d gives %s, "
                                    "expected %s: functionals are not dual to the basis%s" % (names[t], l, j, funcs[t], exp, where))
        return None
    if c.op == "evcfg":
        cell = int(c.rest[0])
        x = [M.pfr(t) for t in c.rest[1:1 + dim]]
        mask = int(c.rest[1 + dim])
        verts = m.cell_verts(dim, cell)
        assert o[0] == "C"
        nl = int(o[1])
        assert int(o[2]) == mask
        w = mask_width(mask, dim)
        r = [M.pfr(t) for t in o[3:3 + nl * w]]
        p = 3 + nl * w
        assert o[p] == "F"
        fullm = int(o[p + 1])
        if fullm != caps_of(fam, kind):
            return "full mask %d, expected %d" % (fullm, caps_of(fam, kind))
        fw = mask_width(fullm, dim)
        full = [M.pfr(t) for t in o[p + 2:p + 2 + nl * fw]]
        if len(full) != nl * fw or len(r) != nl * w:
            return "malformed evcfg output"
        sl, fsl = mask_slices(mask, dim), mask_slices(fullm, dim)
        tagname = {1: "value", 2: "grad", 4: "hess", 8: "ref_value", 16: "ref_grad", 32: "ref_hess"}
        for i in range(nl):
            for bit, (off, ln) in sl.items():
                a = r[i * w + off:i * w + off + ln]
                b = full[i * fw + fsl[bit][0]:i * fw + fsl[bit][0] + ln]
                if a != b:
                    return ("config mask %d: %s of basis function %d differs from the full-mask evaluation "
                            "(%s vs %s)" % (mask, tagname[bit], i, [str(z) for z in a], [str(z) for z in b]))
        # the full evaluation itself: exact derivatives (Lagrange families), partition of unity
        rows = [tuple(full[i * fw:(i + 1) * fw]) for i in range(nl)]
        if fam in LAGRANGE_DEG:
            nodes, basis = lagrange_dual_basis(kind, dim, LAGRANGE_DEG[fam])
            exp = []
            for b in basis:
                gp = [p_deriv(b, k) for k in range(dim)]
                rg = [p_eval(g, x) for g in gp]
                rh = [[p_eval(p_deriv(gp[a], bb), x) for bb in range(dim)] for a in range(dim)]
                g, H = phys_derivs(kind, dim, verts, x, rg, rh)
                val = p_eval(b, x)
                row = []
                if fullm & 1:
                    row.append(val)
                if fullm & 2:
                    row += g
                if fullm & 4:
                    row += [H[a][bb] for a in range(dim) for bb in range(dim)]
                if fullm & 8:
                    row.append(val)
                if fullm & 16:
                    row += rg
                if fullm & 32:
                    row += [rh[a][bb] for a in range(dim) for bb in range(dim)]
                exp.append(tuple(row))
            if sorted(exp) != sorted(rows):
                return "full-mask evaluation is not the nodal basis differentiated exactly"
        return None
    if c.op == "unmap":
        # double precision (InverseMapping cannot be constructed at Q): supporting evidence with a tolerance
        cell = int(c.rest[0])
        x = [M.pfr(t) for t in c.rest[1:1 + dim]]
        assert o[0] == "U"
        n = int(o[1])
        found = None
        for k in range(n):
            cc = int(o[2 + k * (dim + 1)])
            dp = [float(t) for t in o[3 + k * (dim + 1):3 + k * (dim + 1) + dim]]
            if cc == cell:
                found = dp
        if found is None:
            return "unmap_point(map_point(cell %d, x)) does not return cell %d (returned %s)" % (cell, cell, o[1:])
        err = max(abs(found[a] - float(x[a])) for a in range(dim))
        if err > 1e-8:
            return "unmap_point(map_point(x)) = %s differs from x = %s by %g" % (found, [float(z) for z in x], err)
        return None
    kd = dofs_per_dim(fam, kind, dim)
    ndofs = sum(kd[d] * m.num(d) for d in range(dim + 1))
    if c.op == "dofs":
        assert o[0] == "D"
        n, nc, nl = int(o[1]), int(o[2]), int(o[3])
        idx = [int(x) for x in o[4:]]
        if n != ndofs:
            return "number of global DOFs %d, expected %d (one per node functional)" % (n, ndofs)
        exp_nl = sum(kd[d] * (len(M.FIM[(kind, dim, d)]) if d < dim else 1) for d in range(dim + 1))
        if nl != exp_nl or len(idx) != nc * nl or nc != m.num(dim):
            return "local DOF count %d, expected %d" % (nl, exp_nl)
        owner = {}   # global index -> functional (d, entity, j)
        seen_f = {}  # functional -> global index
        for ci in range(nc):
            k = 0
            for d in range(dim + 1):
                ents = [ci] if d == dim else (m.ent[dim][ci] if d == 0 else m.idx[(dim, d)][ci])
                for e in ents:
                    for j in range(kd[d]):
                        g = idx[ci * nl + k]
                        k += 1
                        fn = (d, e, j)
                        if g >= n:
                            return "global DOF index %d out of range" % g
                        if owner.setdefault(g, fn) != fn:
                            return "global index %d is shared by the distinct functionals %s and %s" % (g, owner[g], fn)
                        if seen_f.setdefault(fn, g) != g:
                            return "functional %s has two global indices (%d, %d)" % (fn, seen_f[fn], g)
        if len(owner) != n:
            return "global numbering is not onto 0..%d" % (n - 1)
        return None
    if c.op == "ev":
        cell = int(c.rest[0])
        x = [M.pfr(t) for t in c.rest[1:1 + dim]]
        verts = m.cell_verts(dim, cell)
        assert o[0] == "E"
        nl, hg, hh = int(o[1]), int(o[2]), int(o[3])
        ncomp = 1 + (dim if hg else 0) + (dim * dim if hh else 0)
        vals = [M.pfr(t) for t in o[4:4 + nl * ncomp]]
        p = 4 + nl * ncomp
        assert o[p] == "T"
        tr = [M.pfr(t) for t in o[p + 1:]]
        img, jac, jd = tr[:dim], tr[dim:dim + dim * dim], tr[dim + dim * dim]
        if tuple(img) != M.map_point(kind, dim, verts, x):
            return "map_point differs from the (multi)linear interpolation of the cell vertices"
        J = M.jac(kind, dim, verts, x)
        if jac != [J[a][k] for a in range(dim) for k in range(dim)]:
            return "calc_jac_mat is not the derivative of map_point"
        if jd != abs(M.det(J)):
            return "jac_det is not |det J|"
        rows = [vals[i * ncomp:(i + 1) * ncomp] for i in range(nl)]
        if fam in LAGRANGE_DEG:
            nodes, basis = lagrange_dual_basis(kind, dim, LAGRANGE_DEG[fam])
            exp = []
            for b in basis:
                row = [p_eval(b, x)]
                if hg:
                    gp = [p_deriv(b, k) for k in range(dim)]
                    rg = [p_eval(g, x) for g in gp]
                    rh = [[p_eval(p_deriv(gp[a], bb), x) for bb in range(dim)] for a in range(dim)] if hh else None
                    g, H = phys_derivs(kind, dim, verts, x, rg, rh)
                    row += g
                    if hh:
                        row += [H[a][bb] for a in range(dim) for bb in range(dim)]
                exp.append(tuple(row))
            if len(exp) != nl:
                return "number of local basis functions %d, dimension of the local space %d" % (nl, len(exp))
            if sorted(exp) != sorted(tuple(r) for r in rows):
                return ("the set of (value, gradient, Hessian) tuples is not that of the nodal basis of %s_%d "
                        "differentiated exactly" % ("P" if kind == "S" else "Q", LAGRANGE_DEG[fam]))
        # (discontinuous P1 on hypercubes uses the monomial basis 1, x, y(, z) of the linearised cell: no partition of unity)
        if fam in ("L1", "L2", "L3", "D0", "D1", "CR", "B2") and not (fam == "D1" and kind == "H"):
            tot = [sum((r[k] for r in rows), Fr(0)) for k in range(ncomp)]
            if tot != [Fr(1)] + [Fr(0)] * (ncomp - 1):
                return "the basis functions do not sum to 1 with vanishing derivative sums"
        return None
    if c.op == "ref":
        return None  # reference data: compared with the model only (the oracle judges the physical quantities)
    if c.op == "interp":
        r = c.rest
        nt = int(r[0])
        p, pos = {}, 1
        for _ in range(nt):
            cf = M.pfr(r[pos])
            e = tuple(int(k) for k in r[pos + 1:pos + 1 + dim])
            p[e] = p.get(e, Fr(0)) + cf
            pos += 1 + dim
        nq = int(r[pos])
        pos += 1
        queries = []
        for _ in range(nq):
            queries.append((int(r[pos]), [M.pfr(t) for t in r[pos + 1:pos + 1 + dim]]))
            pos += 1 + dim
        assert o[0] == "I"
        n = int(o[1])
        if n != ndofs:
            return "coefficient vector has %d entries, expected %d" % (n, ndofs)
        coef = [M.pfr(t) for t in o[2:2 + n]]
        q0 = 2 + n
        assert int(o[q0]) == nq
        hg, hh = int(o[q0 + 1]), int(o[q0 + 2])
        per = dim + 1 + (dim if hg else 0) + (dim * dim if hh else 0)
        res = []
        for qi in range(nq):
            t = [M.pfr(z) for z in o[q0 + 3 + qi * per:q0 + 3 + (qi + 1) * per]]
            res.append((tuple(t[:dim]), t[dim], t[dim + 1:dim + 1 + (dim if hg else 0)], t[dim + 1 + (dim if hg else 0):]))
        deg = max(sum(e) for e in p)
        # (a) Lagrange elements: the coefficients are the values of p at the lattice nodes of the mesh (as a multiset)
        if fam in LAGRANGE_DEG:
            k = LAGRANGE_DEG[fam]
            pts = {}
            for ci in range(m.num(dim)):
                nodes, _b = lagrange_dual_basis(kind, dim, k)
                verts = m.cell_verts(dim, ci)
                for nd in nodes:
                    pts[M.map_point(kind, dim, verts, nd)] = True
            if sorted(coef) != sorted(p_eval(p, y) for y in pts):
                return "interpolation coefficients are not the values of the function at the lattice nodes of the mesh"
        if fam == "HE" and dim == 2:
            gps = [p_deriv(p, 0), p_deriv(p, 1)]
            for v in range(m.num(0)):
                exp3 = [p_eval(p, m.coords[v]), p_eval(gps[0], m.coords[v]), p_eval(gps[1], m.coords[v])]
                if coef[3 * v:3 * v + 3] != exp3:
                    return "Hermite coefficients of vertex %d are %s, expected (f, df/dx, df/dy) = %s" % (
                        v, [str(z) for z in coef[3 * v:3 * v + 3]], [str(z) for z in exp3])
            return None
        if fam == "HE" and dim == 1:
            gp1 = p_deriv(p, 0)
            for v in range(m.num(0)):
                xv = m.coords[v]
                if coef[2 * v] != p_eval(p, xv) or coef[2 * v + 1] != p_eval(gp1, xv):
                    return "Hermite coefficients of vertex %d are (%s, %s), expected (f, f') = (%s, %s)" % (
                        v, coef[2 * v], coef[2 * v + 1], p_eval(p, xv), p_eval(gp1, xv))
        # (b) every point: image point, reproduction of polynomials of the local space
        for (ci, x), (img, v, g, h) in zip(queries, res):
            verts = m.cell_verts(dim, ci)
            if img != M.map_point(kind, dim, verts, x):
                return "map_point differs from the (multi)linear interpolation of the cell vertices"
            if deg <= REPRO_DEG[fam]:
                if not close(v, p_eval(p, img), fam, kind):
                    return "interpolant of a polynomial of degree %d differs from it at cell %d point %s: %s vs %s" % (
                        deg, ci, [str(z) for z in x], v, p_eval(p, img))
                gp = [p_deriv(p, k) for k in range(dim)]
                if hg and not all(close(a_, b_, fam, kind) for a_, b_ in zip(g, [p_eval(gk, img) for gk in gp])):
                    return "gradient of the interpolant of a polynomial of degree %d differs from its gradient (cell %d)" % (deg, ci)
                if hh and list(h) != [p_eval(p_deriv(gp[a], b), img) for a in range(dim) for b in range(dim)]:
                    return "Hessian of the interpolant of a polynomial of degree %d differs from its Hessian (cell %d)" % (deg, ci)
        # (c) continuity across facets: equal physical points in different cells give equal values
        if fam in H1_CONFORMING or (fam == "CR" and kind == "S"):
            bary = set()
            if fam == "CR":
                for fc in range(m.num(dim - 1)):
                    vs = [m.coords[v] for v in m.ent[dim - 1][fc]]
                    bary.add(tuple(sum((v[a] for v in vs), Fr(0)) / len(vs) for a in range(dim)))
            byimg = {}
            for (ci, x), (img, v, g, h) in zip(queries, res):
                if fam == "CR" and img not in bary:
                    continue
                if img in byimg and byimg[img][1] != v:
                    return "interpolant is discontinuous at %s: %s in cell %d, %s in cell %d" % (
                        [str(z) for z in img], byimg[img][1], byimg[img][0], v, ci)
                if fam in C1_FAMS and hg and img in byimg and byimg[img][2] != list(g):
                    return "derivative of the C1 interpolant jumps at %s: %s in cell %d, %s in cell %d" % (
                        [str(z) for z in img], [str(z) for z in byimg[img][2]], byimg[img][0], [str(z) for z in g], ci)
                byimg.setdefault(img, (ci, v, list(g)))
        return None
    return None


def reoriented(m):
    """number of (cell, local edge/face) pairs whose stored orientation differs from the cell's local one"""
    cnt = 0
    for d in range(1, m.dim):
        for ci, cv in enumerate(m.ent[m.dim]):
            for l, loc in enumerate(M.FIM[(m.kind, m.dim, d)]):
                e = m.idx[(m.dim, d)][ci][l]
                if tuple(m.ent[d][e]) != tuple(cv[k] for k in loc):
                    cnt += 1
    return cnt


def multi_dof(fam, kind, dim):
    kd = dofs_per_dim(fam, kind, dim)
    return any(k >= 2 for k in kd[1:dim]) or (dim >= 2 and any(kd[1:dim]))


def nontrivial(case):
    """non-trivial = a re-oriented entity (stored orientation differs from the cell's local one) on a mesh for an
    element with DOFs on edges/faces, or a non-affine cell, or >= 2 cells; trafo ops: always"""
    t = case.split(None, 2)
    if t[0] in ("vol", "volq", "newton", "unmap", "caps", "evpts", "nfdual"):
        return True
    c = parse_case(case)
    m = c.mesh
    if t[0] in ("evcfg", "trcfg"):
        # a proper sub-mask, or a non-affine cell
        mask = int(c.rest[1 + m.dim])
        full = caps_of(c.fam, m.kind) if c.fam in CAPS else 126
        return mask != full or (m.kind == "H" and m.dim > 1)
    if m.dim == 1:
        return m.num(1) >= 2
    if multi_dof(c.fam, m.kind, m.dim):
        return reoriented(m) > 0
    return m.num(m.dim) >= 2


def describe(case):
    t = case.split(None, 5)
    keys = ["op:" + t[0], "fam:" + t[1], "shape:%s%s" % (t[2], t[3]), "%s:%s:%s%s" % (t[0], t[1], t[2], t[3])]
    c = parse_case(case)
    m = c.mesh
    keys.append("cells:%d" % m.num(m.dim))
    if m.dim == 1 and t[1] in DERIV_FAMS:
        rev = sum(1 for ci in range(m.num(1)) if m.cell_verts(1, ci)[0][0] > m.cell_verts(1, ci)[1][0])
        keys.append("deriv-1d-intervals:%s" % ("all-left-to-right" if rev == 0 else
                                                ("all-right-to-left" if rev == m.num(1) else "both-orientations")))
    if t[0] in ("evcfg", "trcfg"):
        keys.append("%s-mask:%s" % (t[0], c.rest[1 + m.dim]))
        keys.append("poison:%s" % c.rest[2 + m.dim])
        cell = int(c.rest[0])
        if m.kind == "H" and m.dim >= 2:
            keys.append("%s-cell:%s" % (t[0], "affine" if M.hess_zero(m.kind, m.dim, m.cell_verts(m.dim, cell)) else "non-affine"))
    if m.dim >= 2 and t[0] not in ("vol", "volq", "newton", "unmap", "trcfg", "caps"):
        r = reoriented(m)
        keys.append("reoriented-subentities:%s" % ("0" if r == 0 else ("1-3" if r <= 3 else ">=4")))
        if t[1] == "L3":
            keys.append("L3-reoriented:%s" % ("no" if r == 0 else "yes"))
    if m.kind == "H" and m.dim >= 2:
        aff = all(M.hess_zero(m.kind, m.dim, m.cell_verts(m.dim, ci)) for ci in range(m.num(m.dim)))
        keys.append("geometry:%s" % ("affine" if aff else "multilinear"))
    if t[0] == "interp":
        p = c.rest
        nt = int(p[0])
        deg = max(sum(int(k) for k in p[2 + i * (1 + m.dim):2 + i * (1 + m.dim) + m.dim]) for i in range(nt))
        keys.append("interp-degree-%s-local-space" % ("in" if deg <= REPRO_DEG[t[1]] else "above"))
    return keys


def signature(case, out, why):
    t = case.split()
    return "%s:%s:%s%s:%s" % (t[0], t[1], t[2], t[3], (why or "")[:40])


def model_covers(case):
    """ops without a Lean model: unmap (double precision), nfdual (the real node functionals applied to the real basis:
    judged by the oracle); Hermite-3 / Bogner-Fox-Schmit in 2-D (oracle only)"""
    t = case.split(None, 4)
    if t[0] in ("unmap", "nfdual"):
        return False
    if t[1] in DERIV_FAMS and t[3] != "1":
        return False
    return True


def canon(out):
    if out.startswith("ABORT"):
        return "ABORT"
    if out.startswith("N "):
        # Newton iteration: implementation in double precision, model exact -> compare rounded to 1e-8
        t = out.split()
        vals = []
        for z in t[2:]:
            v = float(M.pfr(z)) if "/" in z else float(z)
            vals.append("%.8f" % (round(v, 8) + 0.0))
        return " ".join(t[:2] + vals)
    return out


def main(argv):
    args = vlib.std_args(argv)
    t0 = time.time()
    rng = random.Random(args.seed * 1000003 + 15)
    H = os.path.join(vlib.VERIF, "harness", "c15")
    binary, err = vlib.build_harness("c15", os.path.join(H, "main.cpp"),
                                     extra_srcs=[os.path.join(H, "shape_%s.cpp" % s) for s in ("s2", "s3", "h1", "h2", "h3")])
    if binary is None:
        v = [{"property": PROP, "kind": "harness-build-failure", "detail": err, "failing_input": None,
              "broken": "harness c15 does not compile against the current tree"}]
        return vlib.finish(PROP, args.tier, args.seed, t0, None, [], [], v, [])
    # T1: regenerate the basis tables from the real evaluators (content-identical files are not rewritten)
    gen_err, tables = None, {}
    try:
        tables, files = basis_probe.regenerate(binary, random.Random(args.seed))
    except Exception as e:  # the translator refuses: evaluator no longer polynomial / probe failed
        gen_err = str(e)
    lean = None if args.no_lean else vlib.lean_check(PROP, leanchecker=(args.tier == "thorough"))
    tables = tables if gen_err is None else {}
    if gen_err is not None:
        # the T1 translator refuses (an evaluator crashed / is no longer a polynomial of the expected degree): this is
        # reported like a broken proof obligation, and the correspondence stream still runs (against the last generated
        # tables) so that a concrete failing input is searched for
        vlib.log("[T1] translator failure: " + gen_err[:300])
        if lean is None:
            lean = vlib.LeanResult()
        lean.ok = False
        lean.errors.append("T1 translator basis_probe: " + gen_err[:1500])
        lean.failed_names.append("T1 translator basis_probe (Gen/Basis*.lean could not be regenerated)")
    if args.replay:
        cases = [json.load(open(args.replay))["input"]]
    else:
        cases = CORPUS + fixed_cases() + gen_cases(rng, 1500 if args.tier == "quick" else 15000, args.tier)
    st = vlib.Stream("fe", cases, [binary], vlib.driver_cmd(PROP), oracle=oracle, nontrivial=nontrivial,
                     describe=describe, signature=signature, canon=canon,
                     model_filter=model_covers)
    rule = ("random conformal meshes (1-8 cells; triangles, tetrahedra, segments, quadrilaterals, hexahedra; unit, affine "
            "and general multilinear geometry), every cell renumbered by a random symmetry of its shape, every edge/face "
            "randomly numbered and oriented; ops: dofs, ev (all local basis functions: value/grad/Hessian + trafo data), "
            "ref (reference data on re-oriented cells), interp (real Interpolator, then evaluation at random points and "
            "from both sides of interior facets), vol; non-trivial = a mesh with >= 2 cells (ev: any)")
    return vlib.run_pipeline(PROP, args.tier, args.seed, lean, [st], t0, assumptions=[
        "every reference evaluator is a polynomial of coordinate degree <= 3 (<= its nominal degree D) in the reference "
        "coordinates (T1 sampling assumption; cross-checked on 12 extra random points per table and by the T2 stream)",
        "conformity / duality / reproduction theorems are stated for reference configurations (all edge orientations in "
        "2-D, every stored order of a face in 3-D) with arbitrary vertex coordinates; that every cell of a 2-D mesh is "
        "such a configuration is proved for the evaluator (slotPerm), for the remaining index bookkeeping it is "
        "covered by this correspondence run",
        "Index modelled as unbounded Nat",
        "InverseMapping cannot be constructed at the exact type Q (its constructor computes eps^0.9); ops unmap/newton run "
        "in double precision, the Newton model runs in exact arithmetic with tolerance 2^-47, both outputs are rounded to "
        "1e-8 before they are compared",
                "Hermite-3 and Bogner-Fox-Schmit: modelled and proved in 1-D (both interval orientations); in 2-D (Hermite-3 on "
        "quadrilaterals/triangles, Bogner-Fox-Schmit on quadrilaterals) covered by the harness and the oracle only "
        "(duality of the vertex functionals value, d/dx, d/dy with the basis on arbitrary cells, vertex coefficients of "
        "the interpolant, config masks); Argyris is not instantiated (21x21 inverse with normalised normals)",
                "Rannacher-Turek on quadrilaterals / hexahedra contains square roots (facet areas, Gauss coordinate): at Q they are "
        "the deterministic rational Proto.qsqrt / q_sqrt, the model reproduces the outputs exactly; the evaluator uses "
        "sqrt(1/3), the cubature rule of the node functional the double constant, so duality / reproduction hold up to "
        "1e-12 at Q (oracle tolerance 1e-9)",
        "Lagrange-3 on tetrahedra, the Q1~-bnp element and the "
        "Bernstein-2 node functionals are not instantiable exactly at Q (constexpr scalar constants / irrational Gauss "
        "points): not covered"],
        extra_cov={"rule": rule, "generated_tables": sorted("%s/%s%d" % k for k in tables)})
