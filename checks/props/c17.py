"""C17 - threaded assembly is race-free, terminates and equals the serial result.

Streams
  dist   : the static work distribution of DomainAssembler (protected arrays read through a derived class)
           == Lean model `DA.compile`; oracle: cover-once, BFS-layer adjacency, >= 2 layers per thread, proper colours,
           no abort for any requested worker count 0..cells+2 and any strategy.
  trace  : real multi-threaded `assemble()` runs of an instrumented job are recorded first (pre-pass, seeded schedule
           perturbation); every recorded event log must be a run of the Lean transition systems (`LCfg.step` /
           `CCfg.step`), the schedule-independent results must equal the model's, and the independent oracle scans the
           log for overlapping scatters on vertex-adjacent cells, overlapping combines, and compares the results with
           the serial sums.
           The combine lock is observed by the instrumented job's try_lock PROBE inside combine() (event kind 14: the
           assembler's `_thread_mutex` must really be held while the body runs); there is no hook around the lock.
  featjobs : real FEAT matrix / vector / integral jobs vs exact rational values.
  boundary-sizes (boundary-dist / boundary-trace): sizes at and around the C++ size boundaries, see BOUNDARY NOTES.
  tsan   : (thorough) the same runs under ThreadSanitizer; oracle only.

BOUNDARY NOTES (size-dependent code found in the anchored sources; the Lean model uses unbounded Nat everywhere)
  domain_assembler.hpp:1584/1618/1645  std::vector<int> elem_mask, value int(layers.size())   -> number of layers and
                                        components 127..129, 255..257, 1000/1001 (thorough: 32767.., 65535..65537)
  domain_assembler.hpp:967             std::vector<char> _element_mask (0/1 flags)             -> cell indices >= 127/255
  domain_assembler.hpp:1547            idx[int(j)], j < vertices per cell                       -> none (<= 8)
  domain_assembler.hpp:743-764         ~Index(0) sentinels for elem_fence_open/wait            -> none reachable
  domain_assembler.hpp:1244,1507-1511  one std::thread / ThreadFence / ThreadStats per worker   -> actual worker counts
                                        2..64, 255, 256, 257 (> hardware_concurrency), requested 0,1,2,..,65536
  domain_assembler.hpp:1718,1828       num_workers = min(requested, layers/3 | max colour size) -> clamped to >= 2 but
                                        < requested (the regime of the seeded requested-vs-actual change)
  graph.hpp:455/559/684/826            std::vector<char> idx_mask (0/1 duplicate mask of the render kernels used by
                                        _build_graphs)                                         -> duplicates among cells with
                                        indices >= 127, 255, 1000 (quad strips: neighbours share two vertices)
  coloring.cpp:84-96                   col_aux/col_num std::vector<Index>(degree+1), colours as Index -> >= 128 / 256
                                        colours and degrees (1D star = clique)
  thread.hpp                           nothing size dependent
"""
import json
import os
import random
import time
from fractions import Fraction

import vlib

PROP = "C17"
SRC = os.path.join(vlib.VERIF, "harness", "c17", "main.cpp")
SRC2 = [os.path.join(vlib.VERIF, "harness", "c17", "featjobs.cpp")]


# ---------------------------------------------------------------------------------------------
# generators
# ---------------------------------------------------------------------------------------------

SIZES = [1, 1, 2, 2, 3, 3, 4, 5, 6, 7, 8, 9, 10, 11, 12, 13, 14, 15, 16, 18, 20, 24, 28, 32, 40, 48, 64]


def gen_mesh(rng, n=None, big=False):
    """returns (kind, nvt, cells)"""
    if n is None:
        n = rng.choice(SIZES)
        if big and rng.random() < 0.25:
            n = rng.choice([96, 128, 200, 256])
    kind = rng.choice(["path", "path", "cycle", "star", "rand1d", "comps1d", "tri", "tristrip", "quadgrid", "quadgrid",
                       "quadstrip", "quadrand"])
    if kind == "path":
        nvt, cells = n + 1, [[i, i + 1] for i in range(n)]
    elif kind == "cycle":
        nvt, cells = max(n, 2), [[i, (i + 1) % max(n, 2)] for i in range(n)]
    elif kind == "star":
        nvt, cells = n + 1, [[0, i + 1] for i in range(n)]
    elif kind == "rand1d":
        nvt = rng.randrange(2, n + 3)
        cells = []
        for _ in range(n):
            a = rng.randrange(nvt)
            b = rng.randrange(nvt - 1)
            cells.append([a, b if b < a else b + 1])
    elif kind == "comps1d":
        cells, nvt = [], 0
        left = n
        while left > 0:
            k = rng.randrange(1, left + 1)
            cells += [[nvt + i, nvt + i + 1] for i in range(k)]
            nvt += k + 1
            left -= k
    elif kind == "tri":
        nvt = rng.randrange(3, n + 4)
        cells = [rng.sample(range(nvt), 3) for _ in range(n)]
    elif kind == "tristrip":
        nvt, cells = n + 2, [[i, i + 1, i + 2] for i in range(n)]
    elif kind in ("quadgrid", "quadstrip"):
        if kind == "quadstrip":
            mx, my = n, 1
        else:
            mx = max(1, int(round(n ** 0.5)))
            my = max(1, n // mx)
        nvt = (mx + 1) * (my + 1)
        cells = []
        for j in range(my):
            for i in range(mx):
                v = j * (mx + 1) + i
                cells.append([v, v + 1, v + mx + 1, v + mx + 2])
    else:
        nvt = rng.randrange(4, n + 6)
        cells = [rng.sample(range(nvt), 4) for _ in range(n)]
    r = rng.random()
    if r < 0.35:
        rng.shuffle(cells)            # cell numbering unrelated to the geometry
    elif r < 0.5:
        p = list(range(nvt))          # vertex renumbering
        rng.shuffle(p)
        cells = [[p[v] for v in c] for c in cells]
    return kind, nvt, cells


def gen_subset(rng, ncells):
    k = rng.random()
    if k < 0.5 or ncells == 0:
        return list(range(ncells))
    if k < 0.7:
        p = rng.choice([0.3, 0.6, 0.9])
        return [c for c in range(ncells) if rng.random() < p]
    if k < 0.8:
        return list(range(rng.randrange(2), ncells, 2))           # every other cell: disconnected
    if k < 0.9:
        a = rng.randrange(ncells + 1)
        b = rng.randrange(a, ncells + 1)
        return [c for c in range(ncells) if c < a // 2 or (a <= c < b)]   # two blocks
    if k < 0.96:
        return [rng.randrange(ncells)]
    return []


def gen_workers(rng, nsel):
    return rng.choice([0, 1, 1, 2, 2, 3, 3, 4, 4, 5, 6, 8, nsel, nsel + 1, nsel + 2, rng.randrange(0, nsel + 3),
                       max(1, nsel // 3), max(1, nsel // 2)])


def fmt_input(s, w, nvt, cells, sel):
    parts = [str(s), str(w), str(nvt), str(len(cells))]
    for c in cells:
        parts.append(str(len(c)))
        parts += [str(v) for v in c]
    parts.append(str(len(sel)))
    parts += [str(c) for c in sel]
    return " ".join(parts)


def gen_dist_cases(rng, count, big):
    out = []
    for _ in range(count):
        _, nvt, cells = gen_mesh(rng, big=big)
        sel = gen_subset(rng, len(cells))
        out.append("dist " + fmt_input(rng.randrange(5), gen_workers(rng, len(sel)), nvt, cells, sel))
    return out


def gen_run_cases(rng, count):
    out = []
    for _ in range(count):
        _, nvt, cells = gen_mesh(rng, n=(rng.choice([12, 16, 20, 24, 32, 40, 48, 64]) if rng.random() < 0.4 else None))
        sel = gen_subset(rng, len(cells))
        s = rng.choice([0, 1, 2, 2, 2, 3, 3, 4, 4, 4])
        w = gen_workers(rng, len(sel))
        if rng.random() < 0.5:
            w = rng.choice([2, 2, 3, 4, 5, 8])
        ns = rng.choice([0, 1, 1, 1, 1, 1, 2, 2])      # 2 = jobs with and without scatter alternate on one assembler
        ncb = rng.choice([0, 1, 1, 2])
        reps = rng.choice([1, 1, 2, 3, 3, 4, 5])
        pseed = 0 if rng.random() < 0.1 else rng.randrange(1, 1 << 30)
        line = "run %s %d %d %d %d" % (fmt_input(s, w, nvt, cells, sel), ns, ncb, reps, pseed)
        if sel and rng.random() < 0.25:
            # error path, every strategy / worker count / job type: the task of the first job throws in assemble /
            # scatter / finish / combine at one cell; the job must still terminate and the following jobs on the same
            # assembler must be exact again
            opts = [1, 3] + ([2] if ns in (1, 2) else []) + ([4] if ncb in (1, 2) else [])
            where = rng.choice(opts)
            line += " %d %d" % (where, rng.choice(sel))
        out.append(line)
    return out


def gen_session_cases(rng, count):
    """session stream: an explicit sequence of jobs on ONE assembler.  Pattern as in C16's history stream: the same
    'real' job as 2nd, 4th and 5th job, after warm-ups of other kinds (a job without scatter, a job whose task throws);
    plus random sequences"""
    out = []
    for _ in range(count):
        _, nvt, cells = gen_mesh(rng, n=rng.choice([1, 2, 3, 4, 6, 9, 12, 16, 20, 24, 32]))
        sel = gen_subset(rng, len(cells))
        s = rng.choice([0, 2, 2, 3, 4, 4])
        w = rng.choice([0, 1, 2, 2, 3, 4, 5, 8, len(sel) + 2])
        real = (1, rng.randrange(2), 0, 0)
        if rng.random() < 0.6:
            warm1 = (0, 1, 0, 0)
            warm2 = (1, 1, rng.choice([1, 2, 3, 4]), rng.choice(sel)) if sel else (1, 0, 0, 0)
            jobs = [warm1, real, warm2, real, real]
        else:
            jobs = []
            for _ in range(rng.choice([3, 4, 6])):
                a, b = rng.randrange(2), rng.randrange(2)
                fw = 0
                if sel and rng.random() < 0.25:
                    fw = rng.choice([1, 3] + ([2] if a else []) + ([4] if b else []))
                jobs.append((a, b, fw, rng.choice(sel) if fw else 0))
        out.append("session %s %d %d %s" % (fmt_input(s, w, nvt, cells, sel), rng.randrange(1, 1 << 30), len(jobs),
                                            " ".join("%d %d %d %d" % j for j in jobs)))
    return out


def strip_input(s, w, n, kind, sel=None, reverse=False):
    """1D path / quad strip / star / isolated cells with n cells; reverse: the geometric start gets the HIGHEST index"""
    if kind == "path":
        nvt, cells = n + 1, [[i, i + 1] for i in range(n)]
    elif kind == "quad":
        nvt, cells = 2 * (n + 1), [[i, i + 1, n + 1 + i, n + 2 + i] for i in range(n)]
    elif kind == "star":
        nvt, cells = n + 1, [[0, i + 1] for i in range(n)]
    else:  # isolated cells: n components
        nvt, cells = 2 * n, [[2 * i, 2 * i + 1] for i in range(n)]
    if reverse:
        cells = cells[::-1]
    return fmt_input(s, w, nvt, cells, list(range(n)) if sel is None else sel)


BOUNDARY_N = [127, 128, 129, 255, 256, 257, 1000, 1001]
BOUNDARY_N_BIG = [32767, 32768, 65535, 65536, 65537]


def gen_boundary_cases(rng, thorough):
    """-> (dist cases, run cases).  Sizes / counts at and around the C++ boundaries (see BOUNDARY NOTES); the
    'interesting' content sits at the high end: duplicates between the highest-numbered quads, the root / the small
    layers at the highest cell indices (reverse numbering), selected cells only among the highest indices."""
    dist, runs = [], []
    ws = [0, 1, 2, 3, 5, 8, 16, 17, 32, 63, 64, 65, 127, 128, 255, 256, 257, 1000, 65536]
    for n in BOUNDARY_N:
        # layers / components / cell indices around the boundary
        dist.append("dist " + strip_input(2, rng.choice([2, 64, 255, 256, 257]), n, "path"))
        dist.append("dist " + strip_input(3, rng.choice(ws), n, "path", reverse=True))
        dist.append("dist " + strip_input(4, rng.choice([2, 64, 255, 256, 257]), n, "path", reverse=rng.random() < 0.5))
        dist.append("dist " + strip_input(rng.choice([2, 3]), rng.choice(ws), n, "iso"))            # n components
        dist.append("dist " + strip_input(rng.choice([2, 4]), rng.choice(ws), n, "quad", reverse=rng.random() < 0.5))
        if n <= 257:
            dist.append("dist " + strip_input(4, rng.choice([2, 3, 64, n]), n, "star"))               # n colours, degree n
            dist.append("dist " + strip_input(2, rng.choice([2, 3, 64, n]), n, "star"))
        # only the highest cells selected (element mask / local numbering at the high end)
        hi = list(range(n - rng.choice([5, 9, 17]), n))
        dist.append("dist " + strip_input(rng.choice([2, 3, 4]), rng.choice([2, 3, 4, 64]), n, "quad", sel=hi))
    # requested worker counts 0,1,2,...,64,255,256,...: clamped (>= 2 but < requested) and not clamped
    for w in ws:
        dist.append("dist " + strip_input(rng.choice([2, 3]), w, 800, "path"))
        dist.append("dist " + strip_input(4, w, 600, "path"))
    # real runs with many threads (more than hardware_concurrency), actual = 255 / 256 / 257 and clamped counts
    for (s, w, n) in [(2, 255, 770), (2, 256, 770), (3, 300, 770), (2, 257, 800), (4, 255, 520), (4, 256, 520),
                      (4, 257, 520), (2, 64, 200), (4, 64, 130), (2, 1000, 400), (4, 65536, 129), (0, 256, 770)]:
        runs.append("run %s %d %d %d %d" % (strip_input(s, w, n, "path"), rng.choice([0, 1, 1]), rng.randrange(2), 2,
                                            rng.randrange(1, 1 << 30)))
    runs.append("run %s 1 1 2 %d 2 %d" % (strip_input(2, 256, 770, "path"), rng.randrange(1, 1 << 30), 769))   # throw at the last cell
    runs.append("run %s 1 1 2 %d 1 %d" % (strip_input(4, 256, 520, "path"), rng.randrange(1, 1 << 30), 519))
    runs.append("run %s 1 1 1 %d" % (strip_input(4, 3, 257, "star"), rng.randrange(1, 1 << 30)))                # 257 colours
    runs.append("run %s 1 1 1 %d" % (strip_input(2, 200, 257, "iso"), rng.randrange(1, 1 << 30)))               # 257 layers
    if thorough:
        for n in BOUNDARY_N:
            for k in ("path", "quad", "iso"):
                dist.append("dist " + strip_input(rng.choice([2, 3, 4]), rng.choice(ws), n, k, reverse=rng.random() < 0.5))
    return dist, runs


def gen_boundary_big(rng):
    """thorough: 32767 .. 65537 cells (each case < 1 s in the harness); judged by the oracle only - the Lean model's
    list code is quadratic and is not run at these sizes"""
    out = []
    for n in BOUNDARY_N_BIG:
        out.append("dist " + strip_input(2, rng.choice([4, 256]), n, "path"))
        out.append("dist " + strip_input(3, 4, n, "path", reverse=True))
        out.append("dist " + strip_input(4, rng.choice([4, 256]), n, "path", reverse=True))
        out.append("dist " + strip_input(rng.choice([2, 4]), 4, n, "quad"))
        if n <= 32768:
            out.append("dist " + strip_input(3, 256, n, "iso"))       # n components / layers
        out.append("dist " + strip_input(2, 3, n, "quad", sel=list(range(n - 9, n))))
    return out


def boundary_size_of(case):
    """size key for the evidence histogram"""
    t = case.split()
    return "cells:%s requested-workers:%s strategy:%s" % (t[4], t[2], t[1])


def describe_boundary(case):
    t = case.split()
    keys = ["cells:" + t[4], "requested-workers:" + t[2]]
    if t[0] in ("trace", "strace") and " | R " in case:
        keys.append("workers-used:" + case.split(" | R ")[1].split()[0])
    return keys


def gen_fjob_cases(rng, count):
    """real FEAT jobs (Laplace matrix / force vector / discrete function integral) on 1D meshes"""
    out = []
    while len(out) < count:
        kind, nvt, cells = gen_mesh(rng, n=rng.choice([1, 2, 3, 5, 8, 9, 12, 16, 20, 24, 32, 48]))
        if any(len(c) != 2 for c in cells):
            continue
        cells = [sorted(c) for c in cells]
        sel = gen_subset(rng, len(cells))
        s = rng.choice([0, 2, 2, 3, 4, 4])
        w = rng.choice([0, 1, 2, 2, 3, 4, 5, 8, len(sel) + 2])
        out.append("fjob %s %d %d %d" % (fmt_input(s, w, nvt, cells, sel), rng.randrange(3), rng.choice([1, 2, 3]),
                                         rng.randrange(1 << 30)))
    return out


def oracle_fjob(case, out):
    c = Tk(case.split(), 1)
    s, w, nvt, cells, sel = c.input()
    kind, reps, pseed = c.nat(), c.nat(), c.nat()
    if is_abnormal(out) or not out.startswith("J "):
        return "real FEAT job %d with strategy %d, %d requested workers on %d cells ended with %s" % (kind, s, w, len(sel), out[:80])
    exact = {}

    def add(i, j, v):
        exact[(i, j)] = exact.get((i, j), Fraction(0)) + v
    for cidx in sel:
        a, b = cells[cidx]
        h = Fraction(b - a)
        if kind == 0:
            add(a, a, 1 / h), add(b, b, 1 / h), add(a, b, -1 / h), add(b, a, -1 / h)
        elif kind == 1:
            add(a, 0, 3 * h / 2), add(b, 0, 3 * h / 2)
        else:
            add(0, 0, h * (a + 1 + b + 1) / 2)
    try:
        t = out.split()
        nw, nrep = int(t[1]), int(t[2])
        p = 3
        for r in range(nrep):
            n = int(t[p]); p += 1
            got = {}
            for _ in range(n):
                i, j, v = int(t[p]), int(t[p + 1]), float(t[p + 2]); p += 3
                got[(i, j)] = got.get((i, j), 0.0) + v
            for key in set(got) | set(exact):
                e = exact.get(key, Fraction(0))
                g = got.get(key, 0.0)
                if abs(Fraction(g) - e) > Fraction(1, 10 ** 10) * (1 + abs(e)):
                    return "job %d, entry %s: threaded result %r, single-threaded exact value %s" % (r, key, g, e)
        if nrep != reps or p != len(t):
            return "malformed output"
    except (IndexError, ValueError) as e:
        return "unparsable output (%s)" % e
    return None


def describe_fjob(case):
    t = case.split()
    return ["strategy:" + t[1], "feat-job:" + {"0": "laplace-matrix", "1": "force-vector", "2": "function-integral"}[t[-3]]]


def path_input(s, w, n, sel=None):
    return fmt_input(s, w, n + 1, [[i, i + 1] for i in range(n)], list(range(n)) if sel is None else sel)


CORPUS_DIST = [
    # configurations that used to abort (fixed in /repo): zero workers / exactly one worker
    "dist " + path_input(2, 1, 1),
    "dist " + path_input(2, 3, 2),
    "dist " + path_input(3, 1, 5),
    "dist " + path_input(2, 2, 5),
    "dist " + path_input(4, 1, 6),
    "dist " + path_input(4, 7, 1),
    "dist " + path_input(0, 1, 4),
    "dist " + path_input(2, 4, 12, [0, 1, 2, 7, 8, 9, 10, 11]),
    # skewed layer sizes: step 1 overshoots the number of layers, the backward sweep repairs it
    "dist " + fmt_input(2, 3, 30, [[0, 1], [1, 2], [2, 3], [3, 4], [4, 5], [5, 6], [6, 7]] + [[7, 8 + i] for i in range(20)],
                        list(range(27))),
]
CORPUS_RUN = [
    # colours with fewer cells than workers: a worker with an empty share must still do the colour's fence handshake
    "run " + path_input(4, 3, 5) + " 1 1 2 71",
    "run " + path_input(4, 4, 7) + " 1 0 3 73",
    "run " + fmt_input(4, 3, 6, [[0, 1], [0, 2], [0, 3], [4, 5], [3, 4]], [0, 1, 2, 3, 4]) + " 1 1 2 79",
    # error path: the first job's task throws (assemble / scatter / finish / combine), the following jobs are normal
    "run " + path_input(2, 3, 12) + " 1 1 3 43 1 9",
    "run " + path_input(2, 3, 12) + " 1 1 2 47 2 4",
    "run " + path_input(3, 4, 16) + " 1 1 2 53 3 0",
    "run " + path_input(4, 3, 12) + " 1 1 3 59 2 4",
    "run " + path_input(4, 3, 12) + " 1 1 2 61 4 7",
    "run " + path_input(2, 2, 9) + " 1 1 2 67 4 8",
    # repeated jobs on one assembler (fences persist: a layered job leaves them open, the next job must re-close them)
    "run " + path_input(2, 3, 12) + " 1 1 4 29",
    "run " + path_input(2, 3, 12) + " 2 2 5 31",
    "run " + path_input(4, 3, 12) + " 2 1 4 37",
    "run " + path_input(3, 4, 16) + " 2 2 3 41",
    # F-C17-1 (fixed in /repo, 19866811e): colored + job without scatter + >= 2 workers used to deadlock
    "run 4 3 9 8 2 0 1 2 1 2 2 2 3 2 3 4 2 4 5 2 5 6 2 6 7 2 7 8 8 0 1 2 3 4 5 6 7 0 1 1 5",
    "run " + path_input(4, 2, 14) + " 0 1 2 183796311",
    "run " + path_input(4, 6, 9, [1, 3, 5, 7]) + " 0 0 1 576524399",
    "run " + path_input(2, 1, 1) + " 1 1 2 7",
    "run " + path_input(2, 2, 5) + " 1 1 2 7",
    "run " + path_input(3, 1, 6) + " 1 1 1 7",
    "run " + path_input(2, 2, 8) + " 1 1 3 11",
    "run " + path_input(3, 3, 12) + " 1 1 2 13",
    "run " + path_input(4, 3, 8) + " 1 1 2 17",
    "run " + path_input(4, 1, 8) + " 1 0 1 17",
    "run " + path_input(2, 4, 16) + " 0 1 2 19",
    "run " + path_input(0, 5, 20) + " 1 1 1 23",
]


# ---------------------------------------------------------------------------------------------
# independent oracle
# ---------------------------------------------------------------------------------------------

class Tk:
    def __init__(self, toks, p=0):
        self.t = toks
        self.p = p

    def tok(self):
        self.p += 1
        return self.t[self.p - 1]

    def nat(self):
        return int(self.tok())

    def lst(self):
        n = self.nat()
        return [self.nat() for _ in range(n)]

    def input(self):
        s, w, nvt, nc = self.nat(), self.nat(), self.nat(), self.nat()
        cells = [self.lst() for _ in range(nc)]
        sel = self.lst()
        return s, w, nvt, cells, sel


def is_abnormal(out):
    return out.split(":")[0] in ("ABORT", "EXC", "TIMEOUT", "SIGNAL", "SANITIZER", "EXIT") or \
        out.startswith("BAD-OP") or out.startswith("REJECT") or out == ""


def adjacent(cells, a, b):
    return bool(set(cells[a]) & set(cells[b]))


def check_offsets(offs, total, what, strict=True):
    if not offs or offs[0] != 0 or offs[-1] != total:
        return "%s offsets %s do not span 0..%d" % (what, offs, total)
    for i in range(len(offs) - 1):
        if offs[i] > offs[i + 1] or (strict and offs[i] == offs[i + 1]):
            return "%s offsets %s not increasing" % (what, offs)
    return None


def resolve_strategy(s, w):
    return (1 if w <= 1 else 2) if s == 0 else s


def oracle_dist(case, out):
    c = Tk(case.split(), 1)
    s, w, nvt, cells, sel = c.input()
    if is_abnormal(out):
        return "compile() with strategy %d and %d requested workers on %d cells ended with %s" % (s, w, len(sel), out)
    try:
        o = Tk(out.split())
        assert o.tok() == "D"
        rs, nw, nf = o.nat(), o.nat(), o.nat()
        ei, le, tl, ce = o.lst(), o.lst(), o.lst(), o.lst()
    except (IndexError, ValueError, AssertionError) as e:
        return "unparsable implementation output (%s): %s" % (e, out[:200])
    if sorted(ei) != sorted(sel):
        return "element list %s is not the selected cell set %s (every selected cell exactly once)" % (ei, sel)
    if not sel:
        return None if nw == 0 else "workers without elements"
    if rs != resolve_strategy(s, w):
        return "strategy resolved to %d" % rs
    if nw > w:
        return "%d workers used, %d requested" % (nw, w)
    if nw == 1:
        return "exactly one worker thread: its worker would run the master-only function"
    if nf != nw + 2:
        return "%d fences for %d workers" % (nf, nw)
    if rs in (2, 3) and w >= 1:
        e = check_offsets(le, len(ei), "layer")
        if e:
            return e
        layer_of = {}
        for l in range(len(le) - 1):
            for p in range(le[l], le[l + 1]):
                layer_of[ei[p]] = l
        at_vertex = {}
        for a in sel:
            for v in cells[a]:
                at_vertex.setdefault(v, []).append(a)
        for v, lst in at_vertex.items():
            lo = min(lst, key=lambda x: layer_of[x])
            hi = max(lst, key=lambda x: layer_of[x])
            if layer_of[hi] - layer_of[lo] > 1:
                return "vertex-adjacent cells %d and %d lie in layers %d and %d" % (lo, hi, layer_of[lo], layer_of[hi])
        if rs == 3:
            for l in range(len(le) - 1):
                seg = ei[le[l]:le[l + 1]]
                if seg != sorted(seg):
                    return "layer %d of the sorted strategy is not sorted" % l
        if nw >= 2:
            if len(tl) != nw + 1 or tl[0] != 0 or tl[-1] != len(le) - 1:
                return "thread layers %s do not span the %d layers for %d workers" % (tl, len(le) - 1, nw)
            for i in range(nw):
                if tl[i + 1] < tl[i] + 2:
                    return "thread %d has fewer than two layers: %s" % (i + 1, tl)
    if rs == 4 and w >= 1:
        e = check_offsets(ce, len(ei), "colour")
        if e:
            return e
        colour_of = {}
        for k in range(len(ce) - 1):
            for a in ei[ce[k]:ce[k + 1]]:
                colour_of[a] = k
        seen_cv = {}
        for a in sel:
            for v in set(cells[a]):
                key = (colour_of[a], v)
                if key in seen_cv:
                    return "vertex-adjacent cells %d and %d share colour %d" % (seen_cv[key], a, colour_of[a])
                seen_cv[key] = a
        if nw > max(ce[k + 1] - ce[k] for k in range(len(ce) - 1)):
            return "more workers than cells in the largest colour"
    return None


def parse_trace(case):
    """-> (input tuple, ns, ncb, reps, pseed, impl tokens after '|'); parse_trace.specs = [(ns, ncb, fail|None)] per
    job, parse_trace.fail = failure spec of the first job (run cases)"""
    t = case.split()
    c = Tk(t, 1)
    inp = c.input()
    if t[0] == "strace":
        pseed, nj = c.nat(), c.nat()
        specs = []
        for _ in range(nj):
            a, b, fw, fc = c.nat(), c.nat(), c.nat(), c.nat()
            specs.append((bool(a), bool(b), (fw, fc) if fw else None))
        assert c.tok() == "|"
        parse_trace.specs = specs
        parse_trace.fail = next((f for (_, _, f) in specs if f), None)
        return inp, 3, 3, nj, pseed, t[c.p:]
    ns, ncb, reps, pseed = c.nat(), c.nat(), c.nat(), c.nat()
    bar = c.tok()
    fail = None
    if bar != "|":
        fail = (int(bar), c.nat())
        if fail[0] == 0:
            fail = None
        bar = c.tok()
    assert bar == "|"
    parse_trace.fail = fail
    parse_trace.specs = [((r % 2 == 0) if ns == 2 else bool(ns), (r % 2 == 0) if ncb == 2 else bool(ncb),
                          fail if r == 0 else None) for r in range(reps)]
    return inp, ns, ncb, reps, pseed, t[c.p:]


def parse_reps(toks):
    o = Tk(toks)
    assert o.tok() == "R"
    nw, reps = o.nat(), o.nat()
    out = []
    for _ in range(reps):
        nseq = o.nat()
        seqs = [o.lst() for _ in range(nseq)]
        vec = o.lst()
        integral, ncomb, hooks, nev = o.nat(), o.nat(), o.nat(), o.nat()
        evs = [(o.nat(), o.nat(), o.nat()) for _ in range(nev)]
        out.append((seqs, vec, integral, ncomb, hooks, evs))
    if o.p != len(toks):
        raise ValueError("trailing tokens")
    return nw, out


def scan_events(cells, evs):
    """overlap scan; returns (error or None, observed a temporal overlap of two scatters)"""
    active = {}
    comb = None
    overlapped = False
    for k, (kind, t, a) in enumerate(evs):
        if kind == 3:
            if t in active:
                return "thread %d enters scatter twice" % t, overlapped
            for t2, c2 in active.items():
                overlapped = True
                if adjacent(cells, a, c2):
                    return "event %d: thread %d scatters cell %d while thread %d scatters the vertex-adjacent cell %d" % (
                        k, t, a, t2, c2), overlapped
            active[t] = a
        elif kind == 4:
            if active.get(t) != a:
                return "event %d: scatter leave without enter" % k, overlapped
            del active[t]
        elif kind == 5:
            if comb is not None:
                return "event %d: threads %d and %d are inside combine() at the same time" % (k, comb, t), overlapped
            comb = t
        elif kind == 6:
            if comb != t:
                return "event %d: combine leave without enter" % k, overlapped
            comb = None
        elif kind == 13:
            # the task threw: the thread leaves whatever critical section it was in
            active.pop(t, None)
            if comb == t:
                comb = None
    if active or comb is not None:
        return "log ends inside a critical section", overlapped
    return None, overlapped


def blocked_waits(evs):
    """number of fence waits (hook H2 log) that began before the fence was opened"""
    pending = {}
    n = 0
    for kind, t, a in evs:
        if kind == 10:
            pending[(t, a)] = False
        elif kind == 0:
            for key in pending:
                if key[1] == a and key[0] != t:
                    pending[key] = True
        elif kind == 1:
            if pending.pop((t, a), False):
                n += 1
    return n


def oracle_trace(case, out):
    try:
        (s, w, nvt, cells, sel), ns, ncb, reps, pseed, impl = parse_trace(case)
    except (IndexError, ValueError, AssertionError) as e:
        return "unparsable trace case (%s)" % e
    head = impl[0] if impl else ""
    if head != "R":
        return "assemble() with strategy %d, %d requested workers, %d cells ended with %s" % (s, w, len(sel), " ".join(impl)[:80])
    try:
        nw, runs = parse_reps(impl)
    except (IndexError, ValueError, AssertionError) as e:
        return "unparsable run output (%s)" % e
    if len(runs) != len(parse_trace.specs):
        return "number of repetitions differs"
    specs = parse_trace.specs
    open_fences = set()       # state of the assembler's fences, carried from job to job (hook H2 log)
    seen_results = {}         # history independence: the same job type gives the same result at every position
    for r, (seqs, vec, integral, ncomb, hooks, evs) in enumerate(runs):
        ns, ncb, fail = specs[r]
        exp_vec = [0] * nvt
        if ns:
            for cidx in sel:
                for k, v in enumerate(cells[cidx]):
                    exp_vec[v] += (cidx + 1) * (k + 1)
        exp_int = sum(7 * (cidx + 1) for cidx in sel) if ncb else 0
        failing = fail is not None
        # every job must start its protocol with all fences closed, whatever the previous job left open
        started = False
        for (k, t, a) in evs:
            if k in (8, 10):
                continue
            if not started and not (k == 2 and t == 0):
                started = True
                if open_fences:
                    return "job %d starts its protocol while fence(s) %s are still open from the previous job" % (
                        r, sorted(open_fences))
            if k in (0, 11):
                open_fences.add(a)
            elif k == 2:
                open_fences.discard(a)
        done = sorted(x for q in seqs for x in q)
        if failing:
            # error path: the job has terminated (we have its output); nothing may be assembled twice or outside the
            # selection, the critical sections stay exclusive; the partial results are not specified
            if len(set(done)) != len(done) or not set(done) <= set(sel):
                return "repetition %d (failing job): assembled cells %s" % (r, done)
            if not any(k == 13 for (k, t, a) in evs) and fail[1] in sel and fail[0] != 4:
                return "repetition %d: the injected failure at cell %d was never reached, but the job ended" % (r, fail[1])
            err, _ = scan_events(cells, evs)
            if err:
                return "repetition %d (failing job): %s" % (r, err)
            continue
        if done != sorted(sel):
            return "repetition %d: assembled cells %s, selected %s (every selected cell exactly once)" % (r, done, sorted(sel))
        # combine() must run under `_thread_mutex` on worker threads: observed by the try_lock probe (event kind 14)
        if nw >= 1:
            for (k, t, a) in evs:
                if k == 14 and a == 0:
                    return "repetition %d: thread %d runs the body of combine() without holding the assembler's mutex" % (r, t)
        key = (ns, ncb)
        if seen_results.setdefault(key, (vec, integral, ncomb)) != (vec, integral, ncomb):
            return "repetition %d: the same job gives a different result than at an earlier position of the session" % r
        if vec != exp_vec:
            return "repetition %d: assembled vector %s differs from the single-threaded one %s" % (r, vec, exp_vec)
        if integral != exp_int:
            return "repetition %d: combined integral %d, single-threaded %d" % (r, integral, exp_int)
        if sel and ncomb != ((max(nw, 1)) if ncb else 0):
            return "repetition %d: combine() called %d times for %d workers" % (r, ncomb, nw)
        if sel and len(seqs) != max(nw, 1):
            return "repetition %d: %d threads assembled, %d workers" % (r, len(seqs), nw)
        err, _ = scan_events(cells, evs)
        if err:
            return "repetition %d: %s" % (r, err)
        scat = sorted(a for (k, t, a) in evs if k == 3)
        if scat != (sorted(sel) if ns else []):
            return "repetition %d: scattered cells %s" % (r, scat)
    return None


def oracle_tsan(case, out):
    if is_abnormal(out) or not out.startswith("R "):
        return "assemble() under ThreadSanitizer ended with %s" % out[:80]
    return oracle_trace(("strace " + case[8:] if case.startswith("session ") else "trace " + case[4:]) + " | " + out, out)


def nontrivial_dist(case):
    c = Tk(case.split(), 1)
    s, w, nvt, cells, sel = c.input()
    return w >= 1 and len(sel) >= 1 and s != 1


def nontrivial_trace(case):
    try:
        _, _, _, _, _, impl = parse_trace(case)
        return impl[0] == "R" and int(impl[1]) >= 2
    except Exception:
        return False


def bucket(n):
    for lim, name in ((0, "0"), (1, "1"), (4, "2-4"), (16, "5-16"), (64, "17-64")):
        if n <= lim:
            return name
    return "65+"


def describe_dist(case):
    c = Tk(case.split(), 1)
    s, w, nvt, cells, sel = c.input()
    return ["strategy:%d" % s, "cells-selected:" + bucket(len(sel)), "shape-verts:%d" % (len(cells[0]) if cells else 0),
            "subset:" + ("all" if len(sel) == len(cells) else "empty" if not sel else "partial"),
            "workers:" + ("0" if w == 0 else "1" if w == 1 else ">cells" if w > len(sel) else "2..cells")]


def describe_trace(case):
    try:
        (s, w, nvt, cells, sel), ns, ncb, reps, pseed, impl = parse_trace(case)
        keys = ["strategy:%d" % s, "session" if ns == 3 else "scatter:%s combine:%s" % ("alt" if ns == 2 else ns, "alt" if ncb == 2 else ncb),
                "jobs-per-assembler:%d" % reps, "cells-selected:" + bucket(len(sel))]
        if impl and impl[0] == "R":
            nw, runs = parse_reps(impl)
            keys.append("workers-used:%d" % nw if nw < 5 else "workers-used:5+")
            keys.append("hooks:%d" % runs[0][4] if runs else "hooks:?")
            if any(scan_events(cells, r[5])[1] for r in runs):
                keys.append("two-scatters-overlapped-in-time")
            if parse_trace.fail:
                keys.append("task-throws-in:" + {1: "assemble", 2: "scatter", 3: "finish", 4: "combine"}[parse_trace.fail[0]])
                if any(k == 12 for r in runs for (k, t, a) in r[5]):
                    keys.append("okay=false-cascaded-through-a-fence-wait")
            if s == 4 and nw >= 2:
                # a colour with fewer cells than workers: some worker has an EMPTY share but still does the handshake
                for r in runs:
                    rounds, cur = [], None
                    for (k, t, a) in r[5]:
                        if k == 0 and t == 0 and a == 0:
                            cur = set()
                            rounds.append(cur)
                        elif k == 3 and cur is not None:
                            cur.add(t)
                    if any(len(x) < nw for x in rounds):
                        keys.append("colour-with-fewer-cells-than-workers")
                        break
            if any(k == 14 and a == 1 for r in runs for (k, t, a) in r[5]):
                keys.append("combine-under-mutex-observed")
            if any(blocked_waits(r[5]) for r in runs):
                keys.append("fence-wait-blocked")
        return keys
    except Exception:
        return ["unparsable"]


def signature(case, out, why):
    t = case.split()
    return "%s:%s" % (t[0], (why or "")[:40])


def canon(out):
    return "ABORT" if out.startswith("ABORT:") else out


# ---------------------------------------------------------------------------------------------

TLC_INSTANCES = [
    # (machine, n, comb, lists): small instances explored exhaustively by the Lean driver AND by TLC
    ("L", 2, True, ([0, 1, 2, 3, 4, 5], [0, 2, 5])),
    ("L", 2, False, ([0, 2, 3, 5, 6, 9], [0, 3, 5])),
    ("L", 3, True, ([0, 1, 3, 4, 6, 7, 8, 9, 10], [0, 2, 5, 8])),
    ("C", 2, True, ([0, 3, 5],)),
    ("C", 3, False, ([0, 4, 6],)),
    ("C", 3, True, ([0, 1, 4],)),
]


def tlc_crosscheck():
    """supporting evidence (not a proof): the hand-written TLA+ translations tla/c17/*.tla of the Lean protocol
    machines have exactly as many reachable states and transitions as the Lean machines (driver op `explore`), and TLC
    confirms the invariants Safe, CombineMutex, deadlock-freedom and termination under weak fairness.
    -> (list of result dicts, error text or None)"""
    import shutil
    import subprocess
    import tempfile
    if shutil.which("tlc") is None:
        return [], None
    lines = []
    for m, n, comb, lists in TLC_INSTANCES:
        lines.append("explore %s %d %d %s" % (m, n, int(comb), " ".join("%d %s" % (len(l), " ".join(map(str, l))) for l in lists)))
    lean = vlib.run_lines(vlib.driver_cmd(PROP), lines, jobs=1)
    res, err = [], None
    src = os.path.join(vlib.VERIF, "tla", "c17")
    for (m, n, comb, lists), lo in zip(TLC_INSTANCES, lean):
        t = lo.split()
        if len(t) != 5 or t[0] != "X":
            return res, "driver explore failed: " + lo
        states, trans, fin, dead = map(int, t[1:])
        tmp = tempfile.mkdtemp(prefix="c17tlc", dir=os.path.join(vlib.BUILD, "tmp") if os.path.isdir(os.path.join(vlib.BUILD, "tmp")) else None)
        try:
            mod = "C17Layered" if m == "L" else "C17Colored"
            shutil.copy(os.path.join(src, mod + ".tla"), tmp)
            seqs = ["<<%s>>" % ", ".join(map(str, l)) for l in lists]
            names = ["Le", "Tl"] if m == "L" else ["Ce"]
            with open(os.path.join(tmp, "MC.tla"), "w") as f:
                f.write("---- MODULE MC ----\nEXTENDS %s\n%s\n====\n" % (
                    mod, "\n".join("c%s == %s" % (nm, sq) for nm, sq in zip(names, seqs))))
            with open(os.path.join(tmp, "MC.cfg"), "w") as f:
                f.write("SPECIFICATION Spec\nCONSTANTS\n  n = %d\n  Comb = %s\n%s\nINVARIANTS Safe CombineMutex\nPROPERTY Terminates\n" % (
                    n, "TRUE" if comb else "FALSE", "\n".join("  %s <- c%s" % (nm, nm) for nm in names)))
            r = subprocess.run(["tlc", "-workers", "2", "-config", "MC.cfg", "MC.tla"], cwd=tmp, stdout=subprocess.PIPE,
                               stderr=subprocess.STDOUT, text=True, timeout=600)
            mt = None
            for ln in r.stdout.split("\n"):
                mm = __import__("re").match(r"(\d+) states generated (\d+) distinct states found 0 states left", ln.replace(",", ""))
                if mm:
                    mt = (int(mm.group(1)), int(mm.group(2)))
            ok = "No error has been found" in r.stdout
            item = {"machine": m, "n": n, "comb": comb, "lean_states": states, "lean_transitions": trans,
                    "lean_deadlocks": dead, "tlc": mt, "tlc_no_error": ok}
            res.append(item)
            if not ok or mt is None or mt[1] != states or mt[0] != trans + 1 + fin or dead != 0:
                err = "TLC cross-check differs: %s\n%s" % (item, r.stdout[-1500:])
                break
        finally:
            shutil.rmtree(tmp, ignore_errors=True)
    return res, err


def record_runs(binary, run_cases, env):
    """pre-pass: execute the runs, glue case and recorded output into `trace` lines"""
    outs = vlib.run_lines([binary], run_cases, env=env)
    return [("strace " + rc[8:] if rc.startswith("session ") else "trace " + rc[4:]) + " | " + o
            for rc, o in zip(run_cases, outs)]


def main(argv):
    args = vlib.std_args(argv)
    t0 = time.time()
    rng = random.Random(args.seed * 1000003 + 17)
    thorough = args.tier == "thorough"
    lean = None if args.no_lean else vlib.lean_check(PROP, leanchecker=thorough)
    binary, err = vlib.build_harness("c17", SRC, extra_flags=("-pthread",), extra_srcs=SRC2)
    if binary is None:
        v = [{"property": PROP, "kind": "harness-build-failure", "detail": err, "failing_input": None,
              "broken": "harness c17 does not compile against the current tree"}]
        return vlib.finish(PROP, args.tier, args.seed, t0, lean, [], [], v, [])
    env = {"VERIF_CASE_TIMEOUT": os.environ.get("VERIF_CASE_TIMEOUT", "10"), "TSAN_OPTIONS": "halt_on_error=1:abort_on_error=1:report_signal_unsafe=0"}
    tsan_cases = []
    if args.replay:
        line = json.load(open(args.replay))["input"]
        if line.startswith("dist"):
            dist_cases, run_cases, recorded = [line], [], []
        elif line.startswith("trace"):
            # the recorded log, plus fresh executions of the same configuration under new schedules
            base = line.split(" | ")[0].split()
            cur = Tk(base, 1)
            cur.input()
            rest = base[cur.p:]          # ns ncb reps pseed [fwhere fcell]
            run_cases = ["run " + " ".join(base[1:cur.p] + rest[:3] + [str(int(rest[3]) + k)] + rest[4:])
                         for k in range(1, 33)]
            dist_cases, recorded = [], [line]
        else:
            dist_cases, run_cases, recorded = [], [line], []
    else:
        dist_cases = CORPUS_DIST + gen_dist_cases(rng, 80000 if thorough else 8000, thorough)
        run_cases = CORPUS_RUN + gen_run_cases(rng, 40000 if thorough else 4000) + \
            gen_session_cases(rng, 8000 if thorough else 800)
        recorded = []
        if thorough:
            tsan_cases = CORPUS_RUN + gen_run_cases(rng, 4000) + gen_session_cases(rng, 800)
    pre_violation = None
    try:
        traces = recorded + record_runs(binary, run_cases, env)
    except Exception as e:
        traces = recorded
        pre_violation = str(e)
    streams = [
        vlib.Stream("dist", dist_cases, [binary], vlib.driver_cmd(PROP), oracle=oracle_dist, nontrivial=nontrivial_dist,
                    describe=describe_dist, signature=signature, canon=canon, env=env),
        vlib.Stream("trace", traces, [binary], vlib.driver_cmd(PROP), oracle=oracle_trace, nontrivial=nontrivial_trace,
                    describe=describe_trace, signature=signature, env=env),
    ]
    if not args.replay:
        b_dist, b_runs = gen_boundary_cases(rng, thorough)
        streams.append(vlib.Stream("boundary-sizes-dist", b_dist, [binary], vlib.driver_cmd(PROP), oracle=oracle_dist,
                                   nontrivial=nontrivial_dist, describe=describe_boundary, signature=signature,
                                   canon=canon, env=env))
        if thorough:
            streams.append(vlib.Stream("boundary-sizes-big", gen_boundary_big(rng), [binary], None, oracle=oracle_dist,
                                       nontrivial=nontrivial_dist, describe=describe_boundary, signature=signature,
                                       canon=canon, env=env))
        try:
            b_traces = record_runs(binary, b_runs, env)
        except Exception as e:
            b_traces = []
            pre_violation = (pre_violation or "") + "\nboundary runs failed: %s" % e
        streams.append(vlib.Stream("boundary-sizes-trace", b_traces, [binary], vlib.driver_cmd(PROP), oracle=oracle_trace,
                                   nontrivial=nontrivial_trace, describe=describe_boundary, signature=signature, env=env))
        fj = gen_fjob_cases(rng, 6000 if thorough else 800)
        streams.append(vlib.Stream("featjobs", fj, [binary], None, oracle=oracle_fjob,
                                   nontrivial=lambda cs: int(cs.split()[2]) >= 2, describe=describe_fjob,
                                   signature=signature, env=env))
    if tsan_cases:
        tsan_bin, err = vlib.build_harness("c17-tsan", SRC, opt=("-O1", "-g"), extra_flags=("-fsanitize=thread", "-pthread"),
                                           extra_srcs=SRC2)
        if tsan_bin is None:
            pre_violation = (pre_violation or "") + "\nTSan harness does not build: " + err
        else:
            streams.append(vlib.Stream("tsan", tsan_cases, [tsan_bin], None, oracle=oracle_tsan, nontrivial=None,
                                       describe=None, signature=signature, env=env))
            streams.append(vlib.Stream("tsan-featjobs", gen_fjob_cases(rng, 1500), [tsan_bin], None, oracle=oracle_fjob,
                                       nontrivial=None, describe=describe_fjob, signature=signature, env=env))
    tlc_res = []
    if thorough and not args.replay:
        try:
            tlc_res, tlc_err = tlc_crosscheck()
        except Exception as e:
            tlc_res, tlc_err = [], "TLC cross-check could not run: %s" % e
        if tlc_err:
            pre_violation = (pre_violation or "") + "\n" + tlc_err
    if pre_violation:
        # make the failure visible through the pipeline: an unrunnable stream is a harness failure
        streams.append(vlib.Stream("record-runs", ["run-prepass-failed"], ["/bin/false"], None))
        vlib.log(pre_violation)
    rule = ("dist: meshes of 1..64 (thorough: ..256) cells - 1D paths/cycles/stars/random/disconnected, triangles, quad grids/"
            "strips/random quads, shuffled numberings; subsets all/random/alternating/blocks/single/empty; workers 0..cells+2;"
            " strategies automatic/single/layered/layered_sorted/colored; non-trivial = workers >= 1, strategy != single, "
            ">= 1 cell. trace: recorded real assemble() runs (1-5 jobs per assembler, jobs with/without scatter and combine "
            "also alternating on one assembler, seeded yields/sleeps and slow-starting threads, in 1 of 5 scatter runs the "
            "first job's task throws in assemble/scatter/finish/combine); the complete hook-H2 log (fence open/wait/close "
            "with their okay flag, scatter, combine, throw) of every job is replayed on the Lean machines starting from "
            "the fence vector the previous job left, the combine stage on the refined machines (lock / body / unlock); "
            "sessions: explicit job sequences on one assembler (the same job as 2nd, 4th, 5th after a no-scatter warm-up "
            "and a throwing job; random sequences); non-trivial = >= 2 worker threads actually used. featjobs: real FEAT "
            "Laplace-matrix / force-vector / function-integral jobs on 1D meshes vs exact rational values")
    return vlib.run_pipeline(PROP, args.tier, args.seed, lean, streams, t0, assumptions=[
        "Index modelled as unbounded Nat",
        "protocol steps are sequentially consistent atomic actions (C++ memory model, std::thread, condition variable "
        "semantics not modelled; ThreadSanitizer observes the real ones in the thorough tier)",
        "fairness: every runnable thread is eventually scheduled and a thread blocked in ThreadFence::wait() returns "
        "once the fence is open (no lost wake-up of std::condition_variable); under it every real run is a maximal run of "
        "the model, which is finite and ends in the final state (variant-function theorems)",
        "the mutex probe (try_lock from the owning thread must fail) relies on glibc's non-recursive default mutex; it "
        "is compiled out of the ThreadSanitizer build; it is the only observation of the combine lock (a scope-object hook "
        "would also log 'acquired' for a dead temporary lock)",
        "error path: a throwing task is modelled at the points where task code runs (constructor, prepare/assemble/"
        "finish between scatters, scatter, combine); results of a failing job are unspecified, only termination, "
        "exclusion and recovery of the following jobs are judged",
        "hook H2 (kernel/util/thread.hpp, guard FEAT_VERIF_HOOKS) logs every fence open / wait return / close, so the "
        "whole log is replayed step by step; if the hook were absent the validator would take the fence transitions of "
        "the model eagerly between the logged scatter/combine events"],
        extra_cov={"rule": rule, "tlc_crosscheck_supporting_only": tlc_res,
                   "runtime_clauses": {
                       "no data race (C++ memory model)": "RUNTIME clause, not proved: observed by ThreadSanitizer in the "
                       "thorough tier (streams tsan, tsan-featjobs: instrumented and real FEAT jobs, sessions, injected "
                       "task failures); the Lean theorems assume sequentially consistent atomic steps",
                       "combine() under _thread_mutex": "proved on the refined machines (xstep) and observed per run by the "
                       "instrumented job's try_lock probe inside combine()"}})
