"""C19 - graph, permutation, colouring and ordering tools meet their definitions."""
import json
import os
import random
import time
from collections import Counter

import vlib

PROP = "C19"


# ---------------------------------------------------------------------------------------------
# generators
# ---------------------------------------------------------------------------------------------

def gen_graph(rng, n_dom=None, n_img=None, square=False, symmetric=False, max_n=12, multi=False):
    n_dom = rng.choice([0, 1, 1, 2, 3, 4, 5, 6, 8, max_n]) if n_dom is None else n_dom
    n_img = n_dom if square else (rng.choice([0, 1, 2, 3, 4, 5, 7, max_n]) if n_img is None else n_img)
    style = rng.choice(["empty", "sparse", "sparse", "dense", "dups", "components"])
    adj = [[] for _ in range(n_dom)]
    if n_img > 0 and n_dom > 0:
        if style == "sparse":
            for i in range(n_dom):
                if rng.random() < 0.3:
                    continue
                adj[i] = [rng.randrange(n_img) for _ in range(rng.randrange(0, 4))]
        elif style == "dense":
            for i in range(n_dom):
                adj[i] = [j for j in range(n_img) if rng.random() < 0.7]
                rng.shuffle(adj[i])
        elif style == "dups":
            for i in range(n_dom):
                adj[i] = [rng.randrange(n_img) for _ in range(rng.randrange(0, 7))]
        elif style == "components":
            for i in range(n_dom):
                lo = (i // 3) * 3
                cand = [j for j in range(lo, min(lo + 3, n_img))]
                adj[i] = [j for j in cand if rng.random() < 0.6]
    if symmetric:
        # undirected simple graph (needed by the colouring / CM specs), isolated nodes allowed
        s = [set() for _ in range(n_dom)]
        for i in range(n_dom):
            for j in adj[i]:
                if j < n_dom and j != i:
                    s[i].add(j)
                    s[j].add(i)
        adj = [sorted(x) for x in s]
        if rng.random() < 0.5:
            for x in adj:
                rng.shuffle(x)
        if rng.random() < 0.3:  # self loops / diagonal like in matrix graphs
            adj = [x + [i] for i, x in enumerate(adj)]
        if multi and rng.random() < 0.3:  # repeated adjacencies (non-injective render), symmetric as a relation
            adj = [x * rng.choice([1, 2, 3]) for x in adj]
    return n_img, adj


def fmt_graph(n_img, adj):
    return "%d %d %s" % (n_img, len(adj), " ".join("%d %s" % (len(l), " ".join(map(str, l))) if l else "0" for l in adj)) \
        if adj else "%d 0" % n_img


def fmt_list(l):
    return ("%d " % len(l) + " ".join(map(str, l))).strip()


def rand_perm(rng, n):
    p = list(range(n))
    rng.shuffle(p)
    return p


def structured_perm(rng, n):
    """permutations with structure random ones almost never have: fixed tails/heads, involutions, short cycles"""
    k = rng.choice(["id", "tailfix", "headfix", "transp", "rev", "cycle", "involution", "random"])
    p = list(range(n))
    if k == "tailfix" and n >= 2:
        m = rng.randrange(1, n)
        q = p[:m]
        rng.shuffle(q)
        p = q + p[m:]
    elif k == "headfix" and n >= 2:
        m = rng.randrange(1, n)
        q = p[m:]
        rng.shuffle(q)
        p = p[:m] + q
    elif k == "transp" and n >= 2:
        i, j = rng.sample(range(n), 2)
        p[i], p[j] = p[j], p[i]
    elif k == "rev":
        p.reverse()
    elif k == "cycle" and n >= 2:
        m = rng.randrange(2, n + 1)
        p = p[1:m] + p[:1] + p[m:]
    elif k == "involution":
        idx = list(range(n))
        rng.shuffle(idx)
        for a in range(0, n - 1, 2):
            if rng.random() < 0.6:
                i, j = idx[a], idx[a + 1]
                p[i], p[j] = p[j], p[i]
    elif k == "random":
        rng.shuffle(p)
    return p


def exhaustive_perm_cases():
    """all permutations / pairs of permutations of length <= 4 through every permutation operation"""
    import itertools
    out = []
    for n in (1, 2, 3, 4):
        perms = [list(q) for q in itertools.permutations(range(n))]
        for a in perms:
            x = [100 + i for i in range(n)]
            out.append("apply 2 %s %s" % (fmt_list(a), fmt_list(x)))
            out.append("apply 4 %s %s" % (fmt_list(a), fmt_list(x)))
            out.append("inverse %s" % fmt_list(a))
            out.append("permself %s" % fmt_list(a))
            out.append("permx %s" % fmt_list(a))
            for b in perms:
                out.append("concat %s %s" % (fmt_list(a), fmt_list(b)))
        # all swap arrays
        for sw in itertools.product(*[range(i, n) for i in range(n)]):
            out.append("perm 3 %s" % fmt_list(list(sw)))
            out.append("perm 5 %s" % fmt_list(list(sw)))     # inv_swap: must be the inverse of `perm 3` of the same array
            out.append("applyblk 5 %s 2 %s" % (fmt_list(list(sw)), fmt_list([10 * (i // 2) + i % 2 for i in range(2 * n)])))
            out.append("apply 3 %s %s" % (fmt_list(list(sw)), fmt_list([100 + i for i in range(n)])))
            out.append("apply 5 %s %s" % (fmt_list(list(sw)), fmt_list([100 + i for i in range(n)])))
    return out


def gen_cases(rng, count, big=False):
    cases = []
    for _ in range(count):
        k = rng.random()
        mx = rng.choice([12, 24, 40]) if big else 12
        if k < 0.22:
            n_img, adj = gen_graph(rng, max_n=mx)
            cases.append("render %d %s" % (rng.randrange(8), fmt_graph(n_img, adj)))
        elif k < 0.38:
            a_img, a = gen_graph(rng, max_n=8)
            b_img, b = gen_graph(rng, n_dom=a_img, max_n=8)
            cases.append("render2 %d %s %s" % (rng.randrange(8), fmt_graph(a_img, a), fmt_graph(b_img, b)))
        elif k < 0.43:
            n_img, adj = gen_graph(rng)
            if len(adj) == 0:
                adj = [[]]
            cases.append("sort %s" % fmt_graph(n_img, adj))
        elif k < 0.50:
            n_img, adj = gen_graph(rng)
            if len(adj) == 0 or n_img == 0:
                n_img, adj = 2, [[0, 1], []]
            cases.append("gperm %s %s %s" % (fmt_graph(n_img, adj), fmt_list(rand_perm(rng, len(adj))),
                                             fmt_list(rand_perm(rng, n_img))))
        elif k < 0.62:
            n = rng.choice([1, 1, 2, 3, 4, 5, 8, 16, 33, 64])
            kind = rng.choice([1, 2, 3, 4, 5])
            if kind in (3, 5):
                v = [rng.randrange(i, n) for i in range(n)]
            else:
                v = structured_perm(rng, n) if rng.random() < 0.5 else rand_perm(rng, n)
            if rng.random() < 0.5:
                cases.append("perm %d %s" % (kind, fmt_list(v)))
            else:
                x = [rng.randrange(1000) for _ in range(n)]
                cases.append("apply %d %s %s" % (kind, fmt_list(v), fmt_list(x)))
        elif k < 0.68:
            n = rng.choice([1, 2, 3, 5, 6, 8, 21])
            if rng.random() < 0.7:
                cases.append("concat %s %s" % (fmt_list(structured_perm(rng, n)), fmt_list(structured_perm(rng, n))))
            else:
                cases.append("inverse %s" % fmt_list(structured_perm(rng, n)))
        elif k < 0.82:
            n_img, adj = gen_graph(rng, square=True, symmetric=True, max_n=mx + 2)
            if rng.random() < 0.5:
                cases.append("color %s" % fmt_graph(n_img, adj))
            else:
                cases.append("colororder %s %s" % (fmt_graph(n_img, adj), fmt_list(rand_perm(rng, len(adj)))))
        else:
            n_img, adj = gen_graph(rng, square=True, symmetric=True, max_n=mx + 2, multi=True)
            if len(adj) == 0:
                n_img, adj = 1, [[]]
            cases.append("cm %d %d %d %s" % (rng.randrange(2), rng.randrange(3), rng.randrange(3), fmt_graph(n_img, adj)))
    return cases


def small_graphs(max_dom=3, max_img=3, max_adj=4):
    """all (n_img, adj) with <= max_dom domain nodes, <= max_img image nodes and <= max_adj adjacencies"""
    import itertools
    out = []
    for d in range(max_dom + 1):
        for m in range(max_img + 1):
            for k in range(max_adj + 1):
                if k > 0 and (d == 0 or m == 0):
                    continue
                # compositions of k into d row lengths
                def comps(k, d):
                    if d == 0:
                        if k == 0:
                            yield ()
                        return
                    for a in range(k + 1):
                        for r in comps(k - a, d - 1):
                            yield (a,) + r
                for lens in comps(k, d):
                    for flat in itertools.product(range(m), repeat=k):
                        adj, pos = [], 0
                        for ln in lens:
                            adj.append(list(flat[pos:pos + ln]))
                            pos += ln
                        out.append((m, adj))
    return out


def exhaustive_render_cases(quick):
    """goal: no luck needed for the kernels - every small graph through every render type, single and composite"""
    out = []
    singles = small_graphs(3, 3, 3 if quick else 5)
    for (m, adj) in singles:
        for rt in range(8):
            out.append("render %d %s" % (rt, fmt_graph(m, adj)))
        out.append("degree %s" % fmt_graph(m, adj))
        out.append("ctor %d %s" % (len(out) % 5, fmt_graph(m, adj)))
        if adj:
            out.append("sort %s" % fmt_graph(m, adj))
    # composite: every pair (a, b) of small graphs with matching dimension and <= 3 (thorough: 4) adjacencies in total
    tot = 3 if quick else 5
    G = small_graphs(3, 3, tot)
    byd = {}
    for (m, adj) in G:
        byd.setdefault(len(adj), []).append((m, adj, sum(map(len, adj))))
    for (am, a) in G:
        if not a:
            continue
        ka = sum(map(len, a))
        for (bm, b, kb) in byd.get(am, []):
            if ka + kb > tot:
                continue
            # 5 adjacencies in total: the four kernels; fewer: all 8 render types (sorted variants too)
            for rt in ((0, 2, 4, 6) if ka + kb == 5 else range(8)):
                out.append("render2 %d %s %s" % (rt, fmt_graph(am, a), fmt_graph(bm, b)))
            if ka + kb == 5:
                continue
            # the lazy CompositeAdjactor iterator (every shape, incl. image_begin on an empty adjactor-2 list)
            out.append("adjcomp %s %s" % (fmt_graph(am, a), fmt_graph(bm, b)))
            out.append("adjrender %d %s %s" % ((len(out) // 3) % 8, fmt_graph(am, a), fmt_graph(bm, b)))
    return out


def exhaustive_symmetric_cases(quick):
    """all undirected simple graphs with <= 5 (quick: 4) nodes: both colouring constructors, all 18 CM options"""
    import itertools
    out = []
    for n in range(1, (4 if quick else 6) + 1):
        pairs = [(i, j) for i in range(n) for j in range(i + 1, n)]
        for bits in range(1 << len(pairs)):
            adj = [[] for _ in range(n)]
            for b, (i, j) in enumerate(pairs):
                if bits >> b & 1:
                    adj[i].append(j)
                    adj[j].append(i)
            g = fmt_graph(n, adj)
            out.append("color %s" % g)
            orders = [list(range(n)), list(reversed(range(n))), [(3 * i + 1) % n for i in range(n)] if n in (2, 4, 5) else
                      ([(5 * i + 2) % n for i in range(n)] if n == 6 else list(range(n)))]
            for o in orders[:(2 if quick else 3)]:
                out.append("colororder %s %s" % (g, fmt_list(o)))
            for rev in range(2):
                for rt in range(3):
                    for st in range(3):
                        out.append("cm %d %d %d %s" % (rev, rt, st, g))
    return out


def gen_dyn_script(rng, n_dom, n_img):
    toks = []
    for _ in range(rng.randrange(1, 25)):
        k = rng.random()
        if n_dom == 0 or n_img == 0:
            k = 0.9 + 0.1 * k
        if k < 0.45:
            toks += ["i", str(rng.randrange(n_dom)), str(rng.randrange(n_img))]
        elif k < 0.6:
            toks += ["e", str(rng.randrange(n_dom)), str(rng.randrange(n_img))]
        elif k < 0.75:
            toks += ["x", str(rng.randrange(n_dom)), str(rng.randrange(n_img))]
        elif k < 0.8:
            toks += ["g"]
        elif k < 0.9:
            toks += ["r", str(rng.randrange(8))]
        elif k < 0.95:
            toks += ["l"]
        else:
            toks += ["c"] if rng.random() < 0.3 else ["g"]
    toks += ["g", "r", "0"]
    return " ".join(toks)


def gen_api_cases(rng, count):
    """second API layer: degree, constructors/clone, permute_indices, Coloring ctors, DynamicGraph, adjactors, more
    permutation algebra"""
    cases = []
    for _ in range(count):
        k = rng.random()
        if k < 0.10:
            n_img, adj = gen_graph(rng)
            cases.append("degree %s" % fmt_graph(n_img, adj))
        elif k < 0.20:
            n_img, adj = gen_graph(rng)
            kind = rng.randrange(5)
            cases.append("ctor %d %s" % (kind, fmt_graph(n_img, adj)))
        elif k < 0.28:
            # permute_indices: any graph, a permutation of its image nodes (sometimes of the wrong size: must assert)
            n_img, adj = gen_graph(rng)
            n_perm = n_img if rng.random() < 0.85 else n_img + rng.choice([1, 2])
            if n_perm == 0:
                n_img, adj, n_perm = 2, [[1, 1, 0], []], 2
            cases.append("gpermidx %s %s" % (fmt_graph(n_img, adj), fmt_list(rand_perm(rng, n_perm))))
        elif k < 0.36:
            n = rng.choice([1, 2, 3, 4, 5, 8, 13])
            cases.append("%s %s" % (rng.choice(["permx", "permself"]),
                                    fmt_list(structured_perm(rng, n) if rng.random() < 0.5 else rand_perm(rng, n))))
        elif k < 0.46:
            n = rng.choice([0, 1, 2, 3, 5, 9])
            style = rng.random()
            if style < 0.4:
                col = [rng.randrange(max(1, n)) for _ in range(n)]
            elif style < 0.7:
                col = [rng.choice([0, 3, 7, 1000000]) for _ in range(n)]
            else:
                col = list(range(n))
                rng.shuffle(col)
            cases.append("colorctor %d %d %s" % (rng.randrange(3), rng.randrange(12), fmt_list(col)))
        elif k < 0.66:
            n_dom, n_img = rng.choice([0, 1, 2, 3, 5]), rng.choice([0, 1, 2, 4, 6])
            cases.append("dyn %d %d %s" % (n_img, n_dom, gen_dyn_script(rng, n_dom, n_img)))
        elif k < 0.82:
            kind = rng.choice([1, 2, 3])
            a_img, a = gen_graph(rng, max_n=8)
            line = "dynrender %d %d %s" % (kind, rng.randrange(8), fmt_graph(a_img, a))
            if kind != 1:
                rt = int(line.split()[2])
                need = len(a) if (kind == 3 and rt >= 4) else a_img
                b_img, b = gen_graph(rng, n_dom=need, max_n=8)
                line += " " + fmt_graph(b_img, b)
            cases.append(line)
        else:
            a_img, a = gen_graph(rng, max_n=8)
            b_img, b = gen_graph(rng, n_dom=a_img + rng.choice([0, 0, 0, 1, 2]), max_n=8)
            if rng.random() < 0.5:
                cases.append("adjcomp %s %s" % (fmt_graph(a_img, a), fmt_graph(b_img, b)))
            else:
                cases.append("adjrender %d %s %s" % (rng.randrange(8), fmt_graph(a_img, a), fmt_graph(b_img, b)))
    return cases


def gen_container_cases(rng, count):
    """permutations on blocked data and real containers; CSR permutation vs graph permutation"""
    cases = []
    for _ in range(count):
        k = rng.random()
        n = rng.choice([1, 2, 3, 4, 5, 8, 13])
        if k < 0.25:
            kind = rng.choice([1, 2, 3, 4, 5])
            v = [rng.randrange(i, n) for i in range(n)] if kind in (3, 5) else \
                (structured_perm(rng, n) if rng.random() < 0.5 else rand_perm(rng, n))
            bs = rng.choice([1, 2, 3])
            cases.append("applyblk %d %s %d %s" % (kind, fmt_list(v), bs, fmt_list([rng.randrange(100) for _ in range(n * bs)])))
        elif k < 0.45:
            blocked = rng.randrange(2)
            m = n if rng.random() < 0.9 else n + 1
            p = [] if rng.random() < 0.1 else rand_perm(rng, m)
            cases.append("dvperm %d %s %s" % (blocked, fmt_list(p), fmt_list([rng.randrange(100) for _ in range(n * (2 if blocked else 1))])))
        elif k < 0.6:
            bound = rng.choice([1, 2, 4, 7])
            nn = rng.choice([0, n])
            p = [] if rng.random() < 0.2 else rand_perm(rng, nn if rng.random() < 0.9 else nn + 1)
            q = [] if rng.random() < 0.2 else rand_perm(rng, bound if rng.random() < 0.9 else bound + 1)
            cases.append("isperm %s %s %d %s" % (fmt_list(p), fmt_list(q), bound, fmt_list([rng.randrange(bound) for _ in range(3 * nn)])))
        elif k < 0.72:
            p = [] if rng.random() < 0.1 else rand_perm(rng, n if rng.random() < 0.9 else n + 1)
            cases.append("vsperm %d %s %s" % (rng.randrange(2), fmt_list(p), fmt_list([rng.randrange(100) for _ in range(2 * n)])))
        else:
            n_img, adj = gen_graph(rng, max_n=8)
            if sum(map(len, adj)) == 0:       # entry-free CSR permute: C02's open finding c02-edge:D1
                n_img, adj = 3, [[2, 0, 2], [], [1]]
            r = rng.random()
            if r < 0.08:
                p, q = [], []
            elif r < 0.16:
                p, q = rand_perm(rng, len(adj) + 1), rand_perm(rng, n_img)
            else:
                p, q = rand_perm(rng, len(adj)), rand_perm(rng, n_img)
            cases.append("csrperm %s %s %s" % (fmt_graph(n_img, adj), fmt_list(p), fmt_list(q)))
    return cases


def exhaustive_container_cases(quick):
    """all permutations of length <= 3 (4) on blocked arrays / containers; all CSR patterns <= 3x3 with <= 3 (4)
    distinct entries under all row/column permutations (thorough) or a fixed pair (quick)"""
    import itertools
    out = []
    for n in range(1, (3 if quick else 4) + 1):
        for p in itertools.permutations(range(n)):
            p = list(p)
            for bs in (1, 2, 3):
                out.append("applyblk 2 %s %d %s" % (fmt_list(p), bs, fmt_list([10 * (i // bs) + i % bs for i in range(n * bs)])))
            out.append("dvperm 0 %s %s" % (fmt_list(p), fmt_list([10 + i for i in range(n)])))
            out.append("dvperm 1 %s %s" % (fmt_list(p), fmt_list([10 + i for i in range(2 * n)])))
            out.append("vsperm 0 %s %s" % (fmt_list(p), fmt_list([10 + i for i in range(2 * n)])))
            out.append("vsperm 1 %s %s" % (fmt_list(p), fmt_list([10 + i for i in range(2 * n)])))
            for q in itertools.permutations(range(2)):
                out.append("isperm %s %s 2 %s" % (fmt_list(p), fmt_list(list(q)), fmt_list([(i * 7 + 1) % 2 for i in range(3 * n)])))
    for (m, adj) in small_graphs(3, 3, 3 if quick else 4):
        if sum(map(len, adj)) == 0 or any(len(set(l)) != len(l) for l in adj):
            continue
        d = len(adj)
        pairs = [(list(p), list(q)) for p in itertools.permutations(range(d)) for q in itertools.permutations(range(m))]
        if quick:
            pairs = [pairs[len(pairs) // 2], pairs[-1]]
        for (p, q) in pairs:
            out.append("csrperm %s %s %s" % (fmt_graph(m, adj), fmt_list(p), fmt_list(q)))
    return out


# ---------------------------------------------------------------------------------------------
# large sparse graphs across the 2^7 / 2^8 / 2^15 / 2^16 node-count boundaries
# (the model has unbounded indices and an unbounded mask element: C++ narrowing can only be seen here)
# ---------------------------------------------------------------------------------------------

BOUNDARY_ROWS = (126, 127, 128, 129, 254, 255, 256, 257, 32766, 32767, 32768, 32769, 65534, 65535, 65536, 65537)


def large_relation(rng, n_dom, n_img):
    """<= ~3 adjacencies per row; duplicates concentrated in the last rows and in the rows around the power-of-two
    boundaries, pointing at the highest image indices"""
    adj = []
    hot = set(r for r in BOUNDARY_ROWS if r < n_dom) | set(range(max(0, n_dom - 6), n_dom))
    for i in range(n_dom):
        if n_img == 0:
            adj.append([])
        elif i in hot:
            top = [n_img - 1 - rng.randrange(min(3, n_img)) for _ in range(2)]
            row = [top[0], top[1], top[0], rng.randrange(n_img), top[0]][:rng.choice([3, 4, 5])]
            adj.append(row)
        else:
            adj.append([rng.randrange(n_img) for _ in range(rng.choice([0, 1, 1, 2, 3]))])
    return adj


def large_symmetric(rng, n, multi):
    """a long path with some chords, a few isolated nodes, the highest nodes joined to each other; `multi` repeats
    adjacencies of the last / boundary rows (symmetric as a relation)"""
    s = [set() for _ in range(n)]
    iso = set(rng.sample(range(n), min(4, n // 8)))
    prev = None
    for i in range(n):
        if i in iso:
            continue
        if prev is not None and rng.random() < 0.995:
            s[i].add(prev)
            s[prev].add(i)
        prev = i
    for _ in range(n // 10):
        a, b = rng.randrange(n), rng.randrange(n)
        if a != b and a not in iso and b not in iso and len(s[a]) < 3 and len(s[b]) < 3:
            s[a].add(b)
            s[b].add(a)
    adj = [sorted(x) for x in s]
    for x in adj:
        if rng.random() < 0.5:
            rng.shuffle(x)
    if multi:
        hot = set(r for r in BOUNDARY_ROWS if r < n) | set(range(max(0, n - 6), n))
        rep = {}
        for i in hot:
            for j in adj[i]:
                rep[(min(i, j), max(i, j))] = 2
        adj = [[j for j in l for _ in range(rep.get((min(i, j), max(i, j)), 1))] for i, l in enumerate(adj)]
    return adj


def large_sizes(rng, quick):
    sz = [127, 128, 129, 255, 256, 257, rng.randrange(120, 141), rng.randrange(250, 271)]
    if not quick:
        sz += [32767, 32768, 65535, 65536, rng.randrange(32760, 32781), rng.randrange(65530, 65551)]
    return sz


def large_cases(rng, quick):
    cases = []
    for n in large_sizes(rng, quick):
        m = n + rng.choice([-1, 0, 1, 2])
        adj = large_relation(rng, n, m)
        g = fmt_graph(m, adj)
        for rt in range(8):
            cases.append("render %d %s" % (rt, g))
        # composite: n -> k -> m2 with k and m2 in the same band
        k, m2 = n + rng.choice([-2, 0, 1]), n + rng.choice([-1, 0, 3])
        a = [[rng.randrange(k) for _ in range(rng.choice([0, 1, 2]))] for _ in range(n)]
        for i in range(max(0, n - 4), n):
            a[i] = [k - 1, k - 2 if k > 1 else 0, k - 1]
        b = large_relation(rng, k, m2)
        for rt in range(8):
            cases.append("render2 %d %s %s" % (rt, fmt_graph(k, a), fmt_graph(m2, b)))
        cases.append("sort %s" % g)
        cases.append("degree %s" % g)
        cases.append("gperm %s %s %s" % (g, fmt_list(rand_perm(rng, n)), fmt_list(rand_perm(rng, m))))
        cases.append("gpermidx %s %s" % (g, fmt_list(rand_perm(rng, m))))
        sym = large_symmetric(rng, n, False)
        gs = fmt_graph(n, sym)
        cases.append("color %s" % gs)
        cases.append("colororder %s %s" % (gs, fmt_list(rand_perm(rng, n))))
        symm = fmt_graph(n, large_symmetric(rng, n, True))
        for (rev, rt, st) in ((0, 0, 0), (1, 1, 1), (0, 2, 2), (1, 0, 2)):
            cases.append("cm %d %d %d %s" % (rev, rt, st, symm))
    return cases


def is_huge(case):
    """cases beyond 2^12 nodes are judged by the oracle only (the list-level model is quadratic in the node count)"""
    return len(case) > 60000


def randperm_cases(binary, rng, count):
    """`Permutation(n, Random&)`: a pre-pass asks the library for the swap array it draws (op randswap); the case
    line repeats it so that the model (which has no RNG) can rebuild the permutation from it"""
    pre = []
    for _ in range(count):
        pre.append("randswap %d %d" % (rng.choice([1, 2, 3, 4, 5, 8, 17, 64]), rng.randrange(1, 1 << 40)))
    outs = vlib.run_lines([binary], pre)
    cases = []
    for line, o in zip(pre, outs):
        t = o.split()
        if not t or not t[0].isdigit():
            cases.append("randperm %s 0" % line.split(None, 1)[1])   # abnormal outcome: let the stream report it
        else:
            cases.append("randperm %s %s" % (line.split(None, 1)[1], o))
    return cases


CORPUS = [
    # past findings (F1, F2, F15), replayed first on every run
    "cm 0 0 0 4 4 2 1 2 1 0 1 0 0",
    "cm 1 2 2 3 3 1 1 1 0 0",
    "cm 0 2 0 3 3 0 0 0",
    "render 1 3 2 0 0",
    "render 3 0 3 0 0 0",
    "render2 1 2 2 0 0 3 2 0 0",
    "cm 1 1 1 6 6 2 1 2 1 0 1 0 2 4 5 1 3 1 3",
    # minimum_degree root with repeated adjacencies (degree > number of nodes)
    "cm 0 1 0 1 1 2 0 0",
    "cm 1 1 1 2 2 3 1 1 1 3 0 0 0",
    # concat whose second factor fixes a tail (stale swap array if only a prefix is rebuilt)
    "concat 4 2 3 0 1 4 0 1 3 2",
    # extension round: composite kernels with a repeated image across two adjactor-1 images (mask must survive the
    # inner loop and be reset between domain nodes), pointer bump across several domain nodes
    "render2 2 2 2 2 0 1 2 0 1 2 2 2 0 1 2 1 0",
    "render2 6 2 2 2 0 1 2 0 1 2 2 2 0 1 2 1 0",
    "render2 4 2 3 2 0 1 1 1 2 1 0 3 2 2 2 2 2 0 2",
    "render 6 2 3 2 1 1 2 1 0 1 1",
    "adjcomp 3 2 3 0 1 2 1 2 2 3 1 1 0 2 0 1",
    "dyn 3 2 i 0 2 i 0 1 i 0 2 x 0 1 e 0 1 e 0 1 g r 0 l r 4 c g",
    "colorctor 0 0 4 0 5 5 2",
    "permx 3 1 2 0",
    # narrowing seeds: 128- and 300-node relations whose rows >= 127 carry duplicates (a mask/tag kept in 8 bits fails here)
    "render 2 " + fmt_graph(130, [[i % 130] for i in range(127)] + [[129, 129, 5, 129]]),
    "render 3 " + fmt_graph(300, [[(7 * i) % 300] for i in range(297)] + [[299, 298, 299], [1, 299, 1, 299], [299, 299]]),
    "render 6 " + fmt_graph(300, [[(7 * i) % 300] for i in range(297)] + [[299, 298, 299], [1, 299, 1, 299], [299, 299]]),
    "render2 2 " + fmt_graph(3, [[i % 3] for i in range(299)] + [[2, 1, 2]]) + " " + fmt_graph(300, [[299, 0], [299, 299, 298], [0, 299]]),
    "render2 6 " + fmt_graph(3, [[i % 3] for i in range(299)] + [[2, 1, 2]]) + " " + fmt_graph(300, [[299, 0], [299, 299, 298], [0, 299]]),
    # F-C19-5 (fixed 1c006df21): CompositeAdjactor::image_begin on an empty adjactor-2 list
    "adjcomp 1 1 1 0 0 1 0", "adjcomp 2 1 2 1 0 1 2 1 0 0", "adjrender 0 2 1 1 0 1 2 0 0",
    "adjcomp 2 3 4 1 1 0 1 0 2 1 0 2 2 0 2 1 0",
    # F-C19-6 (fixed ffa23477d): permute_indices with #indices != #image nodes
    "gpermidx 3 1 2 0 2 3 1 2 0", "gpermidx 2 1 3 0 1 1 2 1 0",
    # F-C19-7 (fixed 3fe35ab5b): p.concat(p)
    "permself 3 1 2 0", "permself 4 1 0 3 2",
]


# ---------------------------------------------------------------------------------------------
# independent oracle (set / multiset reference; judges the impl output against the property text)
# ---------------------------------------------------------------------------------------------

class ObserverError(Exception):
    pass


class Tk:
    def __init__(self, s):
        self.t = s.split()
        self.p = 0

    def tok(self):
        self.p += 1
        return self.t[self.p - 1]

    def nat(self):
        return int(self.tok())

    def lst(self):
        n = self.nat()
        return [self.nat() for _ in range(n)]

    def graph_in(self):
        n_img, n_dom = self.nat(), self.nat()
        return n_img, [self.lst() for _ in range(n_dom)]

    def graph_out(self):
        assert self.tok() == "G"
        n_img = self.nat()
        ptr = self.lst()
        idx = self.lst()
        adj = [idx[ptr[i]:ptr[i + 1]] for i in range(len(ptr) - 1)]
        # scalar observers printed with every graph
        assert self.tok() == "Q"
        n_dom, n_idx, deg, degs = self.nat(), self.nat(), self.nat(), self.lst()
        if n_dom != len(ptr) - 1:
            raise ObserverError("get_num_nodes_domain() = %d for a pointer vector of %d entries" % (n_dom, len(ptr)))
        if n_idx != len(idx):
            raise ObserverError("get_num_indices() = %d for %d indices" % (n_idx, len(idx)))
        if degs != [ptr[i + 1] - ptr[i] for i in range(n_dom)]:
            raise ObserverError("degree(i) = %s is not the length of the adjacency lists %s" % (degs, adj))
        if deg != max(degs + [0]):
            raise ObserverError("degree() = %d is not the maximum node degree of %s" % (deg, degs))
        return n_img, ptr, idx, adj


def is_abnormal(out):
    return out.split(":")[0] in ("ABORT", "EXC", "TIMEOUT", "SIGNAL", "SANITIZER", "EXIT") or out in ("HANG", "BAD-OP")


def check_graph_struct(n_img, ptr, idx, n_dom_expected):
    if len(ptr) != n_dom_expected + 1:
        return "domain size %d, expected %d" % (len(ptr) - 1, n_dom_expected)
    if ptr[0] != 0 or any(ptr[i] > ptr[i + 1] for i in range(len(ptr) - 1)) or ptr[-1] != len(idx):
        return "domain_ptr not a monotone offset array"
    if any(k >= n_img for k in idx):
        return "image index out of range"
    return None


def cm_layers_check(adj, rev, perm, layers):
    """consecutive layer offsets delimit the BFS levels of each component (levels of a component in reverse order
    when the ordering is reversed)"""
    n = len(adj)
    if len(layers) < 2 or layers[-2] != n:
        return "layers: terminator missing: %s" % layers
    segs = [perm[layers[i]:layers[i + 1]] for i in range(len(layers) - 2)]
    if any(len(sg) == 0 for sg in segs):
        return "layers: empty BFS level: %s" % layers
    # independent component labelling (reachability in the undirected sense = in the BFS sense for symmetric graphs)
    comp = list(range(n))

    def find(x):
        while comp[x] != x:
            comp[x] = comp[comp[x]]
            x = comp[x]
        return x
    for i, l in enumerate(adj):
        for j in l:
            comp[find(i)] = find(j)
    # group consecutive segments by component
    groups = []
    for sg in segs:
        cs = {find(x) for x in sg}
        if len(cs) != 1:
            return "layers: level %s spans several components" % sg
        cid = cs.pop()
        if groups and groups[-1][0] == cid:
            groups[-1][1].append(sg)
        else:
            if any(g[0] == cid for g in groups):
                return "layers: component numbered in two pieces"
            groups.append((cid, [sg]))
    for cid, lv in groups:
        if rev:
            lv = lv[::-1]
        if len(lv[0]) != 1:
            return "layers: component does not start with a single root level: %s" % lv
        seen = set(lv[0])
        for k in range(1, len(lv) + 1):
            nxt = {j for x in lv[k - 1] for j in adj[x] if j not in seen}
            got = lv[k] if k < len(lv) else []
            if len(set(got)) != len(got) or set(got) != nxt:
                return "layers: level %s is not the set of new neighbours %s of level %s" % (got, sorted(nxt), lv[k - 1])
            seen |= nxt
    return None


def cm_reference(adj, rev, rt, st):
    """the documented ordering, written from the documentation (not from the Lean model): components in the order
    of the documented root among the nodes that are left; a level = not yet numbered neighbours of the previous
    level in discovery order (parent position, then adjacency-list position), stably sorted by degree if asked;
    a component is reversed as a whole (numbering and level sizes) when `reverse` is set"""
    n = len(adj)
    deg = [len(l) for l in adj]
    seen = [False] * n
    perm, layers = [], [0]
    while len(perm) < n:
        cand = [j for j in range(n) if not seen[j]]
        if rt == 0:
            root = cand[0]
        elif rt == 1:
            root = min(cand, key=lambda j: (deg[j], j))
        else:
            root = min(cand, key=lambda j: (-deg[j], j))
        seen[root] = True
        levels = [[root]]
        while True:
            nxt = []
            for x in levels[-1]:
                for k in adj[x]:
                    if not seen[k]:
                        seen[k] = True
                        nxt.append(k)
            if not nxt:
                break
            if st == 1:
                nxt = sorted(nxt, key=lambda k: deg[k])          # Python's sort is stable
            elif st == 2:
                nxt = sorted(nxt, key=lambda k: -deg[k])
            levels.append(nxt)
        comp = [x for lv in levels for x in lv]
        sizes = [len(lv) for lv in levels]
        if rev:
            comp.reverse()
            sizes.reverse()
        perm += comp
        for sz in sizes:
            layers.append(layers[-1] + sz)
    layers.append(n)
    return perm, layers


def canon(out):
    if out.startswith("ABORT"):
        return "ABORT"
    if out.startswith("EXC:"):
        return "EXC"
    return out


def perm_of(kind, v):
    n = len(v)
    if kind == 1:
        return list(range(n))
    if kind == 2:
        return list(v)
    if kind == 4:
        p = [0] * n
        for i, k in enumerate(v):
            p[k] = i
        return p
    p = list(range(n))
    for i in (range(n) if kind == 3 else reversed(range(n))):
        p[i], p[v[i]] = p[v[i]], p[i]
    return p


def oracle_perm_containers(op, c, out):
    """permutations applied to blocked arrays and to real containers: y[i] = x[perm[i]] blockwise"""
    if op == "applyblk":
        kind, v, bs, x = c.nat(), c.lst(), c.nat(), c.lst()
        p = perm_of(kind, v)
        n = len(p)
        if is_abnormal(out):
            return "blocked apply ended with " + out
        o = Tk(out)
        assert o.tok() == "AB"
        a, b, cc, d = o.lst(), o.lst(), o.lst(), o.lst()
        blk = [x[i * bs:(i + 1) * bs] for i in range(n)]
        exp = [e for k in p for e in blk[k]]
        inv = [None] * n
        for i, k in enumerate(p):
            inv[k] = blk[i]
        inv = [e for bl in inv for e in bl]
        if a != exp or cc != exp:
            return "blocked apply is not block[perm[i]]"
        if b != inv or d != inv:
            return "blocked inverse apply does not undo the permutation"
        return None
    if op == "dvperm":
        blocked, p, x = c.nat(), c.lst(), c.lst()
        bs = 2 if blocked else 1
        n = len(x) // bs
        if p and len(p) != n:
            return None if out.startswith("ABORT") else "size mismatch not reported"
        if is_abnormal(out):
            return "DenseVector permute ended with " + out
        o = Tk(out)
        assert o.tok() == "DV"
        r = o.lst()
        exp = x if not p else [e for k in p for e in x[k * bs:(k + 1) * bs]]
        return None if r == exp else "DenseVector%s::permute: %s, expected %s" % ("Blocked" if blocked else "", r, exp)
    if op == "isperm":
        p, q, bound, x = c.lst(), c.lst(), c.nat(), c.lst()
        n = len(x) // 3
        tup = [x[3 * i:3 * i + 3] for i in range(n)]
        if n > 0 and ((p and len(p) != n) or (q and len(q) != bound)):
            return None if out.startswith("ABORT") else "size mismatch not reported"
        if is_abnormal(out):
            return "IndexSet permute ended with " + out
        o = Tk(out)
        assert o.tok() == "IS"
        rn, rb, r = o.nat(), o.nat(), o.lst()
        g_img, ptr, idx, radj = o.graph_out()
        if n > 0:
            if p:
                tup = [tup[k] for k in p]
            if q:
                tup = [[q[k] for k in t] for t in tup]
        if (rn, rb) != (n, bound) or r != [e for t in tup for e in t]:
            return "IndexSet::permute: %s, expected %s" % (r, tup)
        if radj != tup or g_img != bound:
            return "permuted index set rendered as a graph differs from its tuples"
        return None
    if op == "vsperm":
        inv, p, x = c.nat(), c.lst(), c.lst()
        n = len(x) // 2
        blk = [x[2 * i:2 * i + 2] for i in range(n)]
        if p and n > 0 and len(p) != n:
            return None if out.startswith("ABORT") else "size mismatch not reported"
        if is_abnormal(out):
            return "VertexSet permute ended with " + out
        o = Tk(out)
        assert o.tok() == "VS"
        r = o.lst()
        if p and n > 0:
            if inv:
                nb = [None] * n
                for i, k in enumerate(p):
                    nb[k] = blk[i]
                blk = nb
            else:
                blk = [blk[k] for k in p]
        return None if r == [e for b in blk for e in b] else "VertexSet::permute(invert=%d) wrong" % inv
    if op == "csrperm":
        n_img, adj = c.graph_in()
        p, q = c.lst(), c.lst()
        rows = [sorted(set(l)) for l in adj]
        if (p or q) and (len(p) != len(rows) or len(q) != n_img):
            return None if out.startswith("ABORT") else "size mismatch not reported"
        if is_abnormal(out):
            return "CSR permute ended with " + out
        o = Tk(out)
        assert o.tok() == "CP"
        a_img, aptr, aidx, aadj = o.graph_out()
        assert o.tok() == "V"
        vals = o.lst()
        g_img, gptr, gidx, gadj = o.graph_out()
        if not p and not q:
            p, q = list(range(len(rows))), list(range(n_img))
        qinv = [0] * n_img
        for i, k in enumerate(q):
            qinv[k] = i
        exp, expv = [], []
        for i in range(len(rows)):
            ent = sorted((qinv[cc], p[i] * 1000 + cc) for cc in rows[p[i]])
            exp.append([e[0] for e in ent])
            expv += [e[1] for e in ent]
        if aadj != exp or a_img != n_img:
            return "pattern of the permuted CSR matrix %s, expected %s" % (aadj, exp)
        if vals != expv:
            return "values of the permuted CSR matrix did not travel with their entries"
        if gadj != aadj or g_img != a_img:
            return "Graph(g, p, q^-1) + sort_indices %s differs from the pattern of the permuted matrix %s" % (gadj, aadj)
        return None
    return None


def oracle(case, out):
    c = Tk(case)
    op = c.tok()
    try:
        if op in ("render", "render2", "adjrender"):
            rt = c.nat()
            if op == "render":
                n_img, adj = c.graph_in()
            else:
                a_img, a = c.graph_in()
                n_img, b = c.graph_in()
                if (a_img != len(b)) if op == "render2" else (a_img > len(b)):
                    return None if out.startswith("ABORT") else "dimension mismatch not reported"
                adj = [[k for j in l for k in b[j]] for l in a]
            if is_abnormal(out):
                return "render of a valid adjactor ended with " + out
            o = Tk(out)
            r_img, ptr, idx, radj = o.graph_out()
            base = rt // 2
            if base in (0, 1):
                e = check_graph_struct(r_img, ptr, idx, len(adj))
                if e:
                    return e
                if r_img != n_img:
                    return "image size changed"
                for i, (l, r) in enumerate(zip(adj, radj)):
                    if base == 0:
                        exp = l
                    else:
                        exp = list(dict.fromkeys(l))
                    if rt % 2 == 1:
                        if r != sorted(exp):
                            return "row %d: %s, expected sorted %s" % (i, r, sorted(exp))
                    elif base == 0 and r != exp:
                        return "row %d: %s, expected %s" % (i, r, exp)
                    elif base == 1 and (Counter(r) != Counter(exp)):
                        return "row %d: %s is not the duplicate-free version of %s" % (i, r, l)
            else:
                e = check_graph_struct(r_img, ptr, idx, n_img)
                if e:
                    return e
                if r_img != len(adj):
                    return "transpose image size %d, expected %d" % (r_img, len(adj))
                exp_rows = [[] for _ in range(n_img)]
                for j, l in enumerate(adj):
                    for k in (l if base == 2 else dict.fromkeys(l)):
                        exp_rows[k].append(j)
                for i in range(n_img):
                    if radj[i] != exp_rows[i]:
                        return "transposed row %d: %s, expected %s" % (i, radj[i], exp_rows[i])
            return None
        if op == "sort":
            n_img, adj = c.graph_in()
            if is_abnormal(out):
                return "sort_indices ended with " + out
            r_img, ptr, idx, radj = Tk(out).graph_out()
            if [sorted(l) for l in adj] != radj or r_img != n_img:
                return "sorting changed an adjacency multiset"
            return None
        if op == "gperm":
            n_img, adj = c.graph_in()
            dp, ip = c.lst(), c.lst()
            if is_abnormal(out):
                return "graph permutation ended with " + out
            r_img, ptr, idx, radj = Tk(out).graph_out()
            exp = [[ip[k] for k in adj[d]] for d in dp]
            if radj != exp or r_img != n_img:
                return "permuted graph is not the relabelled relation"
            return None
        if op in ("perm", "apply", "concat", "inverse"):
            if op in ("perm", "apply"):
                kind = c.nat()
                v = c.lst()
                n = len(v)
                if kind == 1:
                    p = list(range(n))
                elif kind == 2:
                    p = v
                elif kind == 4:
                    p = [0] * n
                    for i, k in enumerate(v):
                        p[k] = i
                elif kind == 3:
                    p = list(range(n))
                    for i in range(n):
                        p[i], p[v[i]] = p[v[i]], p[i]
                else:
                    # inv_swap: the inverse of the permutation the same array denotes as a swap array
                    f = list(range(n))
                    for i in range(n):
                        f[i], f[v[i]] = f[v[i]], f[i]
                    p = [0] * n
                    for i, k in enumerate(f):
                        p[k] = i
            elif op == "concat":
                p1, p2 = c.lst(), c.lst()
                p = [p2[k] for k in p1]
            else:
                p1 = c.lst()
                p = [0] * len(p1)
                for i, k in enumerate(p1):
                    p[k] = i
            n = len(p)
            if is_abnormal(out):
                return "permutation operation on a valid input ended with " + out
            o = Tk(out)
            tag = o.tok()
            if tag == "P":
                perm, swap = o.lst(), o.lst()
                if perm != p:
                    return "permutation array %s, expected %s" % (perm, p)
                # the swap array must realise the same bijection
                x = list(range(n))
                for i in range(n - 1):
                    j = swap[i]
                    if j < i or j >= n:
                        return "invalid swap position"
                    x[i], x[j] = x[j], x[i]
                if x != p:
                    return "swap array does not realise the permutation array"
                return None
            a, b, cc, d = o.lst(), o.lst(), o.lst(), o.lst()
            x = c.lst()
            exp = [x[k] for k in p]
            inv = [0] * n
            for i, k in enumerate(p):
                inv[k] = x[i]
            if cc != exp:
                return "out-of-place apply is not x[perm[i]]"
            if a != exp:
                return "in-situ apply differs from the bijection"
            if d != inv or b != inv:
                return "inverse apply does not undo the permutation"
            return None
        if op in ("color", "colororder"):
            n_img, adj = c.graph_in()
            if is_abnormal(out):
                return "colouring ended with " + out
            o = Tk(out)
            assert o.tok() == "C"
            nc = o.nat()
            col = o.lst()
            p_img, ptr, idx, padj = o.graph_out()
            assert o.tok() == "T"
            t_img, tptr, tidx, tadj = o.graph_out()
            if len(col) != len(adj):
                return "colouring has wrong length"
            for i, l in enumerate(adj):
                for j in l:
                    if j != i and col[i] == col[j]:
                        return "adjacent nodes %d and %d share colour %d" % (i, j, col[i])
            if adj and (max(col) + 1 != nc):
                return "number of colours inconsistent"
            if adj:
                e = check_graph_struct(p_img, ptr, idx, nc)
                if e:
                    return "partition graph: " + e
                for cidx, l in enumerate(padj):
                    if l != [j for j in range(len(col)) if col[j] == cidx]:
                        return "partition graph row %d wrong" % cidx
                # round trip: transposing the partition graph gives the colouring array back
                if tadj != [[cc] for cc in col] or t_img != nc:
                    return "transposed partition graph %s is not the colouring %s" % (tadj, col)
                if nc > max(len(l) for l in adj) + 1:
                    return "more colours (%d) than maximum degree + 1" % nc
            return None
        if op == "degree":
            n_img, adj = c.graph_in()
            if is_abnormal(out):
                return "degree ended with " + out
            o = Tk(out)
            assert o.tok() == "D"
            deg, degs = o.nat(), o.lst()
            if degs != [len(l) for l in adj]:
                return "degree(i) is not the number of adjacencies of node i"
            if deg != max([len(l) for l in adj] + [0]):
                return "degree() is not the maximum node degree"
            return None
        if op == "ctor":
            kind = c.nat()
            n_img, adj = c.graph_in()
            if is_abnormal(out):
                return "graph constructor/clone ended with " + out
            if kind == 3:
                return None if out == "G 0 0 0" else "clone of an empty graph is not empty"
            r_img, ptr, idx, radj = Tk(out).graph_out()
            e = check_graph_struct(r_img, ptr, idx, len(adj))
            if e:
                return e
            if radj != adj or r_img != n_img:
                return "constructed/cloned graph differs from its input arrays"
            return None
        if op == "gpermidx":
            n_img, adj = c.graph_in()
            ip = c.lst()
            if sum(map(len, adj)) == 0 or len(ip) != n_img:
                return None if out.startswith("ABORT") else \
                    "permute_indices without indices / with a permutation of the wrong size did not assert"
            if is_abnormal(out):
                return "permute_indices (permutation of the %d image nodes, %d indices) ended with %s" % (
                    n_img, sum(map(len, adj)), out)
            r_img, ptr, idx, radj = Tk(out).graph_out()
            if radj != [[ip[k] for k in l] for l in adj] or r_img != n_img:
                return "permute_indices did not relabel the image indices"
            return None
        if op == "randperm":
            n, seed, sw = c.nat(), c.nat(), c.lst()
            if is_abnormal(out):
                return "random permutation constructor ended with " + out
            o = Tk(out)
            assert o.tok() == "P"
            perm, swap = o.lst(), o.lst()
            if len(perm) != n or len(swap) != n:
                return "random permutation has the wrong length"
            if any(not (i <= swap[i] < n) for i in range(n)) or swap[n - 1] != n - 1:
                return "random swap array out of range"
            if sorted(perm) != list(range(n)):
                return "random permutation is not a bijection"
            x = list(range(n))
            for i in range(n - 1):
                x[i], x[swap[i]] = x[swap[i]], x[i]
            if x != perm:
                return "random permutation: swap array does not realise the permutation array"
            return None
        if op == "permx":
            p = c.lst()
            n = len(p)
            if is_abnormal(out):
                return "permutation algebra ended with " + out
            o = Tk(out)
            assert o.tok() == "X"
            got = []
            for _ in range(4):
                assert o.tok() == "P"
                got.append((o.lst(), o.lst()))
            exp = [p, p, [p[p[i]] for i in range(n)], list(range(n))]
            names = ["inverse of inverse", "clone", "concat with itself", "concat with own inverse"]
            for (perm, swap), e, nm in zip(got, exp, names):
                if perm != e:
                    return "%s: %s, expected %s" % (nm, perm, e)
                x = list(range(n))
                for i in range(n - 1):
                    if not (i <= swap[i] < n):
                        return "invalid swap position"
                    x[i], x[swap[i]] = x[swap[i]], x[i]
                if x != perm:
                    return "%s: swap array does not realise the permutation" % nm
            return None
        if op == "permself":
            p = c.lst()
            if is_abnormal(out):
                return "p.concat(p) ended with " + out
            o = Tk(out)
            assert o.tok() == "P"
            perm = o.lst()
            if perm != [p[p[i]] for i in range(len(p))]:
                return "p.concat(p) = %s is not p o p = %s" % (perm, [p[p[i]] for i in range(len(p))])
            return None
        if op == "colorctor":
            kind, nc, col = c.nat(), c.nat(), c.lst()
            if is_abnormal(out):
                return "Coloring constructor ended with " + out
            o = Tk(out)
            assert o.tok() == "K"
            k, mx, rcol = o.nat(), o.nat(), o.lst()
            if rcol != col:
                return "Coloring constructor changed the colouring array"
            if k != (nc if kind == 1 else len(set(col))):
                return "num_colors %d is not the number of distinct colours" % k
            if mx != (k - 1) % (1 << 64):
                return "get_max_color is not num_colors - 1"
            return None
        if op == "adjcomp":
            a_img, a = c.graph_in()
            b_img, b = c.graph_in()
            if a_img > len(b):
                return None if out.startswith("ABORT") else "ill-formed composite adjactor not reported"
            if is_abnormal(out):
                return "composite adjactor iteration ended with " + out
            o = Tk(out)
            assert o.tok() == "J"
            if (o.nat(), o.nat()) != (len(a), b_img):
                return "composite adjactor has wrong dimensions"
            for i, l in enumerate(a):
                if o.lst() != [k for j in l for k in b[j]]:
                    return "composite adjactor: images of node %d are not the concatenated lists" % i
            return None
        if op == "dyn":
            n_img, n_dom = c.nat(), c.nat()
            rows = [set() for _ in range(n_dom)]
            if is_abnormal(out):
                return "DynamicGraph script ended with " + out
            o = Tk(out)
            assert o.tok() == "Y"
            while c.p < len(c.t):
                k = c.tok()
                if k in ("i", "e", "x"):
                    d, im = c.nat(), c.nat()
                    had = im in rows[d]
                    r = o.nat()
                    if k == "i":
                        rows[d].add(im)
                        exp = 0 if had else 1
                    elif k == "e":
                        rows[d].discard(im)
                        exp = 1 if had else 0
                    else:
                        exp = 1 if had else 0
                    if r != exp:
                        return "DynamicGraph %s(%d,%d) returned %d" % ({"i": "insert", "e": "erase", "x": "exists"}[k], d, im, r)
                elif k == "c":
                    assert o.tok() == "c"
                    rows = [set() for _ in range(n_dom)]
                elif k == "l":
                    assert o.tok() == "l"
                elif k == "g":
                    deg, nidx, degs = o.nat(), o.nat(), o.lst()
                    if degs != [len(r) for r in rows] or deg != max([len(r) for r in rows] + [0]) or nidx != sum(len(r) for r in rows):
                        return "DynamicGraph degree/num_indices wrong"
                elif k == "r":
                    rt = c.nat()
                    r_img, ptr, idx, radj = o.graph_out()
                    if rt < 4:
                        exp, e_img = [sorted(r) for r in rows], n_img
                    else:
                        exp, e_img = [[j for j in range(n_dom) if i in rows[j]] for i in range(n_img)], n_dom
                    e = check_graph_struct(r_img, ptr, idx, len(exp))
                    if e:
                        return "DynamicGraph render: " + e
                    if radj != exp or r_img != e_img:
                        return "DynamicGraph render %d: %s, expected %s" % (rt, radj, exp)
            return None
        if op == "dynrender":
            kind, rt = c.nat(), c.nat()
            a_img, a = c.graph_in()
            tr = rt >= 4
            if kind == 1:
                rel, dims = {(i, k) for i, l in enumerate(a) for k in l}, (len(a), a_img)
            else:
                b_img, b = c.graph_in()
                if kind == 2:
                    if a_img != len(b):
                        return None if out.startswith("ABORT") else "dimension mismatch not reported"
                    rel, dims = {(i, k) for i, l in enumerate(a) for j in l for k in b[j]}, (len(a), b_img)
                else:
                    first = {(k, i) for i, l in enumerate(a) for k in l} if tr else {(i, k) for i, l in enumerate(a) for k in l}
                    fd = (a_img, len(a)) if tr else (len(a), a_img)
                    if fd[1] != len(b):
                        return None if out.startswith("ABORT") else "dimension mismatch not reported"
                    rel, dims, tr = {(i, k) for (i, j) in first for k in b[j]}, (fd[0], b_img), False
            if tr:
                rel, dims = {(k, i) for (i, k) in rel}, (dims[1], dims[0])
            if is_abnormal(out):
                return "DynamicGraph render constructor ended with " + out
            r_img, ptr, idx, radj = Tk(out).graph_out()
            e = check_graph_struct(r_img, ptr, idx, dims[0])
            if e:
                return e
            exp = [sorted(k for (i2, k) in rel if i2 == i) for i in range(dims[0])]
            if radj != exp or r_img != dims[1]:
                return "DynamicGraph render constructor: %s, expected %s" % (radj, exp)
            return None
        if op in ("applyblk", "dvperm", "isperm", "vsperm", "csrperm"):
            return oracle_perm_containers(op, c, out)
        if op == "cm":
            rev, rt, st = c.nat(), c.nat(), c.nat()
            n_img, adj = c.graph_in()
            if is_abnormal(out):
                return "Cuthill-McKee ended with " + out
            o = Tk(out)
            assert o.tok() == "CM"
            perm, swap, layers = o.lst(), o.lst(), o.lst()
            n = len(adj)
            if sorted(perm) != list(range(n)):
                return "Cuthill-McKee ordering is not a bijection: %s" % perm
            x = list(range(n))
            for i in range(n - 1):
                j = swap[i]
                if j < i or j >= n:
                    return "invalid swap position"
                x[i], x[j] = x[j], x[i]
            if x != perm:
                return "swap array does not realise the ordering"
            if layers[0] != 0 or layers[-1] != n or any(layers[i] > layers[i + 1] for i in range(len(layers) - 1)):
                return "layer offsets malformed: %s" % layers
            e = cm_layers_check(adj, rev, perm, layers)
            if e:
                return e
            rperm, rlayers = cm_reference(adj, rev, rt, st)
            if perm != rperm:
                return "ordering %s differs from the documented one %s (root choice / discovery order / stable " \
                       "degree sort / reversal)" % (perm, rperm)
            if layers != rlayers:
                return "layers %s differ from the documented ones %s" % (layers, rlayers)
            return None
    except ObserverError as e:
        return "graph observer: %s" % e
    except (IndexError, ValueError, AssertionError) as e:
        return "unparsable implementation output (%s): %s" % (e, out[:200])
    return None


def nontrivial(case):
    c = Tk(case)
    op = c.tok()
    if op in ("perm", "apply", "concat", "inverse", "permx", "randperm", "colorctor", "dyn"):
        return len(case.split()) > 6
    if op in ("ctor", "dynrender"):
        return len(case.split()) > 8
    if op in ("adjcomp", "adjrender", "gpermidx", "degree"):
        return len(case.split()) > 7
    if op in ("applyblk", "dvperm", "isperm", "vsperm"):
        return len(case.split()) > 7
    try:
        if op in ("render", "render2"):
            c.nat()
        if op == "cm":
            c.nat(), c.nat(), c.nat()
        n_img, adj = c.graph_in()
    except Exception:
        return False
    if not adj:
        return False
    has_dup = any(len(set(l)) != len(l) for l in adj)
    has_empty = any(len(l) == 0 for l in adj)
    # components of the undirected version
    return has_dup or has_empty or sum(map(len, adj)) >= 2


def describe(case):
    t = case.split()
    keys = ["op:" + t[0]]
    if t[0] in ("render", "render2", "adjrender"):
        keys.append("rt:" + t[1])
    if t[0] in ("ctor", "colorctor", "dynrender"):
        keys.append("%s-kind:%s" % (t[0], t[1]))
    if t[0] == "cm":
        keys.append("cm-opt:%s%s%s" % (t[1], t[2], t[3]))
    return keys


def signature(case, out, why):
    t = case.split()
    return "%s:%s" % (t[0], (why or "")[:40])


def main(argv):
    args = vlib.std_args(argv)
    t0 = time.time()
    rng = random.Random(args.seed * 1000003 + 19)
    lean = None if args.no_lean else vlib.lean_check(PROP, leanchecker=(args.tier == "thorough"))
    binary, err = vlib.build_harness("c19", os.path.join(vlib.VERIF, "harness", "c19", "main.cpp"))
    if binary is None:
        v = [{"property": PROP, "kind": "harness-build-failure", "detail": err, "failing_input": None,
              "broken": "harness c19 does not compile against the current tree"}]
        return vlib.finish(PROP, args.tier, args.seed, t0, lean, [], [], v, [])
    if args.replay:
        cases = [json.load(open(args.replay))["input"]]
    else:
        quick = args.tier == "quick"
        cases = CORPUS + exhaustive_perm_cases() + (gen_cases(rng, 3000) if quick else gen_cases(rng, 150000, big=True))
        cases += gen_api_cases(rng, 2500 if quick else 60000)
        cases += randperm_cases(binary, rng, 200 if quick else 5000)
        cases += gen_container_cases(rng, 1500 if quick else 40000)
    st = vlib.Stream("adjacency", cases, [binary], vlib.driver_cmd(PROP), oracle=oracle, nontrivial=nontrivial,
                     describe=describe, signature=signature, canon=canon)
    streams = [st]
    if not args.replay:
        lg = large_cases(rng, quick)
        streams.append(vlib.Stream("large", [cs for cs in lg if not is_huge(cs)], [binary], vlib.driver_cmd(PROP),
                                   oracle=oracle, nontrivial=nontrivial, describe=describe, signature=signature,
                                   canon=canon))
        huge = [cs for cs in lg if is_huge(cs)]
        if huge:   # 2^15 / 2^16 nodes: implementation vs independent oracle only (the list-level model is quadratic)
            streams.append(vlib.Stream("large-oracle-only", huge, [binary], None, oracle=oracle, nontrivial=nontrivial,
                                       describe=describe, signature=signature, canon=canon))
        ex = exhaustive_render_cases(quick) + exhaustive_symmetric_cases(quick) + exhaustive_container_cases(quick)
        streams.append(vlib.Stream("small-scope", ex, [binary], vlib.driver_cmd(PROP), oracle=oracle,
                                   nontrivial=nontrivial, describe=describe, signature=signature, canon=canon))
    stats_rule = ("random graphs (domain/image 0..14, empty lists, duplicates, isolated nodes, several components), "
                  "permutations of length 1..64 through every constructor, all 8 render types x single/composite, "
                  "colouring with/without order, CM with all 2x3x3 options (layers checked as BFS levels); Graph::degree, "
                  "Copy-Array/Copy-Vector/clone/move, permute_indices, Permutation(n,Random&), inverse.inverse, clone, "
                  "Coloring array/vector ctors, DynamicGraph scripts and render ctors, CompositeAdjactor iteration; "
                  "small-scope stream: ALL graphs with <=3x<=3 nodes and <=3 (thorough: 5) adjacencies through all 8 "
                  "render types, ALL composite pairs with <=3 (4; 5 for the four kernels) adjacencies in total through all 8 types, ALL undirected graphs with <=4 (6) "
                  "nodes through both colouring ctors and all 18 CM options; non-trivial = duplicates, an empty "
                  "adjacency list or >= 2 adjacencies (graphs) / length >= 2 (permutations)")
    rc = vlib.run_pipeline(PROP, args.tier, args.seed, lean, streams, t0, assumptions=[
        "Index modelled as unbounded Nat (no 64-bit overflow at the sizes FEAT can allocate)",
        "std::sort modelled as any sorting function"],
        extra_cov={"rule": stats_rule})
    return rc
