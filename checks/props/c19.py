"""C19 - graph, permutation, colouring and ordering tools meet their definitions."""
import json
import os
import random
import time
from collections import Counter

import vlib

PROP = "C19"


# ---------------------------------------------------------------------------------------------
# generators
# ---------------------------------------------------------------------------------------------

def gen_graph(rng, n_dom=None, n_img=None, square=False, symmetric=False, max_n=12, multi=False):
    n_dom = rng.choice([0, 1, 1, 2, 3, 4, 5, 6, 8, max_n]) if n_dom is None else n_dom
    n_img = n_dom if square else (rng.choice([0, 1, 2, 3, 4, 5, 7, max_n]) if n_img is None else n_img)
    style = rng.choice(["empty", "sparse", "sparse", "dense", "dups", "components"])
    adj = [[] for _ in range(n_dom)]
    if n_img > 0 and n_dom > 0:
        if style == "sparse":
            for i in range(n_dom):
                if rng.random() < 0.3:
                    continue
                adj[i] = [rng.randrange(n_img) for _ in range(rng.randrange(0, 4))]
        elif style == "dense":
            for i in range(n_dom):
                adj[i] = [j for j in range(n_img) if rng.random() < 0.7]
                rng.shuffle(adj[i])
        elif style == "dups":
            for i in range(n_dom):
                adj[i] = [rng.randrange(n_img) for _ in range(rng.randrange(0, 7))]
        elif style == "components":
            for i in range(n_dom):
                lo = (i // 3) * 3
                cand = [j for j in range(lo, min(lo + 3, n_img))]
                adj[i] = [j for j in cand if rng.random() < 0.6]
    if symmetric:
        # undirected simple graph (needed by the colouring / CM specs), isolated nodes allowed
        s = [set() for _ in range(n_dom)]
        for i in range(n_dom):
            for j in adj[i]:
                if j < n_dom and j != i:
                    s[i].add(j)
                    s[j].add(i)
        adj = [sorted(x) for x in s]
        if rng.random() < 0.5:
            for x in adj:
                rng.shuffle(x)
        if rng.random() < 0.3:  # self loops / diagonal like in matrix graphs
            adj = [x + [i] for i, x in enumerate(adj)]
        if multi and rng.random() < 0.3:  # repeated adjacencies (non-injective render), symmetric as a relation
            adj = [x * rng.choice([1, 2, 3]) for x in adj]
    return n_img, adj


def fmt_graph(n_img, adj):
    return "%d %d %s" % (n_img, len(adj), " ".join("%d %s" % (len(l), " ".join(map(str, l))) if l else "0" for l in adj)) \
        if adj else "%d 0" % n_img


def fmt_list(l):
    return ("%d " % len(l) + " ".join(map(str, l))).strip()


def rand_perm(rng, n):
    p = list(range(n))
    rng.shuffle(p)
    return p


def structured_perm(rng, n):
    """permutations with structure random ones almost never have: fixed tails/heads, involutions, short cycles"""
    k = rng.choice(["id", "tailfix", "headfix", "transp", "rev", "cycle", "involution", "random"])
    p = list(range(n))
    if k == "tailfix" and n >= 2:
        m = rng.randrange(1, n)
        q = p[:m]
        rng.shuffle(q)
        p = q + p[m:]
    elif k == "headfix" and n >= 2:
        m = rng.randrange(1, n)
        q = p[m:]
        rng.shuffle(q)
        p = p[:m] + q
    elif k == "transp" and n >= 2:
        i, j = rng.sample(range(n), 2)
        p[i], p[j] = p[j], p[i]
    elif k == "rev":
        p.reverse()
    elif k == "cycle" and n >= 2:
        m = rng.randrange(2, n + 1)
        p = p[1:m] + p[:1] + p[m:]
    elif k == "involution":
        idx = list(range(n))
        rng.shuffle(idx)
        for a in range(0, n - 1, 2):
            if rng.random() < 0.6:
                i, j = idx[a], idx[a + 1]
                p[i], p[j] = p[j], p[i]
    elif k == "random":
        rng.shuffle(p)
    return p


def exhaustive_perm_cases():
    """all permutations / pairs of permutations of length <= 4 through every permutation operation"""
    import itertools
    out = []
    for n in (1, 2, 3, 4):
        perms = [list(q) for q in itertools.permutations(range(n))]
        for a in perms:
            x = [100 + i for i in range(n)]
            out.append("apply 2 %s %s" % (fmt_list(a), fmt_list(x)))
            out.append("apply 4 %s %s" % (fmt_list(a), fmt_list(x)))
            out.append("inverse %s" % fmt_list(a))
            for b in perms:
                out.append("concat %s %s" % (fmt_list(a), fmt_list(b)))
        # all swap arrays
        for sw in itertools.product(*[range(i, n) for i in range(n)]):
            out.append("apply 3 %s %s" % (fmt_list(list(sw)), fmt_list([100 + i for i in range(n)])))
            out.append("apply 5 %s %s" % (fmt_list(list(sw)), fmt_list([100 + i for i in range(n)])))
    return out


def gen_cases(rng, count, big=False):
    cases = []
    for _ in range(count):
        k = rng.random()
        mx = rng.choice([12, 24, 40]) if big else 12
        if k < 0.22:
            n_img, adj = gen_graph(rng, max_n=mx)
            cases.append("render %d %s" % (rng.randrange(8), fmt_graph(n_img, adj)))
        elif k < 0.38:
            a_img, a = gen_graph(rng, max_n=8)
            b_img, b = gen_graph(rng, n_dom=a_img, max_n=8)
            cases.append("render2 %d %s %s" % (rng.randrange(8), fmt_graph(a_img, a), fmt_graph(b_img, b)))
        elif k < 0.43:
            n_img, adj = gen_graph(rng)
            if len(adj) == 0:
                adj = [[]]
            cases.append("sort %s" % fmt_graph(n_img, adj))
        elif k < 0.50:
            n_img, adj = gen_graph(rng)
            if len(adj) == 0 or n_img == 0:
                n_img, adj = 2, [[0, 1], []]
            cases.append("gperm %s %s %s" % (fmt_graph(n_img, adj), fmt_list(rand_perm(rng, len(adj))),
                                             fmt_list(rand_perm(rng, n_img))))
        elif k < 0.62:
            n = rng.choice([1, 1, 2, 3, 4, 5, 8, 16, 33, 64])
            kind = rng.choice([1, 2, 3, 4, 5])
            if kind in (3, 5):
                v = [rng.randrange(i, n) for i in range(n)]
            else:
                v = structured_perm(rng, n) if rng.random() < 0.5 else rand_perm(rng, n)
            if rng.random() < 0.5:
                cases.append("perm %d %s" % (kind, fmt_list(v)))
            else:
                x = [rng.randrange(1000) for _ in range(n)]
                cases.append("apply %d %s %s" % (kind, fmt_list(v), fmt_list(x)))
        elif k < 0.68:
            n = rng.choice([1, 2, 3, 5, 6, 8, 21])
            if rng.random() < 0.7:
                cases.append("concat %s %s" % (fmt_list(structured_perm(rng, n)), fmt_list(structured_perm(rng, n))))
            else:
                cases.append("inverse %s" % fmt_list(structured_perm(rng, n)))
        elif k < 0.82:
            n_img, adj = gen_graph(rng, square=True, symmetric=True, max_n=mx + 2)
            if rng.random() < 0.5:
                cases.append("color %s" % fmt_graph(n_img, adj))
            else:
                cases.append("colororder %s %s" % (fmt_graph(n_img, adj), fmt_list(rand_perm(rng, len(adj)))))
        else:
            n_img, adj = gen_graph(rng, square=True, symmetric=True, max_n=mx + 2, multi=True)
            if len(adj) == 0:
                n_img, adj = 1, [[]]
            cases.append("cm %d %d %d %s" % (rng.randrange(2), rng.randrange(3), rng.randrange(3), fmt_graph(n_img, adj)))
    return cases


CORPUS = [
    # past findings (F1, F2, F15), replayed first on every run
    "cm 0 0 0 4 4 2 1 2 1 0 1 0 0",
    "cm 1 2 2 3 3 1 1 1 0 0",
    "cm 0 2 0 3 3 0 0 0",
    "render 1 3 2 0 0",
    "render 3 0 3 0 0 0",
    "render2 1 2 2 0 0 3 2 0 0",
    "cm 1 1 1 6 6 2 1 2 1 0 1 0 2 4 5 1 3 1 3",
    # minimum_degree root with repeated adjacencies (degree > number of nodes)
    "cm 0 1 0 1 1 2 0 0",
    "cm 1 1 1 2 2 3 1 1 1 3 0 0 0",
    # concat whose second factor fixes a tail (stale swap array if only a prefix is rebuilt)
    "concat 4 2 3 0 1 4 0 1 3 2",
]


# ---------------------------------------------------------------------------------------------
# independent oracle (set / multiset reference; judges the impl output against the property text)
# ---------------------------------------------------------------------------------------------

class Tk:
    def __init__(self, s):
        self.t = s.split()
        self.p = 0

    def tok(self):
        self.p += 1
        return self.t[self.p - 1]

    def nat(self):
        return int(self.tok())

    def lst(self):
        n = self.nat()
        return [self.nat() for _ in range(n)]

    def graph_in(self):
        n_img, n_dom = self.nat(), self.nat()
        return n_img, [self.lst() for _ in range(n_dom)]

    def graph_out(self):
        assert self.tok() == "G"
        n_img = self.nat()
        ptr = self.lst()
        idx = self.lst()
        adj = [idx[ptr[i]:ptr[i + 1]] for i in range(len(ptr) - 1)]
        return n_img, ptr, idx, adj


def is_abnormal(out):
    return out.split(":")[0] in ("ABORT", "EXC", "TIMEOUT", "SIGNAL", "SANITIZER", "EXIT") or out in ("HANG", "BAD-OP")


def check_graph_struct(n_img, ptr, idx, n_dom_expected):
    if len(ptr) != n_dom_expected + 1:
        return "domain size %d, expected %d" % (len(ptr) - 1, n_dom_expected)
    if ptr[0] != 0 or any(ptr[i] > ptr[i + 1] for i in range(len(ptr) - 1)) or ptr[-1] != len(idx):
        return "domain_ptr not a monotone offset array"
    if any(k >= n_img for k in idx):
        return "image index out of range"
    return None


def oracle(case, out):
    c = Tk(case)
    op = c.tok()
    try:
        if op in ("render", "render2"):
            rt = c.nat()
            if op == "render":
                n_img, adj = c.graph_in()
            else:
                a_img, a = c.graph_in()
                n_img, b = c.graph_in()
                if a_img != len(b):
                    return None if out.startswith("ABORT") else "dimension mismatch not reported"
                adj = [[k for j in l for k in b[j]] for l in a]
            if is_abnormal(out):
                return "render of a valid adjactor ended with " + out
            o = Tk(out)
            r_img, ptr, idx, radj = o.graph_out()
            base = rt // 2
            if base in (0, 1):
                e = check_graph_struct(r_img, ptr, idx, len(adj))
                if e:
                    return e
                if r_img != n_img:
                    return "image size changed"
                for i, (l, r) in enumerate(zip(adj, radj)):
                    if base == 0:
                        exp = l
                    else:
                        exp = list(dict.fromkeys(l))
                    if rt % 2 == 1:
                        if r != sorted(exp):
                            return "row %d: %s, expected sorted %s" % (i, r, sorted(exp))
                    elif base == 0 and r != exp:
                        return "row %d: %s, expected %s" % (i, r, exp)
                    elif base == 1 and (Counter(r) != Counter(exp)):
                        return "row %d: %s is not the duplicate-free version of %s" % (i, r, l)
            else:
                e = check_graph_struct(r_img, ptr, idx, n_img)
                if e:
                    return e
                if r_img != len(adj):
                    return "transpose image size %d, expected %d" % (r_img, len(adj))
                for i in range(n_img):
                    if base == 2:
                        exp = [j for j, l in enumerate(adj) for k in l if k == i]
                    else:
                        exp = [j for j, l in enumerate(adj) if i in l]
                    if radj[i] != exp:
                        return "transposed row %d: %s, expected %s" % (i, radj[i], exp)
            return None
        if op == "sort":
            n_img, adj = c.graph_in()
            if is_abnormal(out):
                return "sort_indices ended with " + out
            r_img, ptr, idx, radj = Tk(out).graph_out()
            if [sorted(l) for l in adj] != radj or r_img != n_img:
                return "sorting changed an adjacency multiset"
            return None
        if op == "gperm":
            n_img, adj = c.graph_in()
            dp, ip = c.lst(), c.lst()
            if is_abnormal(out):
                return "graph permutation ended with " + out
            r_img, ptr, idx, radj = Tk(out).graph_out()
            exp = [[ip[k] for k in adj[d]] for d in dp]
            if radj != exp or r_img != n_img:
                return "permuted graph is not the relabelled relation"
            return None
        if op in ("perm", "apply", "concat", "inverse"):
            if op in ("perm", "apply"):
                kind = c.nat()
                v = c.lst()
                n = len(v)
                if kind == 1:
                    p = list(range(n))
                elif kind == 2:
                    p = v
                elif kind == 4:
                    p = [0] * n
                    for i, k in enumerate(v):
                        p[k] = i
                elif kind == 3:
                    p = list(range(n))
                    for i in range(n):
                        p[i], p[v[i]] = p[v[i]], p[i]
                else:
                    p = list(range(n))
                    for i in reversed(range(n)):
                        p[i], p[v[i]] = p[v[i]], p[i]
            elif op == "concat":
                p1, p2 = c.lst(), c.lst()
                p = [p2[k] for k in p1]
            else:
                p1 = c.lst()
                p = [0] * len(p1)
                for i, k in enumerate(p1):
                    p[k] = i
            n = len(p)
            if is_abnormal(out):
                return "permutation operation on a valid input ended with " + out
            o = Tk(out)
            tag = o.tok()
            if tag == "P":
                perm, swap = o.lst(), o.lst()
                if perm != p:
                    return "permutation array %s, expected %s" % (perm, p)
                # the swap array must realise the same bijection
                x = list(range(n))
                for i in range(n - 1):
                    j = swap[i]
                    if j < i or j >= n:
                        return "invalid swap position"
                    x[i], x[j] = x[j], x[i]
                if x != p:
                    return "swap array does not realise the permutation array"
                return None
            a, b, cc, d = o.lst(), o.lst(), o.lst(), o.lst()
            x = c.lst()
            exp = [x[k] for k in p]
            inv = [0] * n
            for i, k in enumerate(p):
                inv[k] = x[i]
            if cc != exp:
                return "out-of-place apply is not x[perm[i]]"
            if a != exp:
                return "in-situ apply differs from the bijection"
            if d != inv or b != inv:
                return "inverse apply does not undo the permutation"
            return None
        if op in ("color", "colororder"):
            n_img, adj = c.graph_in()
            if is_abnormal(out):
                return "colouring ended with " + out
            o = Tk(out)
            assert o.tok() == "C"
            nc = o.nat()
            col = o.lst()
            p_img, ptr, idx, padj = o.graph_out()
            if len(col) != len(adj):
                return "colouring has wrong length"
            for i, l in enumerate(adj):
                for j in l:
                    if j != i and col[i] == col[j]:
                        return "adjacent nodes %d and %d share colour %d" % (i, j, col[i])
            if adj and (max(col) + 1 != nc):
                return "number of colours inconsistent"
            if adj:
                e = check_graph_struct(p_img, ptr, idx, nc)
                if e:
                    return "partition graph: " + e
                for cidx, l in enumerate(padj):
                    if l != [j for j in range(len(col)) if col[j] == cidx]:
                        return "partition graph row %d wrong" % cidx
            return None
        if op == "cm":
            rev, rt, st = c.nat(), c.nat(), c.nat()
            n_img, adj = c.graph_in()
            if is_abnormal(out):
                return "Cuthill-McKee ended with " + out
            o = Tk(out)
            assert o.tok() == "CM"
            perm, swap, layers = o.lst(), o.lst(), o.lst()
            n = len(adj)
            if sorted(perm) != list(range(n)):
                return "Cuthill-McKee ordering is not a bijection: %s" % perm
            x = list(range(n))
            for i in range(n - 1):
                j = swap[i]
                if j < i or j >= n:
                    return "invalid swap position"
                x[i], x[j] = x[j], x[i]
            if x != perm:
                return "swap array does not realise the ordering"
            if layers[0] != 0 or layers[-1] != n or any(layers[i] > layers[i + 1] for i in range(len(layers) - 1)):
                return "layer offsets malformed: %s" % layers
            return None
    except (IndexError, ValueError, AssertionError) as e:
        return "unparsable implementation output (%s): %s" % (e, out[:200])
    return None


def nontrivial(case):
    c = Tk(case)
    op = c.tok()
    if op in ("perm", "apply", "concat", "inverse"):
        return len(case.split()) > 6
    try:
        if op in ("render", "render2"):
            c.nat()
        if op == "cm":
            c.nat(), c.nat(), c.nat()
        n_img, adj = c.graph_in()
    except Exception:
        return False
    if not adj:
        return False
    has_dup = any(len(set(l)) != len(l) for l in adj)
    has_empty = any(len(l) == 0 for l in adj)
    # components of the undirected version
    return has_dup or has_empty or sum(map(len, adj)) >= 2


def describe(case):
    t = case.split()
    keys = ["op:" + t[0]]
    if t[0] in ("render", "render2"):
        keys.append("rt:" + t[1])
    if t[0] == "cm":
        keys.append("cm-opt:%s%s%s" % (t[1], t[2], t[3]))
    return keys


def signature(case, out, why):
    t = case.split()
    return "%s:%s" % (t[0], (why or "")[:40])


def main(argv):
    args = vlib.std_args(argv)
    t0 = time.time()
    rng = random.Random(args.seed * 1000003 + 19)
    lean = None if args.no_lean else vlib.lean_check(PROP, leanchecker=(args.tier == "thorough"))
    binary, err = vlib.build_harness("c19", os.path.join(vlib.VERIF, "harness", "c19", "main.cpp"))
    if binary is None:
        v = [{"property": PROP, "kind": "harness-build-failure", "detail": err, "failing_input": None,
              "broken": "harness c19 does not compile against the current tree"}]
        return vlib.finish(PROP, args.tier, args.seed, t0, lean, [], [], v, [])
    if args.replay:
        cases = [json.load(open(args.replay))["input"]]
    else:
        cases = CORPUS + exhaustive_perm_cases() + (gen_cases(rng, 3000) if args.tier == "quick" else gen_cases(rng, 150000, big=True))
    st = vlib.Stream("adjacency", cases, [binary], vlib.driver_cmd(PROP), oracle=oracle, nontrivial=nontrivial,
                     describe=describe, signature=signature)
    stats_rule = ("random graphs (domain/image 0..14, empty lists, duplicates, isolated nodes, several components), "
                  "permutations of length 1..64 through every constructor, all 8 render types x single/composite, "
                  "colouring with/without order, CM with all 2x3x3 options; non-trivial = duplicates, an empty "
                  "adjacency list or >= 2 adjacencies (graphs) / length >= 2 (permutations)")
    rc = vlib.run_pipeline(PROP, args.tier, args.seed, lean, [st], t0, assumptions=[
        "Index modelled as unbounded Nat (no 64-bit overflow at the sizes FEAT can allocate)",
        "std::sort modelled as any sorting function"],
        extra_cov={"rule": stats_rule})
    return rc
