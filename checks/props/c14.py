"""C14 - every named cubature rule is exact up to its nominal polynomial degree; unknown names are refused."""
import hashlib
import json
import os
import random
import re
import subprocess
import sys
import time
from fractions import Fraction
from itertools import product
from math import factorial

import vlib

PROP = "C14"
SHAPES = ["s1", "s2", "s3", "h1", "h2", "h3"]
DIM = {"s1": 1, "s2": 2, "s3": 3, "h1": 1, "h2": 2, "h3": 3}
SIMPLEX = {"s1": True, "s2": True, "s3": True, "h1": False, "h2": False, "h3": False}
REFINE_COUNT = {"s1": 2, "s2": 4, "s3": 12, "h1": 2, "h2": 4, "h3": 8}
MAX_AUTO = {"s1": 39, "s2": 19, "s3": 5, "h1": 39, "h2": 39, "h3": 39}     # advertised maximum of auto-degree
TOL = Fraction(1, 2 ** 40)
WS = " \a\b\f\n\r\t\v"
MAX_TABLE_POINTS = 125        # rules with more points are not dumped into Gen/ (checked through their structure)

# ---------------------------------------------------------------------------------------------
# the specification, written down independently of the Lean model and of the dump:
# which rule names exist for which shape, how many points they have and their nominal degree
# ---------------------------------------------------------------------------------------------

def _nc(n):
    return n - 1 + (n % 2)


SCALAR_DRIVERS = {   # name -> (min, max, degree(n))   [rules on the interval; usable for Simplex<1> and, tensorised, cubes]
    "gauss-legendre": (1, 20, lambda n: 2 * n - 1),
    "gauss-lobatto": (3, 6, lambda n: 2 * n - 3),
    "maclaurin": (1, 5, _nc),
    "newton-cotes-closed": (2, 7, _nc),
    "newton-cotes-open": (1, 7, _nc),
}
SCALAR_ALIASES = {"simpson": ("newton-cotes-closed", 3), "pulcherrima": ("newton-cotes-closed", 4),
                  "milne-boole": ("newton-cotes-closed", 5), "6-point": ("newton-cotes-closed", 6),
                  "weddle": ("newton-cotes-closed", 7)}
DUNAVANT_POINTS = {2: 3, 3: 4, 4: 6, 5: 7, 6: 12, 7: 13, 8: 16, 9: 19, 10: 25, 11: 27, 12: 33, 13: 37, 14: 42, 15: 48,
                   16: 52, 17: 61, 18: 70, 19: 73, 20: 79}
SHUNN_HAM = {2: (4, 2), 3: (10, 3), 4: (20, 5), 5: (35, 6), 6: (56, 8)}


def shape_drivers(shape):
    """name -> (variadic, min, max, npts(n), degree(n), kind)"""
    d = DIM[shape]
    simplex = SIMPLEX[shape]
    r = {}
    if shape == "s1" or not simplex:
        kind = "scalar" if simplex else "tensor"
        for nm, (lo, hi, deg) in SCALAR_DRIVERS.items():
            r[nm] = (True, lo, hi, (lambda n, d=d: n ** d), deg, kind)
    if shape == "s2":
        r["hammer-stroud-degree-2"] = (False, 0, 0, lambda n: 3, lambda n: 2, "driver")
        r["hammer-stroud-degree-3"] = (False, 0, 0, lambda n: 4, lambda n: 3, "driver")
        r["lauffer-degree-2"] = (False, 0, 0, lambda n: 6, lambda n: 2, "driver")
        r["silvester-open"] = (True, 2, 8, lambda n: (n + 1) * (n + 2) // 2, lambda n: n, "driver")
        r["dunavant"] = (True, 2, 20, lambda n: DUNAVANT_POINTS[n], lambda n: n, "driver")
    if shape == "s3":
        r["hammer-stroud-degree-2"] = (False, 0, 0, lambda n: 4, lambda n: 2, "driver")
        r["hammer-stroud-degree-3"] = (False, 0, 0, lambda n: 5, lambda n: 3, "driver")
        r["hammer-stroud-degree-5"] = (False, 0, 0, lambda n: 15, lambda n: 5, "driver")
        r["lauffer-degree-2"] = (False, 0, 0, lambda n: 10, lambda n: 2, "driver")
        r["lauffer-degree-4"] = (False, 0, 0, lambda n: 35, lambda n: 4, "driver")
        r["shunn-ham"] = (True, 2, 6, lambda n: SHUNN_HAM[n][0], lambda n: SHUNN_HAM[n][1], "driver")
    r["barycentre"] = (False, 0, 0, lambda n: 1, lambda n: 1, "driver")
    r["trapezoidal"] = (False, 0, 0, (lambda n: d + 1) if simplex else (lambda n: 2 ** d), lambda n: 1, "driver")
    return r


def shape_aliases(shape):
    a = {"midpoint": ("barycentre", 0)}
    if shape == "s1" or not SIMPLEX[shape]:
        a.update(SCALAR_ALIASES)
    return a


NUM = re.compile(r"\+?[0-9]+\Z")


def spec_parse(pfx, shape, name):
    """liberal reading of a rule name: whitespace around the ':'/'*' separated tokens, any letter case.
    Returns None (not a rule name) or dict(kind='base'|'auto', driver, n, degree D, k refinements)."""
    parts = [p.strip(WS).lower() for p in name.split(":")]
    k = 0
    if len(parts) >= 2:
        h = parts[0]
        hh = [x.strip(WS) for x in h.split("*")]
        if hh[0] == "refine" and len(hh) <= 2:
            if len(hh) == 2:
                if not NUM.match(hh[1]):
                    return None
                k = int(hh[1])
            else:
                k = 1
            parts = parts[1:]
            refined = True
        else:
            refined = False
    else:
        refined = False
    drivers = shape_drivers(shape)
    aliases = shape_aliases(shape)
    if parts[:1] == ["auto-degree"] and len(parts) == 2 and NUM.match(parts[1]):
        return {"kind": "auto", "D": int(parts[1]), "k": k, "refined": refined}
    pre = ""
    if pfx and parts and parts[0] in ("tensor", "scalar"):
        want = "scalar" if shape == "s1" else ("tensor" if not SIMPLEX[shape] else None)
        if parts[0] != want:
            return None
        pre = want + ":"
        parts = parts[1:]
    if len(parts) == 1 and parts[0] in aliases:
        drv, n = aliases[parts[0]]
    elif len(parts) == 1 and parts[0] in drivers and not drivers[parts[0]][0]:
        drv, n = parts[0], 0
    elif len(parts) == 2 and parts[0] in drivers and drivers[parts[0]][0] and NUM.match(parts[1]):
        drv, n = parts[0], int(parts[1])
        if not (drivers[drv][1] <= n <= drivers[drv][2]):
            return None
    else:
        return None
    variadic, lo, hi, npts, deg, kind = drivers[drv]
    if pfx and kind in ("tensor", "scalar"):
        if pre == "":
            return None          # with the prefix configuration these rules need their prefix
    elif pre != "":
        return None
    base = pre + drv + (":%d" % n if variadic else "")
    return {"kind": "base", "driver": drv, "n": n, "k": k, "refined": refined, "base": base, "npts": npts(n),
            "degree": deg(n), "fkind": kind}


def refined_name(base, k):
    return base if k == 0 else ("refine:" + base if k == 1 else "refine*%d:%s" % (k, base))


def has_ws(name):
    return any(c in WS for c in name)


# ---------------------------------------------------------------------------------------------
# exact moments
# ---------------------------------------------------------------------------------------------

def ref_integral(simplex, e):
    if simplex:
        num = 1
        for k in e:
            num *= factorial(k)
        return Fraction(num, factorial(sum(e) + len(e)))
    r = Fraction(1)
    for k in e:
        r *= 0 if k % 2 else Fraction(2, k + 1)
    return r


def all_monos(dim, d):
    return [e for e in product(range(d + 1), repeat=dim) if sum(e) <= d]


def _lcm(a, b):
    from math import gcd
    return a * b // gcd(a, b)


class IntRule:
    """rule over common denominators (integer arithmetic only: much faster than Fraction sums)"""

    def __init__(self, w, x):
        self.dw = 1
        for v in w:
            self.dw = _lcm(self.dw, v.denominator)
        self.dx = 1
        for p in x:
            for c in p:
                self.dx = _lcm(self.dx, c.denominator)
        self.w = [int(v * self.dw) for v in w]
        self.x = [[int(c * self.dx) for c in p] for p in x]
        self.dim = len(x[0]) if x else 0
        self.pw = None

    def powers(self, d):
        if self.pw is None or len(self.pw[0][0]) <= d:
            self.pw = []
            for p in self.x:
                row = []
                for c in p:
                    l = [1]
                    for _ in range(d):
                        l.append(l[-1] * c)
                    row.append(l)
                self.pw.append(row)
        return self.pw

    def moment(self, e):
        pw = self.powers(max(e) if e else 0)
        s = 0
        for wi, row in zip(self.w, pw):
            t = wi
            for l, k in zip(row, e):
                if k:
                    t *= l[k]
            s += t
        return Fraction(s, self.dw * self.dx ** sum(e))


def moment(w, x, e):
    return IntRule(w, x).moment(e)


def parse_rule(out, dim):
    t = out.split()
    assert t[0] == "R"
    name, n = t[1], int(t[2])
    vals = t[3:]
    assert len(vals) == n * (dim + 1), "rule length"
    w, x = [], []
    for i in range(n):
        w.append(vlib.parse_frac(vals[i * (dim + 1)]))
        x.append([vlib.parse_frac(v) for v in vals[i * (dim + 1) + 1:(i + 1) * (dim + 1)]])
    return name, w, x


def check_exact(case, shape, w, x, degree, budget=150000):
    """None or (monomial, error): all monomials up to `degree` (sampled deterministically if too many)"""
    dim, simplex = DIM[shape], SIMPLEX[shape]
    ms = all_monos(dim, degree)
    if len(ms) * len(w) > budget:
        rr = random.Random(int(hashlib.sha256(case.encode()).hexdigest()[:12], 16))
        keep = max(8, budget // max(1, len(w)))
        low = [e for e in ms if sum(e) <= 2]
        top = [e for e in ms if sum(e) == degree]
        ms = low + rr.sample(top, min(len(top), keep // 2)) + rr.sample(ms, min(len(ms), keep // 2))
    ir = IntRule(w, x)
    ir.powers(degree)
    for e in ms:
        err = abs(ir.moment(e) - ref_integral(simplex, e))
        if err > TOL:
            return e, err
    return None


def is_abnormal(out):
    return out.split(":")[0] in ("ABORT", "EXC", "TIMEOUT", "SIGNAL", "SANITIZER", "EXIT") or out.startswith("BAD-OP") \
        or out == "CFG-MISMATCH"


def unhex(h):
    return "" if h == "-" else bytes.fromhex(h).decode("latin-1")


def enhex(s):
    return s.encode("latin-1").hex() if s else "-"


ALL_CREATE_OPS = ("head", "rule", "ruleq", "headt", "rulet")      # ..t = through create_throw
# ---------------------------------------------------------------------------------------------
# oracle
# ---------------------------------------------------------------------------------------------

def oracle(case, out):
    t = case.split()
    op = t[0]
    try:
        if op in ALL_CREATE_OPS:
            pfx, shape, name = int(t[1]), t[2], unhex(t[3])
            if is_abnormal(out):
                return "crash: create(%r) for %s ended with %s instead of refusing" % (name, shape, out)
            spec = spec_parse(pfx, shape, name)
            if out == "REFUSED":
                if spec is not None and not has_ws(name) and not (spec["kind"] == "auto" and spec["D"] >= 2 ** 64):
                    return "refused-valid: the valid rule name %r is refused for %s" % (name, shape)
                return None
            o = out.split()
            rname, npts = o[1], int(o[2])
            if spec is None:
                extra = ""
                if op in ("rule", "ruleq", "rulet"):
                    try:
                        _, w, x = parse_rule(out, DIM[shape])
                        extra = "; its weights sum to %s instead of %s" % (float(sum(w)), float(ref_integral(SIMPLEX[shape], [0] * DIM[shape])))
                    except Exception as e:
                        extra = "; rule data unreadable (%s)" % e
                return "refused-invalid: %r is not a rule name for %s (unknown driver, or point count outside the " \
                       "advertised range) but is answered with rule %s of %d points%s" % (name, shape, rname, npts, extra)
            rspec = spec
            if spec["kind"] == "auto":
                # the chosen rule is the implementation's business; it must be a known rule ...
                m = re.match(r"(refine(\*[0-9]+)?:)?(.*)\Z", rname)
                rspec = spec_parse(pfx, shape, m.group(3))
                if rspec is None or rspec["kind"] != "base" or has_ws(rname):
                    return "auto-unknown: auto-degree:%d answered with the unknown rule %s" % (spec["D"], rname)
                rspec = dict(rspec, k=spec["k"])
                # ... of sufficient degree, within the advertised maximum
                if spec["D"] <= MAX_AUTO[shape] and rspec["degree"] < spec["D"]:
                    return "auto-degree: auto-degree:%d answered with %s of nominal degree %d" % (
                        spec["D"], rname, rspec["degree"])
            exp_name = refined_name(rspec["base"], rspec["k"])
            exp_pts = rspec["npts"] * REFINE_COUNT[shape] ** rspec["k"]
            if rname != exp_name:
                return "wrong-rule: %r answered with rule %s, expected %s" % (name, rname, exp_name)
            if npts != exp_pts:
                return "wrong-count: rule %s has %d points, expected %d" % (rname, npts, exp_pts)
            if op in ("head", "headt"):
                return None
            _, w, x = parse_rule(out, DIM[shape])
            if len(w) != npts:
                return "wrong-count: rule data of %s" % rname
            degree = rspec["degree"]
            bad = check_exact(case, shape, w, x, degree)
            if bad is not None:
                return "inexact %s %s: monomial %s integrated with error %.3e (nominal degree %d%s)" % (
                    shape, rspec["base"], list(bad[0]), float(bad[1]), degree,
                    ", weights sum %s" % float(sum(w)) if sum(bad[0]) == 0 else "")
            return None
        if op == "auto":
            pfx, shape, d = int(t[1]), t[2], int(t[3])
            if is_abnormal(out):
                return "crash: AutoDegree::choose(%d) ended with %s" % (d, out)
            spec = spec_parse(pfx, shape, out)
            if spec is None or spec["kind"] != "base" or spec["k"] != 0:
                return "auto-unknown: choose(%d) = %s is not a rule name" % (d, out)
            if d <= MAX_AUTO[shape] and spec["degree"] < d:
                return "auto-degree: choose(%d) = %s has nominal degree %d" % (d, out, spec["degree"])
            return None
        # transformations of dyadic rules
        if op == "refine":
            shape, k = t[1], int(t[2])
            rest = t[3:]
        elif op == "tensor":
            shape, k = "h%s" % t[1], 0
            rest = t[2:]
        else:
            shape, k = "s1", 0
            rest = t[1:]
        if is_abnormal(out):
            return "crash: %s ended with %s" % (op, out)
        ew, ec, dim_in, n = int(rest[0]), int(rest[1]), int(rest[2]), int(rest[3])
        vals = [int(v) for v in rest[4:]]
        win = [Fraction(vals[i * (dim_in + 1)], 2 ** ew) for i in range(n)]
        xin = [[Fraction(v, 2 ** ec) for v in vals[i * (dim_in + 1) + 1:(i + 1) * (dim_in + 1)]] for i in range(n)]
        _, w, x = parse_rule(out, DIM[shape])
        if op == "refine":
            if len(w) != n * REFINE_COUNT[shape] ** k:
                return "refine-count: %d points, expected %d" % (len(w), n * REFINE_COUNT[shape] ** k)
            if sum(w) != sum(win):
                return "refine-weights: weight sum %s became %s" % (sum(win), sum(w))
            # a refined rule is a composite rule: what the input integrates exactly, the output does too
            simplex = SIMPLEX[shape]
            ri, ro = IntRule(win, xin), IntRule(w, x)
            for dg in range(0, 4):
                if not all(ri.moment(f) == ref_integral(simplex, f) for f in all_monos(dim_in, dg) if sum(f) == dg):
                    break
                for e in all_monos(dim_in, dg):
                    if sum(e) == dg and ro.moment(e) != ref_integral(simplex, e):
                        return "refine-degree: input exact up to degree %d, refined rule wrong on %s" % (dg, list(e))
            inside = (lambda p: all(c >= 0 for c in p) and sum(p) <= 1) if simplex else (lambda p: all(-1 <= c <= 1 for c in p))
            if all(inside(p) for p in xin) and not all(inside(p) for p in x):
                return "refine-outside: refinement moved a point out of the reference cell"
            return None
        if op == "tensor":
            d = DIM[shape]
            if len(w) != n ** d:
                return "tensor-count: %d points, expected %d" % (len(w), n ** d)
            rr = random.Random(int(hashlib.sha256(case.encode()).hexdigest()[:12], 16))
            ri, ro = IntRule(win, xin), IntRule(w, x)
            for _ in range(6):
                e = [rr.randrange(0, 5) for _ in range(d)]
                m = Fraction(1)
                for kk in e:
                    m *= ri.moment([kk])
                if ro.moment(e) != m:
                    return "tensor-moment: moment %s is not the product of the scalar moments" % e
            return None
        if op == "sscalar":
            if w != [wi / 2 for wi in win] or x != [[(p[0] + 1) / 2] for p in xin]:
                return "sscalar: not the image of the rule under [-1,1] -> [0,1]"
            return None
    except (IndexError, ValueError, AssertionError) as e:
        return "unparsable implementation output (%s): %s" % (e, out[:200])
    return None


def signature(case, out, why):
    why = why or ""
    if why.startswith("inexact "):
        p = why.split(":")[0].split()
        return "inexact:%s:%s" % (p[1], why.split()[2].rstrip(":"))
    return why.split(":")[0]


def canon(out):
    return out


def model_filter(case):
    t = case.split()
    if t[0] in ("rule", "rulet"):
        spec = spec_parse(int(t[1]), t[2], unhex(t[3]))
        if spec is None:
            return True
        if spec["kind"] == "auto":
            return spec["k"] == 0 and (DIM[t[2]] == 1 or t[2] in ("s2", "s3") or spec["D"] < 2 * (4 if t[2] == "h3" else 10))
        return spec["k"] == 0 and spec["npts"] <= MAX_TABLE_POINTS
    if t[0] == "ruleq":
        spec = spec_parse(int(t[1]), t[2], unhex(t[3]))
        if spec is None:
            return True
        if spec["kind"] == "auto":
            # auto-degree maps to gauss-legendre / dunavant / shunn-ham (pure literal tables), or, for triangles and
            # tetrahedra up to degree 1, to barycentre (weight 1/d!: not a double)
            return not (t[2] in ("s2", "s3") and spec["D"] <= 1)
        return spec["driver"] in Q_EXACT or (spec["driver"] in ("barycentre", "trapezoidal") and not SIMPLEX[t[2]])
    return True


Q_EXACT = ("gauss-legendre", "dunavant", "shunn-ham")     # drivers whose tables are pure literals


def nontrivial(case):
    t = case.split()
    if t[0] in ("head", "headt"):
        name = unhex(t[3])
        return name != name.strip().lower() or name.count(":") >= 2 or "refine" in name.lower() or \
            spec_parse(int(t[1]), t[2], name) is None
    if t[0] in ("rule", "ruleq"):
        return True
    if t[0] == "auto":
        return True
    return True


def describe(case):
    t = case.split()
    keys = ["op:" + t[0]]
    if t[0] in ALL_CREATE_OPS:
        name = unhex(t[3])
        spec = spec_parse(int(t[1]), t[2], name)
        keys.append("shape:" + t[2])
        keys.append("pfx:" + t[1])
        if spec is None:
            keys.append("class:not-a-name")
            m = re.match(r"(?:refine[^:]*:)?(?:tensor:|scalar:)?([a-z0-9-]+):(-?[0-9]+)\Z", name)
            if m and m.group(1) in shape_drivers(t[2]):
                keys.append("out-of-range:" + m.group(1))
        else:
            keys.append("class:valid" + ("+ws" if has_ws(name) else ""))
            keys.append("refines:%d" % spec["k"])
            keys.append("driver:" + (spec.get("driver") or "auto-degree"))
    elif t[0] == "refine":
        keys.append("shape:" + t[1])
        keys.append("refines:" + t[2])
    elif t[0] == "tensor":
        keys.append("dim:" + t[1])
    return keys


# ---------------------------------------------------------------------------------------------
# generators
# ---------------------------------------------------------------------------------------------

def canonical_names(pfx, shape):
    out = []
    for nm, (variadic, lo, hi, npts, deg, kind) in shape_drivers(shape).items():
        pre = (kind + ":") if (pfx and kind in ("tensor", "scalar")) else ""
        if variadic:
            out += [pre + "%s:%d" % (nm, n) for n in range(lo, hi + 1)]
        else:
            out.append(pre + nm)
    return out


def rand_case(rng, s):
    return "".join(c.upper() if rng.random() < 0.3 else c for c in s)


def rand_ws(rng):
    return rng.choice(["", "", " ", "  ", "\t", " \t"])


def mutate_name(rng, pfx, shape):
    """a (mostly valid, often perturbed) rule name"""
    drivers = shape_drivers(shape)
    aliases = shape_aliases(shape)
    r = rng.random()
    # core
    if r < 0.15:
        d = rng.choice([0, 1, 2, 3, 4, 5, 6, 7, 8, 10, 11, 15, 16, 18, 19, 20, 21, 38, 39, 40, 41, 100, 2 ** 31, 2 ** 32 + 2,
                        2 ** 63, 2 ** 64 - 1])
        core = ["auto-degree", str(d)]
        if rng.random() < 0.1:
            core[0] = rng.choice(["auto-degre", "auto_degree", "auto-degree-x", "auto", "autodegree", "auto-", "-degree"])
    elif r < 0.25:
        core = [rng.choice(list(aliases))]
    else:
        nm = rng.choice(list(drivers))
        variadic, lo, hi, npts, deg, kind = drivers[nm]
        if variadic:
            n = rng.choice([lo, hi, rng.randint(lo, hi), rng.randint(lo, hi), rng.randint(lo, hi), lo - 1, hi + 1, 0])
            if hi == 20 and DIM[shape] == 3 and rng.random() < 0.7:
                n = min(n, 9)
            ns = str(n)
            q = rng.random()
            if q < 0.05:
                ns = "+" + ns
            elif q < 0.08:
                ns = "0" + ns
            elif q < 0.11:
                ns = ns + rng.choice(["x", ".0", ":1", " 1", "e1", ":", "-"])
            elif q < 0.13:
                ns = rng.choice(["", "-1", "x", "99999999999", "2147483648", "-2147483649", "0x3", "three"])
            core = [nm, ns]
        else:
            core = [nm]
            if rng.random() < 0.05:
                core.append(rng.choice(["1", "", "3"]))
        if pfx and kind in ("tensor", "scalar") and rng.random() < 0.9:
            core = [kind] + core
        elif rng.random() < 0.04:
            core = [rng.choice(["tensor", "scalar"])] + core
    # wrong-shape / typo mutations
    q = rng.random()
    if q < 0.06:
        other = rng.choice([s for s in SHAPES if s != shape])
        core[0] = rng.choice(list(shape_drivers(other)))
    elif q < 0.12 and len(core[0]) > 2:
        i = rng.randrange(len(core[0]))
        core[0] = core[0][:i] + rng.choice(["", "x", core[0][i] * 2, "_"]) + core[0][i + 1:]
    # refine prefix
    q = rng.random()
    parts = list(core)
    if q < 0.35:
        kmax = 2 if DIM[shape] == 3 else 3
        k = rng.choice([0, 1, 1, 2, kmax])
        big = len(core) >= 2 and core[-1].lstrip("+0").isdigit() and int(core[-1].lstrip("+0") or 0) > 6 and DIM[shape] == 3
        if big:
            k = min(k, 1)
        style = rng.random()
        if k == 1 and style < 0.6:
            head = "refine"
        else:
            head = "refine" + rand_ws(rng) + "*" + rand_ws(rng) + rng.choice(["", "", "+", "0"]) + str(k)
        if rng.random() < 0.08:
            head = rng.choice(["refin", "refine*", "refine*x", "refine**2", "re-fine", "refine2", "*2", "refine*2*2"])
        parts = [head] + parts
        if rng.random() < 0.05:
            parts = ["refine"] + parts
    # assemble with optional whitespace / case changes
    wsy = rng.random() < 0.25
    name = ":".join((rand_ws(rng) + p + rand_ws(rng)) if wsy else p for p in parts)
    if rng.random() < 0.4:
        name = rand_case(rng, name)
    q = rng.random()
    if q < 0.02:
        name = rng.choice(["", ":", "::", ":5", "x::3", "refine::3", "auto-degree", "auto-degree:", ":auto-degree:3", "*", " "])
    return name


def rand_dyrule(rng, dim, n, inside, simplex, ec=None):
    ew = rng.choice([0, 1, 3, 6])
    ec = rng.choice([1, 2, 4, 7]) if ec is None else ec
    pts = []
    for _ in range(n):
        w = rng.randint(-2 ** ew, 3 * 2 ** ew)
        if inside:
            if simplex:
                while True:
                    p = [rng.randint(0, 2 ** ec) for _ in range(dim)]
                    if sum(p) <= 2 ** ec:
                        break
            else:
                p = [rng.randint(-2 ** ec, 2 ** ec) for _ in range(dim)]
        else:
            p = [rng.randint(-2 ** (ec + 1), 2 ** (ec + 1)) for _ in range(dim)]
        pts.append((w, p))
    return ew, ec, pts


def fmt_dyrule(ew, ec, dim, pts):
    return "%d %d %d %d %s" % (ew, ec, dim, len(pts), " ".join("%d %s" % (w, " ".join(map(str, p))) for w, p in pts))


def exact_low_rule(rng, shape):
    """a dyadic rule that is exact for degree <= 1 (so that 'refine keeps the degree' has something to keep):
    vertices of the reference cell with equal weights (the trapezoidal rule), points listed in random order"""
    dim, simplex = DIM[shape], SIMPLEX[shape]
    if simplex:
        # weights 1/(dim+1)! are dyadic only for dim = 1; use the barycentric trick: vertex rule scaled -> dim 1 only
        if dim == 1:
            pts = [(1, [0]), (1, [2])]
            return 1, 1, pts
        return None
    pts = [(1, [(-1 if (i >> j) & 1 == 0 else 1) for j in range(dim)]) for i in range(2 ** dim)]
    rng.shuffle(pts)
    return 0, 0, pts


def gen_transform_cases(rng, count):
    cases = []
    for _ in range(count):
        r = rng.random()
        if r < 0.55:
            shape = rng.choice(SHAPES)
            dim = DIM[shape]
            kmax = 2 if dim == 3 else 3
            k = rng.choice([0, 1, 1, 2, kmax])
            n = rng.choice([1, 1, 2, 3, 4]) if dim < 3 or k < 2 else rng.choice([1, 2])
            el = exact_low_rule(rng, shape) if rng.random() < 0.25 else None
            if el:
                ew, ec, pts = el
            else:
                ew, ec, pts = rand_dyrule(rng, dim, n, rng.random() < 0.6, SIMPLEX[shape])
            cases.append("refine %s %d %s" % (shape, k, fmt_dyrule(ew, ec, dim, pts)))
        elif r < 0.85:
            dim = rng.choice([1, 2, 2, 3, 3])
            n = rng.choice([1, 2, 3, 4, 5])
            ew, ec, pts = rand_dyrule(rng, 1, n, rng.random() < 0.6, False)
            cases.append("tensor %d %s" % (dim, fmt_dyrule(ew, ec, 1, pts)))
        else:
            n = rng.choice([1, 2, 3, 5, 8])
            ew, ec, pts = rand_dyrule(rng, 1, n, rng.random() < 0.6, False)
            cases.append("sscalar %s" % fmt_dyrule(ew, ec, 1, pts))
    return cases


def gen_name_cases(rng, pfx, count):
    cases = []
    for _ in range(count):
        shape = rng.choice(SHAPES)
        cases.append("head %d %s %s" % (pfx, shape, enhex(mutate_name(rng, pfx, shape))))
    for shape in SHAPES:
        for d in list(range(0, MAX_AUTO[shape] + 4)) + [rng.randrange(2 ** 40), 2 ** 32 + rng.randrange(25), 2 ** 64 - 1]:
            cases.append("auto %d %s %d" % (pfx, shape, d))
    return cases


def gen_table_cases(pfx, max_pts):
    """every canonical rule name, every alias and every auto-degree of every shape through the full-rule op"""
    cases = []
    for shape in SHAPES:
        names = canonical_names(pfx, shape)
        pre = ""
        if pfx and (shape == "s1" or not SIMPLEX[shape]):
            pre = "scalar:" if shape == "s1" else "tensor:"
        names += [(pre if a != "midpoint" else "") + a for a in shape_aliases(shape)]
        names += ["auto-degree:%d" % d for d in range(0, MAX_AUTO[shape] + 3)]
        for nm in names:
            spec = spec_parse(pfx, shape, nm)
            if spec and spec["kind"] == "base" and spec["npts"] > max_pts:
                continue
            if spec and spec["kind"] == "auto" and DIM[shape] ** 1 and (spec["D"] // 2 + 1) ** DIM[shape] > max_pts and not SIMPLEX[shape]:
                continue
            cases.append("rule %d %s %s" % (pfx, shape, enhex(nm)))
    return cases


def gen_exactq_cases(rng, count, max_pts):
    cases = []
    tries = 0
    while len(cases) < count and tries < 100 * count:
        tries += 1
        shape = rng.choice(SHAPES)
        nm = rng.choice(canonical_names(0, shape) + ["auto-degree:%d" % rng.randint(0, MAX_AUTO[shape])])
        spec = spec_parse(0, shape, nm)
        k = rng.choice([0, 0, 1, 1, 2, 3])
        if spec["kind"] == "auto":
            base_pts = 80 if SIMPLEX[shape] else (spec["D"] // 2 + 1) ** DIM[shape]
        else:
            base_pts = spec["npts"]
        while k > 0 and base_pts * REFINE_COUNT[shape] ** k > max_pts:
            k -= 1
        if base_pts > max_pts:
            continue
        cases.append("ruleq 0 %s %s" % (shape, enhex(refined_name(nm, k))))
    return cases


RANGE_PARAMS = lambda lo, hi: [0, 1, lo - 2, lo - 1, hi + 1, hi + 2, hi + 10, 100, 4294967297]


def gen_range_cases(factories, pfx):
    """DETERMINISTIC sweep of the neighbourhood of every factory's advertised point-count range: every factory the
    dump enumerates for every shape x the parameters above x {plain, refine:, refine*2:} x {with, without} the
    tensor:/scalar: head x {create, create_throw}; full rule output, so that an accepted name is also judged."""
    cases = []
    for shape in SHAPES:
        for f in factories[shape]:
            lo, hi = f["min"], f["max"]
            params = RANGE_PARAMS(lo, hi)
            # ... and around the range the specification advertises (they differ if the code's range drifts)
            sd = shape_drivers(shape).get(f["name"])
            if sd is not None and sd[0]:
                params = params + RANGE_PARAMS(sd[1], sd[2])
            seen = []
            for n in params:
                if n in seen:
                    continue
                seen.append(n)
                core = "%s:%d" % (f["name"], n)
                cores = [core]
                if f["kind"] in ("tensor", "scalar"):
                    cores.append(f["kind"] + ":" + core)
                for c in cores:
                    for pre in ("", "refine:", "refine*2:"):
                        for op in ("rule", "rulet"):
                            cases.append("%s %d %s %s" % (op, pfx, shape, enhex(pre + c)))
    return cases


def gen_refine_k_cases():
    """DETERMINISTIC, every run: refine*0: and refine*k:, k >= 2 (the paths through Rule::clone()), for a few small
    rules of every shape, through create and create_throw, at double and at Q: an empty or un-normalised rule fails
    the point-count and weight-sum judgement of the oracle and the comparison with the model"""
    pick = {"s1": ["gauss-legendre:2", "barycentre", "trapezoidal"], "s2": ["dunavant:2", "barycentre", "hammer-stroud-degree-2"],
            "s3": ["shunn-ham:2", "barycentre", "lauffer-degree-2"], "h1": ["gauss-legendre:3", "trapezoidal", "simpson"],
            "h2": ["gauss-legendre:2", "barycentre", "newton-cotes-open:2"], "h3": ["gauss-legendre:2", "trapezoidal", "midpoint"]}
    cases = []
    for shape in SHAPES:
        for nm in pick[shape]:
            for head in ("refine*0:", "refine*2:", "refine*3:", "refine*00:", "Refine * 2 :"):
                if DIM[shape] == 3 and head == "refine*3:" and nm != "barycentre" and nm != "midpoint":
                    continue
                for op in ("rule", "rulet", "ruleq"):
                    cases.append("%s 0 %s %s" % (op, shape, enhex(head + nm)))
    return cases


def gen_exhaustive_cases(pfx, max_head_points=2000000, max_rule_points=2500):
    """EXHAUSTIVE (thorough tier): every driver x every admissible point count x every alias x auto-degree:0..max of
    every shape, un-refined and behind refine: / refine*2: / refine*3: (and refine*0:), with the tensor:/scalar:
    head in the prefix configuration.  Full rule (moments judged) up to max_rule_points, name/point count above;
    combinations beyond max_head_points points are counted as skipped."""
    cases, skipped = [], 0
    for shape in SHAPES:
        names = canonical_names(pfx, shape)
        pre = ""
        if pfx and (shape == "s1" or not SIMPLEX[shape]):
            pre = "scalar:" if shape == "s1" else "tensor:"
        names += [(pre if a != "midpoint" else "") + a for a in shape_aliases(shape)]
        names += ["auto-degree:%d" % d for d in range(0, MAX_AUTO[shape] + 1)]
        for nm in names:
            spec = spec_parse(pfx, shape, nm)
            if spec["kind"] == "auto":
                base_pts = 80 if SIMPLEX[shape] and shape != "s1" else (spec["D"] // 2 + 1) ** DIM[shape]
            else:
                base_pts = spec["npts"]
            for k, head in ((0, ""), (0, "refine*0:"), (1, "refine:"), (2, "refine*2:"), (3, "refine*3:")):
                pts = base_pts * REFINE_COUNT[shape] ** k
                if pts > max_head_points:
                    skipped += 1
                    continue
                op = "rule" if pts <= max_rule_points else "head"
                cases.append("%s %d %s %s" % (op, pfx, shape, enhex(head + nm)))
    return cases, skipped


CORPUS = {
    "names0": [
        # F-C14-4 (fixed 5a16de52a / c82e1d7f9): a numeric token must be a numeral and nothing else -> refused
        "head 0 h2 " + enhex("gauss-legendre:3:junk"),
        "head 0 h2 " + enhex("gauss-legendre:3x"),
        "head 0 s3 " + enhex("auto-degree:-1"),
        "head 0 s1 " + enhex(" \tnewton-cotes-closed  :2x  "),
        "head 0 h2 " + enhex("gauss-legendre:12 1"),
        "head 0 s1 " + enhex("refine*2x:barycentre"),
        "head 0 s1 " + enhex("refine*2*2:barycentre"),
        "head 0 s1 " + enhex("refine*-1:barycentre"),
        "head 0 s2 " + enhex("dunavant:5.0"),
        "head 0 s2 " + enhex("dunavant:0x5"),
        "head 0 s2 " + enhex("dunavant:+5"),
        "head 0 s2 " + enhex("dunavant: 05 "),
        "head 0 s2 " + enhex("dunavant:+ 5"),
        "head 0 s2 " + enhex("dunavant:5+"),
        "head 0 s2 " + enhex("auto-degree:+4"),
        "head 0 s2 " + enhex("auto-degree:4 "),
        "head 0 s2 " + enhex("auto-degree:4a"),
        "head 0 h1 " + enhex("gauss-legendre:99999999999999999999"),
        "head 0 h1 " + enhex("auto-degree:18446744073709551616"),
        "head 0 s2 " + enhex("auto-degree:4294967298"),
        "head 0 h2 " + enhex(":5"),                      # F-C14-5 (fixed aaa7ffc35): empty second-to-last part
        "head 0 s2 " + enhex("x::3"),
        "head 0 s1 " + enhex("refine::gauss-legendre:2"),
        "head 0 h3 " + enhex("::"),
        "head 0 s2 -",
        "head 0 h3 " + enhex("tensor:gauss-legendre:2"),
        "head 0 s1 " + enhex("midpoint"),
        "head 0 s2 " + enhex("refine*0:dunavant:7"),
    ],
    "names1": [
        "head 1 h2 " + enhex("tensor\t:gauss-legendre  :12 1 "),
        "head 1 h2 " + enhex("tensor\t:gauss-legendre  :12 "),
        "head 1 s1 " + enhex("scalar:gauss-legendre:3:junk"),
    ],
    "tables": [
        "rule 0 s2 " + enhex("dunavant:7"),
        "rule 0 s2 " + enhex("dunavant:18"),             # F-C14-1..3 (fixed 4b2c72295, 4f81212be, 8242accbd)
        "rule 0 s2 " + enhex("silvester-open:5"),
        "rule 0 s2 " + enhex("silvester-open:6"),
        "ruleq 0 s2 " + enhex("silvester-open:5"),
        "ruleq 0 s2 " + enhex("refine:silvester-open:6"),
    ],
}

# names whose second-to-last ':'-part is empty (F-C14-5, fixed): must be refused without tripping a library
# precondition -- run through the build with -D_GLIBCXX_ASSERTIONS as well
ASSERT_BUILD = ["head 0 h2 " + enhex(":5"), "head 0 s2 " + enhex("x::3"), "head 0 s1 " + enhex("refine::gauss-legendre:2"),
                "head 0 h3 " + enhex("::"), "head 0 s3 " + enhex("refine*2::"), "head 0 h2 " + enhex("gauss-legendre:3"),
                "head 0 s2 " + enhex("refine:auto-degree:4"), "rule 0 s2 " + enhex("dunavant:18")]


# ---------------------------------------------------------------------------------------------
# T1: regenerate Gen/Cubature*.lean from the current tree
# ---------------------------------------------------------------------------------------------

def regenerate_tables():
    sys.path.insert(0, os.path.join(vlib.VERIF, "translate"))
    import cubature_gen
    binary, err = vlib.build_harness("c14dump", os.path.join(vlib.VERIF, "translate", "cubature_dump.cpp"), units=[], libs=())
    if binary is None:
        return None, err
    r = subprocess.run([binary, str(MAX_TABLE_POINTS)], stdout=subprocess.PIPE, stderr=subprocess.PIPE, text=True, timeout=600)
    if r.returncode != 0:
        return None, "cubature_dump failed: " + r.stderr[-2000:]
    shapes, changed = cubature_gen.generate(r.stdout, os.path.join(vlib.LEAN_DIR, "FeatModel", "Gen"))
    return {"tables": {t: len(s["rules"]) for t, s in shapes.items()},
            "points": sum(len(rl["w"]) for s in shapes.values() for rl in s["rules"]),
            "regenerated_files": [os.path.basename(c) for c in changed],
            "_factories": {t: s["factories"] for t, s in shapes.items()}}, ""


def main(argv):
    args = vlib.std_args(argv)
    t0 = time.time()
    rng = random.Random(args.seed * 1000003 + 14)
    quick = args.tier == "quick"
    gen_info, err = regenerate_tables()
    if gen_info is None:
        v = [{"property": PROP, "kind": "translator-failure", "detail": err, "failing_input": None,
              "broken": "translate/cubature_dump.cpp does not build/run against the current tree"}]
        return vlib.finish(PROP, args.tier, args.seed, t0, None, [], [], v, [])
    factories = gen_info.pop("_factories")
    vlib.log("[c14] tables regenerated: %s" % gen_info)
    lean = None if args.no_lean else vlib.lean_check(PROP, leanchecker=(args.tier == "thorough"))
    src = os.path.join(vlib.VERIF, "harness", "c14", "main.cpp")
    pf = ["-DFEAT_CUBATURE_TENSOR_PREFIX=1", "-DFEAT_CUBATURE_SCALAR_PREFIX=1"]
    bins = {}
    for key, flags in (("p0", []), ("p1", pf), ("chk", ["-D_GLIBCXX_ASSERTIONS"])):
        b, err = vlib.build_harness("c14" + key, src, units=[], extra_flags=flags)
        if b is None:
            v = [{"property": PROP, "kind": "harness-build-failure", "detail": err, "failing_input": None,
                  "broken": "harness c14 (%s) does not compile against the current tree" % key}]
            return vlib.finish(PROP, args.tier, args.seed, t0, lean, [], [], v, [])
        bins[key] = b
    drv = vlib.driver_cmd(PROP)
    common = dict(oracle=oracle, nontrivial=nontrivial, describe=describe, signature=signature, canon=canon,
                  model_filter=model_filter)
    if args.replay:
        rep = json.load(open(args.replay))
        case = rep["input"]
        t = case.split()
        key = "chk" if rep.get("stream") == "assert-build" else (
            "p1" if t[0] in ALL_CREATE_OPS + ("auto",) and t[1] == "1" else "p0")
        streams = [vlib.Stream(rep.get("stream", "replay"), [case], [bins[key]], drv,
                               **common)]
    else:
        n_names = 1500 if quick else 60000
        EXH = [gen_exhaustive_cases(0), gen_exhaustive_cases(1)] if not quick else [([], 0), ([], 0)]
        gen_info["exhaustive_enumeration"] = {
            "what": "driver x admissible count x alias x auto-degree:0..max x shape x {plain, refine*0:, refine:, "
                    "refine*2:, refine*3:} x both prefix configurations (thorough tier only)",
            "names_plain_config": len(EXH[0][0]), "names_prefix_config": len(EXH[1][0]),
            "skipped_over_2e6_points": EXH[0][1] + EXH[1][1]}
        streams = [
            vlib.Stream("tables", CORPUS["tables"] + gen_refine_k_cases() + gen_table_cases(0, 1000 if quick else 8000), [bins["p0"]], drv, **common),
            vlib.Stream("names0", CORPUS["names0"] + gen_name_cases(rng, 0, n_names), [bins["p0"]], drv, **common),
            vlib.Stream("names1", CORPUS["names1"] + gen_name_cases(rng, 1, n_names // 2) + gen_table_cases(1, 30), [bins["p1"]], drv, **common),
            vlib.Stream("exactq", gen_exactq_cases(rng, 120 if quick else 2500, 700 if quick else 3000), [bins["p0"]], drv, **common),
            vlib.Stream("transform", gen_transform_cases(rng, 400 if quick else 15000), [bins["p0"]], drv, **common),
            vlib.Stream("ranges", gen_range_cases(factories, 0), [bins["p0"]], drv, **common),
            vlib.Stream("ranges.pfx", gen_range_cases(factories, 1), [bins["p1"]], drv, **common),
        ] + ([] if quick else [
            vlib.Stream("exhaustive", EXH[0][0], [bins["p0"]], drv, **common),
            vlib.Stream("exhaustive.pfx", EXH[1][0], [bins["p1"]], drv, **common),
        ]) + [
            vlib.Stream("assert-build", ASSERT_BUILD + gen_name_cases(rng, 0, 200 if quick else 2000), [bins["chk"]], drv, **common),
        ]
    rule = ("tables: every canonical name, alias and auto-degree:0..max+2 of the six shapes through the full rule at "
            "double, all monomials up to the nominal degree (Fraction arithmetic, tol 2^-40), compared with the "
            "generated Lean table; names: seeded valid/perturbed names (case, whitespace, aliases, refine*k, "
            "auto-degree, out-of-range counts, junk suffixes, wrong shape, typos) in both prefix configurations; ranges: "
            "deterministic sweep (every factory of the dump x n in {0,1,min-2,min-1,max+1,max+2,max+10,100,2^32+1} x "
            "{plain, refine:, refine*2:} x {with, without tensor:/scalar:} x {create, create_throw}, both "
            "configurations), an accepted name is a 'refused-invalid' violation; exactq: "
            "refine*k of real rules at Q; transform: refine/tensor/simplex-scalar of random dyadic rules at Q; "
            "non-trivial = not a plain lower-case canonical name (names), every rule/transform case")
    return vlib.run_pipeline(PROP, args.tier, args.seed, lean, streams, t0, assumptions=[
        "double literals of the tables are read exactly (hex float -> dyadic rational)",
        "rounding of the double instantiation is covered by the tolerance 2^-40 of the exactness statements; the "
        "structural theorems (tensor, refine) are about exact arithmetic (the Q instantiation)",
        "rule names are byte strings < 128 (tolower/whitespace of the C locale)",
        "ONE tolerance for every nominal-degree check, Lean and oracle alike: |sum w_i x_i^e - I(e)| <= 2^-40 "
        "(C14.momentOK_iff_rat / C14.tables_exact_rat); Gauss-type tables are the rounded doubles of the source",
        "refinement keeps the degree: proved for ALL degrees on intervals, squares and cubes "
        "(C14.refine_keeps_every_degree); triangles up to degree 20 and tetrahedra up to 8 (their maximal nominal "
        "degrees, kernel-checked subdivision identity, C14.refine_keeps_degree); structural facts of all refineries "
        "(weight factor = |det| of the child map, factors sum to 1) in C14.refinery_structure"],
        extra_cov=dict(gen_info, rule=rule))
