"""C15 helper: reference-shape tables and the seeded generator of small, randomly re-oriented conformal meshes.

Everything here is *input construction* (and the geometric knowledge the independent oracle needs); it follows the
mathematical definition of FEAT's reference cells:
  simplex   : vertex 0 = origin, vertex i = e_i ;   sub-entities numbered as in geometry/intern/face_index_mapping.hpp
  hypercube : vertex i has coordinate k = -1 + 2*bit_k(i)
"""
from fractions import Fraction as Fr
from itertools import permutations, product, combinations

# local vertex tuples of the f-dimensional faces of a d-dimensional reference cell (FaceIndexMapping<.., f, 0>)
FIM = {
    ("S", 1, 0): [(0,), (1,)],
    ("S", 2, 0): [(0,), (1,), (2,)],
    ("S", 3, 0): [(0,), (1,), (2,), (3,)],
    ("S", 2, 1): [(1, 2), (2, 0), (0, 1)],
    ("S", 3, 1): [(0, 1), (0, 2), (0, 3), (1, 2), (1, 3), (2, 3)],
    ("S", 3, 2): [(1, 2, 3), (0, 2, 3), (0, 1, 3), (0, 1, 2)],
    ("H", 1, 0): [(0,), (1,)],
    ("H", 2, 0): [(0,), (1,), (2,), (3,)],
    ("H", 3, 0): [(i,) for i in range(8)],
    ("H", 2, 1): [(0, 1), (2, 3), (0, 2), (1, 3)],
    ("H", 3, 1): [(0, 1), (2, 3), (4, 5), (6, 7), (0, 2), (1, 3), (4, 6), (5, 7), (0, 4), (1, 5), (2, 6), (3, 7)],
    ("H", 3, 2): [(0, 1, 2, 3), (4, 5, 6, 7), (0, 1, 4, 5), (2, 3, 6, 7), (0, 2, 4, 6), (1, 3, 5, 7)],
}


def ref_vertices(kind, d):
    if kind == "S":
        return [tuple(Fr(1 if k + 1 == i else 0) for k in range(d)) for i in range(d + 1)]
    return [tuple(Fr(-1 + 2 * ((i >> k) & 1)) for k in range(d)) for i in range(1 << d)]


def shape_fns(kind, d, x):
    """values of the (multi)linear vertex shape functions of the reference d-cell at x"""
    if kind == "S":
        return [1 - sum(x, Fr(0))] + [x[k] for k in range(d)]
    out = []
    for i in range(1 << d):
        v = Fr(1)
        for k in range(d):
            v *= (1 + x[k]) / 2 if (i >> k) & 1 else (1 - x[k]) / 2
        out.append(v)
    return out


def map_point(kind, d, verts, x):
    """standard transformation: sum_i N_i(x) * verts[i]"""
    n = shape_fns(kind, d, x)
    wd = len(verts[0])
    return tuple(sum((n[i] * verts[i][a] for i in range(len(verts))), Fr(0)) for a in range(wd))


def symmetries(kind, d):
    """all vertex renumberings of the reference d-cell that are symmetries of the shape (as tuples new->old)"""
    if kind == "S":
        return list(permutations(range(d + 1)))
    out = []
    for perm in permutations(range(d)):
        for flips in product((0, 1), repeat=d):
            s = []
            for i in range(1 << d):
                j = 0
                for k in range(d):
                    b = ((i >> k) & 1) ^ flips[k]
                    j |= b << perm[k]
                s.append(j)
            out.append(tuple(s))
    return out


_SYM = {}


def sym(kind, d):
    if (kind, d) not in _SYM:
        _SYM[(kind, d)] = symmetries(kind, d)
    return _SYM[(kind, d)]


class Mesh:
    """kind 'S'/'H', dim, coords[v] (tuple of Fraction), ent[d] = list of vertex tuples (d = 0..dim),
    idx[(d, f)] = rows of f-face indices of every d-entity"""

    def __init__(self, kind, dim, coords, cells):
        self.kind, self.dim, self.coords = kind, dim, coords
        self.ent = {0: [(i,) for i in range(len(coords))], dim: [tuple(c) for c in cells]}
        self.idx = {}

    def deduce(self, rng=None):
        """build all lower-dimensional entities from the cells; with rng: random numbering and random orientation"""
        kind, dim = self.kind, self.dim
        for f in range(1, dim):
            seen = {}
            lst = []
            for c in self.ent[dim]:
                for loc in FIM[(kind, dim, f)]:
                    vt = tuple(c[k] for k in loc)
                    key = frozenset(vt)
                    if key not in seen:
                        seen[key] = True
                        lst.append(vt)
            if rng is not None:
                rng.shuffle(lst)
                lst = [tuple(vt[k] for k in rng.choice(sym(kind, f))) for vt in lst]
            self.ent[f] = lst
        self.index()
        return self

    def index(self):
        kind, dim = self.kind, self.dim
        look = {f: {frozenset(vt): i for i, vt in enumerate(self.ent[f])} for f in range(1, dim)}
        for d in range(1, dim + 1):
            self.idx[(d, 0)] = [list(vt) for vt in self.ent[d]]
            for f in range(1, d):
                rows = []
                for vt in self.ent[d]:
                    rows.append([look[f][frozenset(vt[k] for k in loc)] for loc in FIM[(kind, d, f)]])
                self.idx[(d, f)] = rows

    def num(self, d):
        return len(self.ent[d])

    def fmt(self):
        t = [self.kind, str(self.dim), str(len(self.coords))]
        for v in self.coords:
            t += ["%d/%d" % (x.numerator, x.denominator) for x in v]
        for d in range(1, self.dim + 1):
            t.append(str(self.num(d)))
            for f in range(d):
                for row in self.idx[(d, f)]:
                    t += [str(x) for x in row]
        return " ".join(t)

    def cell_verts(self, d, e):
        return [self.coords[v] for v in self.ent[d][e]]


def parse_mesh(tok, p):
    """inverse of Mesh.fmt: tok = token list, p = position; returns (mesh, new position)"""
    kind, dim = tok[p], int(tok[p + 1])
    nv = int(tok[p + 2])
    p += 3
    coords = []
    for _ in range(nv):
        coords.append(tuple(pfr(tok[p + k]) for k in range(dim)))
        p += dim
    m = Mesh(kind, dim, coords, [])
    for d in range(1, dim + 1):
        n = int(tok[p])
        p += 1
        for f in range(d):
            cnt = len(FIM[(kind, d, f)])
            rows = []
            for _ in range(n):
                rows.append([int(x) for x in tok[p:p + cnt]])
                p += cnt
            m.idx[(d, f)] = rows
        m.ent[d] = [tuple(r) for r in m.idx[(d, 0)]]
    return m, p


def pfr(s):
    if "/" in s:
        a, b = s.split("/")
        return Fr(int(a), int(b))
    return Fr(int(s))


# -------------------------------------------------------------------------------------------------------------
# base meshes
# -------------------------------------------------------------------------------------------------------------

def det(m):
    n = len(m)
    if n == 1:
        return m[0][0]
    if n == 2:
        return m[0][0] * m[1][1] - m[0][1] * m[1][0]
    return (m[0][0] * (m[1][1] * m[2][2] - m[1][2] * m[2][1]) - m[0][1] * (m[1][0] * m[2][2] - m[1][2] * m[2][0])
            + m[0][2] * (m[1][0] * m[2][1] - m[1][1] * m[2][0]))


def jac(kind, d, verts, x):
    """exact Jacobian of the standard transformation (differentiating the (multi)linear shape functions by hand)"""
    J = [[Fr(0)] * d for _ in range(d)]
    if kind == "S":
        for a in range(d):
            for k in range(d):
                J[a][k] = verts[k + 1][a] - verts[0][a]
        return J
    for i in range(1 << d):
        for k in range(d):
            g = Fr(1, 2) if (i >> k) & 1 else Fr(-1, 2)
            for l in range(d):
                if l != k:
                    g *= (1 + x[l]) / 2 if (i >> l) & 1 else (1 - x[l]) / 2
            for a in range(d):
                J[a][k] += verts[i][a] * g
    return J


def hess_zero(kind, d, verts):
    """is the (multilinear) cell affine? <=> the Jacobian is the same at all reference vertices"""
    rv = ref_vertices(kind, d)
    j0 = jac(kind, d, verts, rv[0])
    return all(jac(kind, d, verts, v) == j0 for v in rv[1:])


def cell_ok(kind, d, verts):
    """non-degenerate: the Jacobian determinant has one strict sign at all reference vertices"""
    s = set()
    for rv in ref_vertices(kind, d):
        dd = det(jac(kind, d, verts, rv))
        if dd == 0:
            return False
        s.add(dd > 0)
    return len(s) == 1


KUHN = {2: list(permutations(range(2))), 3: list(permutations(range(3)))}


def grid_mesh(rng, kind, dim, shape_n, mode):
    """tensor grid of prod(shape_n) cubes (split into Kuhn simplices for kind 'S'); mode: 'unit', 'affine', 'general'"""
    dims = list(shape_n)
    strides = []
    s = 1
    for n in dims:
        strides.append(s)
        s *= n + 1
    nv = s

    def vid(ix):
        return sum(ix[k] * strides[k] for k in range(dim))

    base = [None] * nv
    for ix in product(*[range(n + 1) for n in dims]):
        base[vid(ix)] = tuple(Fr(i) for i in ix)
    coords = list(base)
    if mode == "affine":
        while True:
            A = [[Fr(rng.randint(-4, 4), rng.choice([1, 2, 3])) for _ in range(dim)] for _ in range(dim)]
            if det(A) != 0:
                break
        b = [Fr(rng.randint(-3, 3), rng.choice([1, 2])) for _ in range(dim)]
        coords = [tuple(sum((A[a][k] * v[k] for k in range(dim)), b[a]) for a in range(dim)) for v in base]
    elif mode == "general":
        coords = [tuple(x + Fr(rng.randint(-2, 2), 8) for x in v) for v in base]
        if rng.random() < 0.5:
            sc = [Fr(rng.choice([1, 2, 3]), rng.choice([1, 2])) for _ in range(dim)]
            coords = [tuple(v[k] * sc[k] for k in range(dim)) for v in coords]
    cells = []
    for ix in product(*[range(n) for n in dims]):
        if kind == "H":
            c = []
            for i in range(1 << dim):
                c.append(vid([ix[k] + ((i >> k) & 1) for k in range(dim)]))
            cells.append(tuple(c))
        else:
            for perm in KUHN[dim]:
                cur = list(ix)
                c = [vid(cur)]
                for k in perm:
                    cur[k] += 1
                    c.append(vid(cur))
                cells.append(tuple(c))
    return coords, cells


def random_mesh(rng, kind, dim, mode=None, max_cells=None, reorient=True):
    """a small conformal mesh with random vertex coordinates, random local vertex numbering of every cell
    (all symmetries of the shape), random numbering and random orientation of all edges / faces"""
    mode = mode or rng.choice(["unit", "affine", "general", "general"])
    if dim == 1:
        n = rng.randint(1, 4)
        xs = sorted(rng.sample(range(-12, 13), n + 1))
        coords = [(Fr(x, 4),) for x in xs]
        cells = [(i, i + 1) for i in range(n)]
    else:
        if dim == 2:
            shape_n = rng.choice([(1, 1), (2, 1), (1, 2), (2, 2)] if kind == "H" else [(1, 1), (2, 1), (1, 1), (2, 2)])
        else:
            shape_n = rng.choice([(1, 1, 1), (2, 1, 1), (1, 2, 1), (1, 1, 2)] if kind == "H" else [(1, 1, 1), (1, 1, 1), (2, 1, 1)])
        for _ in range(50):
            coords, cells = grid_mesh(rng, kind, dim, shape_n, mode)
            if all(cell_ok(kind, dim, [coords[v] for v in c]) for c in cells):
                break
        else:
            coords, cells = grid_mesh(rng, kind, dim, shape_n, "unit")
    if max_cells is not None and len(cells) > max_cells:
        # keep a connected prefix
        cells = cells[:max_cells]
        used = sorted({v for c in cells for v in c})
        ren = {v: i for i, v in enumerate(used)}
        coords = [coords[v] for v in used]
        cells = [tuple(ren[v] for v in c) for c in cells]
    if reorient:
        # random vertex numbering, random cell order, random local numbering
        p = list(range(len(coords)))
        rng.shuffle(p)
        coords2 = [None] * len(coords)
        for old, new in enumerate(p):
            coords2[new] = coords[old]
        coords = coords2
        cells = [tuple(p[v] for v in c) for c in cells]
        rng.shuffle(cells)
        cells = [tuple(c[k] for k in rng.choice(sym(kind, dim))) for c in cells]
    m = Mesh(kind, dim, coords, cells)
    m.deduce(rng if reorient else None)
    return m


def canonical_cell(kind, dim):
    """the reference cell itself as a one-cell mesh with canonical orientation of all sub-entities"""
    rv = ref_vertices(kind, dim)
    m = Mesh(kind, dim, list(rv), [tuple(range(len(rv)))])
    m.deduce(None)
    return m


def interior_facets(m):
    """list of (facet index, [(cell, local facet)])"""
    if m.dim == 1:
        inc = {}
        for c, vt in enumerate(m.ent[1]):
            for l, v in enumerate(vt):
                inc.setdefault(v, []).append((c, l))
    else:
        inc = {}
        for c, row in enumerate(m.idx[(m.dim, m.dim - 1)]):
            for l, fc in enumerate(row):
                inc.setdefault(fc, []).append((c, l))
    return [(f, cl) for f, cl in sorted(inc.items()) if len(cl) >= 2]


def facet_point_in_cell(m, facet, cell, s):
    """reference coordinates (in `cell`) of the point with facet-reference coordinates s on `facet`"""
    d = m.dim
    if d == 1:
        vt = (facet,)
        n = [Fr(1)]
    else:
        vt = m.ent[d - 1][facet]
        n = shape_fns(m.kind, d - 1, s)
    rv = ref_vertices(m.kind, d)
    cv = m.ent[d][cell]
    x = [Fr(0)] * d
    for k, v in enumerate(vt):
        loc = cv.index(v)
        for a in range(d):
            x[a] += n[k] * rv[loc][a]
    return tuple(x)
